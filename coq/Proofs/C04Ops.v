(* C04 proofs, part 3: one lemma per operator. *)
From Coq Require Import ZArith List String Bool Ascii Lia.
From Verif Require Import Value PyEq BsonOrder Path Update Filter FilterSpec Cursor Expr ExprSpec ExprGuard.
From Verif Require Import C01Values C04Base C04Paths C04Order C04Slice.
Import ListNotations.
Open Scope Z_scope.
Open Scope string_scope.
Open Scope list_scope.

Arguments node_reasons : simpl never.
Arguments Z.mul : simpl never.
Arguments Z.add : simpl never.
Arguments Z.sub : simpl never.
Arguments Z.opp : simpl never.
Arguments Z.div : simpl never.
Arguments Z.modulo : simpl never.
Arguments Z.quot : simpl never.
Arguments Z.rem : simpl never.
Arguments Z.ltb : simpl never.
Arguments Z.leb : simpl never.
Arguments Z.eqb : simpl never.
Arguments Z.abs : simpl never.
Arguments Z.lor : simpl never.
Arguments Z.of_nat : simpl never.
Arguments Z.to_nat : simpl never.
Arguments Z.max : simpl never.
Arguments Z.min : simpl never.

Definition IHarg (doc arg : value) : Prop := forall e', (vsize e' <= vsize arg)%nat -> P doc e'.

(* the guard of an ordinary operator node *)
Definition ordinary (k : string) : Prop :=
  starts_dollar k = true /\ (k =? "$literal") = false /\ (k =? "$let") = false /\
  (k =? "$map") = false /\ (k =? "$filter") = false /\ (k =? "$switch") = false.

Lemma reasons_op vars doc k arg : ordinary k ->
  reasons vars doc (VDoc [(k, arg)]) =
  match arg with
  | VArr xs => Z.lor (zor_list (map (reasons vars doc) xs))
                     (node_reasons k arg (map (eval vars doc true) xs))
  | VDoc afs =>
      if existsb (fun kv => starts_dollar (fst kv)) afs
      then Z.lor (reasons vars doc arg) (node_reasons k arg [eval vars doc true arg])
      else zor_list (map (fun kv : string * value => match kv with (_, cv) => reasons vars doc cv end) afs)
  | _ => Z.lor (reasons vars doc arg) (node_reasons k arg [eval vars doc true arg])
  end.
Proof.
  intros (H1 & H2 & H3 & H4 & H5 & H6). simpl. rewrite H1, H2, H3, H4, H5, H6. simpl.
  destruct arg; try reflexivity. rewrite andb_true_r.
  destruct (existsb (fun kv : string * value => starts_dollar (fst kv)) fs); [reflexivity|].
  change (Z.lor 0 0) with 0.
  apply Z.lor_0_r.
Qed.

Ltac ord := repeat split; reflexivity.

(* a document operand without operator keys: its guard is the guard of its fields *)
Lemma reasons_plain_doc vars doc afs :
  existsb (fun kv : string * value => starts_dollar (fst kv)) afs = false ->
  reasons vars doc (VDoc afs) =
  zor_list (map (fun kv : string * value => match kv with (_, cv) => reasons vars doc cv end) afs).
Proof.
  intros H. destruct afs as [|[k a] [|kv2 afs]]; try reflexivity.
  simpl in H. rewrite orb_false_r in H. simpl. rewrite H. simpl.
  unfold zor_list. simpl. reflexivity.
Qed.

(* guard of a single (not array-written) operand *)
Lemma guard_unary vars doc k arg : ordinary k -> is_arr arg = false ->
  reasons vars doc (VDoc [(k, arg)]) = 0 ->
  reasons vars doc arg = 0 /\
  (match arg with VDoc afs => existsb (fun kv => starts_dollar (fst kv)) afs = true | _ => True end ->
   node_reasons k arg [eval vars doc true arg] = 0).
Proof.
  intros Ho Ha Hg. rewrite (reasons_op _ _ _ _ Ho) in Hg.
  destruct arg as [|b|z|e|s|us tz|n|afs|xs]; try (apply lor0 in Hg; destruct Hg as [H1 H2]; split; [exact H1|intros _; exact H2]).
  - destruct (existsb (fun kv : string * value => starts_dollar (fst kv)) afs) eqn:Ed.
    + apply lor0 in Hg. destruct Hg as [H1 H2]. split; [exact H1|intros _; exact H2].
    + split; [|intros Hx; discriminate]. rewrite reasons_plain_doc; assumption.
  - discriminate.
Qed.

(* guard of operands written as an array *)
Lemma guard_list vars doc k xs : ordinary k ->
  reasons vars doc (VDoc [(k, VArr xs)]) = 0 ->
  (forall x, In x xs -> reasons vars doc x = 0) /\
  node_reasons k (VArr xs) (map (eval vars doc true) xs) = 0.
Proof.
  intros Ho Hg. rewrite (reasons_op _ _ _ _ Ho) in Hg. apply lor0 in Hg. destruct Hg as [H1 H2].
  split; [|exact H2]. apply zor_list_map0. exact H1.
Qed.

Lemma IH_list doc xs vars : IHarg doc (VArr xs) ->
  (forall x, In x xs -> reasons vars doc x = 0) ->
  Forall2 R (map (seval (lift vars) doc) xs) (map (eval vars doc true) xs).
Proof.
  intros IH Hr. apply Forall2_map_in. intros x Hx. apply IH; [|apply Hr; exact Hx].
  apply Nat.lt_le_incl. apply vsize_arr_in. exact Hx.
Qed.

(* case analysis on a related pair *)
Ltac rc H :=
  let Hm := fresh "Hm" in let Hs := fresh "Hs" in let v := fresh "v" in let er := fresh "er" in
  destruct (R_Rc _ _ H) as [Hm|v Hs Hm|Hs Hm|er Hs Hm|Hs]; clear H;
  try (rewrite Hm in * ); try (rewrite Hs in * ).



(* the same case analysis with the two results substituted at once: [s] and [m] must be
   variables (as they are after [absorb]); one elimination instead of up to two rewrites in
   each of the five cases keeps the proof terms small when the goal is large *)
Inductive Rx : sres -> eres -> Prop :=
| Rx_unmod s : Rx s (EE EUnmodelled)
| Rx_val v : Rx (SV v) (EV v)
| Rx_miss : Rx SMiss EMiss
| Rx_err er : Rx SErr (EE er)
| Rx_undef m : Rx SUndef m.
Lemma R_Rx s m : R s m -> Rx s m.
Proof.
  intros [H|H]; [subst m; constructor|].
  destruct s as [v| | |].
  - subst m. constructor.
  - subst m. constructor.
  - destruct H as [er H]. subst m. constructor.
  - constructor.
Qed.
Ltac rx H := let v := fresh "v" in let er := fresh "er" in
  apply R_Rx in H; destruct H as [?|v| |er|?].

Lemma match_not_arr {A} (arg : value) (f : list value -> A) (d : A) : is_arr arg = false ->
  match arg with VArr xs => f xs | _ => d end = d.
Proof. destruct arg; try reflexivity. discriminate. Qed.

(* abstract the results of a sub-expression *)
Ltac absorb a vars doc :=
  let sa := fresh "s" in let ma := fresh "m" in let Es := fresh "Es" in let Em := fresh "Em" in
  remember (seval (lift vars) doc a) as sa eqn:Es in *;
  remember (eval vars doc true a) as ma eqn:Em in *; clear Es Em.

(* a unary operator: the operand written as an array is handled by [tl], a plain operand by
   [tn] after the results have been abstracted (Ha : R s m, Hn : the node guard) *)
Ltac unary tl tn :=
  let IH := fresh "IH" in let vars := fresh "vars" in let Hg := fresh "Hg" in
  let Ho := fresh "Ho" in let Ea := fresh "Ea" in
  intros IH vars Hg;
  match goal with |- R (seval _ ?doc (VDoc [(?k, ?arg)])) _ =>
    assert (Ho : ordinary k) by ord;
    destruct (is_arr arg) eqn:Ea;
    [ destruct arg as [| | | | | | | |xs]; try discriminate Ea;
      destruct (guard_list _ _ _ _ Ho Hg) as [Hx Hn]; clear Hg; tl
    | destruct (guard_unary _ _ _ _ Ho Ea Hg) as [Hr Hn];
      pose proof (IH arg (le_n _) vars Hr) as Ha; clear IH Hg Hr;
      simpl; absorb arg vars doc;
      destruct arg; try discriminate Ea; simpl; tn ]
  end.

Ltac guard_off Hn := exfalso; unfold node_reasons in Hn; simpl in Hn;
  first [ discriminate Hn
        | split_guard Hn;
          repeat match goal with H : context [(_ || true)%bool] |- _ => rewrite orb_true_r in H; simpl in H end;
          match goal with H : _ = _ |- _ => discriminate H end ].

Lemma case_abs doc arg : IHarg doc arg -> P doc (VDoc [("$abs", arg)]).
Proof.
  unary
    ltac:(destruct xs as [|x [|y xs]]; simpl; try done_R; guard_off Hn)
    ltac:(rx Ha; simpl; try done_R; destruct v; simpl; done_R).
Qed.

Ltac destruct_var :=
  match goal with |- context [match ?x with _ => _ end] => is_var x; destruct x; simpl end.
Ltac rc_all := repeat match goal with H : R _ _ |- _ => rc H end.
Ltac fin_v := match goal with H : R _ _ |- _ => rx H end; simpl; try done_R;
  match goal with v : value |- _ => destruct v; simpl; try done_R end.

Lemma case_round doc k arg : In k ["$ceil"; "$floor"; "$trunc"] -> IHarg doc arg -> P doc (VDoc [(k, arg)]).
Proof.
  intros [<-|[<-|[<-|[]]]].
  all: unary
    ltac:(destruct xs as [|x [|y xs]]; simpl; try done_R; guard_off Hn)
    ltac:(fin_v).
Qed.

Lemma case_case doc k arg : In k ["$toLower"; "$toUpper"] -> IHarg doc arg -> P doc (VDoc [(k, arg)]).
Proof.
  intros [<-|[<-|[]]].
  all: unary
    ltac:(destruct xs as [|x [|y xs]]; simpl; try done_R; guard_off Hn)
    ltac:(fin_v).
Qed.

Lemma case_is doc k arg : In k ["$isArray"; "$isNumber"] -> IHarg doc arg -> P doc (VDoc [(k, arg)]).
Proof.
  intros [<-|[<-|[]]].
  all: unary
    ltac:(destruct xs as [|x [|y xs]]; simpl; try done_R; guard_off Hn)
    ltac:(fin_v).
Qed.

Definition dp_ops := ["$hour"; "$minute"; "$second"; "$millisecond"; "$dayOfWeek"].

Definition s_one (vars : svars) (doc arg : value) : sres :=
  match arg with
  | VArr [x] => seval vars doc x
  | VArr _ => SUndef
  | _ => seval vars doc arg
  end.

Lemma s_one_plain vars doc arg : is_arr arg = false -> s_one vars doc arg = seval vars doc arg.
Proof. intros Ea. destruct arg; try reflexivity. discriminate Ea. Qed.

Lemma eval_datepart k vars doc arg : In k dp_ops ->
  eval vars doc true (VDoc [(k, arg)]) =
  match arg with
  | VDoc _ => EE EUnmodelled
  | _ => ebind (eval vars doc true arg) (fun v =>
           match v with
           | VDate us None => match time_part k us with Some z => EV (VInt z) | None => EE EUnmodelled end
           | VDate _ (Some _) => EE EUnmodelled
           | _ => EE ECrash
           end)
  end.
Proof. intros [<-|[<-|[<-|[<-|[<-|[]]]]]]; reflexivity. Qed.

Lemma seval_datepart k vars doc arg : In k dp_ops ->
  seval vars doc (VDoc [(k, arg)]) =
  match arg with
  | VDoc _ => SUndef
  | _ => if nullish (s_one vars doc arg) then SV VNull else
         match s_one vars doc arg with
         | SV (VDate us None) => match time_part k us with Some z => SV (VInt z) | None => SUndef end
         | _ => SUndef
         end
  end.
Proof. intros Hk; destruct arg as [| | | | | | | |[|x [|y xs]]]; destruct Hk as [<-|[<-|[<-|[<-|[<-|[]]]]]]; reflexivity. Qed.

Lemma datepart_guard_single k x ms : In k dp_ops -> node_reasons k (VArr [x]) ms = 0 -> False.
Proof.
  intros Hk Hn. unfold node_reasons in Hn.
  destruct Hk as [<-|[<-|[<-|[<-|[<-|[]]]]]]; simpl in Hn; split_guard Hn; discriminate.
Qed.

Lemma datepart_guard_null k arg m : In k dp_ops -> is_arr arg = false ->
  node_reasons k arg [m] = 0 -> nullish_e m = false.
Proof.
  intros Hk Ea Hn. unfold node_reasons in Hn.
  destruct Hk as [<-|[<-|[<-|[<-|[<-|[]]]]]]; simpl in Hn; split_guard Hn;
    match goal with H : (nullish_e m || false)%bool = false |- _ => rewrite orb_false_r in H; exact H end.
Qed.

Lemma case_datepart doc k arg : In k ["$hour"; "$minute"; "$second"; "$millisecond"; "$dayOfWeek"] ->
  IHarg doc arg -> P doc (VDoc [(k, arg)]).
Proof.
  intros Hk IH vars Hg. change (In k dp_ops) in Hk.
  assert (Ho : ordinary k) by (destruct Hk as [<-|[<-|[<-|[<-|[<-|[]]]]]]; ord).
  rewrite (eval_datepart _ _ _ _ Hk), (seval_datepart _ _ _ _ Hk).
  destruct (is_arr arg) eqn:Ea.
  - destruct arg as [| | | | | | | |xs]; try discriminate Ea.
    destruct (guard_list _ _ _ _ Ho Hg) as [_ Hn].
    destruct xs as [|x [|y xs]]; try done_R.
    exfalso. exact (datepart_guard_single _ _ _ Hk Hn).
  - destruct (guard_unary _ _ _ _ Ho Ea Hg) as [Hr Hn].
    pose proof (IH arg (le_n _) vars Hr) as Ha. clear IH Hg Hr.
    rewrite (s_one_plain _ _ _ Ea). absorb arg vars doc.
    destruct arg as [|b|z|e|s0|us tz|n|afs|xs]; try done_R; try discriminate Ea.
    all: pose proof (datepart_guard_null _ _ _ Hk Ea (Hn I)) as Hnull; clear Hn.
    all: rx Ha; simpl; try done_R; try discriminate Hnull.
    all: destruct v; simpl; try done_R; try discriminate Hnull.
    all: match goal with |- context [match ?t with Some _ => _ | None => _ end] => destruct t end; try done_R; destruct (time_part k _); done_R.
Qed.

Arguments mtruth : simpl never.
Arguments to_bool : simpl never.
Arguments mongo_bool : simpl never.
Lemma mtruth_miss : mtruth SMiss = Some false. Proof. reflexivity. Qed.
Lemma mtruth_err : mtruth SErr = None. Proof. reflexivity. Qed.
Lemma mtruth_undef : mtruth SUndef = None. Proof. reflexivity. Qed.
Lemma to_bool_ev v : to_bool (EV v) = Ok (mongo_bool v). Proof. reflexivity. Qed.
Lemma to_bool_miss : to_bool EMiss = Ok false. Proof. reflexivity. Qed.
Lemma to_bool_ee e : to_bool (EE e) = Err e. Proof. reflexivity. Qed.
#[export] Hint Rewrite mongo_bool_spec mtruth_miss mtruth_err mtruth_undef to_bool_ev to_bool_miss to_bool_ee : truth.

Ltac size_le := simpl; lia.
Ltac destruct_scrut :=
  match goal with |- context [match ?x with _ => _ end] => destruct x eqn:?; simpl end.
Ltac bsimpl := repeat (rewrite ?orb_true_r, ?orb_false_r, ?andb_true_r, ?andb_false_r; simpl).
Ltac fin := simpl; autorewrite with truth; bsimpl; try done_R; repeat (destruct_var; bsimpl; try done_R);
  repeat (destruct_scrut; bsimpl; try done_R).

Lemma case_not doc arg : IHarg doc arg -> P doc (VDoc [("$not", arg)]).
Proof.
  unary
    ltac:(destruct xs as [|x [|y xs]]; [simpl; done_R| |simpl; done_R];
          pose proof (IH x ltac:(size_le) vars (Hx x (or_introl eq_refl))) as Ha; clear IH Hx;
          simpl; absorb x vars doc; rx Ha; fin)
    ltac:(rx Ha; fin).
Qed.

Lemma case_size doc arg : IHarg doc arg -> P doc (VDoc [("$size", arg)]).
Proof.
  unary
    ltac:(destruct xs as [|x [|y xs]]; [simpl; done_R| |simpl; done_R];
          pose proof (IH x ltac:(size_le) vars (Hx x (or_introl eq_refl))) as Ha; clear IH Hx;
          simpl; absorb x vars doc; rx Ha; fin)
    ltac:(rx Ha; fin).
Qed.


Arguments bson_compare : simpl never.
Arguments spec_cmp3 : simpl never.
Arguments py_eq : simpl never.
Arguments bson_eq : simpl never.
Arguments plain : simpl never.

(* operands written as an array of two *)
Ltac binary :=
  let IH := fresh "IH" in let vars := fresh "vars" in let Hg := fresh "Hg" in
  intros IH vars Hg;
  match goal with |- R (seval _ ?doc (VDoc [(?k, ?arg)])) _ =>
    assert (Ho : ordinary k) by ord;
    destruct arg as [| | | | | | | |xs]; try (simpl; done_R);
    destruct xs as [|a [|b [|c xs]]]; try (simpl; done_R);
    destruct (guard_list _ _ _ _ Ho Hg) as [Hx Hn]; clear Hg;
    pose proof (IH a ltac:(size_le) vars (Hx a ltac:(simpl; tauto))) as Ha;
    pose proof (IH b ltac:(size_le) vars (Hx b ltac:(simpl; tauto))) as Hb;
    clear IH Hx; simpl in Hn; simpl; absorb a vars doc; absorb b vars doc
  end.

Lemma guard_plain2 k arg v w : In k ["$eq"; "$ne"; "$in"; "$setEquals"; "$setUnion"] ->
  node_reasons k arg [EV v; EV w] = 0 -> plain v = true /\ plain w = true.
Proof.
  intros Hk Hn. unfold node_reasons in Hn.
  assert (H : negb (forallb plain_res [EV v; EV w]) = false).
  { destruct Hk as [<-|[<-|[<-|[<-|[<-|[]]]]]]; simpl in Hn; split_guard Hn; assumption. }
  simpl in H. apply negb_false_iff in H. apply andb_true_iff in H. destruct H as [H1 H2].
  rewrite andb_true_r in H2. split; assumption.
Qed.

Lemma case_cmp doc k arg : In k ["$eq"; "$ne"; "$gt"; "$gte"; "$lt"; "$lte"] ->
  IHarg doc arg -> P doc (VDoc [(k, arg)]).
Proof.
  intros [<-|[<-|[<-|[<-|[<-|[<-|[]]]]]]].
  1,2: binary; rx Ha; try done_R; rx Hb; try done_R; simpl; try done_R;
       match type of Hn with node_reasons ?k _ _ = 0 =>
         destruct (guard_plain2 k _ _ _ ltac:(simpl; tauto) Hn) as [H1 H2] end;
       rewrite (plain_py_bson _ _ H1 H2); done_R.
  all: binary; rx Ha; try done_R; rx Hb; try done_R; simpl; try done_R;
       match goal with |- context [spec_cmp3 ?x ?y] =>
         destruct (spec_cmp3 x y) eqn:E; [rewrite (cmp3_model _ _ _ _ E)|]; done_R end.
Qed.



Lemma case_arrayElemAt doc arg : IHarg doc arg -> P doc (VDoc [("$arrayElemAt", arg)]).
Proof.
  binary; rx Ha; try done_R; rx Hb; try done_R; simpl; try done_R; try (guard_off Hn).
  all: try (destruct v; simpl; try done_R; try (guard_off Hn)).
  all: try (destruct v0; simpl; try done_R; try (guard_off Hn)).
  all: fin.
Qed.



Ltac goff := match goal with Hn : node_reasons _ _ _ = 0 |- _ => guard_off Hn end.
Ltac dv v := destruct v; simpl; try done_R; try goff.

Lemma case_strcasecmp doc arg : IHarg doc arg -> P doc (VDoc [("$strcasecmp", arg)]).
Proof.
  binary; rx Ha; try done_R; rx Hb; try done_R; simpl; try done_R; try goff.
  all: try (dv v). all: try (dv v0). all: fin.
Qed.

Lemma case_in doc arg : IHarg doc arg -> P doc (VDoc [("$in", arg)]).
Proof.
  binary; rx Ha; try done_R; rx Hb; try done_R; simpl; try done_R; try goff.
  all: try (destruct v0; simpl; try done_R; try goff).
  all: try (destruct (guard_plain2 "$in" _ _ _ ltac:(simpl; tauto) Hn) as [H1 H2];
            rewrite plain_arr in H2; rewrite (py_in_plain _ _ H1 H2); done_R).
  all: fin.
Qed.

Lemma case_subtract doc arg : IHarg doc arg -> P doc (VDoc [("$subtract", arg)]).
Proof.
  binary; rx Ha; try done_R; rx Hb; try done_R; unfold with_list; simpl; try done_R.
  all: try (dv v). all: try (dv v0). all: fin.
Qed.

Lemma case_divmod doc k arg : In k ["$divide"; "$mod"] -> IHarg doc arg -> P doc (VDoc [(k, arg)]).
Proof.
  intros [<-|[<-|[]]].
  all: binary; rx Ha; try done_R; rx Hb; try done_R; unfold with_list; simpl; try done_R.
  all: try (dv v). all: try (dv v0). all: fin.
Qed.



Ltac ternary :=
  let IH := fresh "IH" in let vars := fresh "vars" in let Hg := fresh "Hg" in
  intros IH vars Hg;
  match goal with |- R (seval _ ?doc (VDoc [(?k, ?arg)])) _ =>
    assert (Ho : ordinary k) by ord;
    destruct arg as [| | | | | | | |xs]; try (simpl; done_R);
    destruct xs as [|a [|b [|c [|d xs]]]]; try (simpl; done_R);
    destruct (guard_list _ _ _ _ Ho Hg) as [Hx Hn]; clear Hg;
    pose proof (IH a ltac:(size_le) vars (Hx a ltac:(simpl; tauto))) as Ha;
    pose proof (IH b ltac:(size_le) vars (Hx b ltac:(simpl; tauto))) as Hb;
    pose proof (IH c ltac:(size_le) vars (Hx c ltac:(simpl; tauto))) as Hc;
    clear IH Hx; simpl in Hn; simpl; absorb a vars doc; absorb b vars doc; absorb c vars doc
  end.

Lemma case_substr doc arg : IHarg doc arg -> P doc (VDoc [("$substr", arg)]).
Proof.
  ternary; rx Ha; try done_R; rx Hb; try done_R; rx Hc; try done_R; simpl; try done_R; try goff.
  all: try (dv v). all: try (dv v0). all: try (dv v1). all: fin.
  all: repeat match goal with H : (_ <?? 0) = false |- _ => apply Z.ltb_ge in H end.
  - unfold str_slice. rewrite py_slice_from by assumption. done_R.
  - unfold str_slice. rewrite py_slice_window by assumption. done_R.
Qed.

(* a position / count operand of $slice that the specification reads as an integer is an
   integer literal (otherwise the guard bit 1024 is set) *)
Lemma slice_lit_operand p z m :
  R (SV (VInt z)) m ->
  (forall n, p = VInt n -> SV (VInt z) = SV (VInt n)) ->
  match p with
  | VInt _ => false
  | _ => match m with EV (VInt _) | EE EUnmodelled => true | _ => false end
  end = false ->
  p = VInt z.
Proof.
  intros Hr Hlit Hn.
  destruct p as [|b|n|e|s|us tz|o|fs|xs];
    try (exfalso; destruct Hr as [Hr|Hr]; rewrite Hr in Hn; discriminate Hn).
  specialize (Hlit n eq_refl). inversion Hlit. reflexivity.
Qed.

Lemma case_slice doc arg : IHarg doc arg -> P doc (VDoc [("$slice", arg)]).
Proof.
  intros IH vars Hg. assert (Ho : ordinary "$slice") by ord.
  destruct arg as [| | | | | | | |xs]; try (simpl; done_R).
  destruct xs as [|a [|p [|q [|d xs]]]]; try (simpl; done_R).
  - destruct (guard_list _ _ _ _ Ho Hg) as [Hx Hn]; clear Hg.
    pose proof (IH a ltac:(size_le) vars (Hx a ltac:(simpl; tauto))) as Ha.
    pose proof (IH p ltac:(size_le) vars (Hx p ltac:(simpl; tauto))) as Hp.
    assert (Hlit : forall n, p = VInt n -> seval (lift vars) doc p = SV (VInt n)) by (intros n ->; reflexivity).
    clear IH Hx; simpl in Hn; simpl; absorb a vars doc; absorb p vars doc.
    destruct s0 as [[| |n| | | | | |]| | |]; try done_R.
    unfold node_reasons in Hn; simpl in Hn; split_guard Hn.
    rewrite orb_false_r in Hn3.
    pose proof (slice_lit_operand _ _ _ Hp Hlit Hn3) as Ep.
    subst p. clear Hlit Hn1 Hn3 Hp. simpl.
    rc Ha; simpl; try done_R; [|discriminate Hn0].
    destruct v as [| | | | | | | |ys]; simpl; try done_R; [discriminate Hn0|].
    destruct (Z.ltb_spec n 0) as [Hneg|Hpos].
    + rewrite py_slice_last by assumption. done_R.
    + rewrite py_slice_first by assumption. done_R.
  - destruct (guard_list _ _ _ _ Ho Hg) as [Hx Hn]; clear Hg.
    pose proof (IH a ltac:(size_le) vars (Hx a ltac:(simpl; tauto))) as Ha.
    pose proof (IH p ltac:(size_le) vars (Hx p ltac:(simpl; tauto))) as Hp.
    pose proof (IH q ltac:(size_le) vars (Hx q ltac:(simpl; tauto))) as Hq.
    assert (Hlit : forall n, p = VInt n -> seval (lift vars) doc p = SV (VInt n)) by (intros n ->; reflexivity).
    assert (Hlitq : forall n, q = VInt n -> seval (lift vars) doc q = SV (VInt n)) by (intros n ->; reflexivity).
    clear IH Hx; simpl in Hn; simpl; absorb a vars doc; absorb p vars doc; absorb q vars doc.
    destruct s0 as [[| |p0| | | | | |]| | |]; try done_R.
    destruct s1 as [[| |n| | | | | |]| | |]; try done_R.
    unfold node_reasons in Hn; simpl in Hn; split_guard Hn.
    apply orb_false_iff in Hn3. destruct Hn3 as [Hn3 Hn4]. rewrite orb_false_r in Hn4.
    pose proof (slice_lit_operand _ _ _ Hp Hlit Hn3) as Ep.
    pose proof (slice_lit_operand _ _ _ Hq Hlitq Hn4) as Eq.
    subst p q. clear Hlit Hlitq Hn3 Hn4 Hp Hq. simpl.
    rc Ha; simpl; try done_R; [|discriminate Hn0].
    destruct v as [| | | | | | | |ys]; simpl; try done_R; [discriminate Hn0|].
    destruct (Z.leb_spec n 0) as [Hle|Hgt]; [done_R|].
    destruct (Z.ltb_spec p0 0) as [Hneg|Hpos].
    + split_guard Hn1.
      rewrite py_slice_neg_window; try done_R; try lia.
    + rewrite py_slice_window by lia. rewrite skipn_min by assumption. done_R.
Qed.



(* ------------------------------------------------------------ $and / $or *)
Fixpoint truths (l : list sres) : option (list bool) :=
  match l with
  | [] => Some []
  | r :: l' => match mtruth r, truths l' with
               | Some b, Some bs => Some (b :: bs)
               | _, _ => None
               end
  end.

Fixpoint all_go (l : list (res bool)) (acc : bool) : eres :=
  match l with
  | [] => EV (VBool acc)
  | Ok b :: l' => all_go l' (acc && b)
  | Err er :: _ => EE er
  end.

Fixpoint any_go (l : list (res bool)) : eres :=
  match l with
  | [] => EV (VBool false)
  | Ok true :: _ => EV (VBool true)
  | Ok false :: l' => any_go l'
  | Err er :: _ => EE er
  end.

Lemma eval_and vars doc xs :
  eval vars doc true (VDoc [("$and", VArr xs)]) =
  all_go (map (fun x => to_bool (eval vars doc true x)) xs) true.
Proof. reflexivity. Qed.
Lemma eval_or vars doc xs :
  eval vars doc true (VDoc [("$or", VArr xs)]) =
  any_go (map (fun x => to_bool (eval vars doc true x)) xs).
Proof. reflexivity. Qed.
Lemma seval_and vars doc xs :
  seval vars doc (VDoc [("$and", VArr xs)]) =
  match truths (map (seval vars doc) xs) with
  | Some bs => SV (VBool (forallb (fun b => b) bs))
  | None => SUndef
  end.
Proof. reflexivity. Qed.
Lemma seval_or vars doc xs :
  seval vars doc (VDoc [("$or", VArr xs)]) =
  match truths (map (seval vars doc) xs) with
  | Some bs => SV (VBool (existsb (fun b => b) bs))
  | None => SUndef
  end.
Proof. reflexivity. Qed.

Lemma all_go_spec ss ms : Forall2 R ss ms -> forall bs acc, truths ss = Some bs ->
  all_go (map to_bool ms) acc = EE EUnmodelled \/
  all_go (map to_bool ms) acc = EV (VBool (acc && forallb (fun b => b) bs)).
Proof.
  induction 1 as [|s m ss ms Hsm _ IH]; intros bs acc Ht; simpl in Ht.
  - inversion Ht; subst. right. simpl. rewrite andb_true_r. reflexivity.
  - destruct (mtruth s) as [b|] eqn:Eb; [|discriminate].
    destruct (truths ss) as [bs'|] eqn:Ebs; [|discriminate]. inversion Ht; subst bs.
    destruct (R_truth _ _ _ Hsm Eb) as [Hm|Hm].
    + left. subst m. reflexivity.
    + simpl. rewrite Hm. destruct (IH bs' (acc && b) eq_refl) as [H|H]; [left; exact H|right].
      rewrite H. rewrite andb_assoc. reflexivity.
Qed.

Lemma any_go_spec ss ms : Forall2 R ss ms -> forall bs, truths ss = Some bs ->
  any_go (map to_bool ms) = EE EUnmodelled \/
  any_go (map to_bool ms) = EV (VBool (existsb (fun b => b) bs)).
Proof.
  induction 1 as [|s m ss ms Hsm _ IH]; intros bs Ht; simpl in Ht.
  - inversion Ht; subst. right. reflexivity.
  - destruct (mtruth s) as [b|] eqn:Eb; [|discriminate].
    destruct (truths ss) as [bs'|] eqn:Ebs; [|discriminate]. inversion Ht; subst bs.
    destruct (R_truth _ _ _ Hsm Eb) as [Hm|Hm].
    + left. subst m. reflexivity.
    + simpl. rewrite Hm. destruct b; [right; reflexivity|]. simpl. apply IH. reflexivity.
Qed.

Lemma case_and doc arg : IHarg doc arg -> P doc (VDoc [("$and", arg)]).
Proof.
  intros IH vars Hg. assert (Ho : ordinary "$and") by ord.
  destruct arg as [| | | | | | | |xs]; try (simpl; done_R).
  destruct (guard_list _ _ _ _ Ho Hg) as [Hx _].
  pose proof (IH_list _ _ _ IH Hx) as HF.
  rewrite eval_and, seval_and.
  destruct (truths (map (seval (lift vars) doc) xs)) as [bs|] eqn:Et; [|done_R].
  rewrite <- (map_map (eval vars doc true) to_bool).
  destruct (all_go_spec _ _ HF bs true Et) as [H|H]; rewrite H; done_R.
Qed.

Lemma case_or doc arg : IHarg doc arg -> P doc (VDoc [("$or", arg)]).
Proof.
  intros IH vars Hg. assert (Ho : ordinary "$or") by ord.
  destruct arg as [| | | | | | | |xs]; try (simpl; done_R).
  destruct (guard_list _ _ _ _ Ho Hg) as [Hx _].
  pose proof (IH_list _ _ _ IH Hx) as HF.
  rewrite eval_or, seval_or.
  destruct (truths (map (seval (lift vars) doc) xs)) as [bs|] eqn:Et; [|done_R].
  rewrite <- (map_map (eval vars doc true) to_bool).
  destruct (any_go_spec _ _ HF bs Et) as [H|H]; rewrite H; done_R.
Qed.

(* ------------------------------------------------------------ $ifNull *)
Definition m_ifnull vars doc :=
  fix go (l : list value) : eres :=
    match l with
    | [] => EE ECrash
    | [fallback] => eval vars doc true fallback
    | x :: l' =>
        match eval vars doc true x with
        | EV VNull | EMiss => go l'
        | EV v => EV v
        | EE er => EE er
        end
    end.
Definition s_ifnull :=
  fix go (l : list sres) : sres :=
    match l with
    | [] => SUndef
    | [fallback] => fallback
    | r :: l' => if is_sundef r || is_serr r then SUndef
                 else if nullish r then go l' else r
    end.
Lemma eval_ifnull vars doc xs :
  eval vars doc true (VDoc [("$ifNull", VArr xs)]) =
  match xs with [] => EE EUnmodelled | _ => m_ifnull vars doc xs end.
Proof. destruct xs; reflexivity. Qed.
Lemma seval_ifnull vars doc xs :
  seval vars doc (VDoc [("$ifNull", VArr xs)]) =
  match xs with _ :: _ :: _ => s_ifnull (map (seval vars doc) xs) | _ => SUndef end.
Proof. destruct xs as [|a [|b xs]]; reflexivity. Qed.

Lemma ifnull_spec vars doc xs :
  (forall x, In x xs -> R (seval (lift vars) doc x) (eval vars doc true x)) -> xs <> [] ->
  R (s_ifnull (map (seval (lift vars) doc) xs)) (m_ifnull vars doc xs).
Proof.
  induction xs as [|x xs IH]; intros Hx Hne; [contradiction|].
  destruct xs as [|y xs].
  - simpl. apply Hx. left. reflexivity.
  - assert (IH' : R (s_ifnull (map (seval (lift vars) doc) (y :: xs))) (m_ifnull vars doc (y :: xs))).
    { apply IH; [|discriminate]. intros z Hz. apply Hx. right. exact Hz. }
    pose proof (Hx x (or_introl eq_refl)) as Hxx.
    change (m_ifnull vars doc (x :: y :: xs)) with
      (match eval vars doc true x with
       | EV VNull | EMiss => m_ifnull vars doc (y :: xs)
       | EV v => EV v
       | EE er => EE er
       end).
    change (s_ifnull (map (seval (lift vars) doc) (x :: y :: xs))) with
      (let r := seval (lift vars) doc x in
       if is_sundef r || is_serr r then SUndef
       else if nullish r then s_ifnull (map (seval (lift vars) doc) (y :: xs)) else r).
    cbv zeta.
    rc Hxx; simpl; try done_R; try exact IH'.
    destruct v; simpl; try done_R. exact IH'.
Qed.

Lemma case_ifnull doc arg : IHarg doc arg -> P doc (VDoc [("$ifNull", arg)]).
Proof.
  intros IH vars Hg. assert (Ho : ordinary "$ifNull") by ord.
  destruct arg as [| | | | | | | |xs]; try (simpl; done_R).
  destruct (guard_list _ _ _ _ Ho Hg) as [Hx _].
  rewrite eval_ifnull, seval_ifnull.
  destruct xs as [|a [|b xs]]; try done_R.
  apply ifnull_spec; [|discriminate].
  intros x Hin. apply IH; [|apply Hx; exact Hin].
  apply Nat.lt_le_incl. apply vsize_arr_in. exact Hin.
Qed.

(* ------------------------------------------------------------ $cond *)
Lemma assoc_map_snd {A B} (g : A -> B) k (l : list (string * A)) :
  assoc k (map (fun kv : string * A => match kv with (ck, cv) => (ck, g cv) end) l) =
  option_map g (assoc k l).
Proof.
  induction l as [|[k' v] l IH]; simpl; [reflexivity|].
  destruct (k =? k'); [reflexivity|exact IH].
Qed.

Lemma named_no_dollar (ok : string -> bool) (l : list (string * value)) :
  (forall k, ok k = true -> starts_dollar k = false) ->
  forallb (fun kv => ok (fst kv)) l = true ->
  existsb (fun kv : string * value => starts_dollar (fst kv)) l = false.
Proof.
  intros Hok. induction l as [|[k v] l IH]; simpl; intros H; [reflexivity|].
  apply andb_true_iff in H. destruct H as [H1 H2]. rewrite (Hok _ H1), (IH H2). reflexivity.
Qed.

Lemma guard_named vars doc k afs : ordinary k ->
  existsb (fun kv : string * value => starts_dollar (fst kv)) afs = false ->
  reasons vars doc (VDoc [(k, VDoc afs)]) = 0 ->
  forall ck cv, In (ck, cv) afs -> reasons vars doc cv = 0.
Proof.
  intros Ho Hd Hg ck cv Hin. rewrite (reasons_op _ _ _ _ Ho), Hd in Hg.
  exact (zor_list_map0 _ _ Hg (ck, cv) Hin).
Qed.

Lemma case_cond doc arg : IHarg doc arg -> P doc (VDoc [("$cond", arg)]).
Proof.
  intros IH vars Hg. assert (Ho : ordinary "$cond") by ord.
  destruct arg as [| | | | | | |cf|xs]; try (simpl; done_R).
  - (* named operands *)
    simpl.
    destruct (forallb (fun kv : string * value => (fst kv =? "if") || (fst kv =? "then") || (fst kv =? "else")) cf) eqn:Ek;
      simpl; [|done_R].
    assert (Hd : existsb (fun kv : string * value => starts_dollar (fst kv)) cf = false).
    { apply (named_no_dollar (fun k => (k =? "if") || (k =? "then") || (k =? "else"))); [|exact Ek].
      intros k Hk. apply orb_true_iff in Hk. destruct Hk as [Hk|Hk]; [apply orb_true_iff in Hk; destruct Hk as [Hk|Hk]|];
        apply String.eqb_eq in Hk; subst k; reflexivity. }
    pose proof (guard_named _ _ _ _ Ho Hd Hg) as Hr.
    rewrite !(assoc_map_snd (fun cv => seval (lift vars) doc cv)).
    rewrite !(assoc_map_snd (fun cv => fun vs : list (string * value) => eval vs doc true cv)).
    destruct (assoc "if" cf) as [c|] eqn:Ec; simpl; [|done_R].
    destruct (assoc "then" cf) as [t|] eqn:Et; simpl; [|done_R].
    destruct (assoc "else" cf) as [f|] eqn:Ef; simpl; [|done_R].
    pose proof (IH c (Nat.lt_le_incl _ _ (vsize_assoc _ _ _ Ec)) vars (Hr _ _ (assoc_in _ _ _ Ec))) as Hc.
    pose proof (IH t (Nat.lt_le_incl _ _ (vsize_assoc _ _ _ Et)) vars (Hr _ _ (assoc_in _ _ _ Et))) as Ht.
    pose proof (IH f (Nat.lt_le_incl _ _ (vsize_assoc _ _ _ Ef)) vars (Hr _ _ (assoc_in _ _ _ Ef))) as Hf.
    absorb c vars doc. rc Hc; autorewrite with truth; simpl; try done_R.
    all: try (destruct (mongo_bool v)); assumption.
  - destruct xs as [|c [|t [|f [|d xs]]]]; try (simpl; done_R).
    destruct (guard_list _ _ _ _ Ho Hg) as [Hx _].
    pose proof (IH c ltac:(size_le) vars (Hx c ltac:(simpl; tauto))) as Hc.
    pose proof (IH t ltac:(size_le) vars (Hx t ltac:(simpl; tauto))) as Ht.
    pose proof (IH f ltac:(size_le) vars (Hx f ltac:(simpl; tauto))) as Hf.
    simpl. absorb c vars doc. rc Hc; autorewrite with truth; simpl; try done_R.
    all: try (destruct (mongo_bool v)); assumption.
Qed.
