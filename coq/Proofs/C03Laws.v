(* C03 part A -- composition and conservation laws of the pipeline model (no guard):
   composition, $match, $sort, $skip / $limit / $count, independence of the per-document
   stages, $lookup, $facet *)
From Coq Require Import ZArith List String Bool Ascii Lia Permutation.
From Verif Require Import Value PyEq BsonOrder Path Update Filter Coll Expr Pipeline.
From Verif Require Import C03Base.
Import ListNotations.
Open Scope Z_scope.
Open Scope string_scope.
Open Scope list_scope.

(* ------------------------------------------------------------ 1. composition *)
Lemma run_ops_app db a b cur :
  run_ops db (a ++ b) cur =
  match run_ops db a cur with Ok mid => run_ops db b mid | Err e => Err e end.
Proof.
  revert cur. induction a as [|[op o] a IH]; intros cur; simpl; [reflexivity|].
  destruct (run_stage db op o cur) as [c1|e]; simpl; [apply IH|reflexivity].
Qed.

Lemma run_pipeline_app db p1 p2 docs :
  run_pipeline db (p1 ++ p2) docs =
  match run_pipeline db p1 docs with Ok mid => run_pipeline db p2 mid | Err e => Err e end.
Proof.
  revert docs. induction p1 as [|s p1 IH]; intros docs; simpl; [reflexivity|].
  destruct s; try reflexivity.
  destruct (run_ops db fs docs) as [c1|e]; simpl; [apply IH|reflexivity].
Qed.

Lemma aggregate_app db p1 p2 docs :
  aggregate db docs (VArr (p1 ++ p2)) =
  match aggregate db docs (VArr p1) with Ok mid => aggregate db mid (VArr p2) | Err e => Err e end.
Proof. unfold aggregate. apply run_pipeline_app. Qed.

Lemma composition_law db p1 p2 docs :
  run_pipeline db (p1 ++ p2) docs =
    match run_pipeline db p1 docs with Ok mid => run_pipeline db p2 mid | Err e => Err e end
  /\ (forall a b, run_ops db (a ++ b) docs =
        match run_ops db a docs with Ok mid => run_ops db b mid | Err e => Err e end)
  /\ aggregate db docs (VArr (p1 ++ p2)) =
    match aggregate db docs (VArr p1) with Ok mid => aggregate db mid (VArr p2) | Err e => Err e end.
Proof.
  split; [apply run_pipeline_app|]. split; [intros a b; apply run_ops_app|apply aggregate_app].
Qed.

(* a one-stage pipeline is its stage; a pipeline is the left fold of its stages *)
Lemma run_pipeline_single db op o docs :
  run_pipeline db [VDoc [(op, o)]] docs = run_stage db op o docs.
Proof. simpl. destruct (run_stage db op o docs); reflexivity. Qed.

Lemma run_pipeline_cons db op o rest docs :
  run_pipeline db (VDoc [(op, o)] :: rest) docs =
  match run_stage db op o docs with Ok mid => run_pipeline db rest mid | Err e => Err e end.
Proof. simpl. destruct (run_stage db op o docs); reflexivity. Qed.

(* ------------------------------------------------------------ 2. $match *)
Definition matches_ok (spec : value) (d : value) : bool :=
  match filter_applies spec (patch d) with Ok true => true | _ => false end.

Lemma match_sublist spec l r :
  match_docs spec l = Ok r ->
  Forall (fun d => exists b, filter_applies spec (patch d) = Ok b) l /\
  r = List.filter (matches_ok spec) l.
Proof.
  revert r. induction l as [|d l IH]; cbn [match_docs List.filter]; intros r H.
  - inversion H. split; [constructor|reflexivity].
  - destruct (filter_applies spec (patch d)) as [b|e] eqn:Hb; cbn [bind] in H; [|discriminate].
    destruct (match_docs spec l) as [r'|e] eqn:Hr; cbn [bind] in H; [|discriminate].
    destruct (IH r' eq_refl) as [HF Hr']. split.
    + constructor; [exists b; exact Hb|exact HF].
    + unfold matches_ok at 1. rewrite Hb. inversion H; subst. destruct b; reflexivity.
Qed.

Lemma match_docs_total spec l :
  Forall (fun d => exists b, filter_applies spec (patch d) = Ok b) l ->
  match_docs spec l = Ok (List.filter (matches_ok spec) l).
Proof.
  induction 1 as [|d l [b Hb] _ IH]; cbn [match_docs List.filter]; [reflexivity|].
  rewrite IH. assert (Hm : matches_ok spec d = b) by (unfold matches_ok; rewrite Hb; destruct b; reflexivity).
  rewrite Hm, Hb. cbn [bind]. destruct b; reflexivity.
Qed.

Lemma run_stage_match db o l : run_stage db "$match" o l = match_docs (patch o) l.
Proof. destruct o; reflexivity. Qed.

(* ------------------------------------------------------------ 3. $sort *)
Lemma agg_sort_perm spec l r : agg_sort spec l = Ok r -> Permutation l r.
Proof.
  revert r. induction spec as [|[k dir] spec IH]; simpl; intros r H.
  - inversion H. apply Permutation_refl.
  - destruct (agg_sort spec l) as [l'|e]; simpl in H; [|discriminate].
    specialize (IH l' eq_refl).
    destruct (Expr.starts_dollar k || negb (path_modelled (split_dots k))); [discriminate|].
    destruct (num8 dir) as [z|].
    + eapply perm_trans; [exact IH|]. eapply py_sorted_perm. exact H.
    + destruct l' as [|x l'].
      * inversion H; subst. exact IH.
      * destruct dir; discriminate.
Qed.

Lemma starts_dollar_same s : Expr.starts_dollar s = Filter.starts_dollar s.
Proof.
  destruct s as [|c s]; [reflexivity|]. unfold Expr.starts_dollar, Filter.starts_dollar.
  destruct c as [[] [] [] [] [] [] [] []]; reflexivity.
Qed.

Lemma not_dollar_not_natural k : Filter.starts_dollar k = false -> (k =? "$natural") = false.
Proof.
  intros H. destruct (k =? "$natural") eqn:E; [|reflexivity].
  apply String.eqb_eq in E. subst. discriminate.
Qed.

(* the directions as find().sort() takes them *)
Definition sort_dirs (spec : list (string * Z)) : list (string * value) :=
  map (fun kz => (fst kz, VInt (snd kz))) spec.

Lemma sort_agrees_with_find spec l :
  forallb (fun kz => negb (Filter.starts_dollar (fst kz))) spec = true ->
  agg_sort (sort_dirs spec) l = sort_docs spec l.
Proof.
  induction spec as [|[k z] spec IH]; intros H; [reflexivity|].
  cbn [forallb fst] in H. apply andb_true_iff in H. destruct H as [Hk Hs]. apply negb_true_iff in Hk.
  unfold sort_dirs in *. cbn [map fst snd agg_sort sort_docs].
  rewrite (IH Hs). destruct (sort_docs spec l) as [l'|e]; cbn [bind]; [|reflexivity].
  rewrite (not_dollar_not_natural _ Hk). rewrite starts_dollar_same. rewrite Hk. cbn [orb].
  destruct (negb (path_modelled (split_dots k))); [reflexivity|].
  cbn [num8].
  assert (Hz : (8 * z <?? 0) = (z <?? 0)).
  { destruct (Z.ltb_spec (8 * z) 0), (Z.ltb_spec z 0); try reflexivity; lia. }
  rewrite Hz. reflexivity.
Qed.

Lemma run_stage_sort db spec l : run_stage db "$sort" (VDoc spec) l = agg_sort spec l.
Proof. reflexivity. Qed.

(* ------------------------------------------------------------ 4. $skip / $limit / $count *)
Lemma run_stage_skip db n l : 0 <= n -> run_stage db "$skip" (VInt n) l = Ok (skipn (Z.to_nat n) l).
Proof.
  intros Hn. change (run_stage db "$skip" (VInt n) l)
    with (if n <?? 0 then Err EOpFail else Ok (py_slice l (Some n) None)).
  destruct (Z.ltb_spec n 0) as [H|_]; [lia|]. rewrite py_slice_skip by exact Hn. reflexivity.
Qed.

Lemma run_stage_limit db n l : 0 < n -> run_stage db "$limit" (VInt n) l = Ok (firstn (Z.to_nat n) l).
Proof.
  intros Hn. change (run_stage db "$limit" (VInt n) l)
    with (if Z.leb n 0 then Err EOpFail else Ok (py_slice l None (Some n))).
  destruct (Z.leb_spec n 0) as [H|_]; [lia|]. rewrite py_slice_limit by exact Hn. reflexivity.
Qed.

Lemma run_stage_count db o l : run_stage db "$count" o l = count_stage o l.
Proof. destruct o; reflexivity. Qed.

Lemma count_stage_ok db name l r :
  run_stage db "$count" (VStr name) l = Ok r ->
  r = match l with [] => [] | _ => [VDoc [(name, VInt (Z.of_nat (List.length l)))]] end.
Proof.
  rewrite run_stage_count. unfold count_stage.
  destruct (name =? ""); [discriminate|]. destruct (Expr.starts_dollar name); [discriminate|].
  destruct (1 <?? Z.of_nat (List.length (split_dots name))); [discriminate|].
  destruct l; intros H; inversion H; reflexivity.
Qed.

Lemma count_stage_plain db name l :
  name <> "" -> Expr.starts_dollar name = false -> List.length (split_dots name) = 1%nat ->
  run_stage db "$count" (VStr name) l =
  Ok (match l with [] => [] | _ => [VDoc [(name, VInt (Z.of_nat (List.length l)))]] end).
Proof.
  intros Hn Hd Hl. rewrite run_stage_count. unfold count_stage.
  destruct (name =? "") eqn:E; [apply String.eqb_eq in E; contradiction|].
  rewrite Hd, Hl. simpl. destruct l; reflexivity.
Qed.

Lemma skip_limit_count db l :
  (forall n, 0 <= n -> run_stage db "$skip" (VInt n) l = Ok (skipn (Z.to_nat n) l)) /\
  (forall n, 0 < n -> run_stage db "$limit" (VInt n) l = Ok (firstn (Z.to_nat n) l)) /\
  (forall name r, run_stage db "$count" (VStr name) l = Ok r ->
     r = match l with [] => [] | _ => [VDoc [(name, VInt (Z.of_nat (List.length l)))]] end) /\
  (forall name, name <> "" -> Expr.starts_dollar name = false -> List.length (split_dots name) = 1%nat ->
     run_stage db "$count" (VStr name) l =
     Ok (match l with [] => [] | _ => [VDoc [(name, VInt (Z.of_nat (List.length l)))]] end)).
Proof.
  split; [intros n; apply run_stage_skip|]. split; [intros n; apply run_stage_limit|].
  split; [intros name r; apply count_stage_ok|intros name; apply count_stage_plain].
Qed.

(* ------------------------------------------------------------ 9. $facet *)
Definition ops_go_of (rs : string -> value -> list value -> res (list value)) :=
  fix ops_go (sfs : list (string * value)) (cur : list value) : res (list value) :=
    match sfs with
    | [] => Ok cur
    | (sop, sopt) :: sfs' => let! c1 := rs sop sopt cur in ops_go sfs' c1
    end.

Definition stages_go_of (rs : string -> value -> list value -> res (list value)) :=
  fix stages_go (stages : list value) (cur : list value) : res (list value) :=
    match stages with
    | [] => Ok cur
    | VDoc sfs :: stages' => let! cur' := ops_go_of rs sfs cur in stages_go stages' cur'
    | _ :: _ => Err ECrash
    end.

Definition facets_of (rs : string -> value -> list value -> res (list value)) (l : list value) :=
  fix facets (subs : list (string * value)) : res (list (string * value)) :=
    match subs with
    | [] => Ok []
    | (title, p) :: subs' =>
        match p with
        | VArr stages =>
            let! out := stages_go_of rs stages l in
            let! rest := facets subs' in
            Ok ((title, VArr out) :: rest)
        | _ => Err EUnmodelled
        end
    end.

Lemma run_stage_facet_fix db subs l :
  run_stage db "$facet" (VDoc subs) l =
  let! outs := facets_of (run_stage db) l subs in
  Ok [VDoc (fold_left (fun acc kv => set_key (fst kv) (snd kv) acc) outs [])].
Proof. reflexivity. Qed.

Lemma ops_go_run_ops db sfs cur : ops_go_of (run_stage db) sfs cur = run_ops db sfs cur.
Proof.
  revert cur. induction sfs as [|[op o] sfs IH]; intros cur; [reflexivity|].
  cbn [ops_go_of run_ops]. destruct (run_stage db op o cur) as [c1|e]; cbn [bind]; [apply IH|reflexivity].
Qed.

Lemma stages_go_run_pipeline db stages cur :
  stages_go_of (run_stage db) stages cur = run_pipeline db stages cur.
Proof.
  revert cur. induction stages as [|s stages IH]; intros cur; [reflexivity|].
  destruct s; try reflexivity. cbn [stages_go_of run_pipeline].
  rewrite ops_go_run_ops. destruct (run_ops db fs cur) as [c1|e]; cbn [bind]; [apply IH|reflexivity].
Qed.

(* every sub-pipeline is run on the stage's own input *)
Fixpoint facet_outs (db : dbmap) (subs : list (string * value)) (l : list value)
  : res (list (string * value)) :=
  match subs with
  | [] => Ok []
  | (title, VArr stages) :: subs' =>
      let! out := run_pipeline db stages l in
      let! rest := facet_outs db subs' l in
      Ok ((title, VArr out) :: rest)
  | _ :: _ => Err EUnmodelled
  end.

Lemma facets_of_outs db subs l : facets_of (run_stage db) l subs = facet_outs db subs l.
Proof.
  induction subs as [|[t p] subs IH]; [reflexivity|].
  destruct p; try reflexivity. cbn [facets_of facet_outs].
  rewrite stages_go_run_pipeline. rewrite <- IH. reflexivity.
Qed.

Lemma facet_same_input db subs l :
  run_stage db "$facet" (VDoc subs) l =
  let! outs := facet_outs db subs l in
  Ok [VDoc (fold_left (fun acc kv => set_key (fst kv) (snd kv) acc) outs [])].
Proof. rewrite run_stage_facet_fix, facets_of_outs. reflexivity. Qed.

Lemma facet_outs_spec db subs l outs :
  facet_outs db subs l = Ok outs ->
  Forall2 (fun tp tv => exists stages out, snd tp = VArr stages /\ run_pipeline db stages l = Ok out
                                           /\ tv = (fst tp, VArr out)) subs outs.
Proof.
  revert outs. induction subs as [|[t p] subs IH]; intros outs H.
  - inversion H. constructor.
  - destruct p; try discriminate. cbn [facet_outs] in H.
    destruct (run_pipeline db xs l) as [out|e] eqn:Ho; cbn [bind] in H; [|discriminate].
    destruct (facet_outs db subs l) as [rest|e] eqn:Hr; cbn [bind] in H; [|discriminate].
    inversion H; subst. constructor; [|apply IH; reflexivity].
    exists xs, out. repeat split; assumption.
Qed.

Lemma assoc_fold_set_key (outs acc : list (string * value)) t :
  assoc t (fold_left (fun acc kv => set_key (fst kv) (snd kv) acc) outs acc) =
  match assoc t (rev outs) with Some v => Some v | None => assoc t acc end.
Proof.
  revert acc. induction outs as [|[k v] outs IH]; intros acc; [reflexivity|].
  cbn [fold_left fst snd]. rewrite IH. cbn [rev].
  assert (Happ : forall (a b : list (string * value)), assoc t (a ++ b) =
            match assoc t a with Some x => Some x | None => assoc t b end).
  { induction a as [|[k1 v1] a IHa]; intros b; [reflexivity|]. simpl.
    destruct (String.eqb t k1); [reflexivity|apply IHa]. }
  rewrite Happ. destruct (assoc t (rev outs)) as [x|]; [reflexivity|].
  simpl. destruct (String.eqb t k) eqn:E.
  - apply String.eqb_eq in E. subst. apply assoc_set_key_same.
  - apply assoc_set_key_other. intros Hc. subst. rewrite String.eqb_refl in E. discriminate.
Qed.

Lemma assoc_nodup_in {A} (l : list (string * A)) t v :
  NoDup (map fst l) -> In (t, v) l -> assoc t l = Some v.
Proof.
  induction l as [|[k x] l IH]; intros Hnd Hin; [destruct Hin|].
  simpl in *. inversion Hnd as [|? ? Hni Hnd']; subst.
  destruct Hin as [Heq|Hin].
  - inversion Heq; subst. rewrite String.eqb_refl. reflexivity.
  - destruct (String.eqb t k) eqn:E.
    + apply String.eqb_eq in E. subst. exfalso. apply Hni. apply in_map_iff. exists (k, v). split; [reflexivity|exact Hin].
    + apply IH; assumption.
Qed.

(* with distinct titles: the output is one document, whose field t is the result of running
   the sub-pipeline t on the input of the stage *)
Lemma facet_fields db subs l r :
  run_stage db "$facet" (VDoc subs) l = Ok r ->
  NoDup (map fst subs) ->
  exists fs, r = [VDoc fs] /\
    List.length fs = List.length subs /\
    forall t stages, In (t, VArr stages) subs ->
      exists out, run_pipeline db stages l = Ok out /\ assoc t fs = Some (VArr out).
Proof.
  intros H Hnd. rewrite facet_same_input in H.
  destruct (facet_outs db subs l) as [outs|e] eqn:Ho; cbn [bind] in H; [|discriminate].
  inversion H; subst. eexists. split; [reflexivity|].
  apply facet_outs_spec in Ho.
  assert (Hfst : map fst outs = map fst subs).
  { clear -Ho. induction Ho as [|tp tv subs outs Hh _ IH]; [reflexivity|].
    destruct Hh as (st & out & _ & _ & Htv). subst. simpl. f_equal. exact IH. }
  assert (Hnd' : NoDup (map fst outs)) by (rewrite Hfst; exact Hnd).
  split.
  - (* all titles distinct: the fold appends *)
    rewrite <- (map_length fst subs), <- Hfst, map_length.
    clear -Hnd'. 
    assert (G : forall (acc : list (string * value)),
               (forall k, In k (map fst outs) -> assoc k acc = None) ->
               List.length (fold_left (fun acc kv => set_key (fst kv) (snd kv) acc) outs acc)
               = (List.length acc + List.length outs)%nat).
    { induction outs as [|[k v] outs IH]; intros acc Hacc; [simpl; lia|].
      cbn [fold_left fst snd]. inversion Hnd' as [|? ? Hni Hnd2]; subst.
      rewrite IH; [| exact Hnd2 |].
      - assert (Hlen : List.length (set_key k v acc) = S (List.length acc)).
        { assert (Hn : assoc k acc = None) by (apply Hacc; left; reflexivity).
          clear -Hn. induction acc as [|[k' v'] acc IHa]; [reflexivity|]. simpl in *.
          destruct (String.eqb k k'); [discriminate|]. simpl. f_equal. apply IHa. exact Hn. }
        rewrite Hlen. simpl. lia.
      - intros k' Hk'. rewrite assoc_set_key_other.
        + apply Hacc. right. exact Hk'.
        + intros Hc. subst. contradiction. }
    rewrite G; [reflexivity|]. intros k _. reflexivity.
  - intros t stages Hin.
    assert (Hex : exists out, run_pipeline db stages l = Ok out /\ In (t, VArr out) outs).
    { clear -Ho Hin. induction Ho as [|tp tv subs outs Hh _ IH]; [destruct Hin|].
      destruct Hin as [Heq|Hin].
      - subst tp. destruct Hh as (st & out & Hst & Hrun & Htv). simpl in *. inversion Hst; subst.
        exists out. split; [exact Hrun|left; reflexivity].
      - destruct (IH Hin) as (out & Hrun & Hi). exists out. split; [exact Hrun|right; exact Hi]. }
    destruct Hex as (out & Hrun & Hi). exists out. split; [exact Hrun|].
    rewrite assoc_fold_set_key.
    assert (Hr : assoc t (rev outs) = Some (VArr out)).
    { apply assoc_nodup_in.
      - rewrite map_rev. apply NoDup_rev. exact Hnd'.
      - apply in_rev in Hi. exact Hi. }
    rewrite Hr. reflexivity.
Qed.
