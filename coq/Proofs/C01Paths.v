(* C01 proofs, part 2: iter_key_candidates (candidates) vs the specification's path
   resolution (path_values), dead ends. *)
From Coq Require Import ZArith List String Bool Ascii Lia.
From Verif Require Import Value PyEq BsonOrder Path Filter FilterSpec FilterGuard.
From Verif.Proofs Require Import C01Values.
Import ListNotations.
Open Scope Z_scope.
Open Scope string_scope.
Open Scope list_scope.

(* the resolved (non-Missing) values of a candidate list *)
Definition somes (C : list lookup) : list value :=
  flat_map (fun c => match c with Some v => [v] | None => [] end) C.

Lemma somes_app C D : somes (C ++ D) = somes C ++ somes D.
Proof. unfold somes. apply flat_map_app. Qed.

Lemma somes_flat_map {A} (f g : A -> list lookup) xs :
  (forall x, In x xs -> somes (f x) = somes (g x)) ->
  somes (flat_map f xs) = somes (flat_map g xs).
Proof.
  induction xs as [|x xs IH]; intros H; [reflexivity|].
  simpl. rewrite !somes_app. rewrite (H x (or_introl eq_refl)). f_equal.
  apply IH. intros y Hy. apply H. right. exact Hy.
Qed.

Lemma flat_map_ext_in {A B} (f g : A -> list B) xs :
  (forall x, In x xs -> f x = g x) -> flat_map f xs = flat_map g xs.
Proof.
  induction xs as [|x xs IH]; intros H; [reflexivity|].
  simpl. rewrite (H x (or_introl eq_refl)). f_equal.
  apply IH. intros y Hy. apply H. right. exact Hy.
Qed.

(* unfolding of candidates away from the `key == ''` special case *)
Lemma candidates_cons p rest d :
  (rest = [] -> p <> "") ->
  candidates (p :: rest) d =
  match d with
  | VArr xs =>
      match as_index p with
      | None =>
          flat_map (fun sub =>
            match sub with
            | VDoc fs => match assoc p fs with
                         | Some v => candidates rest v
                         | None => [None]
                         end
            | _ => []
            end) xs
      | Some i => match nth_z xs i with None => [] | Some sub => candidates rest sub end
      end
  | VDoc fs =>
      match rest with
      | [] => [assoc p fs]
      | _ => candidates rest (match assoc p fs with Some v => v | None => VDoc [] end)
      end
  | _ => []
  end.
Proof.
  intros H. destruct rest as [|q rest]; destruct p as [|a p]; try reflexivity.
  exfalso. apply H; reflexivity.
Qed.

Lemma ends_empty_cons p rest :
  ends_empty (p :: rest) = false ->
  (rest = [] -> p <> "") /\ (rest <> [] -> ends_empty rest = false).
Proof.
  destruct rest as [|q rest]; simpl; intros H; split; intros H'; try congruence.
  intros ->. discriminate H.
Qed.

Lemma candidates_empty_doc rest :
  rest <> [] -> ends_empty rest = false -> candidates rest (VDoc []) = [None].
Proof.
  induction rest as [|p rest IH]; intros Hne He; [congruence|].
  destruct (ends_empty_cons _ _ He) as [Hp Hr].
  rewrite candidates_cons by exact Hp.
  destruct rest as [|q rest']; [reflexivity|].
  simpl assoc. cbv iota. apply IH; [discriminate|apply Hr; discriminate].
Qed.

(* candidates and path_values have the same resolved values *)
Lemma somes_candidates parts : forall d,
  ends_empty parts = false ->
  somes (candidates parts d) = somes (path_values parts d).
Proof.
  induction parts as [|p rest IH]; intros d He; [reflexivity|].
  destruct (ends_empty_cons _ _ He) as [Hp Hr].
  rewrite candidates_cons by exact Hp.
  assert (IH' : rest <> [] -> forall d', somes (candidates rest d') = somes (path_values rest d')).
  { intros Hne d'. apply IH. apply Hr. exact Hne. }
  assert (IH0 : forall d', somes (candidates rest d') = somes (path_values rest d')).
  { destruct rest as [|q rest']; [reflexivity|]. apply IH'. discriminate. }
  destruct d as [|b|z|e|s|us tz|n|fs|xs]; try reflexivity.
  - (* VDoc *)
    cbn [path_values].
    destruct rest as [|q rest'].
    + destruct (assoc p fs); reflexivity.
    + destruct (assoc p fs) as [v|].
      * apply IH0.
      * rewrite candidates_empty_doc; [reflexivity|discriminate|apply Hr; discriminate].
  - (* VArr *)
    cbn [path_values].
    destruct (as_index p) as [i|].
    + destruct (nth_z xs i) as [sub|]; [apply IH0|reflexivity].
    + apply somes_flat_map. intros sub _.
      destruct sub as [|b|z|e|s|us tz|n|fs|ys]; try reflexivity.
      destruct (assoc p fs) as [v|]; [apply IH0|reflexivity].
Qed.

(* dead_end is 0, 1 or 2 *)
Lemma dead_end_range parts : forall d, 0 <= dead_end parts d <= 2.
Proof.
  induction parts as [|p rest IH]; intros d; [simpl; lia|].
  destruct d as [|b|z|e|s|us tz|n|fs|xs]; cbn [dead_end]; try lia.
  - destruct (assoc p fs) as [v|]; [apply IH|lia].
  - destruct (as_index p) as [i|].
    + destruct (nth_z xs i) as [sub|]; [apply IH|lia].
    + destruct (existsb (fun sub => negb (is_doc sub)) xs); [lia|].
      induction xs as [|x xs IHxs]; [simpl; lia|].
      cbn [fold_right].
      assert (Hbase : 0 <= fold_right
                 (fun (sub : value) (acc : Z) =>
                  match sub with
                  | VDoc fs => match assoc p fs with
                               | Some v => Z.max (dead_end rest v) acc
                               | None => acc
                               end
                  | _ => acc
                  end) 0 xs <= 2).
      { clear IHxs. induction xs as [|y ys IHys]; [simpl; lia|].
        cbn [fold_right]. destruct y as [|b|z|e|s|us tz|n|fs|zs]; try exact IHys.
        destruct (assoc p fs) as [v|]; [|exact IHys].
        specialize (IH v). lia. }
      destruct xs as [|y ys].
      * cbn [fold_right]. destruct x as [|b|z|e|s|us tz|n|fs|zs]; try lia.
        destruct (assoc p fs) as [v|]; [|lia]. specialize (IH v). lia.
      * destruct x as [|b|z|e|s|us tz|n|fs|zs]; try exact Hbase.
        destruct (assoc p fs) as [v|]; [|exact Hbase]. specialize (IH v). lia.
Qed.

Lemma dead_end_fold_zero p rest xs base :
  0 <= base ->
  fold_right (fun (sub : value) (acc : Z) =>
                match sub with
                | VDoc fs => match assoc p fs with
                             | Some v => Z.max (dead_end rest v) acc
                             | None => acc
                             end
                | _ => acc
                end) base xs = 0 ->
  forall fs v, In (VDoc fs) xs -> assoc p fs = Some v -> dead_end rest v = 0.
Proof.
  intros Hb. induction xs as [|x xs IH]; intros H fs v Hin Ha; [destruct Hin|].
  cbn [fold_right] in H.
  set (acc := fold_right _ base xs) in *.
  assert (Hacc : 0 <= acc).
  { subst acc. clear -Hb. induction xs as [|y ys IHys]; [exact Hb|].
    cbn [fold_right]. destruct y as [|b|z|e|s|us tz|n|fs|zs]; try exact IHys.
    destruct (assoc p fs) as [v|]; [|exact IHys].
    pose proof (dead_end_range rest v). lia. }
  destruct Hin as [->|Hin].
  - rewrite Ha in H. pose proof (dead_end_range rest v). lia.
  - apply (IH) with (fs := fs); try assumption.
    destruct x as [|b|z|e|s|us tz|n|fs'|zs]; try exact H.
    destruct (assoc p fs') as [v'|]; [|exact H].
    pose proof (dead_end_range rest v'). lia.
Qed.

(* no dead end: the two candidate lists coincide *)
Lemma candidates_no_dead_end parts : forall d,
  ends_empty parts = false -> dead_end parts d = 0 ->
  candidates parts d = path_values parts d.
Proof.
  induction parts as [|p rest IH]; intros d He Hde; [reflexivity|].
  destruct (ends_empty_cons _ _ He) as [Hp Hr].
  rewrite candidates_cons by exact Hp.
  assert (IH0 : forall d', dead_end rest d' = 0 -> candidates rest d' = path_values rest d').
  { destruct rest as [|q rest']; [reflexivity|]. intros d' H. apply IH; [|exact H].
    apply Hr. discriminate. }
  destruct d as [|b|z|e|s|us tz|n|fs|xs]; cbn [dead_end] in Hde; try discriminate Hde.
  - cbn [path_values].
    destruct rest as [|q rest'].
    + destruct (assoc p fs); reflexivity.
    + destruct (assoc p fs) as [v|].
      * apply IH0. exact Hde.
      * apply candidates_empty_doc; [discriminate|apply Hr; discriminate].
  - cbn [path_values].
    destruct (as_index p) as [i|].
    + destruct (nth_z xs i) as [sub|]; [apply IH0; exact Hde|discriminate Hde].
    + destruct (existsb (fun sub => negb (is_doc sub)) xs); [discriminate Hde|].
      apply flat_map_ext_in. intros sub Hsub.
      destruct sub as [|b|z|e|s|us tz|n|fs|ys]; try reflexivity.
      destruct (assoc p fs) as [v|] eqn:Ha; [|reflexivity].
      apply IH0.
      eapply dead_end_fold_zero; [|exact Hde|exact Hsub|exact Ha].
      destruct xs; lia.
Qed.

Lemma dead_end_zero parts d :
  (dead_end parts d =? 1)%Z = false -> (dead_end parts d =? 2)%Z = false ->
  dead_end parts d = 0.
Proof.
  intros H1 H2. apply Z.eqb_neq in H1, H2. pose proof (dead_end_range parts d). lia.
Qed.

(* ---------------------------------------------------------------- consequences for the spec *)
Definition lift (leaf : lookup -> bool) (c : lookup) : bool :=
  leaf c || match c with
            | Some (VArr xs) => existsb (fun e => leaf (Some e)) xs
            | _ => false
            end.

Lemma holds_lift leaf C : holds leaf C = existsb (lift leaf) C.
Proof. reflexivity. Qed.

Lemma existsb_somes (f : lookup -> bool) C :
  f None = false -> existsb f C = existsb (fun v => f (Some v)) (somes C).
Proof.
  intros Hn. induction C as [|c C IH]; [reflexivity|].
  destruct c as [v|]; simpl; rewrite IH; [reflexivity|]. rewrite Hn. reflexivity.
Qed.

Lemma holds_somes leaf C P :
  leaf None = false -> somes C = somes P -> holds leaf P = holds leaf C.
Proof.
  intros Hn HS. rewrite !holds_lift.
  rewrite (existsb_somes (lift leaf) P), (existsb_somes (lift leaf) C), HS; try reflexivity;
    unfold lift; rewrite Hn; reflexivity.
Qed.

Lemma some_present_somes C P : somes C = somes P -> some_present P = some_present C.
Proof.
  intros HS. unfold some_present.
  rewrite (existsb_somes _ P), (existsb_somes _ C), HS; reflexivity.
Qed.

Lemma arrays_of_somes_eq C :
  arrays_of C = flat_map (fun v => match v with VArr xs => [xs] | _ => [] end) (somes C).
Proof.
  induction C as [|c C IH]; [reflexivity|].
  destruct c as [v|]; simpl; rewrite IH; [|reflexivity].
  destruct v; reflexivity.
Qed.

Lemma arrays_of_somes C P : somes C = somes P -> arrays_of P = arrays_of C.
Proof. intros HS. rewrite !arrays_of_somes_eq, HS. reflexivity. Qed.

Lemma somes_nil_holds leaf P : leaf None = false -> somes P = [] -> holds leaf P = false.
Proof. intros Hn HS. rewrite (holds_somes leaf [] P Hn); [reflexivity|]. symmetry. exact HS. Qed.

Lemma existsb_arrays_of (f : list value -> bool) C :
  existsb f (arrays_of C) =
  existsb (fun c => match c with Some (VArr xs) => f xs | _ => false end) C.
Proof.
  induction C as [|c C IH]; [reflexivity|].
  destruct c as [v|]; [destruct v|]; simpl; rewrite IH; try reflexivity.
Qed.
