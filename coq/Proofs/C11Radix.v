(* C11: successive stable sorts from the last key to the first (sort_docs) = the
   arrangement by ranks of the specification (spec_sort). *)
From Coq Require Import ZArith List String Bool Ascii Lia Permutation Sorted Arith.
From Verif Require Import Value PyEq BsonOrder Path Filter FilterSpec FilterGuard Update Coll Cursor.
From Verif Require Import C11Sort C11Keys.
Import ListNotations.
Open Scope Z_scope.

(* ------------------------------------------------------------------ total lexicographic order *)
Definition tkey (k : string) (d : value) : value :=
  match spec_key k d with Some x => x | None => VNull end.
Definition kcmp1 (k : string) (a b : value) : comparison := vcmp (tkey k a) (tkey k b).

Fixpoint tlex (spec : list (string * Z)) (a b : value) : comparison :=
  match spec with
  | [] => Eq
  | (k, dir) :: spec' => lex2 (dcmp (dir <? 0) (kcmp1 k)) (tlex spec') a b
  end.

Lemma tpo_kcmp1 k : tpo (kcmp1 k).
Proof. unfold kcmp1. apply (tpo_pull (tkey k)). exact tpo_vcmp. Qed.

Lemma tpo_dcmp {A} r (cmp : A -> A -> comparison) : tpo cmp -> tpo (dcmp r cmp).
Proof.
  intros H. destruct r; [|exact H]. unfold dcmp.
  pose proof (tpo_flip cmp H) as HF. constructor.
  - intros a b. rewrite (tpo_antisym _ H a b). reflexivity.
  - intros a b c. rewrite <- !(tpo_antisym _ H). apply (tpo_eq _ HF).
  - intros a b c. rewrite <- !(tpo_antisym _ H). apply (tpo_lt _ HF).
Qed.

Lemma tpo_tlex spec : tpo (tlex spec).
Proof.
  induction spec as [|[k dir] spec IH]; simpl.
  - constructor; intros; reflexivity || discriminate.
  - apply tpo_lex; [apply tpo_dcmp; apply tpo_kcmp1|exact IH].
Qed.

Lemma lex_cmp_tlex spec a b c : lex_cmp spec a b = Some c -> tlex spec a b = c.
Proof.
  revert c. induction spec as [|[k dir] spec IH]; intros c; simpl.
  - intros H; injection H as <-; reflexivity.
  - unfold lex2, dcmp, kcmp1, tkey.
    destruct (spec_key k a) as [x|]; [|discriminate].
    destruct (spec_key k b) as [y|]; [|discriminate].
    destruct (spec_cmp3 x y) as [c0|] eqn:E; [|discriminate].
    rewrite (spec_cmp3_vcmp _ _ _ E).
    destruct c0; destruct (dir <? 0); simpl; try (intros H; injection H as <-; reflexivity);
      apply IH.
Qed.

(* every sort key of the document is decided by the specification *)
Definition good (spec : list (string * Z)) (d : value) : bool :=
  forallb (fun kd => match spec_key (fst kd) d with Some x => decided x | None => false end) spec.

Lemma lex_cmp_refl_good spec d : lex_cmp spec d d <> None -> good spec d = true.
Proof.
  induction spec as [|[k dir] spec IH]; simpl; [reflexivity|].
  destruct (spec_key k d) as [x|]; [|congruence].
  destruct (spec_cmp3 x x) as [c0|] eqn:E; [|congruence].
  rewrite (spec_cmp3_refl_decided _ _ E). simpl.
  pose proof (spec_cmp3_vcmp _ _ _ E) as Hv. rewrite (tpo_refl vcmp tpo_vcmp) in Hv. subst c0.
  exact IH.
Qed.

Lemma lex_cmp_good spec a b :
  good spec a = true -> good spec b = true -> lex_cmp spec a b = Some (tlex spec a b).
Proof.
  induction spec as [|[k dir] spec IH]; simpl; [reflexivity|].
  unfold lex2, dcmp, kcmp1, tkey.
  destruct (spec_key k a) as [x|]; [|discriminate].
  destruct (spec_key k b) as [y|]; [|discriminate].
  intros Ha Hb. apply andb_prop in Ha, Hb. destruct Ha as [Hx Ha], Hb as [Hy Hb].
  rewrite (spec_cmp3_decided x y Hx Hy).
  destruct (vcmp x y); destruct (dir <? 0); simpl; try reflexivity; apply IH; assumption.
Qed.

(* ------------------------------------------------------------------ the pure radix sort *)
Fixpoint rsort {T} (doc : T -> value) (spec : list (string * Z)) (l : list T) : list T :=
  match spec with
  | [] => l
  | (k, dir) :: spec' =>
      psorted (fun x y => ltb_of (kcmp1 k) (doc x) (doc y)) (dir <? 0) (rsort doc spec' l)
  end.

Lemma rsort_perm {T} (doc : T -> value) spec l : Permutation l (rsort doc spec l).
Proof.
  induction spec as [|[k dir] spec IH]; simpl; [reflexivity|].
  eapply perm_trans; [exact IH|apply psorted_perm].
Qed.

Lemma rsort_map {T} (doc : T -> value) spec l :
  map doc (rsort doc spec l) = rsort (fun x => x) spec (map doc l).
Proof.
  induction spec as [|[k dir] spec IH]; simpl; [reflexivity|].
  rewrite <- IH.
  apply (map_psorted doc (ltb_of (kcmp1 k))).
Qed.

Lemma rsort_sorted {T} (doc : T -> value) (R : T -> T -> Prop) spec l :
  StronglySorted R l ->
  StronglySorted (slt (fun x y => tlex spec (doc x) (doc y)) R) (rsort doc spec l).
Proof.
  intros HS. induction spec as [|[k dir] spec IH]; simpl.
  - eapply SS_impl; [|exact HS]. intros a b Rab. right. split; [reflexivity|exact Rab].
  - pose proof (psorted_sorted (fun x y => kcmp1 k (doc x) (doc y)) _ (dir <? 0) _
                  (tpo_pull doc _ (tpo_kcmp1 k)) IH) as HP.
    eapply SS_impl; [|exact HP].
    intros a b. unfold slt, lex2, dcmp.
    intros [E|[E [E'|[E' Rab]]]]; rewrite E; auto.
Qed.

(* ------------------------------------------------------------------ the model computes it *)
Definition nodollar (spec : list (string * Z)) : bool :=
  negb (existsb (fun kd => (fst kd =? "$natural")%string || starts_dollar (fst kd)) spec).

Lemma sort_lt_good k a b :
  ends_empty (split_dots k) = false ->
  good [(k, 0)] a = true -> good [(k, 0)] b = true ->
  sort_lt (sort_key (split_dots k) a) (sort_key (split_dots k) b) = Ok (ltb_of (kcmp1 k) a b).
Proof.
  intros He Ha Hb. unfold good in Ha, Hb. simpl in Ha, Hb.
  unfold kcmp1, tkey, ltb_of.
  destruct (spec_key k a) as [x|] eqn:Ea; [|discriminate].
  destruct (spec_key k b) as [y|] eqn:Eb; [|discriminate].
  rewrite (spec_key_sort_key k a x He Ea), (spec_key_sort_key k b y He Eb).
  rewrite andb_true_r in Ha, Hb.
  unfold sort_lt. simpl. apply bson_lt_decided; assumption.
Qed.

Lemma good_cons k dir spec d :
  good ((k, dir) :: spec) d = good [(k, 0)] d && good spec d.
Proof. unfold good. simpl. rewrite andb_true_r. reflexivity. Qed.

Lemma sort_docs_rsort spec : forall l,
  nodollar spec = true -> c11_spec_ok spec = true ->
  Forall (fun d => good spec d = true) l ->
  sort_docs spec l = Ok (rsort (fun x => x) spec l).
Proof.
  induction spec as [|[k dir] spec IH]; intros l Hd Hok Hg; [reflexivity|].
  unfold nodollar in Hd. simpl in Hd. rewrite negb_orb in Hd.
  apply andb_prop in Hd. destruct Hd as [Hk Hd].
  rewrite negb_orb in Hk. apply andb_prop in Hk. destruct Hk as [Hnat Hdol].
  apply negb_true_iff in Hnat, Hdol.
  simpl in Hok. apply andb_prop in Hok. destruct Hok as [Hkok Hok].
  unfold c11_key_ok in Hkok. apply andb_prop in Hkok. destruct Hkok as [Hpm Hee].
  apply negb_true_iff in Hee.
  assert (Hg1 : Forall (fun d => good [(k, 0)] d = true) l /\ Forall (fun d => good spec d = true) l).
  { split; (eapply Forall_impl; [|exact Hg]); cbv beta; intros d Hgd; rewrite good_cons in Hgd;
      apply andb_prop in Hgd; tauto. }
  destruct Hg1 as [Hgk Hgs].
  cbn [sort_docs]. rewrite (IH l Hd Hok Hgs). cbn [bind].
  rewrite Hnat, Hdol, Hpm. cbn [negb].
  cbn [rsort].
  apply py_sorted_pure. intros x y Hx Hy.
  assert (HP : Permutation l (rsort (fun x => x) spec l)) by apply rsort_perm.
  rewrite Forall_forall in Hgk.
  apply sort_lt_good; [exact Hee| |]; apply Hgk; eapply Permutation_in; try (apply Permutation_sym; exact HP); assumption.
Qed.

(* ------------------------------------------------------------------ the specification side *)
Section BeforeGo.
Variables (spec : list (string * Z)) (di : value) (i : nat).
Fixpoint before_go (l : list value) (j : nat) : option nat :=
  match l with
  | [] => Some O
  | dj :: l' =>
      match lex_cmp spec dj di, before_go l' (S j) with
      | Some c, Some n =>
          Some (match c with
                | Lt => S n
                | Eq => if Nat.ltb j i then S n else n
                | Gt => n
                end)
      | _, _ => None
      end
  end.
End BeforeGo.

Lemma before_eq spec l i di : before spec l i di = before_go spec di i l O.
Proof. reflexivity. Qed.

Section AtRankGo.
Variables (spec : list (string * Z)) (l : list value) (p : nat).
Fixpoint at_rank_go (il : list (nat * value)) : option value :=
  match il with
  | [] => None
  | (i, d) :: il' =>
      match before spec l i d with
      | Some r => if Nat.eqb r p then Some d else at_rank_go il'
      | None => None
      end
  end.
End AtRankGo.

Lemma at_rank_eq spec l p : at_rank spec l p = at_rank_go spec l p (index_list l O).
Proof. reflexivity. Qed.

Section RanksGo.
Variables (spec : list (string * Z)) (l : list value).
Fixpoint ranks_go (ps : list nat) : option (list value) :=
  match ps with
  | [] => Some []
  | p :: ps' => match at_rank spec l p, ranks_go ps' with
                | Some d, Some r => Some (d :: r)
                | _, _ => None
                end
  end.
End RanksGo.

Lemma spec_sort_eq spec l :
  spec_sort spec l =
  if negb (nodollar spec) then None else ranks_go spec l (seq 0 (List.length l)).
Proof. unfold nodollar. rewrite negb_involutive. reflexivity. Qed.

(* "must come before", on documents tagged with their natural position *)
Definition tcmp (spec : list (string * Z)) (x y : nat * value) : comparison :=
  tlex spec (snd x) (snd y).
Definition rnat (x y : nat * value) : Prop := (fst x < fst y)%nat.
Definition tb (spec : list (string * Z)) (y x : nat * value) : bool :=
  match tcmp spec y x with
  | Lt => true
  | Eq => Nat.ltb (fst y) (fst x)
  | Gt => false
  end.

Lemma tb_slt spec y x : tb spec y x = true <-> slt (tcmp spec) rnat y x.
Proof.
  unfold tb, slt, rnat. destruct (tcmp spec y x).
  - rewrite Nat.ltb_lt. split; [intros H; right; split; [reflexivity|exact H]|].
    intros [H|[_ H]]; [discriminate|exact H].
  - split; [intros _; left; reflexivity|reflexivity].
  - split; [discriminate|]. intros [H|[H _]]; discriminate.
Qed.

Lemma slt_asym spec x y : slt (tcmp spec) rnat x y -> slt (tcmp spec) rnat y x -> False.
Proof.
  unfold slt, rnat, tcmp.
  rewrite (tpo_antisym _ (tpo_tlex spec) (snd x) (snd y)).
  destruct (tlex spec (snd x) (snd y)); simpl;
    intros [H1|[H1 R1]] [H2|[H2 R2]]; try discriminate. lia.
Qed.

Lemma before_go_count spec di i : forall l j r,
  before_go spec di i l j = Some r ->
  r = List.length (List.filter (fun y => tb spec y (i, di)) (index_list l j)) /\
  Forall (fun dj => lex_cmp spec dj di <> None) l.
Proof.
  induction l as [|dj l IH]; intros j r; simpl.
  - intros H; injection H as <-. split; [reflexivity|constructor].
  - destruct (lex_cmp spec dj di) as [c|] eqn:E; [|discriminate].
    destruct (before_go spec di i l (S j)) as [n|] eqn:En; [|discriminate].
    intros H; injection H as <-.
    destruct (IH (S j) n En) as [-> HF].
    split; [|constructor; [congruence|exact HF]].
    assert (Htb : tb spec (j, dj) (i, di) =
                  match c with Lt => true | Eq => Nat.ltb j i | Gt => false end).
    { unfold tb, tcmp. simpl. rewrite (lex_cmp_tlex _ _ _ _ E). reflexivity. }
    simpl. rewrite Htb.
    destruct c; [destruct (Nat.ltb j i)|..]; reflexivity.
Qed.

Lemma at_rank_go_some spec l p : forall il d,
  at_rank_go spec l p il = Some d ->
  exists i, In (i, d) il /\ before spec l i d = Some p.
Proof.
  induction il as [|[i d'] il IH]; intros d; simpl; [discriminate|].
  destruct (before spec l i d') as [r|] eqn:E; [|discriminate].
  destruct (Nat.eqb r p) eqn:Er.
  - intros H; injection H as <-. apply Nat.eqb_eq in Er. subst r.
    exists i. split; [left; reflexivity|exact E].
  - intros H. destruct (IH d H) as [i' [Hin Hb]]. exists i'. split; [right; exact Hin|exact Hb].
Qed.

Lemma ranks_go_seq spec l : forall n s L,
  ranks_go spec l (seq s n) = Some L ->
  List.length L = n /\
  forall q, (q < n)%nat -> exists d, nth_error L q = Some d /\ at_rank spec l (s + q) = Some d.
Proof.
  induction n as [|n IH]; intros s L; simpl.
  - intros H; injection H as <-. split; [reflexivity|]. intros q Hq. lia.
  - destruct (at_rank spec l s) as [d|] eqn:E; [|discriminate].
    destruct (ranks_go spec l (seq (S s) n)) as [r|] eqn:Er; [|discriminate].
    intros H; injection H as <-.
    destruct (IH (S s) r Er) as [Hlen Hq].
    split; [simpl; congruence|].
    intros [|q] Hlt.
    + exists d. rewrite Nat.add_0_r. split; [reflexivity|exact E].
    + destruct (Hq q ltac:(lia)) as [d' [H1 H2]]. exists d'. split; [exact H1|].
      rewrite <- H2. f_equal. lia.
Qed.

Lemma index_list_snd {A} (l : list A) : forall j, map snd (index_list l j) = l.
Proof. induction l as [|x l IH]; intros j; simpl; [reflexivity|]. rewrite IH. reflexivity. Qed.

Lemma index_list_length {A} (l : list A) : forall j, List.length (index_list l j) = List.length l.
Proof. induction l as [|x l IH]; intros j; simpl; [reflexivity|]. rewrite IH. reflexivity. Qed.

Lemma index_list_sorted (l : list value) : forall j,
  Forall (fun x => (j <= fst x)%nat) (index_list l j) /\ StronglySorted rnat (index_list l j).
Proof.
  induction l as [|x l IH]; intros j; simpl; [split; constructor|].
  destruct (IH (S j)) as [HF HS]. split.
  - constructor; [simpl; lia|]. eapply Forall_impl; [|exact HF]. simpl. intros; lia.
  - constructor; [exact HS|]. eapply Forall_impl; [|exact HF]. unfold rnat. simpl. intros; lia.
Qed.

Lemma SS_nth {A} (R : A -> A -> Prop) : forall s p q x y,
  StronglySorted R s -> (p < q)%nat ->
  nth_error s p = Some x -> nth_error s q = Some y -> R x y.
Proof.
  induction s as [|z s IH]; intros p q x y HS Hlt Hp Hq; [destruct p; discriminate|].
  inversion HS as [|? ? HS' HF]; subst.
  destruct q as [|q]; [lia|]. simpl in Hq.
  destruct p as [|p]; simpl in Hp.
  - injection Hp as ->. rewrite Forall_forall in HF. apply HF. eapply nth_error_In. exact Hq.
  - eapply (IH p q); try eassumption. lia.
Qed.

(* the tagged result of the radix sort *)
Definition tsorted (spec : list (string * Z)) (l : list value) : list (nat * value) :=
  rsort snd spec (index_list l O).

Lemma tsorted_perm spec l : Permutation (index_list l O) (tsorted spec l).
Proof. apply rsort_perm. Qed.

Lemma tsorted_sorted spec l : StronglySorted (slt (tcmp spec) rnat) (tsorted spec l).
Proof. apply (rsort_sorted snd rnat spec). apply index_list_sorted. Qed.

Lemma tsorted_snd spec l : map snd (tsorted spec l) = rsort (fun x => x) spec l.
Proof. unfold tsorted. rewrite rsort_map, index_list_snd. reflexivity. Qed.

Lemma spec_sort_tsorted spec l L :
  spec_sort spec l = Some L ->
  nodollar spec = true /\ L = map snd (tsorted spec l) /\
  Forall (fun d => good spec d = true) l.
Proof.
  rewrite spec_sort_eq. destruct (nodollar spec) eqn:Hd; [|discriminate]. simpl.
  intros HL. split; [reflexivity|].
  destruct (ranks_go_seq spec l _ _ _ HL) as [Hlen Hq].
  set (il := index_list l O) in *. set (S' := tsorted spec l).
  assert (HP : Permutation il S') by apply tsorted_perm.
  assert (HS : StronglySorted (slt (tcmp spec) rnat) S') by apply tsorted_sorted.
  assert (HlenS : List.length S' = List.length l).
  { rewrite <- (Permutation_length HP). apply index_list_length. }
  (* the element of rank q is at position q of the sorted list *)
  assert (Hpos : forall q, (q < List.length l)%nat ->
            exists i d, nth_error L q = Some d /\ nth_error S' q = Some (i, d) /\
                        Forall (fun dj => lex_cmp spec dj d <> None) l).
  { intros q Hlt. destruct (Hq q Hlt) as [d [HLq Har]]. simpl in Har.
    rewrite at_rank_eq in Har. destruct (at_rank_go_some _ _ _ _ _ Har) as [i [Hin Hb]].
    rewrite before_eq in Hb. destruct (before_go_count _ _ _ _ _ _ Hb) as [Hcnt HF].
    fold il in Hcnt.
    assert (HinS : In (i, d) S') by (eapply Permutation_in; [exact HP|exact Hin]).
    destruct (In_nth_error _ _ HinS) as [q' Hq'].
    pose proof (SS_rank _ (tb spec) (tb_slt spec) (slt_asym spec) S' q' (i, d) HS Hq') as Hr.
    rewrite <- (filter_length_perm _ _ _ HP) in Hr.
    exists i, d. split; [exact HLq|]. split; [|exact HF]. congruence. }
  split.
  - apply nth_error_ext. intros q.
    destruct (Nat.lt_ge_cases q (List.length l)) as [Hlt|Hge].
    + destruct (Hpos q Hlt) as [i [d [H1 [H2 _]]]].
      rewrite H1. symmetry. rewrite (map_nth_error snd q S' H2). reflexivity.
    + transitivity (@None value); [apply nth_error_None; lia|].
      symmetry. apply nth_error_None. rewrite map_length. lia.
  - apply Forall_forall. intros d Hd'.
    assert (Hin : exists i, In (i, d) il).
    { rewrite <- (index_list_snd l O) in Hd'. fold il in Hd'.
      apply in_map_iff in Hd'. destruct Hd' as [[i d0] [E Hi]]. simpl in E. subst d0.
      exists i. exact Hi. }
    destruct Hin as [i Hin].
    assert (HinS : In (i, d) S') by (eapply Permutation_in; [exact HP|exact Hin]).
    destruct (In_nth_error _ _ HinS) as [q Hq'].
    assert (Hlt : (q < List.length l)%nat).
    { rewrite <- HlenS. apply nth_error_Some. congruence. }
    destruct (Hpos q Hlt) as [i' [d' [_ [H2 HF]]]].
    rewrite Hq' in H2. injection H2 as -> ->.
    apply lex_cmp_refl_good. rewrite Forall_forall in HF. apply HF.
    rewrite <- (index_list_snd l O). apply in_map_iff. exists (i', d'). split; [reflexivity|exact Hin].
Qed.

(* ------------------------------------------------------------------ target 2 *)
Lemma sort_radix spec l L :
  spec_sort spec l = Some L -> c11_spec_ok spec = true -> sort_docs spec l = Ok L.
Proof.
  intros HL Hok. destruct (spec_sort_tsorted _ _ _ HL) as [Hd [-> Hg]].
  rewrite tsorted_snd. apply sort_docs_rsort; assumption.
Qed.

(* ------------------------------------------------------------------ target 1 *)
Lemma spec_sort_meaning spec l L :
  spec_sort spec l = Some L ->
  Permutation l L /\
  (forall p a b, nth_error L p = Some a -> nth_error L (S p) = Some b ->
                 lex_cmp spec a b = Some Lt \/ lex_cmp spec a b = Some Eq) /\
  exists il, Permutation (index_list l O) il /\ map snd il = L /\
    forall p q i a j b, (p < q)%nat ->
      nth_error il p = Some (i, a) -> nth_error il q = Some (j, b) ->
      lex_cmp spec a b = Some Lt \/ (lex_cmp spec a b = Some Eq /\ (i < j)%nat).
Proof.
  intros HL. destruct (spec_sort_tsorted _ _ _ HL) as [Hd [-> Hg]].
  pose proof (tsorted_perm spec l) as HP. pose proof (tsorted_sorted spec l) as HS.
  assert (Hpair : forall p q i a j b, (p < q)%nat ->
      nth_error (tsorted spec l) p = Some (i, a) -> nth_error (tsorted spec l) q = Some (j, b) ->
      lex_cmp spec a b = Some Lt \/ (lex_cmp spec a b = Some Eq /\ (i < j)%nat)).
  { intros p q i a j b Hlt Hp Hq.
    assert (Hga : good spec a = true /\ good spec b = true).
    { rewrite Forall_forall in Hg. split; apply Hg; rewrite <- (index_list_snd l O).
      - apply in_map_iff. exists (i, a). split; [reflexivity|].
        eapply Permutation_in; [apply Permutation_sym; exact HP|eapply nth_error_In; exact Hp].
      - apply in_map_iff. exists (j, b). split; [reflexivity|].
        eapply Permutation_in; [apply Permutation_sym; exact HP|eapply nth_error_In; exact Hq]. }
    destruct Hga as [Hga Hgb]. rewrite (lex_cmp_good spec a b Hga Hgb).
    pose proof (SS_nth _ _ p q _ _ HS Hlt Hp Hq) as Hs.
    unfold slt, tcmp, rnat in Hs. simpl in Hs.
    destruct Hs as [E|[E Hij]]; rewrite E; auto. }
  split; [|split].
  - rewrite <- (index_list_snd l O) at 1. apply Permutation_map. exact HP.
  - intros p a b Ha Hb.
    destruct (nth_error (tsorted spec l) p) as [[i a']|] eqn:Ea;
      [|rewrite nth_error_map, Ea in Ha; discriminate].
    destruct (nth_error (tsorted spec l) (S p)) as [[j b']|] eqn:Eb;
      [|rewrite nth_error_map, Eb in Hb; discriminate].
    rewrite nth_error_map, Ea in Ha. rewrite nth_error_map, Eb in Hb.
    simpl in Ha, Hb. injection Ha as <-. injection Hb as <-.
    destruct (Hpair p (S p) i a' j b' ltac:(lia) Ea Eb) as [H|[H _]]; auto.
  - exists (tsorted spec l). split; [exact HP|]. split; [reflexivity|exact Hpair].
Qed.

(* ------------------------------------------------------------------ uniqueness *)
Lemma pairwise_SS {A} (R : A -> A -> Prop) : forall s,
  (forall p q x y, (p < q)%nat -> nth_error s p = Some x -> nth_error s q = Some y -> R x y) ->
  StronglySorted R s.
Proof.
  induction s as [|z s IH]; intros H; constructor.
  - apply IH. intros p q x y Hlt Hp Hq. apply (H (S p) (S q)); [lia|exact Hp|exact Hq].
  - apply Forall_forall. intros y Hy. destruct (In_nth_error _ _ Hy) as [q Hq].
    apply (H O (S q)); [lia|reflexivity|exact Hq].
Qed.

(* the ordered-and-stable arrangement of the tagged documents, as a relation *)
Definition ordered_stable (spec : list (string * Z)) (il : list (nat * value)) : Prop :=
  forall p q i a j b, (p < q)%nat ->
    nth_error il p = Some (i, a) -> nth_error il q = Some (j, b) ->
    lex_cmp spec a b = Some Lt \/ (lex_cmp spec a b = Some Eq /\ (i < j)%nat).

Lemma ordered_stable_unique spec l il1 il2 :
  Permutation (index_list l O) il1 -> Permutation (index_list l O) il2 ->
  ordered_stable spec il1 -> ordered_stable spec il2 -> il1 = il2.
Proof.
  intros P1 P2 H1 H2.
  set (R := fun x y : nat * value =>
              lex_cmp spec (snd x) (snd y) = Some Lt \/
              (lex_cmp spec (snd x) (snd y) = Some Eq /\ (fst x < fst y)%nat)).
  assert (Hasym : forall x y, R x y -> R y x -> False).
  { intros x y Hxy Hyx.
    apply (slt_asym spec x y); unfold slt, tcmp, rnat.
    - destruct Hxy as [E|[E Hl]]; rewrite (lex_cmp_tlex _ _ _ _ E); auto.
    - destruct Hyx as [E|[E Hl]]; rewrite (lex_cmp_tlex _ _ _ _ E); auto. }
  apply (SS_unique R Hasym).
  - apply pairwise_SS. intros p q [i a] [j b]. apply H1.
  - apply pairwise_SS. intros p q [i a] [j b]. apply H2.
  - eapply perm_trans; [apply Permutation_sym; exact P1|exact P2].
Qed.
