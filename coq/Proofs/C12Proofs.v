(* C12 proofs, part 5: reading the specification, unfolding _copy_only_fields, assembly. *)
From Coq Require Import ZArith List String Bool Ascii Lia.
From Verif Require Import Value PyEq BsonOrder Path Filter Update Project Coll ProjectSpec.
From Verif.Proofs Require Import C01Values C12Base C12Combine C12Project C12Ops.
Import ListNotations.
Open Scope Z_scope.
Open Scope string_scope.
Open Scope list_scope.

(* ---------------------------------------------------------------- the parts of a specification *)
Definition plain_of (fs : list (string * value)) : list (string * value) :=
  List.filter (fun kv => negb (is_doc (snd kv))) (del_key "_id" fs).
Definition ops_of (fs : list (string * value)) : list (string * list (string * value)) :=
  flat_map (fun kv => match snd kv with VDoc o => [(fst kv, o)] | _ => [] end) (del_key "_id" fs).
Definition idf_of (fs : list (string * value)) : option bool :=
  match assoc "_id" fs with Some v => flag_of v | None => Some true end.

Lemma read_spec_inv fs ps :
  read_spec (VDoc fs) = Some ps ->
  exists idb incl,
    idf_of fs = Some idb /\
    (forall kv, In kv (plain_of fs) -> flag_of (snd kv) = Some incl) /\
    collide (pathsof (plain_of fs)) = false /\
    nodollar (pathsof (plain_of fs)) /\
    (forall ko, In ko (ops_of fs) ->
                below (fst ko) (pathsof (plain_of fs)) = [] /\ op_shape ko) /\
    plain_of fs <> [] /\
    ps = mkPS (if incl then PInclude else PExclude) (pathsof (plain_of fs)) idb (ops_of fs).
Proof.
  unfold read_spec. fold (idf_of fs) (ops_of fs) (plain_of fs).
  change (map (fun kv : string * value => split_dots (fst kv)) (plain_of fs))
    with (pathsof (plain_of fs)).
  set (flags := map (fun kv : string * value => flag_of (snd kv)) (plain_of fs)).
  destruct (idf_of fs) as [idb|]; [|discriminate].
  destruct (existsb (fun f => match f with None => true | _ => false end) flags) eqn:E1; [discriminate|].
  remember (existsb (fun f => match f with Some true => true | _ => false end) flags) as incl eqn:Hincl.
  match goal with |- (if ?c then _ else _) = _ -> _ => destruct c eqn:E2; [discriminate|] end.
  match goal with |- (if ?c then _ else _) = _ -> _ => destruct c eqn:E3; [discriminate|] end.
  match goal with |- (if ?c then _ else _) = _ -> _ => destruct c eqn:E4; [discriminate|] end.
  match goal with |- (if ?c then _ else _) = _ -> _ => destruct c eqn:E5; [discriminate|] end.
  match goal with |- (if ?c then _ else _) = _ -> _ => destruct c eqn:E6; [discriminate|] end.
  destruct (plain_of fs) as [|kv0 pl] eqn:Epl; [discriminate|].
  intro H. inversion H; subst ps. clear H.
  exists idb, incl. split; [reflexivity|]. split; [|split; [reflexivity|split; [|split; [|split; [discriminate|reflexivity]]]]].
  - intros kv Hkv.
    assert (Hin : In (flag_of (snd kv)) flags)
      by (unfold flags; apply (in_map (fun kv : string * value => flag_of (snd kv))); exact Hkv).
    pose proof (existsb_false_In _ _ E1 _ Hin) as N1.
    destruct (flag_of (snd kv)) as [[|]|] eqn:Ef; [| |discriminate N1].
    + assert (incl = true)
        by (rewrite Hincl; apply existsb_exists; eexists; split; [exact Hin|reflexivity]).
      congruence.
    + destruct incl; [|reflexivity]. cbn [andb] in E2.
      pose proof (existsb_false_In _ _ E2 _ Hin) as N2. discriminate N2.
  - intros p Hp Hd. pose proof (existsb_false_In _ _ E4 _ Hp) as N.
    pose proof (existsb_false_In _ _ N _ Hd) as N'. discriminate N'.
  - intros ko Hko. pose proof (existsb_false_In _ _ E5 _ Hko) as N5.
    pose proof (existsb_false_In _ _ E6 _ Hko) as N6.
    apply orb_false_iff in N5. destruct N5 as [_ N5].
    apply orb_false_iff in N6. destruct N6 as [N6 N7].
    apply negb_false_iff in N6, N7. apply Nat.eqb_eq in N7.
    split.
    + destruct (below (fst ko) (pathsof (kv0 :: pl))) as [|r sub] eqn:Eb; [reflexivity|]. exfalso.
      assert (Hr : In r (below (fst ko) (pathsof (kv0 :: pl)))) by (rewrite Eb; left; reflexivity).
      apply In_below in Hr. pose proof (existsb_false_In _ _ N5 _ Hr) as N. simpl in N.
      rewrite String.eqb_refl in N. discriminate N.
    + destruct (snd ko) as [|[name arg] [|? ?]] eqn:Es; try discriminate N7.
      exists name, arg. split; [exact Es|]. simpl in N6. rewrite andb_true_r in N6.
      apply orb_true_iff in N6. destruct N6 as [N6|N6].
      * left. apply String.eqb_eq. exact N6.
      * rewrite orb_false_r in N6. right. apply String.eqb_eq. exact N6.
Qed.

Ltac flag_fin := simpl; intros; first [congruence | match goal with H : Some _ = Some _ |- _ => inversion H; reflexivity end].

Lemma flag_truthy v b : flag_of v = Some b -> truthy v = b.
Proof.
  destruct v as [|c|z| | | | | |]; try discriminate.
  - destruct c; flag_fin.
  - destruct z as [|[q|q|]|q]; flag_fin.
Qed.

Lemma flag_py_eq a c b : flag_of a = Some b -> flag_of c = Some b -> py_eq c a = true.
Proof.
  destruct a as [|x|z| | | | | |]; try discriminate;
    destruct c as [|y|w| | | | | |]; try discriminate.
  - destruct x, y; flag_fin.
  - destruct x; destruct w as [|[q|q|]|q]; flag_fin.
  - destruct y; destruct z as [|[q|q|]|q]; flag_fin.
  - destruct z as [|[q|q|]|q]; destruct w as [|[q'|q'|]|q']; flag_fin.
Qed.

Lemma flag_py_eq0 v b : flag_of v = Some b -> py_eq v (VInt 0) = negb b.
Proof.
  destruct v as [|c|z| | | | | |]; try discriminate.
  - destruct c; flag_fin.
  - destruct z as [|[q|q|]|q]; flag_fin.
Qed.

Lemma flag_scalar v b :
  flag_of v = Some b -> match v with VInt _ | VBool _ | VDbl _ => false | _ => true end = false.
Proof. destruct v; try discriminate; reflexivity. Qed.

(* ---------------------------------------------------------------- unfolding the model *)
Definition with_id_model (idb : bool) (dfs c : list (string * value)) : list (string * value) :=
  if idb then match assoc "_id" dfs with Some i => set_key "_id" i c | None => c end
  else del_key "_id" c.

Definition cof_body (dfs fs : list (string * value)) : res value :=
  let id_value := match assoc "_id" fs with Some v => v | None => VInt 1 end in
  let ops := List.filter (fun kv => is_doc (snd kv)) (del_key "_id" fs) in
  let fields2 := plain_of fs in
  if existsb (fun kv => match snd kv with
                        | VDoc o => existsb (fun ov => negb (mem_str (fst ov) ["$elemMatch"; "$slice"])) o
                        | _ => false end) ops
  then Err EValue else
  if mixed_values fields2 then Err EValue else
  if existsb (fun kv => match snd kv with
                        | VInt _ | VBool _ | VDbl _ => false | _ => true end) fields2
  then Err EUnmodelled else
  let! copy0 :=
    match fields2 with
    | [] => if py_eq id_value (VInt 1) then Ok [] else Ok dfs
    | (_, first) :: _ =>
        let! spec := combine_spec (S (spec_depth fields2)) fields2 in
        project_by_spec spec (truthy first) dfs
    end in
  let copy1 := if py_eq id_value (VInt 0) then del_key "_id" copy0
               else match assoc "_id" dfs with
                    | Some i => set_key "_id" i copy0
                    | None => copy0
                    end in
  let! copy2 := fold_left (model_step dfs) ops (Ok copy1) in
  Ok (VDoc copy2).

Lemma cof_nonempty dfs fs :
  fs <> [] -> copy_only_fields (VDoc dfs) (Some (VDoc fs)) = cof_body dfs fs.
Proof. destruct fs; [intro H; contradiction H; reflexivity|]. intros _. reflexivity. Qed.

Lemma filter_ops rest :
  List.filter (fun kv : string * value => is_doc (snd kv)) rest
  = map (fun ko => (fst ko, VDoc (snd ko)))
        (flat_map (fun kv : string * value =>
                     match snd kv with VDoc o => [(fst kv, o)] | _ => [] end) rest).
Proof.
  induction rest as [|[k v] rest IH]; [reflexivity|].
  simpl. destruct v; simpl; rewrite ?IH; reflexivity.
Qed.

Lemma model_unfold dfs fs idb incl :
  idf_of fs = Some idb ->
  (forall kv, In kv (plain_of fs) -> flag_of (snd kv) = Some incl) ->
  (forall ko, In ko (ops_of fs) -> op_shape ko) ->
  plain_of fs <> [] ->
  copy_only_fields (VDoc dfs) (Some (VDoc fs)) =
  (let! copy0 := (let! spec := combine_spec (S (spec_depth (plain_of fs))) (plain_of fs) in
                  project_by_spec spec incl dfs) in
   let! copy2 := fold_left (model_step dfs) (map (fun ko => (fst ko, VDoc (snd ko))) (ops_of fs))
                           (Ok (with_id_model idb dfs copy0)) in
   Ok (VDoc copy2)).
Proof.
  intros Hid Hfl Hsh Hne.
  rewrite cof_nonempty.
  2:{ intro H. subst fs. apply Hne. reflexivity. }
  unfold cof_body. cbv zeta. rewrite filter_ops. fold (ops_of fs).
  (* the operator names are known *)
  rewrite (existsb_all_false _ (map _ (ops_of fs))).
  2:{ intros kv Hkv. apply in_map_iff in Hkv. destruct Hkv as [ko [Hk Hko]]. subst kv. cbn [snd].
      destruct (Hsh _ Hko) as [name [arg [Hs Hn]]]. rewrite Hs.
      destruct Hn; subst name; reflexivity. }
  (* one mode *)
  assert (Hmix : mixed_values (plain_of fs) = false).
  { unfold mixed_values. destruct (plain_of fs) as [|[k1 v1] pl] eqn:Epl; [reflexivity|].
    apply existsb_all_false. intros kv Hkv. apply negb_false_iff.
    eapply flag_py_eq.
    - apply (Hfl (k1, v1)). left. reflexivity.
    - apply Hfl. right. exact Hkv. }
  rewrite Hmix.
  rewrite (existsb_all_false _ (plain_of fs)).
  2:{ intros kv Hkv. eapply flag_scalar. apply Hfl. exact Hkv. }
  assert (Hidv : py_eq match assoc "_id" fs with Some v => v | None => VInt 1 end (VInt 0) = negb idb).
  { unfold idf_of in Hid. destruct (assoc "_id" fs) as [v|].
    - apply flag_py_eq0. exact Hid.
    - inversion Hid. reflexivity. }
  rewrite Hidv.
  destruct (plain_of fs) as [|[k1 v1] pl] eqn:Epl; [contradiction Hne; reflexivity|].
  rewrite (flag_truthy v1 incl) by (apply (Hfl (k1, v1)); left; reflexivity).
  unfold with_id_model. destruct idb; reflexivity.
Qed.

(* ---------------------------------------------------------------- _id *)
Definition with_id_spec (idb : bool) (dfs b : list (string * value)) : list (string * value) :=
  if idb then match assoc "_id" dfs with
              | Some i => ("_id", i) :: del_key "_id" b
              | None => del_key "_id" b
              end
  else del_key "_id" b.

Definition id_view (idb : bool) (dfs l l' : list (string * value)) : Prop :=
  NoDup (map fst l') /\
  forall k, assoc k l' = if k =? "_id" then (if idb then assoc "_id" dfs else None) else assoc k l.

Lemma with_id_model_view idb dfs c :
  NoDup (map fst c) -> (assoc "_id" dfs = None -> assoc "_id" c = None) ->
  id_view idb dfs c (with_id_model idb dfs c).
Proof.
  intros Hn Hc. unfold with_id_model. destruct idb.
  - destruct (assoc "_id" dfs) as [i|] eqn:E.
    + split; [apply NoDup_set_key; exact Hn|]. intro k. rewrite assoc_set_key, E. reflexivity.
    + split; [exact Hn|]. intro k. destruct (k =? "_id") eqn:Ek; [|reflexivity].
      apply String.eqb_eq in Ek. subst k. rewrite E. apply Hc. reflexivity.
  - split; [apply NoDup_del_key; exact Hn|]. intro k. apply assoc_del_key. exact Hn.
Qed.

Lemma with_id_spec_view idb dfs b :
  NoDup (map fst b) -> id_view idb dfs b (with_id_spec idb dfs b).
Proof.
  intros Hn. unfold with_id_spec.
  assert (Hd : id_view false dfs b (del_key "_id" b)).
  { split; [apply NoDup_del_key; exact Hn|]. intro k. apply assoc_del_key. exact Hn. }
  destruct idb; [|exact Hd].
  destruct (assoc "_id" dfs) as [i|] eqn:E.
  - split.
    + simpl. constructor; [|apply NoDup_del_key; exact Hn].
      apply assoc_None_notin. rewrite assoc_del_key by exact Hn. reflexivity.
    + intro k. simpl. destruct (k =? "_id") eqn:Ek; [symmetry; exact E|].
      rewrite assoc_del_key by exact Hn. rewrite Ek. reflexivity.
  - destruct Hd as [Hd1 Hd2]. split; [exact Hd1|]. intro k. rewrite Hd2, E.
    destruct (k =? "_id"); reflexivity.
Qed.

(* ---------------------------------------------------------------- operator fields as paths *)
Lemma ops_of_keys fs f : In f (map fst (ops_of fs)) -> In f (map fst (del_key "_id" fs)).
Proof.
  unfold ops_of. induction (del_key "_id" fs) as [|[k v] rest IH]; simpl; [tauto|].
  destruct v; simpl; auto. intros [H|H]; auto.
Qed.

Lemma ops_of_NoDup fs : NoDup (map fst fs) -> NoDup (map fst (ops_of fs)).
Proof.
  intro H. apply (NoDup_del_key "_id") in H. unfold ops_of.
  induction (del_key "_id" fs) as [|[k v] rest IH]; simpl; [constructor|].
  inversion H as [|? ? Hni Hnd]; subst.
  assert (Hsub : forall f, In f (map fst (flat_map (fun kv : string * value =>
                     match snd kv with VDoc o => [(fst kv, o)] | _ => [] end) rest)) ->
                           In f (map fst rest)).
  { clear. induction rest as [|[k v] rest IH]; simpl; [tauto|].
    destruct v; simpl; auto. intros f [H|H]; auto. }
  destruct v; simpl; try (apply IH; exact Hnd).
  constructor; [|apply IH; exact Hnd]. intro Hin. apply Hni. apply Hsub. exact Hin.
Qed.

Lemma ops_of_no_id fs : NoDup (map fst fs) -> ~ In "_id" (map fst (ops_of fs)).
Proof.
  intros H Hin. apply ops_of_keys in Hin. revert Hin. apply assoc_None_notin.
  rewrite assoc_del_key by exact H. reflexivity.
Qed.

Definition extra_of (ops : list (string * list (string * value))) : list (list string) :=
  map (fun ko => [fst ko]) ops.

Lemma below_extra_mem k ops :
  mem_str k (map fst ops) = true -> below k (extra_of ops) <> [] /\ names_whole (below k (extra_of ops)) = true.
Proof.
  intro H. apply mem_str_In in H.
  assert (Hin : In [] (below k (extra_of ops))).
  { apply In_below. unfold extra_of. apply in_map_iff in H. destruct H as [ko [Hk Hko]]. subst k.
    apply in_map_iff. exists ko. split; [reflexivity|exact Hko]. }
  split; [intro E; rewrite E in Hin; exact Hin|apply names_whole_In; exact Hin].
Qed.

Lemma below_extra_nomem k ops : mem_str k (map fst ops) = false -> below k (extra_of ops) = [].
Proof.
  intro H. apply mem_str_false in H.
  destruct (below k (extra_of ops)) as [|r sub] eqn:E; [reflexivity|]. exfalso. apply H.
  assert (Hin : In r (below k (extra_of ops))) by (rewrite E; left; reflexivity).
  apply In_below in Hin. unfold extra_of in Hin. apply in_map_iff in Hin.
  destruct Hin as [ko [Hk Hko]]. inversion Hk; subst. apply in_map. exact Hko.
Qed.

(* ---------------------------------------------------------------- assembly *)
Definition out_view (idb incl : bool) (dfs : list (string * value)) (P : list (list string))
           (k : string) : option value :=
  if k =? "_id" then (if idb then assoc "_id" dfs else None)
  else match assoc k dfs with
       | Some x => pref_opt incl (depth (VDoc dfs)) P k x
       | None => None
       end.

Lemma c12_main dfs fs s :
  project_spec (VDoc dfs) (VDoc fs) = Some s ->
  c12_reasons (VDoc dfs) (VDoc fs) = 0 ->
  NoDup (map fst dfs) -> NoDup (map fst fs) ->
  exists (ps : pspecification) (idb incl : bool) (out sfs : list (string * value)),
    read_spec (VDoc fs) = Some ps /\
    ps = mkPS (if incl then PInclude else PExclude) (pathsof (plain_of fs)) idb (ops_of fs) /\
    copy_only_fields (VDoc dfs) (Some (VDoc fs)) = Ok (VDoc out) /\
    s = VDoc sfs /\ NoDup (map fst out) /\ NoDup (map fst sfs) /\
    (forall k, assoc k sfs = assoc k out) /\
    (ops_of fs = [] -> forall k, assoc k out = out_view idb incl dfs (pathsof (plain_of fs)) k).
Proof.
  intros Hspec Hg Hnd Hnp.
  unfold project_spec in Hspec. unfold c12_reasons in Hg.
  destruct (read_spec (VDoc fs)) as [ps|] eqn:Ers; [|discriminate Hspec].
  destruct (read_spec_inv _ _ Ers) as [idb [incl [Hid [Hfl [Hcol [Hdol [Hops [Hne Hps]]]]]]]].
  exists ps, idb, incl.
  set (P := pathsof (plain_of fs)) in *. set (D := depth (VDoc dfs)) in *.
  (* the guard *)
  assert (Hg1 : nested_hits_scalar (S D) P (VDoc dfs) = false).
  { subst ps. cbn [ps_paths ps_ops] in Hg. destruct (nested_hits_scalar (S D) P (VDoc dfs)); [|reflexivity].
    destruct (slice_neg_overshoot (VDoc dfs) (ops_of fs)); discriminate Hg. }
  assert (Hg4 : existsb (overshoot1 dfs) (ops_of fs) = false).
  { subst ps. cbn [ps_paths ps_ops] in Hg. rewrite <- slice_neg_overshoot_eq.
    destruct (slice_neg_overshoot (VDoc dfs) (ops_of fs)); [|reflexivity].
    destruct (nested_hits_scalar (S D) P (VDoc dfs)); discriminate Hg. }
  (* the model *)
  rewrite (model_unfold dfs fs idb incl Hid Hfl (fun ko H => proj2 (Hops ko H)) Hne).
  destruct (combine_spec_top (plain_of fs) Hcol) as [cs [Hcs Hrep]]. fold P in Hrep.
  rewrite Hcs. cbn [bind].
  rewrite (project_by_spec_pref _ cs P incl dfs Hrep Hdol Hg1). cbn [bind]. fold D.
  set (copy0 := opt_fields (pref_opt incl D P) dfs).
  assert (Hc0 : forall k, assoc k copy0 = match assoc k dfs with
                                          | Some x => pref_opt incl D P k x | None => None end)
    by (intro k; apply opt_fields_assoc; exact Hnd).
  assert (Hn0 : NoDup (map fst copy0)) by (apply opt_fields_NoDup; exact Hnd).
  destruct (with_id_model_view idb dfs copy0 Hn0) as [Hn1 Hc1].
  { intro E. rewrite Hc0, E. reflexivity. }
  (* the specification *)
  subst ps. cbn [ps_mode ps_paths ps_id ps_ops] in Hspec. fold D in Hspec.
  set (g1 := if incl then inc_opt D (P ++ extra_of (ops_of fs)) else exc_opt D P).
  set (bfs := opt_fields g1 dfs).
  assert (Hbase : (if incl
                   then include (S D) (P ++ map (fun ko : string * list (string * value) => [fst ko]) (ops_of fs)) (VDoc dfs)
                   else exclude (S D) P (VDoc dfs)) = VDoc bfs).
  { unfold bfs, g1. destruct incl; [apply include_S|apply exclude_S]. }
  assert (Hspec' : fold_left (spec_step dfs) (ops_of fs) (Some (VDoc (with_id_spec idb dfs bfs))) = Some s).
  { rewrite <- Hspec. destruct incl; cbn iota; rewrite Hbase;
      (f_equal; unfold with_id_spec; destruct idb; [destruct (assoc "_id" dfs)|]; reflexivity). }
  clear Hspec.
  assert (Hnb : NoDup (map fst bfs)) by (apply opt_fields_NoDup; exact Hnd).
  assert (Hb0 : forall k, assoc k bfs = match assoc k dfs with Some x => g1 k x | None => None end)
    by (intro k; apply opt_fields_assoc; exact Hnd).
  destruct (with_id_spec_view idb dfs bfs Hnb) as [Hnw Hcw].
  assert (Hnoid : ~ In "_id" (map fst (ops_of fs))) by (apply ops_of_no_id; exact Hnp).
  assert (Hbelow : forall f, In f (map fst (ops_of fs)) -> below f P = []).
  { intros f Hf. apply in_map_iff in Hf. destruct Hf as [ko [Hk Hko]]. subst f. apply Hops. exact Hko. }
  destruct (ops_fold dfs (ops_of fs) (with_id_model idb dfs copy0) (with_id_spec idb dfs bfs) s)
    as [out [sfs [Hout [Hs [Hno [Hns Heq]]]]]]; auto.
  - apply ops_of_NoDup. exact Hnp.
  - intros ko Hko. apply Hops. exact Hko.
  - (* the operator fields are whole in the specification, the rest agrees *)
    intro k. rewrite Hcw, Hc1.
    destruct (k =? "_id") eqn:Ek.
    + apply String.eqb_eq in Ek. subst k. apply mem_str_false in Hnoid. rewrite Hnoid. reflexivity.
    + rewrite Hb0, Hc0. destruct (assoc k dfs) as [x|]; [|destruct (mem_str k _); reflexivity].
      destruct (mem_str k (map fst (ops_of fs))) eqn:Em.
      * pose proof (Hbelow k (proj1 (mem_str_In _ _) Em)) as Hb.
        destruct (below_extra_mem _ _ Em) as [Hx1 Hx2].
        unfold g1. destruct incl.
        -- unfold inc_opt. rewrite below_app, Hb. cbn [app].
           destruct (below k (extra_of (ops_of fs))); [contradiction Hx1; reflexivity|].
           rewrite Hx2. reflexivity.
        -- unfold exc_opt. rewrite Hb. reflexivity.
      * unfold g1, pref_opt. destruct incl; [|reflexivity].
        unfold inc_opt. rewrite below_app, (below_extra_nomem _ _ Em), app_nil_r. reflexivity.
  - intros f Hf. rewrite Hc1.
    destruct (f =? "_id") eqn:Ek; [apply String.eqb_eq in Ek; subst f; contradiction|].
    rewrite Hc0. destruct (assoc f dfs) as [x|]; [|left; reflexivity].
    unfold pref_opt. destruct incl.
    + left. unfold inc_opt. rewrite (Hbelow f Hf). reflexivity.
    + right. unfold exc_opt. rewrite (Hbelow f Hf). reflexivity.
  - exists out, sfs. rewrite Hout. cbn [bind].
    repeat (split; [first [reflexivity|assumption]|]).
    intros Eops k. rewrite Eops in Hout. simpl in Hout. inversion Hout; subst out.
    rewrite Hc1, Hc0. reflexivity.
Qed.

Lemma wf_doc_NoDup fs : wf_value (VDoc fs) = true -> NoDup (map fst fs).
Proof.
  intro H. simpl in H. apply andb_true_iff in H. destruct H as [H _].
  apply nodup_str_NoDup. exact H.
Qed.

Lemma project_spec_shape d p s :
  project_spec d p = Some s -> exists dfs fs, d = VDoc dfs /\ p = VDoc fs.
Proof.
  unfold project_spec. destruct d; try discriminate.
  destruct p; try discriminate. intros _. eexists; eexists; split; reflexivity.
Qed.

(* ---------------------------------------------------------------- the theorems *)
Lemma c12_projection d p s :
  project_spec d p = Some s -> c12_reasons d p = 0 ->
  wf_value d = true -> wf_value p = true ->
  exists out, copy_only_fields d (Some p) = Ok out /\ doc_eq_top s out = true.
Proof.
  intros Hs Hg Hwd Hwp.
  destruct (project_spec_shape _ _ _ Hs) as [dfs [fs [Hd Hp]]]. subst d p.
  destruct (c12_main dfs fs s Hs Hg (wf_doc_NoDup _ Hwd) (wf_doc_NoDup _ Hwp))
    as [ps [idb [incl [out [sfs [_ [_ [Hm [Hsfs [Hno [Hns [Heq _]]]]]]]]]]]].
  exists (VDoc out). split; [exact Hm|]. subst s. apply doc_eq_top_assoc; assumption.
Qed.

Lemma c12_same_documents proj : forall l outs,
  project_all proj l = Ok outs ->
  List.length outs = List.length l /\
  forall i d o, nth_error l i = Some d -> nth_error outs i = Some o ->
                copy_only_fields d proj = Ok o.
Proof.
  induction l as [|d l IH]; intros outs H; simpl in H.
  - inversion H; subst. split; [reflexivity|]. intros [|i] d o H1; discriminate H1.
  - destruct (copy_only_fields d proj) as [x|e] eqn:Ex; simpl in H; [|discriminate H].
    destruct (project_all proj l) as [r|e] eqn:Er; simpl in H; [|discriminate H].
    inversion H; subst outs. destruct (IH r eq_refl) as [Hlen Hnth].
    split; [simpl; f_equal; exact Hlen|].
    intros [|i] d' o H1 H2; simpl in H1, H2.
    + inversion H1; inversion H2; subst. exact Ex.
    + eapply Hnth; eassumption.
Qed.

Lemma c12_nothing_invented dfs p ps s outfs :
  project_spec (VDoc dfs) p = Some s -> c12_reasons (VDoc dfs) p = 0 ->
  wf_value (VDoc dfs) = true -> wf_value p = true ->
  read_spec p = Some ps -> ps_ops ps = [] ->
  copy_only_fields (VDoc dfs) (Some p) = Ok (VDoc outfs) ->
  forall k v, assoc k outfs = Some v ->
    exists v', assoc k dfs = Some v' /\
               (below k (ps_paths ps) = [] \/ names_whole (below k (ps_paths ps)) = true -> v' = v).
Proof.
  intros Hs Hg Hwd Hwp Hrs Hops Hm k v Hk.
  destruct (project_spec_shape _ _ _ Hs) as [dfs' [fs [Hd Hp]]]. inversion Hd; subst dfs' p. clear Hd.
  destruct (c12_main dfs fs s Hs Hg (wf_doc_NoDup _ Hwd) (wf_doc_NoDup _ Hwp))
    as [ps' [idb [incl [out [sfs [Hrs' [Hps [Hm' [_ [_ [_ [_ Hview]]]]]]]]]]]].
  assert (Hpp : ps = ps') by congruence. rewrite <- Hpp in Hps. clear Hpp Hrs'.
  rewrite Hm in Hm'. inversion Hm'; subst out. clear Hm'.
  assert (Eops : ops_of fs = []) by (rewrite Hps in Hops; exact Hops).
  rewrite (Hview Eops k) in Hk. unfold out_view in Hk.
  replace (ps_paths ps) with (pathsof (plain_of fs)) by (rewrite Hps; reflexivity).
  destruct (k =? "_id") eqn:Ek.
  - apply String.eqb_eq in Ek. subst k. destruct idb; [|discriminate Hk].
    exists v. split; [exact Hk|reflexivity].
  - destruct (assoc k dfs) as [x|]; [|discriminate Hk].
    exists x. split; [reflexivity|]. intros Hw.
    unfold pref_opt, inc_opt, exc_opt in Hk.
    destruct incl; destruct (below k (pathsof (plain_of fs))) as [|r sub] eqn:Eb;
      try discriminate Hk; try (inversion Hk; reflexivity);
      (destruct Hw as [Hw|Hw]; [discriminate Hw|]); rewrite Hw in Hk;
      try discriminate Hk; inversion Hk; reflexivity.
Qed.
