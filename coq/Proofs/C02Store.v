(* C02 proofs, part 7: the shape of an update step of the collection: under the state
   invariant (store keys pairwise different and reflexive, no TTL index) every document
   that changed in an update / replace step is [apply_update] of its predecessor. *)
From Coq Require Import ZArith List String Bool Ascii Lia.
From Verif Require Import Value PyEq BsonOrder Path Filter FilterSpec Update Project Coll
                          HistCheck HistProps ProjectSpec Cursor UpdateLaws.
From Verif.Proofs Require Import C01Values C12Base C02Base.
Import ListNotations.
Open Scope Z_scope.
Open Scope string_scope.
Open Scope list_scope.

(* ---------------------------------------------------------------- the store *)
Fixpoint keys_distinct (s : store) : Prop :=
  match s with
  | [] => True
  | (k, _) :: l => (forall k' d', In (k', d') l -> py_eq k k' = false) /\ keys_distinct l
  end.

Definition keys_refl (s : store) : Prop := forall k d, In (k, d) s -> py_eq k k = true.

Lemma store_get_in s : forall k d,
  keys_distinct s -> keys_refl s -> In (k, d) s -> store_get k s = Some d.
Proof.
  induction s as [|[k0 d0] l IH]; intros k d Hd Hr Hin; [contradiction|].
  simpl in Hd. destruct Hd as [Hd0 Hdl]. simpl. destruct Hin as [Heq|Hin].
  - inversion Heq; subst. rewrite (Hr k d (or_introl eq_refl)). reflexivity.
  - rewrite (Hd0 k d Hin). apply IH; [exact Hdl | | exact Hin].
    intros k1 d1 H1. apply (Hr k1 d1). right. exact H1.
Qed.

Lemma store_unique s k a b :
  keys_distinct s -> keys_refl s -> In (k, a) s -> In (k, b) s -> a = b.
Proof.
  intros Hd Hr Ha Hb. pose proof (store_get_in s k a Hd Hr Ha) as E1.
  pose proof (store_get_in s k b Hd Hr Hb) as E2. congruence.
Qed.

Lemma store_set_decomp s : forall k d d',
  keys_distinct s -> keys_refl s -> In (k, d) s ->
  exists l1 l2, s = l1 ++ (k, d) :: l2 /\ store_set k d' s = l1 ++ (k, d') :: l2.
Proof.
  induction s as [|[k0 d0] l IH]; intros k d d' Hd Hr Hin; [contradiction|].
  simpl in Hd. destruct Hd as [Hd0 Hdl]. simpl. destruct Hin as [Heq|Hin].
  - inversion Heq; subst. rewrite (Hr k d (or_introl eq_refl)).
    exists [], l. split; reflexivity.
  - rewrite (Hd0 k d Hin).
    destruct (IH k d d' Hdl (fun k1 d1 H1 => Hr k1 d1 (or_intror H1)) Hin) as [l1 [l2 [E1 E2]]].
    exists ((k0, d0) :: l1), l2. split; simpl; congruence.
Qed.

Lemma keys_distinct_map s t : map fst s = map fst t -> keys_distinct s -> keys_distinct t.
Proof.
  revert t. induction s as [|[k d] s IH]; intros [|[k' d'] t] E H; simpl in *; try discriminate; auto.
  injection E as Ek Et. subst k'. destruct H as [Hk Hs]. split; [|apply IH; assumption].
  intros k2 d2 Hin. apply (in_map fst) in Hin. simpl in Hin. rewrite <- Et in Hin.
  apply in_map_iff in Hin. destruct Hin as [[k3 d3] [E3 Hin]]. simpl in E3. subst k3.
  eapply Hk. exact Hin.
Qed.

Lemma keys_refl_map s t : map fst s = map fst t -> keys_refl s -> keys_refl t.
Proof.
  intros E H k d Hin. apply (in_map fst) in Hin. simpl in Hin. rewrite <- E in Hin.
  apply in_map_iff in Hin. destruct Hin as [[k3 d3] [E3 Hin]]. simpl in E3. subst k3.
  eapply H. exact Hin.
Qed.

Lemma store_get_app k l m x : store_get k l = Some x -> store_get k (l ++ m) = Some x.
Proof.
  induction l as [|[k0 d0] l IH]; simpl; [discriminate|].
  destruct (py_eq k0 k); [auto|exact IH].
Qed.

(* ---------------------------------------------------------------- no TTL index: no expiry *)
Definition no_ttl (c : coll) : Prop := forall i, In i (idx c) -> ittl i = None.

Lemma expire_no_ttl c : no_ttl c -> expire c = Ok c.
Proof.
  unfold expire, no_ttl. generalize (idx c) as l. intros l H.
  induction l as [|i l IH]; simpl; [reflexivity|].
  unfold expire_index at 2. rewrite (H i (or_introl eq_refl)). simpl.
  apply IH. intros j Hj. apply H. right. exact Hj.
Qed.

Lemma expire_if_no_ttl b c : no_ttl c -> expire_if b c = Ok c.
Proof. intro H. destruct b; simpl; [apply expire_no_ttl; exact H|reflexivity]. Qed.

(* ---------------------------------------------------------------- the loop *)
Ltac pdisc0 := solve [discriminate | congruence].
Ltac pdisc := solve [discriminate | congruence
  | match goal with H : _ = (_, Ok _) |- _ => cbv beta iota in H; congruence end].

Section Loop.
  Variables (spec upd : value) (nw : Z).

  Definition step_rel (a b : value * value) : Prop :=
    fst a = fst b /\
    (snd b = snd a \/
     (filter_applies spec (snd a) = Ok true /\
      apply_update spec upd false nw (snd a) = Ok (snd b) /\
      doc_id (snd b) <> None)).

  Lemma Forall2_step_refl s : Forall2 step_rel s s.
  Proof. induction s as [|x s IH]; constructor; [split; [reflexivity|left; reflexivity]|exact IH]. Qed.

  Lemma Forall2_step_keys s t : Forall2 step_rel s t -> map fst s = map fst t.
  Proof. induction 1 as [|a b s t [H1 _] _ IH]; simpl; [reflexivity|]. rewrite H1, IH. reflexivity. Qed.

  Lemma update_loop_rel multi s0 :
    keys_distinct s0 -> keys_refl s0 ->
    forall todo c m n c2 r,
      update_loop c spec upd multi todo m n = (c2, Ok r) ->
      now c = nw -> no_ttl c ->
      Forall2 step_rel s0 (docs c) ->
      keys_distinct todo ->
      (forall kd, In kd todo -> In kd s0 /\ In kd (docs c)) ->
      Forall2 step_rel s0 (docs c2) /\ now c2 = nw /\ idx c2 = idx c.
  Proof.
    intros Hd0 Hr0. induction todo as [|[k d] todo IH]; intros c m n c2 r H Hnow Httl HR Hdt Hin.
    - simpl in H. inversion H; subst. auto.
    - simpl in H. simpl in Hdt. destruct Hdt as [Hdk Hdt].
      assert (Hin' : forall kd, In kd todo -> In kd s0 /\ In kd (docs c)).
      { intros kd Hkd. apply Hin. right. exact Hkd. }
      destruct (filter_applies spec d) as [[|]|e] eqn:Efl; [| |pdisc].
      2:{ eapply IH; eassumption. }
      rewrite Hnow in H.
      destruct (apply_update spec upd false nw d) as [d'|e] eqn:Eu; [|pdisc].
      destruct (negb (negb (py_eq d' d))) eqn:Ech.
      { destruct (negb (value_eqb d' d) && py_in k (odocs c)); [pdisc|].
        destruct multi; [eapply IH; eassumption|]. inversion H; subst. auto. }
      destruct (match d with VDoc fs => assoc "_id" fs | _ => None end) as [idv|].
      2:{ match type of H with context [if negb ?t then _ else _] => destruct (negb t) end; pdisc. }
      assert (Hid' : doc_id d' <> None).
      { unfold doc_id. destruct (match d' with VDoc fs => assoc "_id" fs | _ => None end);
          [discriminate|]. exfalso. cbv beta iota in H. simpl negb in H. cbv beta iota in H. pdisc. }
      match type of H with context [if negb ?t then _ else _] => destruct (negb t) end; [pdisc|].
      set (c1 := with_docs_w c (store_set k d' (docs c))) in *.
      assert (Httl1 : no_ttl c1) by exact Httl.
      destruct (ensure_uniques c1 d') as [touched|e] eqn:Ee.
      2:{ destruct e; try (destruct (expire c1); pdisc); pdisc. }
      rewrite (expire_if_no_ttl _ _ Httl1) in H.
      (* the store after the write *)
      destruct (Hin (k, d) (or_introl eq_refl)) as [Hk0 Hkc].
      pose proof (Forall2_step_keys _ _ HR) as Hkeys.
      assert (Hdc : keys_distinct (docs c)) by (eapply keys_distinct_map; eassumption).
      assert (Hrc : keys_refl (docs c)) by (eapply keys_refl_map; eassumption).
      destruct (store_set_decomp (docs c) k d d' Hdc Hrc Hkc) as [l1 [l2 [E1 E2]]].
      assert (HR1 : Forall2 step_rel s0 (docs c1)).
      { unfold c1. simpl. rewrite E2. rewrite E1 in HR.
        apply Forall2_app_inv_r in HR. destruct HR as [a1 [a2 [Ha1 [Ha2 Es0]]]].
        inversion Ha2 as [|x y a2' l2' [Hx1 Hx2] Ha2' Ex Ey]; subst.
        apply Forall2_app; [exact Ha1|]. constructor; [|exact Ha2'].
        split; [exact Hx1|]. right. simpl.
        destruct x as [kx dx]. simpl in Hx1. subst kx. simpl.
        assert (dx = d).
        { eapply (store_unique (a1 ++ (k, dx) :: a2') k); [exact Hd0 | exact Hr0 | | exact Hk0].
          apply in_or_app. right. left. reflexivity. }
        subst dx. split; [exact Efl|]. split; [exact Eu|exact Hid']. }
      assert (Hin1 : forall kd, In kd todo -> In kd s0 /\ In kd (docs c1)).
      { intros [k2 d2] Hkd. destruct (Hin' _ Hkd) as [A B]. split; [exact A|].
        unfold c1. simpl. rewrite E2. rewrite E1 in B.
        apply in_app_or in B. apply in_or_app. destruct B as [B|[B|B]]; [left; exact B| |right; right; exact B].
        exfalso. inversion B; subst. pose proof (Hdk _ _ Hkd) as Hf.
        rewrite (Hrc k2 d2 Hkc) in Hf. pdisc. }
      destruct multi.
      + destruct (IH c1 _ _ c2 r H Hnow Httl1 HR1 Hdt Hin1) as [A [B C]]. auto.
      + inversion H; subst. auto.
  Qed.
End Loop.
