(* C02 proofs: the replacement law - a replacement document yields exactly the _id followed by
   the replacement. *)
From Coq Require Import ZArith List String Bool Ascii Lia.
From Verif Require Import Value PyEq BsonOrder Path Filter FilterSpec FilterGuard Update Project Coll
                          HistCheck HistProps ProjectSpec Cursor UpdateLaws.
From Verif.Proofs Require Import C01Values C12Base C02Base.
Import ListNotations.
Open Scope Z_scope.
Open Scope string_scope.
Open Scope list_scope.

(* ---------------------------------------------------------------- the replacement branch *)
(* the _id the replacement branch keeps: the _id of the document being replaced (for an upsert: of
   the seed built from the filter), a null _id counting as absent; the FILTER is not consulted
   any more (repaired in the library; `spec` is kept as an argument for the callers) *)
Definition rep_id (spec d : value) : option value :=
  match d with
  | VDoc dfs => match assoc "_id" dfs with
                | Some i => if is_null i then None else Some i
                | None => None
                end
  | _ => None
  end.
Definition rep_base (id : option value) : list (string * value) :=
  match id with
  | Some i => [("_id", i)]
  | None => []
  end.
Definition rep_merged (upd base : list (string * value)) : list (string * value) :=
  fold_left (fun acc kv => set_key (fst kv) (snd kv) acc) upd base.

Lemma rep_id_not_null spec d i : rep_id spec d = Some i -> is_null i = false.
Proof.
  unfold rep_id. destruct d as [| | | | | | |dfs|]; try discriminate.
  destruct (assoc "_id" dfs) as [j|]; [|discriminate].
  destruct (is_null j) eqn:E; [discriminate|]. intro H. inversion H; subst. exact E.
Qed.

Lemma rep_id_doc_id spec d i : rep_id spec d = Some i -> doc_id d = Some i.
Proof.
  unfold rep_id, doc_id. destruct d as [| | | | | | |dfs|]; try discriminate.
  destruct (assoc "_id" dfs) as [j|]; [|discriminate].
  destruct (is_null j); [discriminate|]. intro H. exact H.
Qed.

(* no kept _id: the document has none, or a null one *)
Lemma rep_id_none spec d : rep_id spec d = None -> doc_id d = None \/ doc_id d = Some VNull.
Proof.
  unfold rep_id, doc_id. destruct d as [| | | | | | |dfs|]; try (left; reflexivity).
  destruct (assoc "_id" dfs) as [j|]; [|left; reflexivity].
  destruct j; simpl; try discriminate. right. reflexivity.
Qed.

Lemma sd_neq k s : starts_dollar k = false -> starts_dollar s = true -> (k =? s) = false.
Proof.
  intros Hk Hs. destruct (k =? s) eqn:E; [|reflexivity].
  apply String.eqb_eq in E. subst. congruence.
Qed.

Lemma apply_update_key_replace spec upd now k v d :
  starts_dollar k = false ->
  apply_update_key spec upd false now true k v d =
  if existsb (fun kv => starts_dollar (fst kv)) upd then Err EValue else
  let id := rep_id spec d in
  let merged := rep_merged upd (rep_base id) in
  match id with
  | Some i =>
      match assoc "_id" merged with
      | Some now_id => if py_eq now_id i then Ok (VDoc merged, true) else Err EOpFail
      | None => Err EKey
      end
  | None => Ok (VDoc merged, true)
  end.
Proof.
  intro H. unfold apply_update_key, updater_of.
  repeat match goal with |- context [k =? ?s] => rewrite (sd_neq k s H eq_refl) end.
  reflexivity.
Qed.

(* ---------------------------------------------------------------- fold_left set_key *)
Lemma merged_assoc : forall l base k,
  NoDup (map fst l) ->
  assoc k (rep_merged l base) = match assoc k l with Some v => Some v | None => assoc k base end.
Proof.
  unfold rep_merged. induction l as [|[k1 v1] l IH]; intros base k Hnd; [reflexivity|].
  inversion Hnd as [|? ? Hni Hnd']; subst. simpl fold_left. rewrite (IH _ _ Hnd').
  simpl assoc. rewrite assoc_set_key. destruct (k =? k1) eqn:E.
  - apply String.eqb_eq in E. subst k1.
    apply assoc_None_notin in Hni. rewrite Hni. reflexivity.
  - reflexivity.
Qed.

Lemma merged_keys : forall l base k,
  In k (map fst (rep_merged l base)) -> In k (map fst l) \/ In k (map fst base).
Proof.
  unfold rep_merged. induction l as [|[k1 v1] l IH]; intros base k H; [right; exact H|].
  simpl in H. apply IH in H. destruct H as [H|H]; [left; right; exact H|].
  apply keys_set_key_in in H. destruct H as [->|H]; [left; left; reflexivity|right; exact H].
Qed.

Lemma has_key_In {A} k (l : list (string * A)) : In k (map fst l) -> has_key k l = true.
Proof.
  intro H. destruct (has_key k l) eqn:E; [reflexivity|].
  apply has_key_assoc in E. apply assoc_None_notin in E. contradiction.
Qed.

(* ---------------------------------------------------------------- the guard *)
(* the law demands that the _id is kept structurally; the model keeps the replacement's _id when
   it carries one (only checked with Python == against the kept one) and otherwise the _id of the
   document being replaced, so the law can only fail when the replacement carries a structurally
   different _id (the filter part of replace_id_risk is harmless now).
   REPAIRED LIBRARY: a document whose _id is null counts as having none, so a replacement without
   an _id is accepted on it and yields a document WITHOUT an _id (it used to be refused with
   KeyError); the law is stated for results that have an _id in that case (the collection never
   stores a result without one: pair_facts in Proofs/C02Step.v). *)
Lemma opt_value_eqb_refl' o : opt_value_eqb o o = true.
Proof. destruct o; simpl; [apply value_eqb_refl|reflexivity]. Qed.

Theorem replace_law_sound : forall spec r now d d',
  patch r = r -> wf_value r = true ->
  (exists rfs, r = VDoc rfs /\ rfs <> [] /\
               forallb (fun kv => negb (starts_dollar (fst kv))) rfs = true) ->
  replace_id_risk spec r d = false ->
  (doc_id d = Some VNull -> doc_id d' <> None) ->
  apply_update spec r false now d = Ok d' -> replace_law r d d' = true.
Proof.
  intros spec r now d d' Hpatch Hwf [rfs [-> [Hne Hnd]]] Hrisk Hnull Hupd.
  unfold replace_law. rewrite Hpatch.
  assert (Hnodup : NoDup (map fst rfs)).
  { simpl in Hwf. apply andb_true_iff in Hwf. apply nodup_str_NoDup. exact (proj1 Hwf). }
  destruct rfs as [|[k v] rest] eqn:Erfs; [congruence|]. rewrite <- Erfs in *.
  assert (Hk : starts_dollar k = false).
  { rewrite Erfs in Hnd. simpl in Hnd. apply andb_true_iff in Hnd.
    apply negb_true_iff. exact (proj1 Hnd). }
  assert (Hupd' : bind (apply_update_key spec rfs false now true k v d)
                       (fun r => let '(d1, stop) := r in
                                 if stop then Ok d1
                                 else apply_update_keys spec rfs false now false rest d1) = Ok d').
  { rewrite Erfs in Hupd |- *. exact Hupd. }
  clear Hupd. bind_inv Hupd' res0 Hkey.
  rewrite (apply_update_key_replace _ _ _ _ _ _ Hk) in Hkey.
  assert (Hex : existsb (fun kv => starts_dollar (fst kv)) rfs = false).
  { rewrite forallb_negb_existsb in Hnd. apply negb_true_iff. exact Hnd. }
  rewrite Hex in Hkey. cbv zeta in Hkey.
  destruct (rep_id spec d) as [i|] eqn:Eidv.
  - (* the document has a (non-null) _id *)
    set (merged := rep_merged rfs (rep_base (Some i))) in *.
    destruct (assoc "_id" merged) as [now_id|] eqn:Eid; [|discriminate].
    destruct (py_eq now_id i); [|discriminate].
    inversion Hkey; subst res0. inversion Hupd'; subst d'. clear Hkey Hupd'.
    apply andb_true_iff. split; [apply andb_true_iff; split|].
    + apply forallb_forall. intros [k1 v1] Hin. simpl.
      unfold merged. rewrite merged_assoc by exact Hnodup.
      rewrite (in_assoc _ _ _ Hnodup Hin). apply value_eqb_refl.
    + apply forallb_forall. intros [k1 v1] Hin. simpl.
      apply (in_map fst) in Hin. simpl in Hin. apply merged_keys in Hin.
      destruct Hin as [Hin|Hin].
      * rewrite (has_key_In _ _ Hin). apply orb_true_r.
      * simpl in Hin. destruct Hin as [<-|[]]. reflexivity.
    + simpl doc_id. rewrite Eid.
      unfold merged in Eid. rewrite merged_assoc in Eid by exact Hnodup.
      unfold replace_id_risk in Hrisk.
      destruct (assoc "_id" rfs) as [rv|] eqn:Er.
      * inversion Eid; subst now_id. apply negb_false_iff in Hrisk. exact Hrisk.
      * simpl in Eid. inversion Eid; subst now_id. clear Eid.
        rewrite (rep_id_doc_id _ _ _ Eidv). simpl. apply value_eqb_refl.
  - (* no _id, or a null one: the replacement is accepted as it is *)
    set (merged := rep_merged rfs (rep_base None)) in *.
    inversion Hkey; subst res0. inversion Hupd'; subst d'. clear Hkey Hupd'.
    apply andb_true_iff. split; [apply andb_true_iff; split|].
    + apply forallb_forall. intros [k1 v1] Hin. simpl.
      unfold merged. rewrite merged_assoc by exact Hnodup.
      rewrite (in_assoc _ _ _ Hnodup Hin). apply value_eqb_refl.
    + apply forallb_forall. intros [k1 v1] Hin. simpl.
      apply (in_map fst) in Hin. simpl in Hin. apply merged_keys in Hin.
      destruct Hin as [Hin|Hin]; [|destruct Hin].
      rewrite (has_key_In _ _ Hin). apply orb_true_r.
    + simpl doc_id in *. unfold merged in *. rewrite merged_assoc in * by exact Hnodup.
      unfold replace_id_risk in Hrisk.
      destruct (assoc "_id" rfs) as [rv|] eqn:Er.
      * apply negb_false_iff in Hrisk. exact Hrisk.
      * simpl in *. destruct (rep_id_none _ _ Eidv) as [E|E].
        -- rewrite E. reflexivity.
        -- exfalso. apply (Hnull E). reflexivity.
Qed.

(* the extra premise cannot be dropped: checked on the model *)
Example replace_law_null_id :
  let d := VDoc [("_id", VNull); ("a", VInt 1)] in
  let r := VDoc [("a", VInt 2)] in
  replace_id_risk (VDoc []) r d = false /\
  apply_update (VDoc []) r false 0 d = Ok (VDoc [("a", VInt 2)]) /\
  replace_law r d (VDoc [("a", VInt 2)]) = false.
Proof. vm_compute. repeat split; reflexivity. Qed.

(* without an "_id" in the filter and in the replacement the guard is void *)
Corollary replace_law_sound_noid : forall sfs rfs now d d',
  patch (VDoc rfs) = VDoc rfs -> wf_value (VDoc rfs) = true -> rfs <> [] ->
  forallb (fun kv => negb (starts_dollar (fst kv))) rfs = true ->
  assoc "_id" sfs = None -> assoc "_id" rfs = None ->
  (doc_id d = Some VNull -> doc_id d' <> None) ->
  apply_update (VDoc sfs) (VDoc rfs) false now d = Ok d' -> replace_law (VDoc rfs) d d' = true.
Proof.
  intros sfs rfs now d d' Hp Hwf Hne Hnd Hs Hr Hnull Hupd.
  eapply replace_law_sound; try eassumption.
  - exists rfs. repeat split; assumption.
  - unfold replace_id_risk. rewrite Hr, Hs. reflexivity.
Qed.

(* the hypotheses are satisfiable on a non-trivial instance *)
Example replace_law_sound_example :
  let spec := VDoc [("_id", VInt 1); ("a", VDoc [("$gt", VInt 0)])] in
  let r := VDoc [("b", VDoc [("c", VArr [VInt 1; VDate 5000 None])]); ("_id", VInt 1); ("a", VStr "x")] in
  let d := VDoc [("_id", VInt 1); ("a", VInt 5); ("z", VNull)] in
  let d' := VDoc [("_id", VInt 1); ("b", VDoc [("c", VArr [VInt 1; VDate 5000 None])]); ("a", VStr "x")] in
  patch r = r /\ wf_value r = true /\ replace_id_risk spec r d = false /\
  apply_update spec r false 0 d = Ok d' /\ replace_law r d d' = true.
Proof. vm_compute. repeat split; reflexivity. Qed.

Print Assumptions replace_law_sound.
