(* C16 -- the $facet stage: every sub-pipeline is run_pipeline on the stage's own input. *)
From Coq Require Import ZArith List String Bool Ascii Lia.
From Verif Require Import Value PyEq BsonOrder Path Update Filter Coll Expr Pipeline AggState.
From Verif Require Import C16Base.
Import ListNotations.
Open Scope Z_scope.
Open Scope string_scope.
Open Scope list_scope.

(* ------------------------------------------------------------------ the inline loops of run_stage *)
Definition ops_inl (db : dbmap) : list (string * value) -> list value -> res (list value) :=
  fix ops_go (sfs : list (string * value)) (cur : list value) : res (list value) :=
    match sfs with
    | [] => Ok cur
    | (sop, sopt) :: sfs' => let! c1 := run_stage db sop sopt cur in ops_go sfs' c1
    end.

Definition stages_inl (db : dbmap) : list value -> list value -> res (list value) :=
  fix stages_go (stages : list value) (cur : list value) : res (list value) :=
    match stages with
    | [] => Ok cur
    | VDoc sfs :: stages' => let! cur' := ops_inl db sfs cur in stages_go stages' cur'
    | _ :: _ => Err ECrash
    end.

Definition facets_inl (db : dbmap) (l : list value) : list (string * value) -> res (list (string * value)) :=
  fix facets (subs : list (string * value)) : res (list (string * value)) :=
    match subs with
    | [] => Ok []
    | (title, p) :: subs' =>
        match p with
        | VArr stages =>
            let! out := stages_inl db stages l in
            let! rest := facets subs' in
            Ok ((title, VArr out) :: rest)
        | _ => Err EUnmodelled
        end
    end.

Definition dict_of (outs : list (string * value)) : list (string * value) :=
  fold_left (fun acc kv => set_key (fst kv) (snd kv) acc) outs [].

Lemma run_stage_facet_inl db subs l :
  run_stage db "$facet" (VDoc subs) l = (let! outs := facets_inl db l subs in Ok [VDoc (dict_of outs)]).
Proof. reflexivity. Qed.

Lemma ops_inl_run_ops db : forall sfs cur, ops_inl db sfs cur = run_ops db sfs cur.
Proof.
  induction sfs as [|[sop sopt] sfs IH]; intros cur; [reflexivity|].
  change (ops_inl db ((sop, sopt) :: sfs) cur)
    with (let! c1 := run_stage db sop sopt cur in ops_inl db sfs c1).
  change (run_ops db ((sop, sopt) :: sfs) cur)
    with (let! c1 := run_stage db sop sopt cur in run_ops db sfs c1).
  destruct (run_stage db sop sopt cur) as [c1|e]; [exact (IH c1)|reflexivity].
Qed.

Lemma stages_inl_run_pipeline db : forall stages cur, stages_inl db stages cur = run_pipeline db stages cur.
Proof.
  induction stages as [|st stages IH]; intros cur; [reflexivity|].
  destruct st as [| | | | | | |sfs|]; try reflexivity.
  change (stages_inl db (VDoc sfs :: stages) cur)
    with (let! c1 := ops_inl db sfs cur in stages_inl db stages c1).
  change (run_pipeline db (VDoc sfs :: stages) cur)
    with (let! c1 := run_ops db sfs cur in run_pipeline db stages c1).
  rewrite ops_inl_run_ops.
  destruct (run_ops db sfs cur) as [c1|e]; [exact (IH c1)|reflexivity].
Qed.

(* ------------------------------------------------------------------ the specification of $facet *)
(* one branch: the sub-pipeline on the stage's input l *)
Definition facet_branch (db : dbmap) (l : list value) (tp : string * value) : res (string * value) :=
  match snd tp with
  | VArr stages => let! r := run_pipeline db stages l in Ok (fst tp, VArr r)
  | _ => Err EUnmodelled
  end.

Definition facet_spec (db : dbmap) (l : list value) (subs : list (string * value))
  : res (list (string * value)) := mapM (facet_branch db l) subs.

Lemma facets_inl_spec db l : forall subs, facets_inl db l subs = facet_spec db l subs.
Proof.
  induction subs as [|[title p] subs IH]; [reflexivity|].
  unfold facet_spec in *. simpl mapM. unfold facet_branch at 1. simpl fst. simpl snd.
  destruct p as [| | | | | | | |stages]; try reflexivity.
  change (facets_inl db l ((title, VArr stages) :: subs))
    with (let! out := stages_inl db stages l in
          let! rest := facets_inl db l subs in Ok ((title, VArr out) :: rest)).
  rewrite stages_inl_run_pipeline, IH.
  destruct (run_pipeline db stages l) as [r|e]; [|reflexivity]. simpl.
  destruct (mapM (facet_branch db l) subs) as [rest|e]; reflexivity.
Qed.

Theorem run_stage_facet db subs l :
  run_stage db "$facet" (VDoc subs) l = (let! outs := facet_spec db l subs in Ok [VDoc (dict_of outs)]).
Proof. rewrite run_stage_facet_inl, facets_inl_spec. reflexivity. Qed.

(* ------------------------------------------------------------------ mapM *)
Lemma mapM_Ok_Forall2 {A B} (f : A -> res B) : forall l r,
  mapM f l = Ok r -> Forall2 (fun x y => f x = Ok y) l r.
Proof.
  induction l as [|x l IH]; intros r H; simpl in H.
  - injection H as <-. constructor.
  - destruct (f x) as [y|e] eqn:Ex; [|discriminate H]. simpl in H.
    destruct (mapM f l) as [r'|e] eqn:El; [|discriminate H]. simpl in H. injection H as <-.
    constructor; [exact Ex|apply IH; reflexivity].
Qed.

Lemma Forall2_mapM_Ok {A B} (f : A -> res B) : forall l r,
  Forall2 (fun x y => f x = Ok y) l r -> mapM f l = Ok r.
Proof.
  induction 1 as [|x y l r Hx _ IH]; [reflexivity|]. simpl. rewrite Hx. simpl. rewrite IH. reflexivity.
Qed.

Lemma c16_Forall2_impl {A B} (P Q : A -> B -> Prop) l r :
  (forall x y, P x y -> Q x y) -> Forall2 P l r -> Forall2 Q l r.
Proof. intros HPQ H. induction H; constructor; auto. Qed.

Lemma mapM_Ok_all {A B} (f : A -> res B) l :
  (forall x, In x l -> exists y, f x = Ok y) -> exists r, mapM f l = Ok r.
Proof.
  induction l as [|x l IH]; intros H; [exists []; reflexivity|].
  destruct (H x (or_introl eq_refl)) as [y Hy].
  destruct IH as [r Hr]; [intros x' Hx'; apply H; right; exact Hx'|].
  exists (y :: r). simpl. rewrite Hy. simpl. rewrite Hr. reflexivity.
Qed.

Lemma mapM_Ok_In {A B} (f : A -> res B) l r x :
  mapM f l = Ok r -> In x l -> exists y, f x = Ok y /\ In y r.
Proof.
  intros H. apply mapM_Ok_Forall2 in H. induction H as [|x0 y0 l r Hx _ IH]; intros []; subst.
  - exists y0. split; [exact Hx|left; reflexivity].
  - destruct (IH H) as [y [H1 H2]]. exists y. split; [exact H1|right; exact H2].
Qed.

(* ------------------------------------------------------------------ the answer document *)
Lemma fold_set_key_fresh : forall (outs acc : list (string * value)),
  NoDup (map fst outs) -> (forall k, In k (map fst outs) -> ~ In k (map fst acc)) ->
  fold_left (fun acc kv => set_key (fst kv) (snd kv) acc) outs acc = acc ++ outs.
Proof.
  induction outs as [|[k v] outs IH]; intros acc Hnd Hfresh; simpl.
  - rewrite app_nil_r. reflexivity.
  - inversion Hnd as [|? ? Hk Hnd']; subst.
    assert (Hset : set_key k v acc = acc ++ [(k, v)]).
    { assert (Hka : ~ In k (map fst acc)) by (apply Hfresh; left; reflexivity).
      clear -Hka. induction acc as [|[k0 v0] acc IHa]; [reflexivity|]. simpl.
      destruct (k =? k0) eqn:E.
      - apply String.eqb_eq in E. subst k0. exfalso. apply Hka. left. reflexivity.
      - rewrite IHa; [reflexivity|]. intros Hin. apply Hka. right. exact Hin. }
    rewrite Hset, IH; [rewrite <- app_assoc; reflexivity|exact Hnd'|].
    intros k' Hk' Hin. rewrite map_app in Hin. apply in_app_or in Hin. destruct Hin as [Hin|[Hin|[]]].
    + exact (Hfresh k' (or_intror Hk') Hin).
    + simpl in Hin. subst k'. exact (Hk Hk').
Qed.

Lemma dict_of_nodup outs : NoDup (map fst outs) -> dict_of outs = outs.
Proof.
  intros H. unfold dict_of. rewrite fold_set_key_fresh; [reflexivity|exact H|]. intros k _ [].
Qed.

Lemma facet_branch_title db l tp y : facet_branch db l tp = Ok y -> fst y = fst tp.
Proof.
  unfold facet_branch. destruct (snd tp); try discriminate.
  destruct (run_pipeline db xs l); [|discriminate]. simpl. intros H. injection H as <-. reflexivity.
Qed.

Lemma facet_spec_titles db l subs outs : facet_spec db l subs = Ok outs -> map fst outs = map fst subs.
Proof.
  intros H. apply mapM_Ok_Forall2 in H.
  induction H as [|x y subs outs Hx _ IH]; [reflexivity|]. simpl. rewrite IH.
  rewrite (facet_branch_title _ _ _ _ Hx). reflexivity.
Qed.

Lemma assoc_In_nodup {A} (k : string) (v : A) l : NoDup (map fst l) -> In (k, v) l -> assoc k l = Some v.
Proof.
  induction l as [|[k0 v0] l IH]; intros Hnd []; simpl.
  - injection H as -> ->. rewrite String.eqb_refl. reflexivity.
  - inversion Hnd as [|? ? Hk Hnd']; subst.
    destruct (k =? k0) eqn:E.
    + apply String.eqb_eq in E. subst k0. exfalso. apply Hk. apply (in_map fst) in H. exact H.
    + apply IH; assumption.
Qed.

(* ------------------------------------------------------------------ C16, $facet clause *)
(* the shape of the answer: one document, one field per title in the order of the titles,
   the field of title t holds what run_pipeline returns for t's stages on the input l *)
Theorem facet_isolated db subs l fields :
  NoDup (map fst subs) ->
  run_stage db "$facet" (VDoc subs) l = Ok [VDoc fields] ->
  Forall2 (fun sub fld => fst fld = fst sub /\
                          exists stages r, snd sub = VArr stages /\
                                           run_pipeline db stages l = Ok r /\ snd fld = VArr r)
          subs fields.
Proof.
  intros Hnd H. rewrite run_stage_facet in H.
  destruct (facet_spec db l subs) as [outs|e] eqn:E; [|discriminate H]. simpl in H.
  rewrite dict_of_nodup in H by (rewrite (facet_spec_titles _ _ _ _ E); exact Hnd).
  injection H as <-. apply mapM_Ok_Forall2 in E.
  eapply c16_Forall2_impl; [|exact E]. intros [t p] y Hb. unfold facet_branch in Hb. simpl in *.
  destruct p as [| | | | | | | |stages]; try discriminate Hb.
  destruct (run_pipeline db stages l) as [r|e] eqn:Er; [|discriminate Hb]. simpl in Hb.
  injection Hb as <-. split; [reflexivity|]. exists stages, r. repeat split. exact Er.
Qed.

(* conversely: when every branch is a list of stages that runs on l, the stage answers *)
Theorem facet_runs db subs l :
  NoDup (map fst subs) ->
  (forall t p, In (t, p) subs -> exists stages r, p = VArr stages /\ run_pipeline db stages l = Ok r) ->
  exists fields, run_stage db "$facet" (VDoc subs) l = Ok [VDoc fields].
Proof.
  intros Hnd Hall. rewrite run_stage_facet.
  destruct (mapM_Ok_all (facet_branch db l) subs) as [outs Ho].
  { intros [t p] Hin. destruct (Hall t p Hin) as [stages [r [-> Hr]]].
    exists (t, VArr r). unfold facet_branch. simpl. rewrite Hr. reflexivity. }
  unfold facet_spec. rewrite Ho. simpl. exists (dict_of outs). reflexivity.
Qed.

(* the field of one title *)
Theorem facet_field db subs l fields t stages :
  NoDup (map fst subs) ->
  run_stage db "$facet" (VDoc subs) l = Ok [VDoc fields] ->
  In (t, VArr stages) subs ->
  exists r, run_pipeline db stages l = Ok r /\ assoc t fields = Some (VArr r).
Proof.
  intros Hnd H Hin. rewrite run_stage_facet in H.
  destruct (facet_spec db l subs) as [outs|e] eqn:E; [|discriminate H]. simpl in H.
  assert (Ht : map fst outs = map fst subs) by exact (facet_spec_titles _ _ _ _ E).
  rewrite dict_of_nodup in H by (rewrite Ht; exact Hnd).
  injection H as <-.
  destruct (mapM_Ok_In _ _ _ _ E Hin) as [y [Hy Hyin]].
  unfold facet_branch in Hy. simpl in Hy.
  destruct (run_pipeline db stages l) as [r|e] eqn:Er; [|discriminate Hy]. simpl in Hy.
  injection Hy as <-. exists r. split; [reflexivity|].
  apply assoc_In_nodup; [rewrite Ht; exact Hnd|exact Hyin].
Qed.

(* a failing branch fails the stage: the stage answers only when every branch does *)
Theorem facet_branch_fails db subs l t stages e :
  In (t, VArr stages) subs -> run_pipeline db stages l = Err e ->
  exists e', run_stage db "$facet" (VDoc subs) l = Err e'.
Proof.
  intros Hin He. rewrite run_stage_facet.
  destruct (facet_spec db l subs) as [outs|e'] eqn:E; [|exists e'; reflexivity].
  destruct (mapM_Ok_In _ _ _ _ E Hin) as [y [Hy _]].
  unfold facet_branch in Hy. simpl in Hy. rewrite He in Hy. discriminate Hy.
Qed.

(* independence from the siblings: any other $facet on the same input whose branches are among
   those of a $facet that answered (fewer of them, in any order) answers too, and the field of
   every title it keeps is the same *)
Theorem facet_siblings db subs subs2 l fields :
  NoDup (map fst subs) -> NoDup (map fst subs2) -> incl subs2 subs ->
  run_stage db "$facet" (VDoc subs) l = Ok [VDoc fields] ->
  exists fields2, run_stage db "$facet" (VDoc subs2) l = Ok [VDoc fields2] /\
                  forall t, In t (map fst subs2) -> assoc t fields2 = assoc t fields.
Proof.
  intros Hnd Hnd2 Hincl H.
  pose proof (facet_isolated db subs l fields Hnd H) as Hall.
  assert (Hbr : forall t p, In (t, p) subs -> exists stages r, p = VArr stages /\ run_pipeline db stages l = Ok r).
  { intros t p Hin. clear -Hall Hin. induction Hall as [|sub fld subs fields [_ [stages [r [H1 [H2 _]]]]] _ IH].
    - destruct Hin.
    - destruct Hin as [->|Hin]; [exists stages, r; split; [exact H1|exact H2]|exact (IH Hin)]. }
  destruct (facet_runs db subs2 l Hnd2) as [fields2 H2].
  { intros t p Hin. apply (Hbr t). apply Hincl. exact Hin. }
  exists fields2. split; [exact H2|]. intros t Ht.
  apply in_map_iff in Ht. destruct Ht as [[t' p] [<- Hin]]. simpl.
  destruct (Hbr t' p (Hincl _ Hin)) as [stages [r [-> Hr]]].
  destruct (facet_field db subs2 l fields2 t' stages Hnd2 H2 Hin) as [r2 [Hr2 Ha2]].
  destruct (facet_field db subs l fields t' stages Hnd H (Hincl _ Hin)) as [r1 [Hr1 Ha1]].
  rewrite Ha2, Ha1. rewrite Hr2 in Hr1. injection Hr1 as ->. reflexivity.
Qed.

(* ------------------------------------------------------------------ a $facet as the last stage *)
Lemma run_pipeline_app db : forall pre post l,
  run_pipeline db (pre ++ post) l = (let! m := run_pipeline db pre l in run_pipeline db post m).
Proof.
  induction pre as [|st pre IH]; intros post l; [reflexivity|].
  destruct st as [| | | | | | |sfs|]; try reflexivity.
  simpl app.
  change (run_pipeline db (VDoc sfs :: pre ++ post) l)
    with (let! c1 := run_ops db sfs l in run_pipeline db (pre ++ post) c1).
  change (run_pipeline db (VDoc sfs :: pre) l)
    with (let! c1 := run_ops db sfs l in run_pipeline db pre c1).
  destruct (run_ops db sfs l) as [c1|e]; [exact (IH post c1)|reflexivity].
Qed.

Lemma run_pipeline_single db op opts l :
  run_pipeline db [VDoc [(op, opts)]] l = run_stage db op opts l.
Proof.
  change (run_pipeline db [VDoc [(op, opts)]] l)
    with (let! c1 := (let! c0 := run_stage db op opts l in Ok c0) in Ok c1).
  destruct (run_stage db op opts l); reflexivity.
Qed.

(* what the harness observes as q_facet_iso: every field of the answer of a pipeline ending in
   a $facet is the answer of the pipeline with the $facet replaced by that sub-pipeline alone *)
Theorem facet_last db pre subs l fields t stages :
  NoDup (map fst subs) ->
  run_pipeline db (pre ++ [VDoc [("$facet", VDoc subs)]]) l = Ok [VDoc fields] ->
  In (t, VArr stages) subs ->
  exists r, run_pipeline db (pre ++ stages) l = Ok r /\ assoc t fields = Some (VArr r).
Proof.
  intros Hnd H Hin. rewrite run_pipeline_app in H. rewrite run_pipeline_app.
  destruct (run_pipeline db pre l) as [m|e]; [|discriminate H]. unfold bind in *.
  rewrite run_pipeline_single in H.
  exact (facet_field db subs m fields t stages Hnd H Hin).
Qed.
