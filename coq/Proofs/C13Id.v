(* C13 proofs, part 2: where the _id of an upserted document comes from.  Inside the guard
   and the syntactic screen c13_undecided, the upserted _id is the filter's _id when the
   filter has a non-null one, and a fresh ObjectId otherwise. *)
From Coq Require Import ZArith List String Bool Ascii Lia.
From Verif Require Import Value PyEq BsonOrder Path Filter FilterSpec Update Project Coll
                          HistCheck HistProps HistGuards HistPropCheck ProjectSpec Cursor UpdateLaws.
From Verif.Proofs Require Import C01Values C12Base C02Base C02Frame C02Local C02Ops C02Wf.
From Verif.Proofs Require C02Step C02History C02Replace C05Values C15Proofs.
From Verif.Proofs Require Import C13Proofs.
Import ListNotations.
Open Scope Z_scope.
Open Scope string_scope.
Open Scope list_scope.

(* ---------------------------------------------------------------- small facts *)
Lemma split_id : split_dots "_id" = ["_id"].
Proof. reflexivity. Qed.

Definition hd_id (k : string) : bool :=
  match split_dots k with h :: _ => h =? "_id" | [] => false end.

Lemma hd_id_false k : hd_id k = false -> hd_error (split_dots k) <> Some "_id".
Proof.
  unfold hd_id. destruct (split_dots k) as [|h rest]; simpl; [discriminate|].
  intros E H. inversion H; subst. rewrite String.eqb_refl in E. discriminate.
Qed.

Lemma keys_set_key {A} k p (x : A) e :
  In k (map fst (set_key p x e)) -> k = p \/ In k (map fst e).
Proof.
  induction e as [|[k' v'] e IH]; simpl.
  - intros [H|[]]; auto.
  - destruct (p =? k') eqn:E; simpl.
    + apply String.eqb_eq in E. subst. intros [H|H]; auto.
    + intros [H|H]; auto. destruct (IH H); auto.
Qed.

Lemma assoc_app_some {A} k (l m : list (string * A)) v :
  assoc k l = Some v -> assoc k (l ++ m) = Some v.
Proof.
  induction l as [|[k' v'] l IH]; simpl; [discriminate|].
  destruct (k =? k'); auto.
Qed.

Lemma assoc_app_none' {A} k (l m : list (string * A)) :
  assoc k l = None -> assoc k (l ++ m) = assoc k m.
Proof.
  induction l as [|[k' v'] l IH]; simpl; [reflexivity|].
  destruct (k =? k'); [discriminate|auto].
Qed.

Lemma assoc_none_notin {A} k (l : list (string * A)) : assoc k l = None -> ~ In k (map fst l).
Proof.
  induction l as [|[k' v'] l IH]; simpl; [tauto|].
  destruct (k =? k') eqn:E; [discriminate|]. intros H [H1|H1]; [|exact (IH H H1)].
  subst. rewrite String.eqb_refl in E. discriminate.
Qed.

Lemma set_key_absent {A} k (v : A) l : assoc k l = None -> set_key k v l = l ++ [(k, v)].
Proof.
  induction l as [|[k' v'] l IH]; simpl; [reflexivity|].
  destruct (k =? k'); [discriminate|]. intro H. rewrite (IH H). reflexivity.
Qed.

Lemma keys_set_key_present {A} k (v w : A) l :
  assoc k l = Some w -> map fst (set_key k v l) = map fst l.
Proof.
  induction l as [|[k' v'] l IH]; simpl; [discriminate|].
  destruct (k =? k') eqn:E; simpl.
  - apply String.eqb_eq in E. subst. reflexivity.
  - intro H. rewrite (IH H). reflexivity.
Qed.

(* ---------------------------------------------------------------- _expand_dots *)
Lemma expand_set_cons2 p q rest v e :
  expand_set (p :: q :: rest) v e =
  match assoc p e with
  | None => let! sub := expand_set (q :: rest) v [] in Ok (set_key p (VDoc sub) e)
  | Some (VDoc sub) => let! sub' := expand_set (q :: rest) v sub in Ok (set_key p (VDoc sub') e)
  | Some _ => Err EWrite
  end.
Proof. reflexivity. Qed.

Lemma expand_set_top parts v e r :
  expand_set parts v e = Ok r ->
  parts = [] /\ r = e \/ exists p rest x, parts = p :: rest /\ r = set_key p x e.
Proof.
  destruct parts as [|p [|q rest]]; intro H.
  - left. simpl in H. inversion H. auto.
  - right. simpl in H. inversion H. eauto.
  - right. rewrite expand_set_cons2 in H.
    destruct (assoc p e) as [[| | | | | | |sub|]|]; try discriminate.
    + destruct (expand_set (q :: rest) v sub); simpl in H; [|discriminate]. inversion H. eauto.
    + destruct (expand_set (q :: rest) v []); simpl in H; [|discriminate]. inversion H. eauto.
Qed.

Lemma expand_set_other parts v e r k0 :
  expand_set parts v e = Ok r -> hd_error parts <> Some k0 -> assoc k0 r = assoc k0 e.
Proof.
  intros H Hk. destruct (expand_set_top _ _ _ _ H) as [[_ ->]|[p [rest [x [-> ->]]]]]; [reflexivity|].
  rewrite assoc_set_key. destruct (k0 =? p) eqn:E; [|reflexivity].
  apply String.eqb_eq in E. subst. exfalso. apply Hk. reflexivity.
Qed.

Lemma expand_set_keys parts v e r k :
  expand_set parts v e = Ok r -> In k (map fst r) -> In k (map fst e) \/ hd_error parts = Some k.
Proof.
  intros H Hin. destruct (expand_set_top _ _ _ _ H) as [[_ ->]|[p [rest [x [-> ->]]]]]; [auto|].
  destruct (keys_set_key _ _ _ _ Hin) as [->|Hk]; auto.
Qed.

Lemma go_id_value : forall fs e paths r,
  expand_dots_go fs e paths = Ok r -> NoDup (map fst fs) ->
  (forall k, In k (map fst fs) -> k <> "_id" -> hd_id k = false) ->
  assoc "_id" r = match assoc "_id" fs with Some v => Some v | None => assoc "_id" e end.
Proof.
  induction fs as [|[k x] fs IH]; intros e paths r H Hnd Hk; simpl in H.
  - inversion H. reflexivity.
  - destruct (mem_str k paths); [discriminate|].
    destruct (expand_set (split_dots k) x e) as [e'|er] eqn:Es; simpl in H; [|discriminate].
    simpl in Hnd. inversion Hnd as [|? ? Hni Hnd']; subst.
    assert (Hk' : forall k0, In k0 (map fst fs) -> k0 <> "_id" -> hd_id k0 = false)
      by (intros k0 H0; apply Hk; right; exact H0).
    rewrite (IH _ _ _ H Hnd' Hk'). cbn [assoc].
    destruct ("_id" =? k) eqn:E.
    + apply String.eqb_eq in E. subst k.
      assert (Hn : assoc "_id" fs = None).
      { destruct (assoc "_id" fs) eqn:Ea; [|reflexivity]. exfalso. apply Hni.
        eapply assoc_Some_key. exact Ea. }
      rewrite Hn. rewrite split_id in Es. simpl in Es. inversion Es; subst.
      rewrite assoc_set_key. reflexivity.
    + assert (Hne : k <> "_id") by (intro; subst; rewrite String.eqb_refl in E; discriminate).
      rewrite (expand_set_other _ _ _ _ "_id" Es (hd_id_false k (Hk k (or_introl eq_refl) Hne))).
      reflexivity.
Qed.

Lemma go_id_blocked : forall fs e paths r v,
  expand_dots_go (fs ++ [("_id", v)]) e paths = Ok r ->
  In "_id" paths \/
  (exists k q rest, In k (map fst fs) /\ split_dots k = "_id" :: q :: rest) -> False.
Proof.
  induction fs as [|[k x] fs IH]; intros e paths r v H Hb; simpl in H.
  - destruct Hb as [Hin|[k [q [rest [[] _]]]]].
    assert (Hm : mem_str "_id" paths = true).
    { clear - Hin. induction paths as [|y paths IH]; [contradiction|]. cbn [mem_str].
      destruct Hin as [->|Hin]; [reflexivity|].
      rewrite (IH Hin). apply orb_true_r. }
    rewrite Hm in H. discriminate.
  - destruct (mem_str k paths); [discriminate|].
    destruct (expand_set (split_dots k) x e) as [e'|er]; simpl in H; [|discriminate].
    apply (IH _ _ _ _ H). destruct Hb as [Hin|[k0 [q [rest [[Hk|Hk] Hs]]]]].
    + left. right. apply in_or_app. right. exact Hin.
    + simpl in Hk. subst k0. left. right. apply in_or_app. left. rewrite Hs. simpl. left. reflexivity.
    + right. exists k0, q, rest. auto.
Qed.

Lemma go_top_keys : forall fs e paths r k,
  expand_dots_go fs e paths = Ok r -> In k (map fst r) ->
  In k (map fst e) \/ exists k0, In k0 (map fst fs) /\ hd_error (split_dots k0) = Some k.
Proof.
  induction fs as [|[k0 x] fs IH]; intros e paths r k H Hin; simpl in H.
  - inversion H; subst. auto.
  - destruct (mem_str k0 paths); [discriminate|].
    destruct (expand_set (split_dots k0) x e) as [e'|er] eqn:Es; simpl in H; [|discriminate].
    destruct (IH _ _ _ _ H Hin) as [H1|[k1 [H1 H2]]].
    + destruct (expand_set_keys _ _ _ _ _ Es H1) as [H3|H3]; [auto|].
      right. exists k0. split; [left; reflexivity|exact H3].
    + right. exists k1. split; [right; exact H1|exact H2].
Qed.

(* ---------------------------------------------------------------- _discard_operators *)
Lemma dgo_nil acc : dgo [] acc = (VDoc acc, match acc with [] => true | _ => false end).
Proof. reflexivity. Qed.

Lemma dgo_cons k x fs acc :
  dgo ((k, x) :: fs) acc =
  if k =? "$eq" then (x, false)
  else if starts_dollar k then dgo fs acc
  else let '(x', disc) := discard_ops x in dgo fs (if disc then acc else acc ++ [(k, x')]).
Proof. reflexivity. Qed.

Lemma hdk_doc fs :
  c13_has_dollar_key (VDoc fs) =
  existsb (fun kv => starts_dollar (fst kv) || c13_has_dollar_key (snd kv)) fs.
Proof.
  induction fs as [|[k x] fs IH]; [reflexivity|].
  change (c13_has_dollar_key (VDoc ((k, x) :: fs)))
    with (starts_dollar k || c13_has_dollar_key x || c13_has_dollar_key (VDoc fs)).
  rewrite IH. reflexivity.
Qed.

Lemma dgo_clean : forall fs acc,
  Forall (fun kv => c13_has_dollar_key (snd kv) = false -> discard_ops (snd kv) = (snd kv, false)) fs ->
  existsb (fun kv => starts_dollar (fst kv) || c13_has_dollar_key (snd kv)) fs = false ->
  dgo fs acc = (VDoc (acc ++ fs), match acc ++ fs with [] => true | _ => false end).
Proof.
  induction fs as [|[k x] fs IH]; intros acc HI He.
  - rewrite dgo_nil, app_nil_r. reflexivity.
  - inversion HI as [|? ? Hx HI']; subst. simpl in He, Hx.
    apply orb_false_iff in He. destruct He as [He1 He2].
    apply orb_false_iff in He1. destruct He1 as [Hk Hxd].
    rewrite dgo_cons, (C02Replace.sd_neq k "$eq" Hk eq_refl), Hk, (Hx Hxd).
    rewrite (IH _ HI' He2), <- app_assoc. reflexivity.
Qed.

Lemma discard_ops_clean : forall v, c13_has_dollar_key v = false -> discard_ops v = (v, false).
Proof.
  induction v as [|b|z|e|s|us tz|n|fs IH|xs IH] using value_ind2; intro H; try reflexivity.
  destruct fs as [|kv fs]; [reflexivity|].
  rewrite discard_ops_doc by discriminate. rewrite hdk_doc in H.
  rewrite (dgo_clean _ [] IH H). reflexivity.
Qed.

Definition dkeep (kv : string * value) : list (string * value) :=
  let '(x', disc) := discard_ops (snd kv) in if disc then [] else [(fst kv, x')].

Lemma dgo_top : forall fs acc,
  (forall k, In k (map fst fs) -> starts_dollar k = false) ->
  fst (dgo fs acc) = VDoc (acc ++ flat_map dkeep fs).
Proof.
  induction fs as [|[k x] fs IH]; intros acc Hk.
  - rewrite dgo_nil, app_nil_r. reflexivity.
  - assert (Hk0 : starts_dollar k = false) by (apply Hk; left; reflexivity).
    rewrite dgo_cons, (C02Replace.sd_neq k "$eq" Hk0 eq_refl), Hk0.
    simpl flat_map. unfold dkeep at 1. simpl fst. simpl snd.
    destruct (discard_ops x) as [x' disc].
    rewrite IH by (intros k0 H0; apply Hk; right; exact H0).
    destruct disc; [reflexivity|]. rewrite <- app_assoc. reflexivity.
Qed.

Lemma assoc_dkeep k : forall fs,
  NoDup (map fst fs) ->
  assoc k (flat_map dkeep fs) =
  match assoc k fs with
  | Some x => let '(x', disc) := discard_ops x in if disc then None else Some x'
  | None => None
  end.
Proof.
  induction fs as [|[k0 x0] fs IH]; intro Hnd; [reflexivity|].
  simpl in Hnd. inversion Hnd as [|? ? Hni Hnd']; subst.
  simpl flat_map. unfold dkeep at 1. simpl fst. simpl snd. cbn [assoc].
  destruct (discard_ops x0) as [x' disc] eqn:Ed.
  destruct (k =? k0) eqn:E.
  - apply String.eqb_eq in E. subst k0. rewrite Ed. destruct disc.
    + simpl app. rewrite (IH Hnd').
      destruct (assoc k fs) eqn:Ea; [|reflexivity]. exfalso. apply Hni. eapply assoc_Some_key. exact Ea.
    + simpl app. cbn [assoc]. rewrite String.eqb_refl. reflexivity.
  - destruct disc; simpl app; [exact (IH Hnd')|]. cbn [assoc]. rewrite E. exact (IH Hnd').
Qed.

Lemma seed_id expanded id0 :
  (forall k, In k (map fst expanded) -> starts_dollar k = false) ->
  NoDup (map fst expanded) ->
  assoc "_id" expanded = Some id0 -> c13_has_dollar_key id0 = false ->
  exists sd, fst (discard_ops (VDoc expanded)) = VDoc sd /\ assoc "_id" sd = Some id0.
Proof.
  intros Hk Hnd Ha Hd.
  destruct expanded as [|kv rest]; [discriminate|].
  rewrite discard_ops_doc by discriminate. rewrite (dgo_top _ [] Hk). rewrite app_nil_l.
  eexists. split; [reflexivity|]. rewrite (assoc_dkeep "_id" _ Hnd), Ha.
  rewrite (discard_ops_clean _ Hd). reflexivity.
Qed.

(* ---------------------------------------------------------------- the update keeps _id *)
Lemma local_keeps k parts d d' :
  local parts d d' -> forall fs p rest, d = VDoc fs -> parts = p :: rest -> p <> k ->
  exists fs', d' = VDoc fs' /\ assoc k fs' = assoc k fs.
Proof.
  intros H fs p rest Hd Hp Hne.
  assert (E : (k =? p) = false).
  { destruct (k =? p) eqn:E; [|reflexivity]. apply String.eqb_eq in E. subst. congruence. }
  inversion H; subst; try discriminate.
  - eexists. split; reflexivity.
  - match goal with H0 : VDoc _ = VDoc _ |- _ => inversion H0; subst end.
    match goal with H0 : _ :: _ = _ :: _ |- _ => inversion H0; subst end.
    eexists. split; [reflexivity|]. rewrite assoc_set_key, E. reflexivity.
  - match goal with H0 : VDoc _ = VDoc _ |- _ => inversion H0; subst end.
    match goal with H0 : _ :: _ = _ :: _ |- _ => inversion H0; subst end.
    eexists. split; [reflexivity|]. apply assoc_del_key_other. exact E.
Qed.

Lemma chain_keeps k : forall ps d d',
  chain ps d d' ->
  (forall p, In p ps -> exists h rest, p = h :: rest /\ h <> k) ->
  forall fs, d = VDoc fs -> exists fs', d' = VDoc fs' /\ assoc k fs' = assoc k fs.
Proof.
  induction ps as [|p ps IH]; simpl; intros d d' H Hps fs Hd.
  - subst. eexists. split; reflexivity.
  - destruct H as [d1 [Hl Hc]].
    destruct (Hps p (or_introl eq_refl)) as [h [rest [Hp Hh]]].
    destruct (local_keeps k _ _ _ Hl fs h rest Hd Hp Hh) as [fs1 [Hd1 Ha1]].
    destruct (IH _ _ Hc (fun q Hq => Hps q (or_intror Hq)) fs1 Hd1) as [fs' [Hd' Ha']].
    exists fs'. split; [exact Hd'|]. rewrite Ha', Ha1. reflexivity.
Qed.

Lemma addressed_update_paths u p :
  In p (addressed u) -> exists s, In s (update_paths u) /\ p = split_dots s.
Proof.
  destruct u as [| | | | | | |ufs|]; try contradiction.
  unfold addressed, update_paths. intro H.
  apply in_flat_map in H. destruct H as [[op v] [Hin H]]. simpl in H.
  destruct v as [| | | | | | |fields|]; try contradiction.
  apply in_flat_map in H. destruct H as [[fk fv] [Hf H]]. simpl in H.
  destruct H as [H|H].
  - exists fk. split; [|symmetry; exact H].
    apply in_flat_map. exists (op, VDoc fields). split; [exact Hin|]. simpl.
    apply in_or_app. left. apply in_map_iff. exists (fk, fv). auto.
  - destruct (op =? "$rename") eqn:Er; [|contradiction].
    destruct fv as [| | | |dst| | | |]; try contradiction.
    destruct H as [H|[]]. exists dst. split; [|symmetry; exact H].
    apply in_flat_map. exists (op, VDoc fields). split; [exact Hin|]. simpl. rewrite Er.
    apply in_or_app. right. apply in_flat_map. exists (fk, VStr dst). split; [exact Hf|]. left. reflexivity.
Qed.

Lemma writes_id_paths u : c13_writes_id u = false -> ~ In "_id" (update_paths u).
Proof.
  destruct u as [| | | | | | |ufs|]; try (intros _ []).
  unfold c13_writes_id, update_paths. intros H Hin.
  apply orb_false_iff in H. destruct H as [H _].
  apply in_flat_map in Hin. destruct Hin as [[op v] [Hop Hin]]. simpl in Hin.
  pose proof (existsb_false_In _ _ H (op, v) Hop) as Hf. simpl in Hf.
  destruct v as [| | | | | | |fields|]; try contradiction.
  apply in_app_or in Hin. destruct Hin as [Hin|Hin].
  - apply in_map_iff in Hin. destruct Hin as [[fk fv] [E Hin]]. simpl in E. subst fk.
    pose proof (existsb_false_In _ _ Hf ("_id", fv) Hin) as Hg. simpl in Hg. discriminate.
  - destruct (op =? "$rename"); [|contradiction].
    apply in_flat_map in Hin. destruct Hin as [[fk fv] [Hfk Hin]]. simpl in Hin.
    destruct fv as [| | | |t| | | |]; try contradiction. destruct Hin as [->|[]].
    pose proof (existsb_false_In _ _ Hf (fk, VStr "_id") Hfk) as Hg. simpl in Hg.
    rewrite orb_true_r in Hg. discriminate.
Qed.

Lemma addressed_heads u :
  c13_writes_id u = false -> c13_id_subfield u = false ->
  forall p, In p (addressed u) -> exists h rest, p = h :: rest /\ h <> "_id".
Proof.
  intros Hw Hs p Hp. destruct (addressed_update_paths _ _ Hp) as [s [Hin ->]].
  pose proof (existsb_false_In _ _ Hs s Hin) as Hf. simpl in Hf.
  destruct (split_dots s) as [|h rest] eqn:Es; [exfalso; exact (split_dots_nonnil _ Es)|].
  exists h, rest. split; [reflexivity|]. intro Hh. subst h.
  destruct rest as [|q rest].
  - apply split_dots_single in Es. subst s. exact (writes_id_paths _ Hw Hin).
  - discriminate.
Qed.

(* ---------------------------------------------------------------- insert_doc: the id *)
Lemma insert_doc_id c fs c' id :
  insert_doc c (VDoc fs) = (c', Ok id) ->
  match assoc "_id" fs with Some i => id = patch i | None => id = VOid (next_oid c) end.
Proof.
  intro H. unfold insert_doc in H.
  destruct (assoc "_id" fs) as [i|]; cbv beta iota zeta in H.
  - destruct (negb (id_modelled (patch i))); [destruct (patch i); discriminate|].
    destruct (expire c); [|discriminate].
    destruct (store_get _ _); [discriminate|].
    destruct (ensure_uniques _ _).
    + destruct (expire_if _ _); inversion H; reflexivity.
    + destruct (expire _); discriminate.
  - cbn [id_modelled negb] in H.
    destruct (expire _); [|discriminate].
    destruct (store_get _ _); [discriminate|].
    destruct (ensure_uniques _ _).
    + destruct (expire_if _ _); inversion H; reflexivity.
    + destruct (expire _); discriminate.
Qed.

(* ---------------------------------------------------------------- apply_update on the seed *)
Lemma apply_update_id sfs ufs wi now sd d' id0 :
  WF (VDoc ufs) -> WF (VDoc sd) ->
  assoc "_id" sd = Some id0 -> is_null id0 = false ->
  (assoc "_id" sfs = Some id0 \/ assoc "_id" sfs = None \/
   exists i, assoc "_id" sfs = Some i /\ is_null i = true) ->
  assoc "_id" ufs = None ->
  (first_key_dollar (VDoc ufs) = Some true ->
   forall p, In p (addressed (VDoc ufs)) -> exists h rest, p = h :: rest /\ h <> "_id") ->
  apply_update (VDoc sfs) (VDoc ufs) wi now (VDoc sd) = Ok d' ->
  exists fs', d' = VDoc fs' /\
    (assoc "_id" fs' = Some id0 \/
     (assoc "_id" fs' = None /\ exists i, assoc "_id" sfs = Some i /\ is_null i = true)).
Proof.
  intros Hu Hsd Hid Hnn Hsrc Hun Hheads H.
  (* repaired library: the kept _id is the seed's own, whatever the filter says about _id, so
     the first alternative of the conclusion always holds (Hsrc is not needed any more) *)
  assert (Hr : C02Replace.rep_id (VDoc sfs) (VDoc sd) = Some id0).
  { unfold C02Replace.rep_id. rewrite Hid, Hnn. reflexivity. }
  destruct ufs as [|[k0 v0] rest].
  - simpl in H. rewrite Hid, Hnn in H.
    assert (Ed : d' = VDoc [("_id", id0)]) by congruence.
    clear H. subst d'. eexists. split; [reflexivity|]. left. reflexivity.
  - destruct (starts_dollar k0) eqn:Ek.
    + assert (Hf : first_key_dollar (VDoc ((k0, v0) :: rest)) = Some true) by (simpl; rewrite Ek; reflexivity).
      pose proof (apply_update_chain _ _ _ _ _ _ Hf Hu Hsd H) as Hc.
      destruct (chain_keeps "_id" _ _ _ Hc (Hheads Hf) sd eq_refl) as [fs' [Hd' Ha]].
      exists fs'. split; [exact Hd'|]. left. rewrite Ha. exact Hid.
    + unfold apply_update in H. cbn [apply_update_keys] in H.
      rewrite (apply_update_key_nodollar _ _ _ _ _ _ _ Ek) in H.
      destruct (existsb _ ((k0, v0) :: rest)); [discriminate|]. cbv zeta in H.
      apply wf_doc_iff in Hu. destruct Hu as [Hnd _].
      rewrite (C02Replace.merged_assoc _ _ "_id" Hnd), Hun in H.
      rewrite Hr in H. cbn [C02Replace.rep_base] in H.
      change (assoc "_id" [("_id", id0)]) with (Some id0) in H. cbv beta iota in H.
      destruct (py_eq id0 id0); [|discriminate]. cbv beta iota delta [bind] in H.
      assert (Ed : d' = VDoc (C02Replace.rep_merged ((k0, v0) :: rest) [("_id", id0)])) by congruence.
      clear H. subst d'. eexists. split; [reflexivity|]. left.
      rewrite (C02Replace.merged_assoc _ _ "_id" Hnd), Hun. reflexivity.
Qed.

(* ---------------------------------------------------------------- the filter *)
Lemma patch_fields_keys fs : map fst (C02Step.patch_fields fs) = map fst fs.
Proof. unfold C02Step.patch_fields. rewrite map_map. reflexivity. Qed.

Lemma assoc_patch_fields k fs :
  assoc k (C02Step.patch_fields fs) = option_map patch (assoc k fs).
Proof.
  induction fs as [|[k' v] fs IH]; [reflexivity|]. simpl. destruct (k =? k'); [reflexivity|exact IH].
Qed.

Lemma hdk_patch : forall v, c13_has_dollar_key (patch v) = c13_has_dollar_key v.
Proof.
  induction v as [|b|z|e|s|us tz|n|fs IH|xs IH] using value_ind2; try reflexivity.
  - destruct tz; reflexivity.
  - rewrite C02Step.patch_doc, !hdk_doc. unfold C02Step.patch_fields.
    induction fs as [|[k x] fs IHfs]; [reflexivity|].
    inversion IH as [|? ? Hx IH']; subst. simpl in *. rewrite Hx, (IHfs IH'). reflexivity.
Qed.

Lemma is_null_patch v : is_null (patch v) = is_null v.
Proof. destruct v as [| | | | |us tz| | |]; try reflexivity. destruct tz; reflexivity. Qed.

Record filter_ok (ffs : list (string * value)) : Prop := mkFok {
  fo_heads : forall k, In k (map fst ffs) -> forall h rest, split_dots k = h :: rest -> starts_dollar h = false;
  fo_id : In "_id" (map fst ffs) -> forall k, In k (map fst ffs) -> k <> "_id" -> hd_id k = false;
  fo_clean : forall i, assoc "_id" ffs = Some i -> c13_has_dollar_key i = false
}.

Lemma odd_filter_ok f : c13_odd_filter f = false -> exists ffs, f = VDoc ffs /\ filter_ok ffs.
Proof.
  destruct f as [| | | | | | |ffs|]; try discriminate. intro H. exists ffs. split; [reflexivity|].
  unfold c13_odd_filter in H. apply orb_false_iff in H. destruct H as [H H3].
  apply orb_false_iff in H. destruct H as [H1 H2]. split.
  - intros k Hk h rest Hs. apply in_map_iff in Hk. destruct Hk as [[k' v] [E Hin]]. simpl in E. subst k'.
    pose proof (existsb_false_In _ _ H1 (k, v) Hin) as Hf. simpl in Hf. rewrite Hs in Hf.
    simpl in Hf. apply orb_false_iff in Hf. destruct Hf as [Hf _].
    apply orb_false_iff in Hf. exact (proj2 Hf).
  - intros Hid k Hk Hne. apply in_map_iff in Hid. destruct Hid as [[k1 v1] [E1 Hin1]]. simpl in E1. subst k1.
    apply in_map_iff in Hk. destruct Hk as [[k2 v2] [E2 Hin2]]. simpl in E2. subst k2.
    pose proof (existsb_false_In _ _ H2 ("_id", v1) Hin1) as Hf. cbv beta in Hf.
    pose proof (existsb_false_In _ _ Hf (k, v2) Hin2) as Hg. cbv beta in Hg. cbn [fst] in Hg.
    assert (En : ("_id" =? k) = false).
    { destruct ("_id" =? k) eqn:E; [|reflexivity]. apply String.eqb_eq in E. congruence. }
    rewrite En in Hg. cbn [negb andb] in Hg. unfold paths_overlap in Hg.
    apply orb_false_iff in Hg. destruct Hg as [Hg _]. rewrite split_id in Hg.
    unfold hd_id. destruct (split_dots k) as [|h rest]; [reflexivity|].
    cbn [is_prefix_parts] in Hg. rewrite andb_true_r in Hg.
    rewrite String.eqb_sym. exact Hg.
  - intros i Ha. rewrite Ha in H3. exact H3.
Qed.

(* ---------------------------------------------------------------- the upsert: the id *)
Definition nn (o : option value) : option value :=
  match o with Some i => if is_null i then None else Some i | None => None end.

Definition id_src_ok (f id : value) : Prop :=
  match nn (get_field "_id" (patch f)) with
  | Some i => id = i
  | None => exists n, id = VOid n
  end.

Lemma update_upsert_id pre5 c f u multi c' v :
  noTTL c -> WF f -> WF u ->
  c13_writes_id u = false -> c13_odd_filter f = false ->
  (first_key_dollar u = Some true -> c13_id_subfield u = false) ->
  scan (patch f) (docs c) = Ok [] ->
  update pre5 c f u multi true = (c', Ok v) ->
  exists id, v = update_result 1 0 (Some id) /\ id_src_ok f id.
Proof.
  intros HT Hwf Hwu Hwr Hodd Hsub Hscan H.
  destruct (odd_filter_ok _ Hodd) as [ffs [-> [Fh Fi Fc]]].
  unfold update in H. unfold id_src_ok.
  rewrite C02Step.patch_doc in *.
  set (sfs := C02Step.patch_fields ffs) in *.
  pose proof (C02Step.wf_patch _ Hwf) as Hwsf. rewrite C02Step.patch_doc in Hwsf. fold sfs in Hwsf.
  pose proof (C02Step.wf_patch _ Hwu) as Hwpu.
  pose proof (C02Step.first_key_dollar_patch u) as Hfk.
  pose proof (C02Step.addressed_patch u) as Hadr.
  assert (Hunone : forall ufs, patch u = VDoc ufs -> assoc "_id" ufs = None).
  { intros ufs E. destruct u as [| | | | |us tz| |ufs0|]; try discriminate; [destruct tz; discriminate|].
    rewrite C02Step.patch_doc in E. inversion E; subst. rewrite assoc_patch_fields.
    unfold c13_writes_id in Hwr. apply orb_false_iff in Hwr. destruct Hwr as [_ Hk].
    destruct (assoc "_id" ufs0) eqn:Ea; [|reflexivity].
    apply C02Frame.has_key_assoc_some in Ea. congruence. }
  destruct (patch u) as [| | | | | | |ufs|] eqn:Hpu; try discriminate.
  specialize (Hunone ufs eq_refl).
  destruct (empty_operator pre5 (VDoc ufs)); [discriminate|].
  rewrite (expire_noTTL c HT) in H.
  destruct (match docs c with [] => filter_applies (VDoc sfs) (VDoc []) | _ => Ok true end);
    [|discriminate].
  rewrite (scan_nil_loop _ _ _ _ _ _ _ Hscan) in H.
  cbn [negb orb Z.eqb] in H. rewrite Hunone in H.
  cbn [get_field]. unfold nn.
  set (i_opt := match assoc "_id" sfs with
                | Some i => if is_null i then None else Some i | None => None end) in *.
  (* the id selected for the seed *)
  assert (Hsel : exists c3 id0,
            (match i_opt with
             | Some i => (c, i)
             | None => (mkColl (docs c) (idx c) (forced c) (next_oid c + 1) (now c) (odocs c),
                        VOid (next_oid c))
             end) = (c3, id0) /\ noTTL c3 /\ is_null id0 = false /\
            c13_has_dollar_key id0 = false /\ patch id0 = id0 /\
            match i_opt with Some i => id0 = i | None => exists n, id0 = VOid n end /\
            (assoc "_id" sfs = Some id0 \/ assoc "_id" sfs = None \/
             exists i, assoc "_id" sfs = Some i /\ is_null i = true)).
  { unfold i_opt. destruct (assoc "_id" sfs) as [i|] eqn:Ei.
    - destruct (is_null i) eqn:Hn.
      + eexists _, _. split; [reflexivity|]. split; [exact HT|]. split; [reflexivity|].
        split; [reflexivity|]. split; [reflexivity|]. split; [eexists; reflexivity|].
        right. right. exists i. auto.
      + assert (Hi0 : exists i0, assoc "_id" ffs = Some i0 /\ i = patch i0).
        { unfold sfs in Ei. rewrite assoc_patch_fields in Ei.
          destruct (assoc "_id" ffs) as [i0|]; [|discriminate]. inversion Ei; subst. eauto. }
        destruct Hi0 as [i0 [Ei0 ->]].
        eexists _, _. split; [reflexivity|]. split; [exact HT|]. split; [exact Hn|].
        split; [rewrite hdk_patch; apply Fc; exact Ei0|].
        split; [apply C02Step.patch_idem|]. split; [reflexivity|]. left. reflexivity.
    - eexists _, _. split; [reflexivity|]. split; [exact HT|]. split; [reflexivity|].
      split; [reflexivity|]. split; [reflexivity|]. split; [eexists; reflexivity|].
      right. left. reflexivity. }
  destruct Hsel as [c3 [id0 [Esel [HT3 [Hnn [Hclean [Hpid [Hsrc Hrel]]]]]]]].
  rewrite Esel in H.
  destruct (expand_dots (set_key "_id" id0 sfs)) as [expanded|e] eqn:Ex; [|discriminate].
  (* the seed carries id0 *)
  assert (Hwid : WF id0).
  { destruct Hrel as [E|[E|[i [E Hi]]]].
    - exact (wf_doc_assoc sfs "_id" id0 Hwsf E).
    - unfold i_opt in Hsrc. rewrite E in Hsrc. destruct Hsrc as [n ->]. reflexivity.
    - unfold i_opt in Hsrc. rewrite E, Hi in Hsrc. destruct Hsrc as [n ->]. reflexivity. }
  assert (Hwset : WF (VDoc (set_key "_id" id0 sfs))) by (apply wf_set_key; assumption).
  pose proof (expand_dots_wf _ _ Hwset Ex) as Hwexp.
  assert (Hexp_id : assoc "_id" expanded = Some id0).
  { unfold expand_dots in Ex.
    destruct (assoc "_id" sfs) as [i|] eqn:Ei.
    - (* the filter has an _id key: replaced in place *)
      rewrite (go_id_value _ _ _ _ Ex).
      + rewrite assoc_set_key. reflexivity.
      + apply wf_doc_iff in Hwset. exact (proj1 Hwset).
      + rewrite (keys_set_key_present _ _ _ _ Ei). unfold sfs. rewrite patch_fields_keys.
        apply Fi. rewrite <- patch_fields_keys. fold sfs. eapply assoc_Some_key. exact Ei.
    - (* no _id key: appended at the end *)
      rewrite (set_key_absent _ _ _ Ei) in Ex.
      destruct (existsb (fun kv => match split_dots (fst kv) with
                                   | h :: _ :: _ => h =? "_id" | _ => false end) sfs) eqn:Eb.
      + exfalso. apply existsb_exists in Eb. destruct Eb as [[k x] [Hin Hk]]. cbn [fst] in Hk.
        destruct (split_dots k) as [|h [|q rest]] eqn:Es; try discriminate.
        apply String.eqb_eq in Hk. subst h.
        apply (go_id_blocked _ _ _ _ _ Ex). right. exists k, q, rest. split; [|exact Es].
        apply in_map_iff. exists (k, x). auto.
      + rewrite (go_id_value _ _ _ _ Ex).
        * rewrite assoc_app_none' by exact Ei. reflexivity.
        * rewrite map_app. simpl. apply NoDup_app_end; [apply wf_doc_iff in Hwsf; exact (proj1 Hwsf)|].
          apply assoc_none_notin. exact Ei.
        * intros k Hk Hne. rewrite map_app in Hk. apply in_app_or in Hk.
          destruct Hk as [Hk|[<-|[]]]; [|simpl in Hne; congruence].
          apply in_map_iff in Hk. destruct Hk as [[k' x] [E Hin]]. simpl in E. subst k'.
          pose proof (existsb_false_In _ _ Eb (k, x) Hin) as Hf. cbv beta in Hf. cbn [fst] in Hf.
          unfold hd_id. destruct (split_dots k) as [|h [|q rest]] eqn:Es; try reflexivity; [|exact Hf].
          destruct (h =? "_id") eqn:Eh; [|reflexivity]. apply String.eqb_eq in Eh. subst h.
          apply split_dots_single in Es. congruence. }
  assert (Hexp_keys : forall k, In k (map fst expanded) -> starts_dollar k = false).
  { intros k Hk. unfold expand_dots in Ex.
    destruct (go_top_keys _ _ _ _ _ Ex Hk) as [[]|[k0 [Hk0 Hh]]].
    destruct (split_dots k0) as [|h rest] eqn:Es; [discriminate|]. simpl in Hh. inversion Hh; subst h.
    destruct (assoc "_id" sfs) as [i|] eqn:Ei.
    - rewrite (keys_set_key_present _ _ _ _ Ei) in Hk0. unfold sfs in Hk0. rewrite patch_fields_keys in Hk0.
      exact (Fh k0 Hk0 k rest Es).
    - rewrite (set_key_absent _ _ _ Ei), map_app in Hk0. apply in_app_or in Hk0.
      destruct Hk0 as [Hk0|[<-|[]]].
      + unfold sfs in Hk0. rewrite patch_fields_keys in Hk0. exact (Fh k0 Hk0 k rest Es).
      + cbn [fst] in Es. rewrite split_id in Es. inversion Es; subst. reflexivity. }
  destruct (seed_id expanded id0 Hexp_keys (proj1 (proj1 (wf_doc_iff _) Hwexp)) Hexp_id Hclean)
    as [sd [Hseed Hsd_id]].
  rewrite Hseed in H.
  assert (Hwsd : WF (VDoc sd)) by (rewrite <- Hseed; apply discard_ops_wf; exact Hwexp).
  destruct (apply_update (VDoc sfs) (VDoc ufs) true (now c3) (VDoc sd)) as [d'|e] eqn:Ea; [|discriminate].
  assert (Hheads : first_key_dollar (VDoc ufs) = Some true ->
                   forall p, In p (addressed (VDoc ufs)) -> exists h rest, p = h :: rest /\ h <> "_id").
  { intros Hf. rewrite Hfk in Hf. rewrite Hadr. apply addressed_heads; [exact Hwr|exact (Hsub Hf)]. }
  destruct (apply_update_id _ _ _ _ _ _ _ Hwpu Hwsd Hsd_id Hnn Hrel Hunone Hheads Ea)
    as [fs' [-> Hfs']].
  destruct (insert_doc c3 (VDoc fs')) as [c4 ir] eqn:Hins.
  destruct ir as [new_id|e]; [|discriminate].
  inversion H; subst. exists new_id. split; [reflexivity|].
  pose proof (insert_doc_id _ _ _ _ Hins) as Hnew.
  destruct Hfs' as [Ha|[Ha [i [Ei Hi]]]]; rewrite Ha in Hnew.
  - rewrite Hpid in Hnew. subst new_id. exact Hsrc.
  - unfold i_opt. rewrite Ei, Hi. eexists. exact Hnew.
Qed.

(* ---------------------------------------------------------------- the predicate *)
(* c13_upsert_ok without its LAST conjunct ("an equality-only filter the update does not
   overwrite is matched by the upserted document"); the clause on where the upserted _id comes
   from is kept *)
Definition id_clause (f u uid : value) : bool :=
  match upsert_id_source f u with
  | Some i => (is_doc i && existsb (fun kv => starts_dollar (fst kv))
                                   (match i with VDoc fs => fs | _ => [] end))
              || bson_eq uid i
  | None => match uid with VOid _ => true | _ => false end
  end.

Definition c13i_upsert_ok (x : ctx) (f u : value) (r : res value) (after : store) : bool :=
  let before := x_store x in
  match r with
  | Err _ => true
  | Ok v =>
      match any_match f before with
      | None => true
      | Some true =>
          Nat.eqb (List.length after) (List.length before)
          && opt_value_eqb (get_field "upserted_id" v) (Some VNull)
      | Some false =>
          Nat.eqb (List.length after) (S (List.length before))
          && store_eqb before (firstn (List.length before) after)
          && opt_value_eqb (get_field "matched" v) (Some (VInt 0))
          && match last after (VNull, VNull), get_field "upserted_id" v with
             | (k, d), Some uid =>
                 negb (is_null uid) && opt_value_eqb (doc_id d) (Some uid) && id_clause f u uid
             | _, None => false
             end
      end
  end.

Definition c13i_step (x : ctx) (o : op) (ob : obs) : bool :=
  let '(r, after, _) := ob in
  match o with
  | OUpdate f u _ true => c13i_upsert_ok x f u r after
  | OReplace f u true => c13i_upsert_ok x f u r after
  | _ => true
  end.

Definition c13i_ok (ops : list op) (os : list obs) : bool := trace_all c13i_step ctx0 ops os.

(* c13_ok => c13i_ok => c13w_ok: weakenings, nothing else *)
Lemma c13_upsert_weaken_i x f u b r after :
  c13_upsert_ok x f u b r after = true -> c13i_upsert_ok x f u r after = true.
Proof.
  unfold c13_upsert_ok, c13i_upsert_ok, id_clause.
  destruct r as [v|e]; [|auto].
  destruct (any_match f (x_store x)) as [[|]|]; auto.
  destruct (last after (VNull, VNull)) as [k d].
  destruct (get_field "upserted_id" v) as [uid|]; auto.
  intros H.
  repeat match goal with
         | H : _ && _ = true |- _ => apply andb_prop in H; destruct H
         end.
  repeat (apply andb_true_intro; split); assumption.
Qed.

Lemma c13_ok_weaken_i ops os : c13_ok ops os = true -> c13i_ok ops os = true.
Proof.
  apply trace_all_weaken. intros x o [[r s] i]. unfold c13_step, c13i_step.
  destruct o; auto.
  - destruct upsert; auto. apply c13_upsert_weaken_i.
  - destruct upsert; auto. apply c13_upsert_weaken_i.
Qed.

Lemma c13i_upsert_weaken x f u r after :
  c13i_upsert_ok x f u r after = true -> c13w_upsert_ok x f r after = true.
Proof.
  unfold c13i_upsert_ok, c13w_upsert_ok.
  destruct r as [v|e]; [|auto].
  destruct (any_match f (x_store x)) as [[|]|]; auto.
  destruct (last after (VNull, VNull)) as [k d].
  destruct (get_field "upserted_id" v) as [uid|]; auto.
  intros H.
  repeat match goal with
         | H : _ && _ = true |- _ => apply andb_prop in H; destruct H
         end.
  repeat (apply andb_true_intro; split); assumption.
Qed.

Lemma c13i_ok_weaken ops os : c13i_ok ops os = true -> c13w_ok ops os = true.
Proof.
  apply trace_all_weaken. intros x o [[r s] i]. unfold c13i_step, c13w_step.
  destruct o; auto.
  - destruct upsert; auto. apply c13i_upsert_weaken.
  - destruct upsert; auto. apply c13i_upsert_weaken.
Qed.

Lemma c13i_from_w x f u v after :
  c13w_upsert_ok x f (Ok v) after = true ->
  (any_match f (x_store x) = Some false ->
   forall uid, get_field "upserted_id" v = Some uid -> id_clause f u uid = true) ->
  c13i_upsert_ok x f u (Ok v) after = true.
Proof.
  unfold c13w_upsert_ok, c13i_upsert_ok. intros H Hid.
  destruct (any_match f (x_store x)) as [[|]|]; auto.
  destruct (last after (VNull, VNull)) as [k d].
  destruct (get_field "upserted_id" v) as [uid|]; auto.
  rewrite (Hid eq_refl uid eq_refl), andb_true_r. exact H.
Qed.

(* ---------------------------------------------------------------- one upsert step *)
Lemma writes_id_no_id u : c13_writes_id u = false -> get_field "_id" (patch u) = None.
Proof.
  intro H. destruct u as [| | | | |us tz| |ufs|]; try reflexivity; [destruct tz; reflexivity|].
  rewrite C02Step.patch_doc. cbn [get_field]. rewrite assoc_patch_fields.
  unfold c13_writes_id in H. apply orb_false_iff in H. destruct H as [_ Hk].
  destruct (assoc "_id" ufs) eqn:Ea; [|reflexivity].
  apply C02Frame.has_key_assoc_some in Ea. congruence.
Qed.

Lemma id_src_clause f u id :
  c13_writes_id u = false -> id_src_ok f id -> id_clause f u id = true.
Proof.
  intros Hw Hs. unfold id_clause, upsert_id_source. rewrite (writes_id_no_id _ Hw).
  unfold id_src_ok, nn in Hs.
  destruct (get_field "_id" (patch f)) as [i|].
  - destruct (is_null i).
    + destruct Hs as [n ->]. reflexivity.
    + subst id. rewrite C05Values.bson_eq_refl. apply orb_true_r.
  - destruct Hs as [n ->]. reflexivity.
Qed.

Lemma upsert_step_i pre5 c f u multi now :
  WF f -> WF u -> c13_writes_id u = false -> c13_odd_filter f = false ->
  (first_key_dollar u = Some true -> c13_id_subfield u = false) ->
  c13_step_reasons (OReplace f u true) (snd (update pre5 c f u multi true)) (docs c)
                   (docs (fst (update pre5 c f u multi true))) (info_of c) = 0 ->
  c13i_upsert_ok (mkCtx (docs c) (info_of c) now) f u
                 (snd (update pre5 c f u multi true))
                 (docs (fst (update pre5 c f u multi true))) = true.
Proof.
  intros Hwf Hwu Hwr Hodd Hsub Hr. unfold c13_step_reasons in Hr.
  apply (reasons_zero _ _ _ false false) in Hr.
  destruct Hr as (Httl & Hself & Hnull & _ & _).
  destruct (update pre5 c f u multi true) as [c' [v|e]] eqn:Hu; [|reflexivity].
  cbn [fst snd] in *.
  pose proof (info_noTTL _ Httl) as HT.
  apply c13i_from_w.
  - apply upsert_pred; [|exact Hnull]. apply (update_upsert pre5 c f u multi c' v); auto.
  - cbn [x_store]. intros Hany uid Huid.
    assert (Hscan : scan (patch f) (docs c) = Ok []).
    { unfold any_match in Hany. destruct (scan (patch f) (docs c)) as [[|? ?]|]; try discriminate. reflexivity. }
    destruct (update_upsert_id pre5 c f u multi c' v HT Hwf Hwu Hwr Hodd Hsub Hscan Hu) as [id [-> Hid]].
    cbn in Huid. inversion Huid; subst uid.
    apply id_src_clause; assumption.
Qed.

Definition undecided_op (o : op) : bool :=
  match o with
  | OUpdate f u _ true | OReplace f u true => c13_writes_id u || c13_odd_filter f
  | _ => false
  end.

Lemma c13i_step_model pre5 c o now info' :
  C02History.op_wf o -> undecided_op o = false ->
  c13_step_reasons o (snd (step pre5 c o)) (docs c) (docs (fst (step pre5 c o))) (info_of c) = 0 ->
  c13i_step (mkCtx (docs c) (info_of c) now) o
            (snd (step pre5 c o), docs (fst (step pre5 c o)), info') = true.
Proof.
  intros Hw Hun H.
  destruct o; try reflexivity.
  - (* update *)
    destruct upsert; [|reflexivity].
    simpl in Hw, Hun. destruct Hw as [Hwf Hwu].
    apply orb_false_iff in Hun. destruct Hun as [Hwr Hodd].
    assert (Hsub : c13_id_subfield u = false).
    { unfold c13_step_reasons in H.
      destruct (c13_id_subfield u); [|reflexivity]. exfalso.
      repeat match type of H with context [if ?b then _ else _] => destruct b end; lia. }
    cbn [c13i_step step] in *. unfold update_op in *.
    destruct u; try reflexivity.
    destruct (first_key_dollar (VDoc fs)) as [[|]|]; try reflexivity.
    apply upsert_step_i;
      [exact Hwf|exact Hwu|exact Hwr|exact Hodd|intros _; exact Hsub|exact (drop_bits _ _ _ _ _ H)].
  - (* replace *)
    destruct upsert; [|reflexivity].
    simpl in Hw, Hun. destruct Hw as [Hwf Hwu].
    apply orb_false_iff in Hun. destruct Hun as [Hwr Hodd].
    cbn [c13i_step step] in *. unfold replace_op in *.
    destruct r; try reflexivity.
    destruct (first_key_dollar (VDoc fs)) as [[|]|] eqn:Ek; try reflexivity;
      (apply upsert_step_i;
       [exact Hwf|exact Hwu|exact Hwr|exact Hodd|intro Hx; rewrite Ek in Hx; discriminate
       |exact H]).
Qed.

(* ---------------------------------------------------------------- the history *)
Lemma undecided_ops ops : c13_undecided ops = existsb undecided_op ops.
Proof. reflexivity. Qed.

Lemma c13i_trace pre5 : forall ops c now,
  Forall C02History.op_wf ops -> existsb undecided_op ops = false ->
  c13_go ops (model_obs pre5 c ops) (docs c) (info_of c) = 0 ->
  trace_all c13i_step (mkCtx (docs c) (info_of c) now) ops (model_obs pre5 c ops) = true.
Proof.
  induction ops as [|o ops IH]; intros c now Hw Hun H; [reflexivity|].
  inversion Hw as [|? ? Hwo Hw']; subst. simpl in Hun. apply orb_false_iff in Hun. destruct Hun as [Huo Hun'].
  rewrite C15Proofs.model_obs_cons in *. cbn [c13_go trace_all] in *.
  apply Z.lor_eq_0_iff in H. destruct H as [H1 H2].
  rewrite (c13i_step_model pre5 c o now _ Hwo Huo H1). cbn [andb].
  apply (IH (fst (step pre5 c o))); assumption.
Qed.

Theorem c13_history_id pre5 ops :
  Forall C02History.op_wf ops ->
  c13_reasons ops (model_obs pre5 empty_coll ops) = 0 ->
  c13_undecided ops = false ->
  c13i_ok ops (model_obs pre5 empty_coll ops) = true.
Proof.
  intros Hw H Hun. rewrite c13_reasons_go in H. rewrite undecided_ops in Hun. unfold c13i_ok.
  exact (c13i_trace pre5 ops empty_coll 0 Hw Hun H).
Qed.
