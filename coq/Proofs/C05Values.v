(* C05 proofs, part 1: facts about values: structural equality, Python == (transitivity,
   compatibility with patch, reflexivity on well-formed values), BSON equality vs ==. *)
From Coq Require Import ZArith List String Bool Ascii Lia.
From Verif Require Import Value PyEq BsonOrder Path Filter Update C01Values.
Import ListNotations.
Open Scope Z_scope.
Open Scope string_scope.
Open Scope list_scope.

(* ---------------------------------------------------------------- unfolding lemmas *)
Definition doc_sub (gs : list (string * value)) (kv : string * value) : bool :=
  match assoc (fst kv) gs with Some w => py_eq (snd kv) w | None => false end.

Lemma py_eq_doc fs gs :
  py_eq (VDoc fs) (VDoc gs) =
  Nat.eqb (List.length fs) (List.length gs) && forallb (doc_sub gs) fs.
Proof.
  simpl. f_equal. induction fs as [|[k v] fs IH]; [reflexivity|].
  simpl. rewrite <- IH. reflexivity.
Qed.

Definition fld_eq (eq : value -> value -> bool) (p q : string * value) : bool :=
  String.eqb (fst p) (fst q) && eq (snd p) (snd q).

Lemma bson_eq_doc fs gs : bson_eq (VDoc fs) (VDoc gs) = list_eqb (fld_eq bson_eq) fs gs.
Proof.
  revert gs. induction fs as [|[k v] fs IH]; intros [|[k' v'] gs]; try reflexivity.
  simpl. unfold fld_eq at 1. simpl. f_equal. apply IH.
Qed.

Lemma value_eqb_doc fs gs : value_eqb (VDoc fs) (VDoc gs) = list_eqb (fld_eq value_eqb) fs gs.
Proof.
  revert gs. induction fs as [|[k v] fs IH]; intros [|[k' v'] gs]; try reflexivity.
  simpl. unfold fld_eq at 1. simpl. f_equal. apply IH.
Qed.

Lemma value_eqb_arr xs ys : value_eqb (VArr xs) (VArr ys) = list_eqb value_eqb xs ys.
Proof.
  revert ys. induction xs as [|x xs IH]; intros [|y ys]; try reflexivity.
  simpl. f_equal. apply IH.
Qed.

Definition patch_fld (kv : string * value) : string * value := (fst kv, patch (snd kv)).

Lemma patch_doc fs : patch (VDoc fs) = VDoc (map patch_fld fs).
Proof.
  simpl. f_equal. induction fs as [|[k v] fs IH]; [reflexivity|].
  simpl. rewrite <- IH. reflexivity.
Qed.

Lemma patch_arr xs : patch (VArr xs) = VArr (map patch xs).
Proof. reflexivity. Qed.

Lemma wf_doc fs :
  wf_value (VDoc fs) = nodup_str (map fst fs) && forallb (fun kv => wf_value (snd kv)) fs.
Proof.
  simpl. f_equal. induction fs as [|[k v] fs IH]; [reflexivity|].
  simpl. rewrite <- IH. reflexivity.
Qed.

Lemma wf_arr xs : wf_value (VArr xs) = forallb wf_value xs.
Proof.
  induction xs as [|x xs IH]; [reflexivity|]. simpl in *. rewrite IH. reflexivity.
Qed.

Lemma py_eq_doc_l fs v : is_doc v = false -> py_eq (VDoc fs) v = false.
Proof. destruct v; intros H; try reflexivity. discriminate H. Qed.
Lemma py_eq_doc_r fs v : is_doc v = false -> py_eq v (VDoc fs) = false.
Proof. destruct v as [|[]| | | |? []| | |]; intros H; try reflexivity. discriminate H. Qed.

(* ---------------------------------------------------------------- list_eqb *)
Lemma list_eqb_refl {A} (eqb : A -> A -> bool) l :
  Forall (fun x => eqb x x = true) l -> list_eqb eqb l l = true.
Proof. induction 1 as [|x l Hx _ IH]; [reflexivity|]. simpl. rewrite Hx, IH. reflexivity. Qed.

Lemma list_eqb_eq {A} (eqb : A -> A -> bool) l :
  Forall (fun x => forall y, eqb x y = true -> x = y) l ->
  forall m, list_eqb eqb l m = true -> l = m.
Proof.
  induction 1 as [|x l Hx _ IH]; intros [|y m] H; try discriminate H; [reflexivity|].
  simpl in H. apply andb_true_iff in H. destruct H as [H1 H2].
  f_equal; [apply Hx; exact H1|apply IH; exact H2].
Qed.

Lemma list_eqb_length {A} (eqb : A -> A -> bool) l :
  forall m, list_eqb eqb l m = true -> List.length l = List.length m.
Proof.
  induction l as [|x l IH]; intros [|y m] H; try discriminate H; [reflexivity|].
  simpl in H. apply andb_true_iff in H. destruct H as [_ H]. simpl. f_equal. apply IH. exact H.
Qed.

(* ---------------------------------------------------------------- structural equality *)
Lemma value_eqb_refl : forall v, value_eqb v v = true.
Proof.
  induction v as [|b|z|e|s|us tz|n|fs IH|xs IH] using value_ind2; simpl;
    try reflexivity; try apply Z.eqb_refl.
  - destruct b; reflexivity.
  - apply String.eqb_refl.
  - rewrite Z.eqb_refl. destruct tz as [m|]; simpl; [apply Z.eqb_refl|reflexivity].
  - change (value_eqb (VDoc fs) (VDoc fs) = true). rewrite value_eqb_doc.
    apply list_eqb_refl. eapply Forall_impl; [|exact IH].
    intros [k v] H. unfold fld_eq. simpl in *. rewrite String.eqb_refl, H. reflexivity.
  - change (value_eqb (VArr xs) (VArr xs) = true). rewrite value_eqb_arr.
    apply list_eqb_refl. exact IH.
Qed.

Lemma value_eqb_eq : forall a b, value_eqb a b = true -> a = b.
Proof.
  induction a as [|b|z|e|s|us tz|n|fs IH|xs IH] using value_ind2;
    intros [|b'|z'|e'|s'|us' tz'|n'|fs'|xs'] H; try discriminate H; try reflexivity.
  - simpl in H. apply Bool.eqb_prop in H. subst. reflexivity.
  - simpl in H. apply Z.eqb_eq in H. subst. reflexivity.
  - simpl in H. apply Z.eqb_eq in H. subst. reflexivity.
  - simpl in H. apply String.eqb_eq in H. subst. reflexivity.
  - simpl in H. apply andb_true_iff in H. destruct H as [H1 H2].
    apply Z.eqb_eq in H1. subst.
    destruct tz as [m|], tz' as [m'|]; simpl in H2; try discriminate H2; [|reflexivity].
    apply Z.eqb_eq in H2. subst. reflexivity.
  - simpl in H. apply Z.eqb_eq in H. subst. reflexivity.
  - rewrite value_eqb_doc in H. f_equal. revert H. apply list_eqb_eq.
    eapply Forall_impl; [|exact IH].
    intros [k v] Hv [k' v'] H. unfold fld_eq in H. simpl in *.
    apply andb_true_iff in H. destruct H as [H1 H2].
    apply String.eqb_eq in H1. apply Hv in H2. subst. reflexivity.
  - rewrite value_eqb_arr in H. f_equal. revert H. apply list_eqb_eq. exact IH.
Qed.

Lemma bson_eq_refl : forall v, bson_eq v v = true.
Proof.
  induction v as [|b|z|e|s|us tz|n|fs IH|xs IH] using value_ind2; simpl;
    try reflexivity; try apply Z.eqb_refl.
  - destruct b; reflexivity.
  - apply String.eqb_refl.
  - change (bson_eq (VDoc fs) (VDoc fs) = true). rewrite bson_eq_doc.
    apply list_eqb_refl. eapply Forall_impl; [|exact IH].
    intros [k v] H. unfold fld_eq. simpl in *. rewrite String.eqb_refl, H. reflexivity.
  - change (bson_eq (VArr xs) (VArr xs) = true). rewrite bson_eq_arr.
    apply list_eqb_refl. exact IH.
Qed.

(* ---------------------------------------------------------------- assoc *)
Lemma assoc_In {A} k (l : list (string * A)) w : assoc k l = Some w -> In (k, w) l.
Proof.
  induction l as [|[k' v] l IH]; simpl; [discriminate|].
  destruct (String.eqb k k') eqn:E.
  - intros H. injection H as ->. apply String.eqb_eq in E. subst. left. reflexivity.
  - intros H. right. apply IH. exact H.
Qed.

Lemma assoc_map_patch k fs :
  assoc k (map patch_fld fs) = option_map patch (assoc k fs).
Proof.
  induction fs as [|[k' v] fs IH]; [reflexivity|]. simpl.
  destruct (String.eqb k k'); [reflexivity|exact IH].
Qed.

Lemma assoc_nodup_In k v (fs : list (string * value)) :
  nodup_str (map fst fs) = true -> In (k, v) fs -> assoc k fs = Some v.
Proof.
  induction fs as [|[k' v'] fs IH]; simpl; [intros _ []|].
  intros H [E|Hin].
  - injection E as -> ->. rewrite String.eqb_refl. reflexivity.
  - apply andb_true_iff in H. destruct H as [Hn Hd].
    destruct (String.eqb k k') eqn:E.
    + apply String.eqb_eq in E. subst k'. exfalso.
      apply negb_true_iff in Hn.
      assert (Hm : mem_str k (map fst fs) = true).
      { clear -Hin. induction fs as [|[k2 v2] fs IH]; [destruct Hin|].
        simpl. destruct Hin as [E|Hin].
        - injection E as -> ->. rewrite String.eqb_refl. reflexivity.
        - rewrite (IH Hin). apply orb_true_r. }
      rewrite Hm in Hn. discriminate Hn.
    + apply IH; assumption.
Qed.

(* ---------------------------------------------------------------- == is transitive *)
Ltac zeq :=
  repeat match goal with
         | H : (_ =? _)%Z = true |- _ => apply Z.eqb_eq in H
         end;
  try (apply Z.eqb_eq); try lia.

Lemma py_eq_trans : forall a b c, py_eq a b = true -> py_eq b c = true -> py_eq a c = true.
Proof.
  induction a as [|x|z|e|s|us tz|n|fs IH|xs IH] using value_ind2; intros b c H1 H2.
  - destruct b; try discriminate H1. destruct c; try discriminate H2. reflexivity.
  - destruct b as [|y| | | |? []| | |]; try discriminate H1;
      destruct c as [|w| | | |? []| | |]; try discriminate H2;
      simpl in *; repeat match goal with b : bool |- _ => destruct b end; zeq.
  - destruct b as [|y| | | |? []| | |]; try discriminate H1;
      destruct c as [|w| | | |? []| | |]; try discriminate H2;
      simpl in *; repeat match goal with b : bool |- _ => destruct b end; zeq.
  - destruct b as [|y| | | |? []| | |]; try discriminate H1;
      destruct c as [|w| | | |? []| | |]; try discriminate H2;
      simpl in *; repeat match goal with b : bool |- _ => destruct b end; zeq.
  - destruct b; try discriminate H1. destruct c; try discriminate H2.
    simpl in *. apply String.eqb_eq in H1, H2. subst. apply String.eqb_refl.
  - destruct b as [| | | | |us' tz'| | |]; try (destruct tz; discriminate H1).
    destruct c as [| | | | |us'' tz''| | |]; try (destruct tz'; discriminate H2).
    destruct tz, tz', tz''; simpl in *; try discriminate; zeq.
  - destruct b; try discriminate H1. destruct c; try discriminate H2. simpl in *. zeq.
  - destruct b as [| | | | | | |gs|]; try discriminate H1.
    destruct c as [| | | | | | |hs|]; try discriminate H2.
    rewrite py_eq_doc in *.
    apply andb_true_iff in H1. destruct H1 as [L1 F1].
    apply andb_true_iff in H2. destruct H2 as [L2 F2].
    apply Nat.eqb_eq in L1, L2. apply andb_true_iff. split; [apply Nat.eqb_eq; congruence|].
    rewrite forallb_forall in *. intros [k v] Hin.
    specialize (F1 _ Hin). unfold doc_sub in *. simpl in *.
    destruct (assoc k gs) as [w|] eqn:Eg; [|discriminate F1].
    apply assoc_In in Eg. specialize (F2 _ Eg). simpl in F2.
    destruct (assoc k hs) as [u|] eqn:Eh; [|discriminate F2].
    rewrite Forall_forall in IH. exact (IH _ Hin w u F1 F2).
  - destruct b as [| | | | | | | |ys]; try discriminate H1.
    destruct c as [| | | | | | | |zs]; try discriminate H2.
    rewrite py_eq_arr in *. revert ys zs H1 H2.
    induction IH as [|x xs Hx _ IHxs]; intros [|y ys] [|z zs] H1 H2;
      try discriminate H1; try discriminate H2; [reflexivity|].
    simpl in *. apply andb_true_iff in H1. destruct H1 as [A1 B1].
    apply andb_true_iff in H2. destruct H2 as [A2 B2].
    rewrite (Hx _ _ A1 A2), (IHxs _ _ B1 B2). reflexivity.
Qed.

(* ---------------------------------------------------------------- == is preserved by patch *)
Lemma floor1000_eq a b : a = b -> floor1000 a = floor1000 b.
Proof. intros ->. reflexivity. Qed.

Lemma py_eq_patch : forall a b, py_eq a b = true -> py_eq (patch a) (patch b) = true.
Proof.
  induction a as [|x|z|e|s|us tz|n|fs IH|xs IH] using value_ind2; intros b H.
  - destruct b; try discriminate H. reflexivity.
  - destruct b as [|y| | | |? []| | |]; try discriminate H; exact H.
  - destruct b as [|y| | | |? []| | |]; try discriminate H; exact H.
  - destruct b as [|y| | | |? []| | |]; try discriminate H; exact H.
  - destruct b; try discriminate H. exact H.
  - destruct b as [| | | | |us' tz'| | |]; try (destruct tz; discriminate H).
    destruct tz, tz'; simpl in *; try discriminate H; apply Z.eqb_eq in H; apply Z.eqb_eq;
      apply floor1000_eq; lia.
  - destruct b; try discriminate H. exact H.
  - destruct b as [| | | | | | |gs|]; try discriminate H.
    rewrite !patch_doc, py_eq_doc in *.
    apply andb_true_iff in H. destruct H as [L F].
    rewrite !map_length, L. simpl.
    rewrite forallb_forall in *. intros [k v] Hin.
    apply in_map_iff in Hin. destruct Hin as [[k0 v0] [E Hin]].
    unfold patch_fld in E. simpl in E. injection E as <- <-.
    specialize (F _ Hin). unfold doc_sub in *. simpl in *.
    rewrite assoc_map_patch.
    destruct (assoc k0 gs) as [w|]; [|discriminate F]. simpl.
    rewrite Forall_forall in IH. exact (IH _ Hin w F).
  - destruct b as [| | | | | | | |ys]; try discriminate H.
    rewrite !patch_arr, py_eq_arr in *. revert ys H.
    induction IH as [|x xs Hx _ IHxs]; intros [|y ys] H; try discriminate H; [reflexivity|].
    simpl in *. apply andb_true_iff in H. destruct H as [A B].
    rewrite (Hx _ A), (IHxs _ B). reflexivity.
Qed.

(* ---------------------------------------------------------------- == is reflexive on well-formed values *)
Lemma py_eq_refl_wf : forall v, wf_value v = true -> py_eq v v = true.
Proof.
  induction v as [|x|z|e|s|us tz|n|fs IH|xs IH] using value_ind2; intros W;
    try reflexivity; simpl; try apply Z.eqb_refl.
  - apply String.eqb_refl.
  - destruct tz; apply Z.eqb_refl.
  - change (py_eq (VDoc fs) (VDoc fs) = true). rewrite py_eq_doc, Nat.eqb_refl. simpl.
    rewrite wf_doc in W. apply andb_true_iff in W. destruct W as [Wn Wf].
    rewrite forallb_forall in *. intros [k v] Hin. unfold doc_sub. simpl.
    rewrite (assoc_nodup_In k v fs Wn Hin).
    rewrite Forall_forall in IH. apply (IH _ Hin). exact (Wf _ Hin).
  - change (py_eq (VArr xs) (VArr xs) = true). rewrite py_eq_arr. rewrite wf_arr in W.
    induction IH as [|x xs Hx _ IHxs]; [reflexivity|].
    simpl in *. apply andb_true_iff in W. destruct W as [W1 W2].
    rewrite (Hx W1), (IHxs W2). reflexivity.
Qed.

(* ---------------------------------------------------------------- BSON equality implies == *)
(* on well-formed values that patch leaves alone (no aware datetime) *)
Lemma patch_doc_fixed fs :
  patch (VDoc fs) = VDoc fs -> Forall (fun kv => patch (snd kv) = snd kv) fs.
Proof.
  rewrite patch_doc. intros H. injection H as H.
  induction fs as [|[k v] fs IH]; [constructor|].
  simpl in H. injection H as H1 H2. constructor; [exact H1|apply IH; exact H2].
Qed.

Lemma patch_arr_fixed xs : patch (VArr xs) = VArr xs -> Forall (fun x => patch x = x) xs.
Proof.
  rewrite patch_arr. intros H. injection H as H.
  induction xs as [|x xs IH]; [constructor|].
  simpl in H. injection H as H1 H2. constructor; [exact H1|apply IH; exact H2].
Qed.

Lemma bson_py : forall a b,
  wf_value a = true -> patch a = a -> patch b = b -> bson_eq a b = true -> py_eq a b = true.
Proof.
  induction a as [|x|z|e|s|us tz|n|fs IH|xs IH] using value_ind2; intros b W Pa Pb H.
  - destruct b; try discriminate H. reflexivity.
  - destruct b as [|y| | | | | | |]; try discriminate H.
    simpl in *. destruct x, y; try discriminate H; reflexivity.
  - destruct b; try discriminate H; cbn [py_eq bson_eq num8] in *; zeq.
  - destruct b; try discriminate H; cbn [py_eq bson_eq num8] in *; zeq.
  - destruct b; try discriminate H. exact H.
  - destruct b as [| | | | |us' tz'| | |]; try discriminate H.
    destruct tz; [discriminate Pa|]. destruct tz'; [discriminate Pb|]. exact H.
  - destruct b; try discriminate H. exact H.
  - destruct b as [| | | | | | |gs|]; try discriminate H.
    rewrite bson_eq_doc in H. rewrite py_eq_doc.
    rewrite (list_eqb_length _ _ _ H), Nat.eqb_refl. simpl.
    rewrite wf_doc in W. apply andb_true_iff in W. destruct W as [Wn Wf].
    apply patch_doc_fixed in Pa. apply patch_doc_fixed in Pb.
    revert gs H Pb Wn Wf Pa.
    induction IH as [|[k v] fs Hv _ IHfs]; intros [|[k' v'] gs] H Pb Wn Wf Pa;
      try discriminate H; [reflexivity|].
    simpl in H. apply andb_true_iff in H. destruct H as [H1 H2].
    unfold fld_eq in H1. simpl in H1. apply andb_true_iff in H1. destruct H1 as [Hk Hvv].
    apply String.eqb_eq in Hk. subst k'.
    simpl in Wn. apply andb_true_iff in Wn. destruct Wn as [Wk Wn].
    simpl in Wf. apply andb_true_iff in Wf. destruct Wf as [Wv Wf].
    inversion Pa as [|? ? Pv Pfs]. subst. inversion Pb as [|? ? Pv' Pgs]. subst.
    simpl in *. apply andb_true_iff. split.
    + unfold doc_sub. simpl. rewrite String.eqb_refl. apply Hv; assumption.
    + specialize (IHfs gs H2 Pgs Wn Wf Pfs).
      rewrite forallb_forall in *. intros [k2 v2] Hin. specialize (IHfs _ Hin).
      unfold doc_sub in *. simpl in *.
      destruct (String.eqb k2 k) eqn:E; [|exact IHfs].
      apply String.eqb_eq in E. subst k2. exfalso.
      apply negb_true_iff in Wk.
      assert (Hm : mem_str k (map fst fs) = true).
      { clear -Hin. induction fs as [|[k3 v3] fs IH]; [destruct Hin|].
        simpl. destruct Hin as [E|Hin].
        - injection E as -> ->. rewrite String.eqb_refl. reflexivity.
        - rewrite (IH Hin). apply orb_true_r. }
      rewrite Hm in Wk. discriminate Wk.
  - destruct b as [| | | | | | | |ys]; try discriminate H.
    rewrite bson_eq_arr in H. rewrite py_eq_arr. rewrite wf_arr in W.
    apply patch_arr_fixed in Pa. apply patch_arr_fixed in Pb.
    revert ys H Pb W Pa.
    induction IH as [|x xs Hx _ IHxs]; intros [|y ys] H Pb W Pa; try discriminate H; [reflexivity|].
    simpl in *. apply andb_true_iff in H. destruct H as [A B].
    apply andb_true_iff in W. destruct W as [W1 W2].
    inversion Pa; subst. inversion Pb; subst.
    rewrite (Hx y), (IHxs ys); auto.
Qed.

(* ---------------------------------------------------------------- patch is idempotent *)
Lemma floor1000_floor us : floor1000 (floor1000 us) = floor1000 us.
Proof. unfold floor1000. rewrite Z.div_mul by lia. reflexivity. Qed.

Lemma patch_idem : forall v, patch (patch v) = patch v.
Proof.
  induction v as [|x|z|e|s|us tz|n|fs IH|xs IH] using value_ind2; try reflexivity.
  - destruct tz as [m|]; simpl; rewrite floor1000_floor; reflexivity.
  - rewrite !patch_doc. f_equal.
    induction IH as [|[k v] fs Hv _ IHfs]; [reflexivity|].
    simpl in *. unfold patch_fld at 1. simpl. rewrite Hv. f_equal. exact IHfs.
  - rewrite !patch_arr. f_equal.
    induction IH as [|x xs Hx _ IHxs]; [reflexivity|].
    simpl. rewrite Hx. f_equal. exact IHxs.
Qed.
