(* C05 proofs, part 4: the per-step predicate holds along the model's trace. *)
From Coq Require Import ZArith List String Bool Ascii Lia.
From Verif Require Import Value PyEq BsonOrder Path Filter Update Project Coll HistCheck HistProps
  HistGuards.
From Verif Require Import C01Values C05Values C05Store C05Ops.
Import ListNotations.
Open Scope Z_scope.
Open Scope string_scope.
Open Scope list_scope.

(* ---------------------------------------------------------------- the guard, decomposed *)
Definition wf_reason (k : value) : Z := if wf_value k then 0 else 2.
Definition entry_reasons (kd : value * value) : Z :=
  Z.lor (wf_reason (fst kd))
        (match doc_id (snd kd) with
         | Some i => if py_eq (patch (fst kd)) i && negb (value_eqb i (patch (fst kd)))
                     then 4 else 0
         | None => 0
         end).
Definition op_reasons (o : op) (r : res value) (s : store) : Z :=
  match o with
  | OInsertOne (VDoc fs) =>
      match assoc "_id" fs with
      | Some i => wf_reason i
      | None => 0
      end
  | OFind (VDoc [("_id", v)]) None [] 0 0 =>
      if scalar_id v
         && existsb (fun kd => py_eq (patch (fst kd)) (patch v)
                               && negb (bson_eq (patch (fst kd)) (patch v))) s
      then 8 else 0
  | OCreateIndex _ _ _ (Some t) _ _ => if is_null t then 0 else 16
  | _ => 0
  end.
Definition step_reasons (oo : op * obs) : Z :=
  let '(o, (r, s, _)) := oo in
  Z.lor (fold_right Z.lor 0 (map entry_reasons s)) (op_reasons o r s).

Lemma c05_reasons_eq ops os :
  c05_reasons ops os = fold_right Z.lor 0 (map step_reasons (combine ops os)).
Proof. reflexivity. Qed.

Lemma fold_lor_0 {A} (f : A -> Z) l :
  fold_right Z.lor 0 (map f l) = 0 -> forall x, In x l -> f x = 0.
Proof.
  induction l as [|y l IH]; simpl; intros H x Hin; [destruct Hin|].
  apply Z.lor_eq_0_iff in H. destruct H as [H1 H2].
  destruct Hin as [<-|Hin]; [exact H1|apply IH; assumption].
Qed.

Definition key_good (k : value) : Prop := patch k = k /\ wf_value k = true.

Lemma wf_reason_0 k : wf_reason k = 0 -> wf_value k = true.
Proof. unfold wf_reason. destruct (wf_value k); [reflexivity|discriminate]. Qed.

Definition Good (s : store) : Prop :=
  forall kd, In kd s ->
    wf_value (fst kd) = true /\
    (forall i, doc_id (snd kd) = Some i -> py_eq (patch (fst kd)) i = true -> i = patch (fst kd)).

Lemma entry_reasons_good s : fold_right Z.lor 0 (map entry_reasons s) = 0 -> Good s.
Proof.
  intros H kd Hin. pose proof (fold_lor_0 _ _ H _ Hin) as Hk. unfold entry_reasons in Hk.
  apply Z.lor_eq_0_iff in Hk. destruct Hk as [H1 H2]. split; [apply wf_reason_0; exact H1|].
  intros i Hi Hp. rewrite Hi, Hp in H2. simpl in H2.
  destruct (value_eqb i (patch (fst kd))) eqn:E; [apply value_eqb_eq; exact E|discriminate H2].
Qed.

Lemma Good_nil : Good [].
Proof. intros ? []. Qed.

(* ---------------------------------------------------------------- invariant + guard *)
Definition Strong (s : store) : Prop :=
  knd s /\
  forall kd, In kd s ->
    key_good (fst kd) /\ is_arr (fst kd) = false /\ doc_id (snd kd) = Some (fst kd).

Lemma strong_of s : InvD s -> Good s -> Strong s.
Proof.
  intros [Hk [Hok Hko]] Hg. split; [exact Hk|]. intros kd Hin.
  destruct (Hg _ Hin) as [Hwf Hex]. destruct (Hok _ Hin) as [Harr [i [Hi Hrel]]].
  assert (Hkg : key_good (fst kd)) by (split; [exact (proj1 (Hko _ Hin))|exact Hwf]).
  split; [exact Hkg|]. split; [exact Harr|].
  assert (E : i = patch (fst kd)).
  { destruct Hrel as [k0 [Hk0 Hi0]].
    destruct Hk0 as [->|Hk0].
    - destruct Hi0 as [->|Hi0]; [reflexivity|]. apply Hex; assumption.
    - apply py_eq_patch in Hk0. apply Hex; [exact Hi|].
      destruct Hi0 as [->|Hi0]; [exact Hk0|]. eapply py_eq_trans; eassumption. }
  rewrite Hi, E. f_equal. exact (proj1 Hkg).
Qed.

Lemma Strong_tail kd s : Strong (kd :: s) -> Strong s.
Proof.
  intros [[_ Hk] H]. split; [exact Hk|]. intros kd' Hin. apply H. right. exact Hin.
Qed.

Lemma distinct_bson k k' :
  key_good k -> patch k' = k' -> py_eq k k' = false -> bson_eq (patch k) (patch k') = false.
Proof.
  intros [Hp Hw] Hp' Hne. rewrite Hp, Hp'.
  destruct (bson_eq k k') eqn:E; [|reflexivity].
  rewrite (bson_py k k' Hw Hp Hp' E) in Hne. discriminate Hne.
Qed.

Lemma strong_inv_id s : Strong s -> inv_id s = true.
Proof.
  intros HS. unfold inv_id. apply andb_true_iff. split.
  - induction s as [|kd s IH]; [reflexivity|].
    cbn [map nodup_by]. apply andb_true_iff. split; [|apply IH; eapply Strong_tail; exact HS].
    apply negb_true_iff. rewrite existsb_map. apply existsb_all_false.
    intros kd' Hin.
    destruct HS as [[Hk _] H].
    apply distinct_bson.
    + exact (proj1 (H kd (or_introl eq_refl))).
    + exact (proj1 (proj1 (H kd' (or_intror Hin)))).
    + apply Hk. exact Hin.
  - apply forallb_forall. intros kd Hin.
    destruct (proj2 HS _ Hin) as [[Hp _] [_ Hd]]. rewrite Hd, Hp. apply bson_eq_refl.
Qed.

(* ---------------------------------------------------------------- has_id *)
Lemma has_id_none s i :
  Strong s -> store_get (patch i) s = None -> has_id s i = false.
Proof.
  intros HS Hg. unfold has_id. apply existsb_all_false. intros kd Hin.
  rewrite <- (patch_idem i). apply distinct_bson.
  - exact (proj1 (proj2 HS _ Hin)).
  - apply patch_idem.
  - eapply store_get_none; eassumption.
Qed.

(* an _id outside the store keys of the model is BSON-equal to no stored key *)
Lemma has_id_unmodelled s i :
  keys_ok s -> id_modelled (patch i) = false -> has_id s i = false.
Proof.
  intros HK Hm. unfold has_id. apply existsb_all_false. intros kd Hin.
  destruct (HK _ Hin) as [Hp Hkm]. rewrite Hp.
  destruct (bson_eq (fst kd) (patch i)) eqn:E; [|reflexivity].
  rewrite (bson_eq_id_modelled _ _ E (patch_idem i) Hkm) in Hm. discriminate Hm.
Qed.

Lemma has_id_last s i d : has_id (s ++ [(i, d)]) i = true.
Proof.
  unfold has_id. rewrite existsb_app. simpl. rewrite bson_eq_refl. apply orb_true_r.
Qed.

Lemma has_id_last_patch s i d : has_id (s ++ [(patch i, d)]) i = true.
Proof.
  unfold has_id. rewrite existsb_app. simpl. rewrite patch_idem, bson_eq_refl. apply orb_true_r.
Qed.

Lemma has_id_arr s i : Strong s -> is_arr i = true -> has_id s i = false.
Proof.
  intros HS Hi. unfold has_id. apply existsb_all_false. intros kd Hin.
  destruct (proj2 HS _ Hin) as [[Hp _] [Harr _]]. rewrite Hp.
  destruct i; try discriminate Hi. rewrite patch_arr. apply bson_eq_arr_r. exact Harr.
Qed.

Lemma store_eqb_refl s : store_eqb s s = true.
Proof.
  unfold store_eqb. apply list_eqb_refl. apply Forall_forall. intros kd _.
  rewrite !value_eqb_refl. reflexivity.
Qed.

(* ---------------------------------------------------------------- insert_one *)
Definition insert_part (before after : store) (fs : list (string * value)) (r : res value) : bool :=
  match assoc "_id" fs, r with
  | None, Ok (VDoc [("inserted_id", i)]) =>
      negb (has_id before i) && has_id after i
      && Nat.eqb (List.length after) (S (List.length before))
  | Some i, Ok (VDoc [("inserted_id", j)]) =>
      negb (has_id before i) && value_eqb (patch i) j && has_id after i
  | Some i, Err e =>
      if has_id before i then err_eqb e EDup && store_eqb before after else true
  | None, Err _ => true
  | _, Ok _ => false
  end.

Lemma c05_step_insert x fs r after info :
  c05_step x (OInsertOne (VDoc fs)) (r, after, info) =
  inv_id after && insert_part (x_store x) after fs r.
Proof. reflexivity. Qed.

Lemma insert_part_ok_some before after fs i j :
  assoc "_id" fs = Some i ->
  insert_part before after fs (Ok (VDoc [("inserted_id", j)])) =
  negb (has_id before i) && value_eqb (patch i) j && has_id after i.
Proof. intros E. unfold insert_part. rewrite E. reflexivity. Qed.

Lemma insert_part_ok_none before after fs i :
  assoc "_id" fs = None ->
  insert_part before after fs (Ok (VDoc [("inserted_id", i)])) =
  negb (has_id before i) && has_id after i
  && Nat.eqb (List.length after) (S (List.length before)).
Proof. intros E. unfold insert_part. rewrite E. reflexivity. Qed.

Lemma insert_part_err_some before after fs i e :
  assoc "_id" fs = Some i ->
  insert_part before after fs (Err e) =
  if has_id before i then err_eqb e EDup && store_eqb before after else true.
Proof. intros E. unfold insert_part. rewrite E. reflexivity. Qed.

Lemma insert_part_err_none before after fs e :
  assoc "_id" fs = None -> insert_part before after fs (Err e) = true.
Proof. intros E. unfold insert_part. rewrite E. reflexivity. Qed.

Lemma insert_step c fs c' r :
  Inv c -> Strong (docs c) ->
  insert_one c (VDoc fs) = (c', r) ->
  insert_part (docs c) (docs c') fs r = true.
Proof.
  intros HI HS. unfold insert_one.
  destruct (insert_doc c (VDoc fs)) as [c1 r1] eqn:E. intros H. injection H as <- <-.
  pose proof (insert_doc_spec c fs c1 r1 (proj2 HI) E) as Hs. cbv zeta in Hs.
  destruct Hs as [_ Hs]. unfold ins_id in Hs.
  destruct (assoc "_id" fs) as [i|] eqn:Ea.
  - destruct Hs as [[Hm [Hd [e [-> _]]]]|[[Hm [[x Hx] [Hd ->]]]|[[Hm [Hn [Hd ->]]]|[Hm [Hn [Hd [e ->]]]]]]];
      cbn [bind] in *.
    + rewrite (insert_part_err_some _ _ _ _ _ Ea).
      rewrite (has_id_unmodelled _ _ (proj2 (proj2 (proj1 HI))) Hm). reflexivity.
    + rewrite (insert_part_err_some _ _ _ _ _ Ea). rewrite Hd, store_eqb_refl.
      destruct (has_id (docs c) i); reflexivity.
    + rewrite (insert_part_ok_some _ _ _ _ _ Ea).
      rewrite (has_id_none _ i HS Hn).
      rewrite value_eqb_refl, Hd, has_id_last_patch. reflexivity.
    + rewrite (insert_part_err_some _ _ _ _ _ Ea).
      rewrite (has_id_none _ _ HS Hn). reflexivity.
  - destruct Hs as [[Hm _]|[[Hm [[x Hx] [Hd ->]]]|[[Hm [Hn [Hd ->]]]|[Hm [Hn [Hd [e ->]]]]]]];
      cbn [bind].
    + discriminate Hm.
    + apply insert_part_err_none. exact Ea.
    + rewrite (insert_part_ok_none _ _ _ _ Ea).
      rewrite (has_id_none _ (VOid (next_oid c)) HS Hn), Hd, has_id_last.
      rewrite app_length, Nat.add_comm. simpl. rewrite Nat.eqb_refl. reflexivity.
    + apply insert_part_err_none. exact Ea.
Qed.

(* ---------------------------------------------------------------- update / replace *)
Definition update_part (before after : store) : bool :=
  ids_preserved before after && Nat.leb (List.length after) (S (List.length before)).

Lemma ids_preserved_keys : forall l l' tl,
  map fst l' = map fst l ++ tl ->
  (forall kd, In kd l -> doc_id (snd kd) = Some (fst kd)) ->
  (forall kd, In kd l' -> doc_id (snd kd) = Some (fst kd)) ->
  ids_preserved l l' = true.
Proof.
  induction l as [|[k d] l IH]; intros l' tl Hm H1 H2; [reflexivity|].
  destruct l' as [|[k' d'] l']; [discriminate Hm|].
  simpl in Hm. injection Hm as Hk Hm. subst k'.
  cbn [ids_preserved].
  rewrite value_eqb_refl.
  pose proof (H1 (k, d) (or_introl eq_refl)) as E1.
  pose proof (H2 (k, d') (or_introl eq_refl)) as E2. cbn [fst snd] in E1, E2.
  rewrite E1, E2. cbn [lookup_eqb]. rewrite value_eqb_refl. cbn [andb].
  eapply IH; [exact Hm| |]; intros kd Hin; [apply H1|apply H2]; right; exact Hin.
Qed.

Lemma upd_keys l l' :
  Strong l -> upd l l' ->
  exists tl, map fst l' = map fst l ++ tl /\ (List.length tl <= 1)%nat.
Proof.
  intros HS [l1 [Hs Hi]].
  assert (E : map fst l1 = map fst l).
  { eapply sets_keys; [exact Hs|]. intros kd Hin. exists kd. split; [exact Hin|].
    apply py_eq_refl_wf. exact (proj2 (proj1 (proj2 HS _ Hin))). }
  destruct (ins_keys _ _ Hi) as [tl [Ht Hl]]. exists tl. rewrite Ht, E. split; [reflexivity|exact Hl].
Qed.

Lemma update_step l l' : Strong l -> Strong l' -> upd l l' -> update_part l l' = true.
Proof.
  intros HS HS' Hu. destruct (upd_keys _ _ HS Hu) as [tl [Hm Hl]].
  unfold update_part. apply andb_true_iff. split.
  - eapply ids_preserved_keys; [exact Hm| |]; intros kd Hin.
    + exact (proj2 (proj2 (proj2 HS _ Hin))).
    + exact (proj2 (proj2 (proj2 HS' _ Hin))).
  - apply Nat.leb_le. apply (f_equal (@List.length value)) in Hm.
    rewrite app_length, !map_length in Hm. lia.
Qed.

(* ---------------------------------------------------------------- lookup by _id *)
Lemma parse_id_filter pv :
  is_doc pv = false ->
  parse_filter (VDoc [("_id", pv)]) = FAnd (CField "_id" (SVal pv)) FEnd.
Proof. destruct pv; intros H; try discriminate H; reflexivity. Qed.

Lemma eval_id_field fs k pv :
  assoc "_id" fs = Some k -> is_arr k = false -> is_doc pv = false ->
  eval_field "_id" (SVal pv) (VDoc fs) = Ok (py_eq k pv).
Proof.
  intros Hk Harr Hpv. cbn [eval_field].
  change (split_dots "_id") with ["_id"].
  change (path_modelled ["_id"]) with true. cbn [negb].
  change (candidates ["_id"] (VDoc fs)) with [assoc "_id" fs]. rewrite Hk.
  destruct pv; try discriminate Hpv; destruct k; try discriminate Harr;
    cbn -[py_eq]; destruct (py_eq _ _); reflexivity.
Qed.

Lemma filter_id_doc fs k pv :
  assoc "_id" fs = Some k -> is_arr k = false -> is_doc pv = false ->
  filter_applies (VDoc [("_id", pv)]) (VDoc fs) = Ok (py_eq k pv).
Proof.
  intros Hk Harr Hpv. unfold filter_applies. rewrite (parse_id_filter pv Hpv).
  cbn [matches eval_clause]. rewrite (eval_id_field fs k pv Hk Harr Hpv). cbn [bind].
  destruct (py_eq k pv); reflexivity.
Qed.

Lemma filter_id_empty pv :
  is_doc pv = false -> exists b, filter_applies (VDoc [("_id", pv)]) (VDoc []) = Ok b.
Proof. destruct pv; intros H; try discriminate H; eexists; reflexivity. Qed.

Lemma scan_id pv : is_doc pv = false -> forall l,
  (forall kd, In kd l -> is_arr (fst kd) = false /\ doc_id (snd kd) = Some (fst kd)) ->
  scan (VDoc [("_id", pv)]) l = Ok (List.filter (fun kd => py_eq (fst kd) pv) l).
Proof.
  intros Hpv. induction l as [|[k d] l IH]; intros H; [reflexivity|].
  cbn [scan List.filter fst].
  destruct (H (k, d) (or_introl eq_refl)) as [Harr Hd]. simpl in Harr, Hd.
  destruct d as [| | | | | | |fs|]; try discriminate Hd. simpl in Hd.
  rewrite (filter_id_doc fs k pv Hd Harr Hpv). cbn [bind].
  rewrite IH by (intros kd Hin; apply H; right; exact Hin). cbn [bind].
  reflexivity.
Qed.

Lemma project_all_none l :
  (forall d, In d l -> is_doc d = true) -> project_all None l = Ok l.
Proof.
  induction l as [|d l IH]; intros H; [reflexivity|].
  cbn [project_all]. assert (Hd := H d (or_introl eq_refl)).
  destruct d; try discriminate Hd. cbn [copy_only_fields bind].
  rewrite IH by (intros d Hin; apply H; right; exact Hin). reflexivity.
Qed.

Lemma find_by_id c v :
  no_ttl (idx c) = true -> Strong (docs c) -> is_doc (patch v) = false ->
  find_op c (VDoc [("_id", v)]) None [] 0 0 =
  (c, Ok (VArr (map snd (List.filter (fun kd => py_eq (fst kd) (patch v)) (docs c))))).
Proof.
  intros Hn HS Hpv. unfold find_op, find_docs.
  change (patch (VDoc [("_id", v)])) with (VDoc [("_id", patch v)]).
  unfold iter_documents. rewrite (expire_id c Hn). cbn [bind].
  assert (Hval : exists b, match docs c with
                           | [] => filter_applies (VDoc [("_id", patch v)]) (VDoc [])
                           | _ => Ok true end = Ok b).
  { destruct (docs c); [apply filter_id_empty; exact Hpv|eexists; reflexivity]. }
  destruct Hval as [b ->]. cbn [bind].
  rewrite (scan_id (patch v) Hpv (docs c)).
  2:{ intros kd Hin. destruct (proj2 HS _ Hin) as [_ [H1 H2]]. split; assumption. }
  cbn [bind fst snd sort_docs].
  rewrite project_all_none.
  - unfold cursor_slice. reflexivity.
  - intros d Hin. apply in_map_iff in Hin. destruct Hin as [kd [<- Hin]].
    apply filter_In in Hin. destruct Hin as [Hin _].
    destruct (proj2 HS _ Hin) as [_ [_ Hd]]. destruct (snd kd); try discriminate Hd. reflexivity.
Qed.

Lemma floor1000_idem us : floor1000 (floor1000 us) = floor1000 us.
Proof. unfold floor1000. rewrite Z.div_mul by lia. reflexivity. Qed.

Lemma patch_idem_scalar v : scalar_id v = true -> patch (patch v) = patch v.
Proof.
  destruct v as [| | | | |us [m|]| | |]; intros H; try discriminate H; try reflexivity.
  simpl. rewrite floor1000_idem. reflexivity.
Qed.

Lemma scalar_patch_not_doc v : scalar_id v = true -> is_doc (patch v) = false.
Proof. destruct v as [| | | | |us [m|]| | |]; intros H; try discriminate H; reflexivity. Qed.

Definition find_part (after : store) (v : value) (r : res value) : bool :=
  if scalar_id v then
    match r with
    | Ok (VArr l) =>
        list_eqb value_eqb l
          (map snd (List.filter (fun kd => bson_eq (patch (fst kd)) (patch v)) after))
    | _ => false
    end
  else true.

Lemma find_step c v c' r :
  no_ttl (idx c) = true -> Strong (docs c) ->
  find_op c (VDoc [("_id", v)]) None [] 0 0 = (c', r) ->
  (scalar_id v
   && existsb (fun kd => py_eq (patch (fst kd)) (patch v)
                         && negb (bson_eq (patch (fst kd)) (patch v))) (docs c)) = false ->
  find_part (docs c') v r = true.
Proof.
  intros Hn HS H Hg. unfold find_part.
  destruct (scalar_id v) eqn:Esc; [|reflexivity]. simpl in Hg.
  rewrite (find_by_id c v Hn HS (scalar_patch_not_doc v Esc)) in H.
  injection H as <- <-.
  assert (E : List.filter (fun kd => bson_eq (patch (fst kd)) (patch v)) (docs c) =
              List.filter (fun kd => py_eq (fst kd) (patch v)) (docs c)).
  { apply filter_ext_in. intros kd Hin.
    destruct (proj2 HS _ Hin) as [[Hp Hw] _].
    pose proof (existsb_false_In _ _ Hg _ Hin) as Hkd. cbv beta in Hkd.
    rewrite Hp in *.
    destruct (bson_eq (fst kd) (patch v)) eqn:Eb.
    - symmetry. apply bson_py; auto. apply patch_idem_scalar. exact Esc.
    - destruct (py_eq (fst kd) (patch v)); [discriminate Hkd|reflexivity]. }
  rewrite E. apply list_eqb_refl. apply Forall_forall. intros x _. apply value_eqb_refl.
Qed.

(* ---------------------------------------------------------------- recognising the _id lookup *)
Definition id_lookup (o : op) : option value :=
  match o with
  | OFind (VDoc [("_id", v)]) None [] 0 0 => Some v
  | _ => None
  end.

Ltac dchar k :=
  destruct k as [|[[|] [|] [|] [|] [|] [|] [|] [|]] k]; try reflexivity; try discriminate.

Ltac dlookup f proj sort skip limit :=
  destruct f as [| | | | | | |fs|]; try reflexivity; try discriminate;
  destruct fs as [|[k v] [|? ?]]; try reflexivity; try discriminate;
  dchar k; dchar k; dchar k;
  destruct k; try reflexivity; try discriminate;
  destruct proj; try reflexivity; try discriminate;
  destruct sort; try reflexivity; try discriminate;
  destruct skip; try reflexivity; try discriminate;
  destruct limit; try reflexivity; try discriminate.

Lemma c05_step_find x f proj sort skip limit r after info :
  c05_step x (OFind f proj sort skip limit) (r, after, info) =
  inv_id after && match id_lookup (OFind f proj sort skip limit) with
                  | Some v => find_part after v r
                  | None => true
                  end.
Proof. dlookup f proj sort skip limit. Qed.

Lemma op_reasons_find f proj sort skip limit r s :
  op_reasons (OFind f proj sort skip limit) r s =
  match id_lookup (OFind f proj sort skip limit) with
  | Some v => if scalar_id v
                 && existsb (fun kd => py_eq (patch (fst kd)) (patch v)
                                       && negb (bson_eq (patch (fst kd)) (patch v))) s
              then 8 else 0
  | None => 0
  end.
Proof. dlookup f proj sort skip limit. Qed.

Lemma id_lookup_some f proj sort skip limit w :
  id_lookup (OFind f proj sort skip limit) = Some w ->
  f = VDoc [("_id", w)] /\ proj = None /\ sort = [] /\ skip = 0 /\ limit = 0.
Proof.
  dlookup f proj sort skip limit. intros H. injection H as ->. repeat split; reflexivity.
Qed.

(* ---------------------------------------------------------------- one step *)
Lemma op_reasons_ttl_free o r s : op_reasons o r s = 0 -> ttl_free o = true.
Proof.
  destruct o; try reflexivity. destruct ttl as [t|]; [|reflexivity].
  simpl. destruct (is_null t); [reflexivity|discriminate].
Qed.

Lemma c05_step_ok pre5 c o c' r x info :
  Inv c -> Strong (docs c) -> x_store x = docs c ->
  step pre5 c o = (c', r) ->
  Strong (docs c') -> op_reasons o r (docs c') = 0 ->
  c05_step x o (r, docs c', info) = true.
Proof.
  intros HI HS Hx Hstep HS' Hop.
  pose proof (strong_inv_id _ HS') as Hinv.
  destruct o; cbn [step] in Hstep;
    try (unfold c05_step; rewrite Hinv; reflexivity).
  - (* insert_one *)
    destruct d as [| | | | | | |fs|]; try (unfold c05_step; rewrite Hinv; reflexivity).
    rewrite c05_step_insert, Hinv, Hx. cbn [andb].
    eapply insert_step; [exact HI|exact HS|exact Hstep].
  - (* update *)
    apply update_op_spec in Hstep; [|exact (proj2 HI)].
    change (c05_step x (OUpdate f u multi upsert) (r, docs c', info))
      with (inv_id (docs c') && update_part (x_store x) (docs c')).
    rewrite Hinv, Hx. apply update_step; [exact HS|exact HS'|exact (proj2 Hstep)].
  - (* replace *)
    apply replace_op_spec in Hstep; [|exact (proj2 HI)].
    change (c05_step x (OReplace f r0 upsert) (r, docs c', info))
      with (inv_id (docs c') && update_part (x_store x) (docs c')).
    rewrite Hinv, Hx. apply update_step; [exact HS|exact HS'|exact (proj2 Hstep)].
  - (* find *)
    rewrite c05_step_find, Hinv. cbn [andb].
    rewrite op_reasons_find in Hop.
    destruct (id_lookup (OFind f proj sort skip limit)) as [v|] eqn:El; [|reflexivity].
    apply id_lookup_some in El. destruct El as [-> [-> [-> [-> ->]]]].
    assert (Hc : c' = c).
    { pose proof (find_op_state c (VDoc [("_id", v)]) None [] 0 0 (proj2 HI)) as Hf.
      rewrite Hstep in Hf. exact Hf. }
    subst c'.
    eapply find_step; [exact (proj2 HI)|exact HS|exact Hstep|].
    destruct (scalar_id v && _); [discriminate Hop|reflexivity].
  - (* find_one_and_* *)
    apply find_and_modify_spec in Hstep; [|exact (proj2 HI)].
    destruct k as [|u ups aft|u ups aft]; cbn [fam_rel] in Hstep.
    + unfold c05_step. rewrite Hinv. reflexivity.
    + change (c05_step x (OFindAndModify f proj sort (FamUpdate u ups aft)) (r, docs c', info))
        with (inv_id (docs c') && update_part (x_store x) (docs c')).
      rewrite Hinv, Hx. apply update_step; [exact HS|exact HS'|exact (proj2 Hstep)].
    + change (c05_step x (OFindAndModify f proj sort (FamReplace u ups aft)) (r, docs c', info))
        with (inv_id (docs c') && update_part (x_store x) (docs c')).
      rewrite Hinv, Hx. apply update_step; [exact HS|exact HS'|exact (proj2 Hstep)].
Qed.

(* ---------------------------------------------------------------- the whole trace *)
Lemma c05_trace pre5 : forall ops c x,
  Inv c -> Strong (docs c) -> x_store x = docs c ->
  c05_reasons ops (model_obs pre5 c ops) = 0 ->
  trace_all c05_step x ops (model_obs pre5 c ops) = true.
Proof.
  induction ops as [|o ops IH]; intros c x HI HS Hx Hg; [reflexivity|].
  cbn [model_obs] in *. destruct (step pre5 c o) as [c' r] eqn:Estep.
  set (info := match index_information c' with (_, Ok v) => v | _ => VNull end) in *.
  rewrite c05_reasons_eq in Hg. cbn [combine map fold_right] in Hg.
  apply Z.lor_eq_0_iff in Hg. destruct Hg as [Hs Hrest].
  cbn [step_reasons] in Hs. apply Z.lor_eq_0_iff in Hs. destruct Hs as [He Hop].
  assert (HI' : Inv c').
  { eapply step_inv; [exact HI|eapply op_reasons_ttl_free; exact Hop|exact Estep]. }
  assert (HS' : Strong (docs c')).
  { apply strong_of; [exact (proj1 HI')|apply entry_reasons_good; exact He]. }
  cbn [trace_all]. apply andb_true_iff. split.
  - exact (c05_step_ok pre5 c o c' r x info HI HS Hx Estep HS' Hop).
  - apply IH; [exact HI'|exact HS'|reflexivity|].
    rewrite c05_reasons_eq. exact Hrest.
Qed.

Theorem c05_history_guarded : forall (pre5 : bool) (ops : list op),
  c05_reasons ops (model_obs pre5 empty_coll ops) = 0 ->
  c05_ok ops (model_obs pre5 empty_coll ops) = true.
Proof.
  intros pre5 ops Hg. unfold c05_ok. apply c05_trace.
  - exact Inv_empty.
  - apply strong_of; [exact InvD_nil|exact Good_nil].
  - reflexivity.
  - exact Hg.
Qed.

(* ---------------------------------------------------------------- the unguarded state invariant *)
(* what the model guarantees for ALL ids (no observational guard, only: no TTL index) *)
Lemma final_inv pre5 : forall ops c,
  forallb ttl_free ops = true -> Inv c -> Inv (final pre5 c ops).
Proof.
  induction ops as [|o ops IH]; intros c Ht HI; [exact HI|].
  simpl in Ht. apply andb_true_iff in Ht. destruct Ht as [Ho Hops].
  cbn [final]. apply IH; [exact Hops|].
  destruct (step pre5 c o) as [c' r] eqn:E. simpl.
  eapply step_inv; eassumption.
Qed.

Lemma state_invariant pre5 ops :
  forallb ttl_free ops = true ->
  let s := docs (final pre5 empty_coll ops) in
  (* the store keys are pairwise different under Python == *)
  (forall l1 kd1 l2 kd2 l3, s = l1 ++ kd1 :: l2 ++ kd2 :: l3 -> py_eq (fst kd1) (fst kd2) = false) /\
  (* every document has an _id, linked to its key by a chain of == *)
  (forall k d, In (k, d) s ->
     is_arr k = false /\
     exists i k0, doc_id d = Some i /\ (k0 = k \/ py_eq k k0 = true) /\
                  (i = patch k0 \/ py_eq (patch k0) i = true)).
Proof.
  intros Ht s. destruct (final_inv pre5 ops empty_coll Ht Inv_empty) as [[Hk [Hok _]] _].
  fold s in Hk, Hok. split.
  - clear Hok. intros l1. revert Hk. generalize s. clear s.
    induction l1 as [|x l1 IH]; intros s Hk kd1 l2 kd2 l3 ->.
    + simpl in Hk. apply (proj1 Hk). apply in_or_app. right. left. reflexivity.
    + simpl in Hk. eapply IH; [exact (proj2 Hk)|reflexivity].
  - intros k d Hin. destruct (Hok _ Hin) as [Ha [i [Hi [k0 [H1 H2]]]]].
    split; [exact Ha|]. exists i, k0. repeat split; assumption.
Qed.

Lemma keys_normalised pre5 ops :
  forallb ttl_free ops = true ->
  forall k d, In (k, d) (docs (final pre5 empty_coll ops)) ->
    patch k = k /\ id_modelled k = true.
Proof.
  intros Ht k d Hin.
  destruct (final_inv pre5 ops empty_coll Ht Inv_empty) as [[_ [_ Hko]] _].
  exact (Hko _ Hin).
Qed.
