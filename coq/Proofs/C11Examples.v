(* C11: the hypotheses of the theorems are satisfiable on non-trivial concrete inputs. *)
From Coq Require Import ZArith List String Bool.
From Verif Require Import Value Coll Cursor C11Keys C11Cursor C11Full.
Import ListNotations.
Open Scope Z_scope.
Open Scope string_scope.

Definition ex_doc (i : Z) (a b : option value) : value :=
  VDoc ([("_id", VInt i)] ++ match a with Some x => [("a", x)] | None => [] end
                          ++ match b with Some x => [("b", VDoc [("c", x)])] | None => [] end).

(* mixed BSON types, missing fields, int/double ties, a nested descending second key *)
Definition ex_docs : list value :=
  [ ex_doc 1 (Some (VStr "x")) (Some (VInt 1));
    ex_doc 2 (Some (VInt 3)) (Some (VInt 2));
    ex_doc 3 None (Some (VInt 5));
    ex_doc 4 (Some (VDbl 24)) (Some (VInt 7));
    ex_doc 5 (Some (VBool true)) None;
    ex_doc 6 (Some VNull) (Some (VInt 9));
    ex_doc 7 (Some (VInt 3)) (Some (VInt 2));
    ex_doc 8 (Some (VDate 1000 None)) (Some (VStr "s")) ].
Definition ex_spec : list (string * Z) := [("a", 1); ("b.c", -1)].
Definition ex_sorted : list value :=
  [ ex_doc 6 (Some VNull) (Some (VInt 9));
    ex_doc 3 None (Some (VInt 5));
    ex_doc 4 (Some (VDbl 24)) (Some (VInt 7));
    ex_doc 2 (Some (VInt 3)) (Some (VInt 2));
    ex_doc 7 (Some (VInt 3)) (Some (VInt 2));
    ex_doc 1 (Some (VStr "x")) (Some (VInt 1));
    ex_doc 5 (Some (VBool true)) None;
    ex_doc 8 (Some (VDate 1000 None)) (Some (VStr "s")) ].

Example ex_spec_sort : spec_sort ex_spec ex_docs = Some ex_sorted /\ c11_spec_ok ex_spec = true.
Proof. vm_compute. split; reflexivity. Qed.

Definition ex_filter : value := VDoc [("_id", VDoc [("$gt", VInt 1)])].
Definition ex_meths : list cmeth :=
  [MSkip 1; MLimit (-4); MSort ex_spec; MSlice (Some 2) (Some 6); MPeek; MSkip 1].

Example ex_cursor :
  cursor_spec ex_docs ex_filter [("_id", -1)] 3 2 ex_meths =
    Some [ ex_doc 3 None (Some (VInt 5));
           ex_doc 4 (Some (VDbl 24)) (Some (VInt 7));
           ex_doc 2 (Some (VInt 3)) (Some (VInt 2));
           ex_doc 7 (Some (VInt 3)) (Some (VInt 2)) ] /\
  c11_docs_ok ex_docs = true /\ c11_meths_ok ex_meths = true /\
  c11_spec_ok (final_sort [("_id", -1)] ex_meths) = true.
Proof. vm_compute. repeat split; reflexivity. Qed.

Example ex_count :
  count_spec ex_docs ex_filter 2 (Some 4) = Some 4 /\
  count_spec ex_docs ex_filter 5 (Some 4) = Some 2 /\
  count_spec ex_docs ex_filter 9 None = Some 0 /\ c11_docs_ok ex_docs = true.
Proof. vm_compute. repeat split; reflexivity. Qed.

(* the same program with its evaluation counted (C11_cursor_full): the prefix ending in the
   cursor[0] call is decided too *)
Example ex_cursor_full :
  cursor_spec_full ex_docs ex_filter [("_id", -1)] 3 2 ex_meths =
    cursor_spec ex_docs ex_filter [("_id", -1)] 3 2 ex_meths /\
  (exists L, cursor_spec_full ex_docs ex_filter [("_id", -1)] 3 2 ex_meths = Some L) /\
  c11_peeks_ok [("_id", -1)] ex_meths = true /\
  List.length (peek_prefixes [] ex_meths) = 1%nat.
Proof. vm_compute. repeat split; try reflexivity. eexists; reflexivity. Qed.

(* an evaluation under an order the library cannot establish (two of its own ObjectIds) raises,
   although the calls after it replace that sort: cursor_run, which ignores the evaluation, and
   cursor_spec still answer; cursor_run_full raises and cursor_spec_full does not decide *)
Definition oid_docs : list value :=
  [VDoc [("_id", VInt 0); ("a", VOid 1)]; VDoc [("_id", VInt 1); ("a", VOid 2)]].
Example ex_peek_raises :
  cursor_run oid_docs (VDoc []) [("a", -1)] 0 0 [MPeek; MSort [("_id", -1)]] = Ok (rev oid_docs) /\
  cursor_spec oid_docs (VDoc []) [("a", -1)] 0 0 [MPeek; MSort [("_id", -1)]] = Some (rev oid_docs) /\
  cursor_run_full oid_docs (VDoc []) [("a", -1)] 0 0 [MPeek; MSort [("_id", -1)]] = Err EType /\
  cursor_spec_full oid_docs (VDoc []) [("a", -1)] 0 0 [MPeek; MSort [("_id", -1)]] = None.
Proof. vm_compute. repeat split; reflexivity. Qed.
