(* C03 -- examples for the stages added to the guarded equivalence: $addFields / $set,
   $replaceRoot inside a covered pipeline; a last $project (flags and computed fields); a last
   $group with the key null; the guard bit 512 *)
From Coq Require Import ZArith List String Bool Ascii Permutation.
From Verif Require Import Value PyEq Path Update Filter Coll Expr Pipeline PipelineSpec PipelineGuard.
From Verif Require Import C03Stages C03StageProject C03StageProject2 C03StageGroup C03GroupSort C03StageGroup2 C03Pipeline C03Pipeline2 C03Examples.
Import ListNotations.
Open Scope Z_scope.
Open Scope string_scope.

(* $match, $addFields with two expressions, $set, $unwind, $replaceRoot, $sort, $facet:
   covered, guard 0, the model's answer is the specification's *)
Definition ex2_pipe : value :=
  VArr [VDoc [("$match", VDoc [("n", VDoc [("$gte", VInt 2)])])];
        VDoc [("$addFields", VDoc [("m", VDoc [("$add", VArr [VStr "$n"; VInt 10])]);
                                   ("k", VDoc [("$arrayElemAt", VArr [VStr "$tags"; VInt 0])])])];
        VDoc [("$set", VDoc [("g2", VDoc [("$concat", VArr [VStr "$g"; VStr "!"])])])];
        VDoc [("$unwind", VStr "$tags")];
        VDoc [("$replaceRoot", VDoc [("newRoot", VDoc [("t", VStr "$tags"); ("m", VStr "$m"); ("g2", VStr "$g2")])])];
        VDoc [("$sort", VDoc [("m", VInt (-1)); ("t", VInt 1)])];
        VDoc [("$facet", VDoc [("top", VArr [VDoc [("$limit", VInt 2)]]);
                               ("cnt", VArr [VDoc [("$addFields", VDoc [("one", VInt 1)])]; VDoc [("$count", VStr "c")]])])]].

Example ex2_covered_hypotheses :
  c03_covered ex2_pipe = true /\
  c03_reasons [] ex_docs ex2_pipe = 0 /\
  aggregate [] ex_docs ex2_pipe
    = Ok [VDoc [("top", VArr [VDoc [("t", VStr "x"); ("m", VInt 13); ("g2", VStr "b!")];
                              VDoc [("t", VStr "x"); ("m", VInt 12); ("g2", VStr "a!")]]);
                ("cnt", VArr [VDoc [("c", VInt 3)]])]] /\
  agrees (spec_aggregate [] ex_docs ex2_pipe) (aggregate [] ex_docs ex2_pipe) = Some true.
Proof. vm_compute. repeat split; reflexivity. Qed.

Example ex2_covered_applies :
  rel (spec_aggregate [] ex_docs ex2_pipe) (aggregate [] ex_docs ex2_pipe).
Proof. apply pipeline_partial_rel; vm_compute; reflexivity. Qed.

(* a covered prefix, then $project with flags and computed fields: the hypotheses of
   pipeline_project2_agrees hold; the library leaves _id where the document has it *)
Definition ex2_docs : list value :=
  [VDoc [("g", VStr "a"); ("_id", VInt 1); ("n", VInt 2)];
   VDoc [("_id", VInt 2); ("g", VStr "b"); ("n", VInt 3)];
   VDoc [("g", VStr "a"); ("n", VInt 5); ("_id", VInt 3)]].
Definition ex2_pre : list value :=
  [VDoc [("$match", VDoc [("n", VDoc [("$gte", VInt 2)])])];
   VDoc [("$addFields", VDoc [("m", VDoc [("$multiply", VArr [VStr "$n"; VInt 2])])])]].
Definition ex2_proj : value :=
  VDoc [("g", VInt 1); ("big", VDoc [("$gt", VArr [VStr "$m"; VInt 5])]); ("copy", VStr "$n")].

Example ex2_project_hypotheses :
  covered_pipeline ex2_pre = true /\ project_covered2 ex2_proj = true /\
  pipeline_reasons [] (ex2_pre ++ [VDoc [("$project", ex2_proj)]]) ex2_docs = 0 /\
  run_pipeline [] (ex2_pre ++ [VDoc [("$project", ex2_proj)]]) ex2_docs
    = Ok [VDoc [("g", VStr "a"); ("_id", VInt 1); ("big", VBool false); ("copy", VInt 2)];
          VDoc [("_id", VInt 2); ("g", VStr "b"); ("big", VBool true); ("copy", VInt 3)];
          VDoc [("g", VStr "a"); ("_id", VInt 3); ("big", VBool true); ("copy", VInt 5)]] /\
  spec_pipeline [] (ex2_pre ++ [VDoc [("$project", ex2_proj)]]) (PV (mkStream ex2_docs true []))
    = PV (mkStream [VDoc [("_id", VInt 1); ("g", VStr "a"); ("big", VBool false); ("copy", VInt 2)];
                    VDoc [("_id", VInt 2); ("g", VStr "b"); ("big", VBool true); ("copy", VInt 3)];
                    VDoc [("_id", VInt 3); ("g", VStr "a"); ("big", VBool true); ("copy", VInt 5)]] true []).
Proof. vm_compute. repeat split; reflexivity. Qed.

Example ex2_project_applies :
  agrees (spec_pipeline [] (ex2_pre ++ [VDoc [("$project", ex2_proj)]]) (PV (mkStream ex2_docs true [])))
         (run_pipeline [] (ex2_pre ++ [VDoc [("$project", ex2_proj)]]) ex2_docs) <> Some false.
Proof.
  apply pipeline_project2_agrees; try (vm_compute; reflexivity).
  - intros mid H. vm_compute in H. inversion H; subst. repeat constructor.
  - intros l H. vm_compute in H. inversion H; subst. repeat constructor.
Qed.

(* flags only: exclusion *)
Example ex2_project_flags_applies :
  agrees (spec_pipeline [] (ex2_pre ++ [VDoc [("$project", VDoc [("n", VInt 0); ("_id", VBool false)])]])
                        (PV (mkStream ex2_docs true [])))
         (run_pipeline [] (ex2_pre ++ [VDoc [("$project", VDoc [("n", VInt 0); ("_id", VBool false)])]]) ex2_docs)
  <> Some false /\
  run_pipeline [] (ex2_pre ++ [VDoc [("$project", VDoc [("n", VInt 0); ("_id", VBool false)])]]) ex2_docs
  = Ok [VDoc [("g", VStr "a"); ("m", VInt 4)]; VDoc [("g", VStr "b"); ("m", VInt 6)]; VDoc [("g", VStr "a"); ("m", VInt 10)]].
Proof.
  split; [|vm_compute; reflexivity].
  apply pipeline_project_agrees; try (vm_compute; reflexivity).
  intros mid H. vm_compute in H. inversion H; subst. repeat constructor.
Qed.

(* a covered prefix, then $group with the key null and every accumulator covered *)
Definition ex2_group : value :=
  VDoc [("_id", VNull); ("total", VDoc [("$sum", VStr "$n")]); ("lo", VDoc [("$min", VStr "$m")]);
        ("hi", VDoc [("$max", VStr "$m")]); ("gs", VDoc [("$addToSet", VStr "$g")]);
        ("ns", VDoc [("$push", VStr "$n")]); ("f", VDoc [("$first", VStr "$g")]); ("l", VDoc [("$last", VStr "$n")])].

Example ex2_group_hypotheses :
  group_null_covered ex2_group = true /\
  pipeline_reasons [] (ex2_pre ++ [VDoc [("$group", ex2_group)]]) ex2_docs = 0 /\
  run_pipeline [] (ex2_pre ++ [VDoc [("$group", ex2_group)]]) ex2_docs
    = Ok [VDoc [("total", VInt 10); ("lo", VInt 4); ("hi", VInt 10); ("gs", VArr [VStr "a"; VStr "b"]);
                ("ns", VArr [VInt 2; VInt 3; VInt 5]); ("f", VStr "a"); ("l", VInt 5); ("_id", VNull)]] /\
  spec_pipeline [] (ex2_pre ++ [VDoc [("$group", ex2_group)]]) (PV (mkStream ex2_docs true []))
    = PV (mkStream [VDoc [("_id", VNull); ("total", VInt 10); ("lo", VInt 4); ("hi", VInt 10);
                          ("gs", VArr [VStr "a"; VStr "b"]); ("ns", VArr [VInt 2; VInt 3; VInt 5]);
                          ("f", VStr "a"); ("l", VInt 5)]] true ["gs"]).
Proof. vm_compute. repeat split; reflexivity. Qed.

Example ex2_group_applies :
  agrees (spec_pipeline [] (ex2_pre ++ [VDoc [("$group", ex2_group)]]) (PV (mkStream ex2_docs true [])))
         (run_pipeline [] (ex2_pre ++ [VDoc [("$group", ex2_group)]]) ex2_docs) <> Some false.
Proof.
  apply pipeline_group_null_agrees; try (vm_compute; reflexivity).
  intros l H. vm_compute in H. inversion H; subst. repeat constructor.
Qed.

(* 512 = F-PROJECT-FALSY-COMPUTED *)
Example ex_bit_512 :
  bit_of [] [VDoc [("_id", VInt 1); ("a", VInt 5)]]
         (VArr [VDoc [("$project", VDoc [("a", VInt 1); ("x", VStr "")])]])
  = (512, Some false).
Proof. vm_compute. reflexivity. Qed.

(* $lookup inside a covered pipeline: an array local value (read as $in), a scalar one, a
   missing one (read as null); then $unwind of the joined array and $addFields over it *)
Definition ex2_db : dbmap :=
  [("items", [VDoc [("_id", VInt 10); ("sku", VStr "a"); ("q", VInt 1)];
              VDoc [("_id", VInt 11); ("sku", VStr "b"); ("q", VInt 2)];
              VDoc [("_id", VInt 12); ("sku", VStr "a"); ("q", VInt 3)];
              VDoc [("_id", VInt 13); ("q", VInt 4)]])].
Definition ex2_orders : list value :=
  [VDoc [("_id", VInt 1); ("k", VStr "a")]; VDoc [("_id", VInt 2); ("k", VArr [VStr "b"; VStr "z"])];
   VDoc [("_id", VInt 3)]].
Definition ex2_lookup_pipe : value :=
  VArr [VDoc [("$lookup", VDoc [("from", VStr "items"); ("localField", VStr "k"); ("foreignField", VStr "sku");
                                ("as", VStr "its")])];
        VDoc [("$unwind", VStr "$its")];
        VDoc [("$addFields", VDoc [("q", VStr "$its.q")])];
        VDoc [("$sort", VDoc [("q", VInt (-1))])]].

Example ex2_lookup_hypotheses :
  c03_covered ex2_lookup_pipe = true /\
  c03_reasons ex2_db ex2_orders ex2_lookup_pipe = 0 /\
  aggregate ex2_db ex2_orders ex2_lookup_pipe
    = Ok [VDoc [("_id", VInt 3); ("its", VDoc [("_id", VInt 13); ("q", VInt 4)]); ("q", VInt 4)];
          VDoc [("_id", VInt 1); ("k", VStr "a"); ("its", VDoc [("_id", VInt 12); ("sku", VStr "a"); ("q", VInt 3)]); ("q", VInt 3)];
          VDoc [("_id", VInt 2); ("k", VArr [VStr "b"; VStr "z"]); ("its", VDoc [("_id", VInt 11); ("sku", VStr "b"); ("q", VInt 2)]); ("q", VInt 2)];
          VDoc [("_id", VInt 1); ("k", VStr "a"); ("its", VDoc [("_id", VInt 10); ("sku", VStr "a"); ("q", VInt 1)]); ("q", VInt 1)]] /\
  agrees (spec_aggregate ex2_db ex2_orders ex2_lookup_pipe) (aggregate ex2_db ex2_orders ex2_lookup_pipe) = Some true.
Proof. vm_compute. repeat split; reflexivity. Qed.

Example ex2_lookup_applies :
  rel (spec_aggregate ex2_db ex2_orders ex2_lookup_pipe) (aggregate ex2_db ex2_orders ex2_lookup_pipe).
Proof. apply pipeline_partial_rel; vm_compute; reflexivity. Qed.

(* 1024 = F-LOOKUP-OPERATOR-VALUE *)
Example ex_bit_1024 :
  bit_of [("f", [VDoc [("_id", VInt 1); ("b", VInt 5)]])] [VDoc [("_id", VInt 1); ("a", VDoc [("$gt", VInt 1)])]]
         (VArr [VDoc [("$lookup", VDoc [("from", VStr "f"); ("localField", VStr "a"); ("foreignField", VStr "b");
                                        ("as", VStr "j")])]])
  = (1024, Some false).
Proof. vm_compute. reflexivity. Qed.

(* ---------- the comparison of the specification is coarser than what its stages observe.
   `agrees` compares documents up to the order of their keys (uequiv / doc_equiv), but the
   stages of the specification are not invariant under it, so no stage lemma can be stated
   "up to the order of the keys" on the INPUT of an arbitrary stage: *)

(* $match with a sub-document operand (exact, ordered comparison) tells apart two documents
   that uequiv identifies *)
Example spec_match_not_invariant :
  let d1 := VDoc [("a", VDoc [("x", VInt 1); ("y", VInt 2)])] in
  let d2 := VDoc [("a", VDoc [("y", VInt 2); ("x", VInt 1)])] in
  let f := VDoc [("a", VDoc [("x", VInt 1); ("y", VInt 2)])] in
  uequiv d1 d2 = true /\
  spec_match f (mkStream [d1] true []) = PV (mkStream [d1] true []) /\
  spec_match f (mkStream [d2] true []) = PV (mkStream [] true []).
Proof. vm_compute. repeat split; reflexivity. Qed.

(* an expression that reads the whole document ($$ROOT) tells apart two documents that differ
   by the order of their top-level keys only (the difference between the specification's and
   the library's answer to $project / $group) *)
Example spec_add_fields_not_invariant :
  let e1 := VDoc [("x", VInt 1); ("y", VInt 2)] in
  let e2 := VDoc [("y", VInt 2); ("x", VInt 1)] in
  let o := VDoc [("r", VDoc [("$eq", VArr [VStr "$$ROOT"; VDoc [("$literal", e1)]])])] in
  doc_equiv [] e1 e2 = true /\
  spec_add_fields o (mkStream [e1] true []) = PV (mkStream [VDoc [("x", VInt 1); ("y", VInt 2); ("r", VBool true)]] true []) /\
  spec_add_fields o (mkStream [e2] true []) = PV (mkStream [VDoc [("y", VInt 2); ("x", VInt 1); ("r", VBool false)]] true []).
Proof. vm_compute. repeat split; reflexivity. Qed.

(* a covered prefix, then $group by a string field: three groups; the library answers them in
   the order of the keys with _id last, the specification in the order of first occurrence with
   _id first: the answers agree as bags *)
Definition ex2_docs_g : list value :=
  [VDoc [("_id", VInt 1); ("g", VStr "b"); ("n", VInt 2)];
   VDoc [("_id", VInt 2); ("g", VStr "a"); ("n", VInt 3)];
   VDoc [("_id", VInt 3); ("g", VStr "b"); ("n", VInt 5)];
   VDoc [("_id", VInt 4); ("n", VInt 7)];
   VDoc [("_id", VInt 5); ("g", VStr "a"); ("n", VInt 11)]].
Definition ex2_group_g : value :=
  VDoc [("_id", VStr "$g"); ("total", VDoc [("$sum", VStr "$m")]); ("ns", VDoc [("$push", VStr "$n")]);
        ("first", VDoc [("$first", VStr "$n")]); ("set", VDoc [("$addToSet", VStr "$g")])].

Example ex2_group_keys_hypotheses :
  group_covered ex2_group_g = true /\
  pipeline_reasons [] (ex2_pre ++ [VDoc [("$group", ex2_group_g)]]) ex2_docs_g = 0 /\
  run_pipeline [] (ex2_pre ++ [VDoc [("$group", ex2_group_g)]]) ex2_docs_g
    = Ok [VDoc [("total", VInt 14); ("ns", VArr [VInt 7]); ("first", VInt 7); ("set", VArr []); ("_id", VNull)];
          VDoc [("total", VInt 28); ("ns", VArr [VInt 3; VInt 11]); ("first", VInt 3); ("set", VArr [VStr "a"]); ("_id", VStr "a")];
          VDoc [("total", VInt 14); ("ns", VArr [VInt 2; VInt 5]); ("first", VInt 2); ("set", VArr [VStr "b"]); ("_id", VStr "b")]] /\
  spec_pipeline [] (ex2_pre ++ [VDoc [("$group", ex2_group_g)]]) (PV (mkStream ex2_docs_g true []))
    = PV (mkStream
          [VDoc [("_id", VStr "b"); ("total", VInt 14); ("ns", VArr [VInt 2; VInt 5]); ("first", VInt 2); ("set", VArr [VStr "b"])];
           VDoc [("_id", VStr "a"); ("total", VInt 28); ("ns", VArr [VInt 3; VInt 11]); ("first", VInt 3); ("set", VArr [VStr "a"])];
           VDoc [("_id", VNull); ("total", VInt 14); ("ns", VArr [VInt 7]); ("first", VInt 7); ("set", VArr [])]]
          false ["set"]).
Proof. vm_compute. repeat split; reflexivity. Qed.

Example ex2_group_keys_applies :
  agrees (spec_pipeline [] (ex2_pre ++ [VDoc [("$group", ex2_group_g)]]) (PV (mkStream ex2_docs_g true [])))
         (run_pipeline [] (ex2_pre ++ [VDoc [("$group", ex2_group_g)]]) ex2_docs_g) <> Some false.
Proof.
  apply pipeline_group_partial; [vm_compute; reflexivity|vm_compute; reflexivity|vm_compute; reflexivity| |].
  - intros mid fs ide H Ho Ha. vm_compute in H. inversion H; subst. inversion Ho; subst fs.
    vm_compute in Ha. inversion Ha; subst ide.
    repeat (apply Forall_cons; [vm_compute; first [reflexivity|exact I]|]). apply Forall_nil.
  - intros l H. vm_compute in H. inversion H; subst.
    repeat (apply Forall_cons; [vm_compute; reflexivity|]). apply Forall_nil.
Qed.

(* 2048 = F-GROUP-KEY-OBJECTID *)
Example ex_bit_2048 :
  bit_of [] [VDoc [("k", VOid 1)]; VDoc [("k", VOid 2)]]
         (VArr [VDoc [("$group", VDoc [("_id", VStr "$k"); ("n", VDoc [("$sum", VInt 1)])])]])
  = (2048, Some false).
Proof. vm_compute. reflexivity. Qed.
