(* C09 proofs, part 4: the facts about one step of the state machine that the property needs,
   stated on the model state: the frame (indexes, clock), what is kept (clause a), what is
   alive afterwards (clause b), what a find returns (clause c), and sub-lists. *)
From Coq Require Import ZArith List String Bool Ascii Lia.
From Verif Require Import Value PyEq BsonOrder Path Filter Update Project Coll HistCheck HistProps
  HistGuards.
From Verif.Proofs Require Import C01Values C09Base C09Closure C09Step.
Import ListNotations.
Open Scope Z_scope.
Open Scope string_scope.
Open Scope list_scope.

Ltac fin H := inversion H; subst; clear H.

(* ---------------------------------------------------------------- sorting, scanning (as in C14) *)
Lemma insert_by_in {A} (lt : A -> A -> res bool) x : forall l r z,
  insert_by lt x l = Ok r -> In z r -> z = x \/ In z l.
Proof.
  induction l as [| y l IH]; intros r z H Hin; simpl in H.
  - fin H. destruct Hin as [<-|[]]. left. reflexivity.
  - destruct (lt y x) as [b|e]; simpl in H; [|discriminate]. destruct b.
    + destruct (insert_by lt x l) as [r'|e] eqn:E; simpl in H; [|discriminate]. fin H.
      destruct Hin as [<-|Hin]; [right; left; reflexivity|].
      destruct (IH r' z eq_refl Hin) as [->|H']; [left; reflexivity|right; right; exact H'].
    + fin H. destruct Hin as [<-|Hin]; [left; reflexivity|right; exact Hin].
Qed.

Lemma sort_by_in {A} (lt : A -> A -> res bool) : forall l r z,
  sort_by lt l = Ok r -> In z r -> In z l.
Proof.
  induction l as [| x l IH]; intros r z H Hin; simpl in H.
  - fin H. exact Hin.
  - destruct (sort_by lt l) as [s|e] eqn:E; simpl in H; [|discriminate].
    destruct (insert_by_in lt x s r z H Hin) as [->|H']; [left; reflexivity|].
    right. exact (IH s z eq_refl H').
Qed.

Lemma py_sorted_in {A} (lt : A -> A -> res bool) rv l r z :
  py_sorted lt rv l = Ok r -> In z r -> In z l.
Proof.
  unfold py_sorted. destruct rv.
  - destruct (sort_by lt (rev l)) as [s|e] eqn:E; simpl; [|discriminate].
    intros H Hin. fin H. apply in_rev in Hin. apply in_rev. exact (sort_by_in lt _ s z E Hin).
  - apply sort_by_in.
Qed.

Lemma sort_docs_in : forall spec l r z, sort_docs spec l = Ok r -> In z r -> In z l.
Proof.
  induction spec as [| [k dir] spec IH]; intros l r z H Hin; simpl in H.
  - fin H. exact Hin.
  - destruct (sort_docs spec l) as [l'|e] eqn:E; simpl in H; [|discriminate].
    destruct (k =? "$natural").
    { fin H. apply (IH l l' z E). destruct (dir <?? 0); [apply in_rev; exact Hin|exact Hin]. }
    destruct (starts_dollar k); [discriminate|].
    destruct (negb (path_modelled (split_dots k))); [discriminate|].
    apply (IH l l' z E). exact (py_sorted_in _ _ _ _ _ H Hin).
Qed.

Lemma scan_in f : forall l m x, scan f l = Ok m -> In x m -> In x l.
Proof.
  induction l as [| [k d] l IH]; intros m x H Hin; simpl in H.
  - fin H. exact Hin.
  - destruct (filter_applies f d) as [b|e]; simpl in H; [|discriminate].
    destruct (scan f l) as [r|e]; simpl in H; [|discriminate]. fin H.
    destruct b; [destruct Hin as [<-|Hin]; [left; reflexivity|]|];
      right; exact (IH r x eq_refl Hin).
Qed.

Lemma project_all_none : forall l l', project_all None l = Ok l' -> l' = l.
Proof.
  induction l as [| d l IH]; intros l' H; simpl in H.
  - fin H. reflexivity.
  - destruct d; simpl in H; try discriminate.
    destruct (project_all None l) as [r|e]; simpl in H; [|discriminate]. fin H.
    rewrite (IH r eq_refl). reflexivity.
Qed.

Lemma skipn_in {A} (x : A) : forall n l, In x (skipn n l) -> In x l.
Proof.
  induction n as [ | n IH ]; intros l H; [ exact H | ].
  destruct l as [ | y l ]; [ exact H | ]. right. apply IH. exact H.
Qed.

Lemma firstn_in {A} (x : A) : forall n l, In x (firstn n l) -> In x l.
Proof.
  induction n as [ | n IH ]; intros l H; [ destruct H | ].
  destruct l as [ | y l ]; [ exact H | ].
  destruct H as [<- | H]; [ left; reflexivity | right; apply IH; exact H ].
Qed.

Lemma cursor_slice_in {A} sk lim (l : list A) x : In x (cursor_slice sk lim l) -> In x l.
Proof.
  unfold cursor_slice. intros H.
  assert (Hs : forall y, In y (if sk <?? 0
                               then skipn (Z.to_nat (Z.max 0 (Z.of_nat (List.length l) + sk))) l
                               else skipn (Z.to_nat sk) l) -> In y l).
  { intros y Hy. destruct (sk <?? 0); eapply skipn_in; exact Hy. }
  destruct (lim =?? 0); [ exact (Hs _ H) | ]. apply Hs. eapply firstn_in. exact H.
Qed.

(* ---------------------------------------------------------------- index operations *)
Definition new_index_name (key : list (string * value)) (n : option string) : string :=
  match n with Some x => x | None => gen_index_name key end.

Lemma create_index_cases c key u s t p n c' r :
  create_index c key u s t p n = (c', r) ->
  (c' = c /\ is_ok r = false)
  \/ exists c1, ((u = false /\ c1 = c) \/ (u = true /\ expire c = Ok c1)) /\
       ((c' = c1 /\ is_ok r = false)
        \/ (is_ok r = true /\ exists i, iname i = new_index_name key n
                                        /\ c' = with_idx_w c1 (set_index i (idx c1)))).
Proof.
  unfold create_index. intros H. cbv zeta in H.
  match type of H with (if ?b then _ else _) = _ => destruct b end; [ inv_pair H; auto | ].
  match type of H with (if ?b then _ else _) = _ => destruct b end; [ inv_pair H; auto | ].
  destruct u.
  - destruct (expire c) as [c1|e] eqn:Ex; [ | inv_pair H; auto ].
    right. exists c1. split; [ right; auto | ].
    match type of H with (if ?b then _ else _) = _ => destruct b end; inv_pair H; [ left; auto | ].
    right. split; [ reflexivity | ]. eexists. split; [ | reflexivity ]. reflexivity.
  - right. exists c. split; [ left; auto | ]. inv_pair H.
    right. split; [ reflexivity | ]. eexists. split; [ | reflexivity ]. reflexivity.
Qed.

Lemma drop_index_cases c name c' r :
  drop_index c name = (c', r) ->
  (c' = c /\ is_ok r = false)
  \/ exists c1, expire c = Ok c1 /\
       ((c' = c1 /\ is_ok r = false)
        \/ (is_ok r = true /\
            c' = with_idx c1 (List.filter (fun j => negb (String.eqb (iname j) name)) (idx c1)))).
Proof.
  unfold drop_index. intros H.
  destruct (expire c) as [c1|e] eqn:Ex; [ | inv_pair H; auto ].
  right. exists c1. split; [ reflexivity | ].
  destruct (find_index_by_name name (idx c1)); inv_pair H; auto.
Qed.

(* ---------------------------------------------------------------- frame *)
Definition docs_op (o : op) : bool :=
  match o with
  | OCreateIndex _ _ _ _ _ _ | ODropIndex _ | ODropIndexes | OIndexInfo | ODrop | OSetClock _ => false
  | _ => true
  end.

Lemma step_Rf pre5 c o c' r : docs_op o = true -> step pre5 c o = (c', r) -> Rf c c'.
Proof.
  destruct o; simpl; try discriminate; intros _ H.
  - exact (proj1 (insert_one_RE _ _ _ _ Rf_closed _ _ _ _ H (ins_ok_true _))).
  - exact (proj1 (insert_many_RE _ _ _ _ Rf_closed _ _ _ _ _ H (ins_ok_true_all _))).
  - eapply (update_op_R _ _ _ _ Rf_closed); [ | | exact H ]; intros; exact I.
  - eapply (replace_op_R _ _ _ _ Rf_closed); [ | | exact H ]; intros; exact I.
  - exact (proj1 (delete_op_RE _ _ _ _ Rf_closed _ _ _ _ _ I H)).
  - eapply (read_R _ _ _ _ _ _ _ Rf_closed). eapply find_op_cases. exact H.
  - eapply (read_R _ _ _ _ _ _ _ Rf_closed). eapply count_op_cases. exact H.
  - eapply (read_R _ _ _ _ _ _ _ Rf_closed). eapply distinct_op_cases. exact H.
  - exact (proj1 (find_and_modify_RE _ _ _ _ Rf_closed _ _ _ _ _ _ _ _ (fam_ok_true _) H)).
  - exact (bulk_write_R _ _ _ _ Rf_closed _ _ _ _ _ _ (req_ok_true _) H).
Qed.

Definition clock_after (clk : Z) (o : op) : Z := match o with OSetClock t => t | _ => clk end.

Lemma step_now pre5 c o c' r : step pre5 c o = (c', r) -> now c' = clock_after (now c) o.
Proof.
  intros H. destruct (docs_op o) eqn:Ed.
  - destruct (step_Rf _ _ _ _ _ Ed H) as [_ Hn]. rewrite Hn. destruct o; try discriminate; reflexivity.
  - destruct o; try discriminate; simpl in *.
    + destruct (create_index_cases _ _ _ _ _ _ _ _ _ H)
        as [[-> _] | [c1 [[[_ ->] | [_ Hx]] [[-> _] | [_ [i [_ ->]]]]]]];
        try reflexivity; destruct (expire_frame _ _ Hx) as [_ [B _]]; exact B.
    + destruct (drop_index_cases _ _ _ _ H) as [[-> _] | [c1 [Hx [[-> _] | [_ ->]]]]];
        try reflexivity; destruct (expire_frame _ _ Hx) as [_ [B _]]; exact B.
    + unfold drop_indexes in H. inv_pair H. reflexivity.
    + unfold index_information in H. destruct (is_created c); inv_pair H; reflexivity.
    + unfold drop_coll in H. inv_pair H. reflexivity.
    + inv_pair H. reflexivity.
Qed.

(* ---------------------------------------------------------------- sub-lists *)
Definition writes_none (o : op) : bool :=
  match o with
  | OInsertOne _ | OInsertMany _ _ | OUpdate _ _ _ _ | OReplace _ _ _ | OBulk _ _
  | OFindAndModify _ _ _ (FamUpdate _ _ _) | OFindAndModify _ _ _ (FamReplace _ _ _) => false
  | _ => true
  end.

Lemma step_sub pre5 c o c' r :
  writes_none o = true -> step pre5 c o = (c', r) -> sub (docs c') (docs c).
Proof.
  destruct o; simpl; try discriminate; intros Hw H.
  - exact (proj1 (proj1 (delete_op_RE _ _ _ _ Rs_closed _ _ _ _ _ I H))).
  - eapply (proj1 (A := sub (docs c') (docs c))).
    eapply (read_R _ _ _ _ _ _ _ Rs_closed). eapply find_op_cases. exact H.
  - eapply (proj1 (A := sub (docs c') (docs c))).
    eapply (read_R _ _ _ _ _ _ _ Rs_closed). eapply count_op_cases. exact H.
  - eapply (proj1 (A := sub (docs c') (docs c))).
    eapply (read_R _ _ _ _ _ _ _ Rs_closed). eapply distinct_op_cases. exact H.
  - destruct k; try discriminate.
    exact (proj1 (proj1 (find_and_modify_RE _ _ _ _ Rs_closed pre5 c f proj sort FamDelete c' r I H))).
  - destruct (create_index_cases _ _ _ _ _ _ _ _ _ H)
      as [[-> _] | [c1 [[[_ ->] | [_ Hx]] [[-> _] | [_ [i [_ ->]]]]]]];
      simpl; try apply sub_refl; exact (expire_sub _ _ Hx).
  - destruct (drop_index_cases _ _ _ _ H) as [[-> _] | [c1 [Hx [[-> _] | [_ ->]]]]];
      simpl; try apply sub_refl; exact (expire_sub _ _ Hx).
  - unfold drop_indexes in H. inv_pair H. simpl. apply sub_refl.
  - unfold index_information in H. destruct (is_created c); inv_pair H; apply sub_refl.
  - unfold drop_coll in H. inv_pair H. simpl. apply sub_nil_l.
  - inv_pair H. simpl. apply sub_refl.
Qed.

(* ---------------------------------------------------------------- inserted images *)
Lemma patch_doc fs : patch (VDoc fs) = VDoc (map (fun kv => (fst kv, patch (snd kv))) fs).
Proof.
  simpl. f_equal. induction fs as [ | [k x] fs IH ]; simpl; [ reflexivity | ].
  rewrite IH. reflexivity.
Qed.

Lemma assoc_app_one {A} f (l : list (string * A)) k v :
  assoc f (l ++ [(k, v)]) =
  match assoc f l with Some x => Some x | None => if String.eqb f k then Some v else None end.
Proof.
  induction l as [ | [k' v'] l IH ]; simpl; [ reflexivity | ].
  destruct (String.eqb f k'); [ reflexivity | exact IH ].
Qed.

Lemma exp_i_patch_app t i fs n :
  exp_i t i (patch (VDoc (fs ++ [("_id", VOid n)]))) = exp_i t i (patch (VDoc fs)).
Proof.
  unfold exp_i. destruct (active_spec i) as [[f s]|]; [ | reflexivity ].
  rewrite !patch_doc. unfold fld. rewrite map_app. simpl. rewrite assoc_app_one.
  destruct (assoc f (map (fun kv => (fst kv, patch (snd kv))) fs)); [ reflexivity | ].
  destruct (String.eqb f "_id"); reflexivity.
Qed.

Lemma exp_idx_patch_app I t fs n :
  exp_idx I t (patch (VDoc (fs ++ [("_id", VOid n)]))) = exp_idx I t (patch (VDoc fs)).
Proof.
  unfold exp_idx. induction I as [ | i I IH ]; [ reflexivity | ].
  cbn [existsb]. rewrite exp_i_patch_app, IH. reflexivity.
Qed.

Lemma ins_ok_alive I t d : exp_idx I t (patch d) = false -> ins_ok (alive I t) d.
Proof.
  destruct d; unfold ins_ok; try exact (fun _ => Logic.I). intros H. split; [ exact H | ].
  intros n. unfold alive. rewrite exp_idx_patch_app. exact H.
Qed.

Lemma ins_ok_alive_all I t ds :
  (forall d, In d ds -> exp_idx I t (patch d) = false) -> Forall (ins_ok (alive I t)) ds.
Proof. intros H. apply Forall_forall. intros d Hd. apply ins_ok_alive. auto. Qed.

Definition ins_del (rq : bulk_req) : Prop :=
  match rq with BInsert _ | BDelete _ _ => True | _ => False end.

Lemma bulk_side I t rs :
  c09_bulk_rewrites rs = false ->
  (forall d, In d (c09_bulk_inserted rs) -> exp_idx I t (patch d) = false) ->
  Forall (req_ok (alive I t) (alive I t) True) rs /\ Forall ins_del rs.
Proof.
  induction rs as [ | rq rs IH ]; intros Hr Hi; [ split; constructor | ].
  unfold c09_bulk_rewrites in Hr. simpl in Hr. apply orb_false_iff in Hr. destruct Hr as [Hq Hr].
  assert (Hi' : forall d, In d (c09_bulk_inserted rs) -> exp_idx I t (patch d) = false).
  { intros d Hd. apply Hi. unfold c09_bulk_inserted. simpl. apply in_or_app. right. exact Hd. }
  destruct (IH Hr Hi') as [H1 H2].
  destruct rq; try discriminate; split; constructor; simpl; auto.
  apply ins_ok_alive. apply Hi. unfold c09_bulk_inserted. simpl. left. reflexivity.
Qed.

(* ---------------------------------------------------------------- clause (a): kept *)
Definition inactive (c : coll) : Prop := forall d, exp_idx (idx c) (now c) d = false.

Definition keptP (c c' : coll) : Prop :=
  forall kd, In kd (docs c) ->
    (exists d', In (fst kd, d') (docs c')) \/ exp_idx (idx c) (now c) (snd kd) = true.

Lemma keptP_same c c' : docs c' = docs c -> keptP c c'.
Proof. intros Hd [k d] Hin. left. exists d. rewrite Hd. exact Hin. Qed.

Lemma keptP_exp c c1 c' : expire c = Ok c1 -> docs c' = docs c1 -> keptP c c'.
Proof.
  intros H Hd kd Hin. destruct (expire_keeps _ _ _ H Hin) as [Hin' | Hx]; [ left | right; exact Hx ].
  exists (snd kd). rewrite Hd. destruct kd. exact Hin'.
Qed.

Lemma keptP_read c c' (r : bool) : (c' = c /\ r = false) \/ expire c = Ok c' -> keptP c c'.
Proof. intros [[-> _] | H]; [ apply keptP_same; reflexivity | eapply keptP_exp; eauto ]. Qed.

(* the guard on rewriting operations, on the model state *)
Definition images_alive (c : coll) (f u : value) : Prop :=
  forall kd d', In kd (docs c) ->
    apply_update (patch f) (patch u) false (now c) (snd kd) = Ok d' ->
    exp_idx (idx c) (now c) d' = false.

Definition rewrite_ok (c : coll) (o : op) : Prop :=
  match o with
  | OUpdate f u _ upsert | OReplace f u upsert => upsert = false /\ images_alive c f u
  | _ => c09_rewrites o = false
  end.

Lemma images_side c f u :
  images_alive c f u ->
  forall c1, expire c = Ok c1 -> forall k d, In (k, d) (docs c1) ->
    alive (idx c) (now c) d /\
    forall d', apply_update (patch f) (patch u) false (now c) d = Ok d' -> alive (idx c) (now c) d'.
Proof.
  intros Hi c1 Hx k d Hin. split.
  - exact (expire_live _ _ Hx (k, d) Hin).
  - intros d' Ha. apply (Hi (k, d) d'); [ | exact Ha ].
    eapply sub_In; [ exact (expire_sub _ _ Hx) | exact Hin ].
Qed.

Lemma alive_exp I t d : alive I t d -> exp_idx I t d = false.
Proof. intros H. exact H. Qed.

Lemma Rk_keptP W c c' :
  Rk W c c' -> (forall d, W d -> exp_idx (idx c) (now c) d = false) -> keptP c c'.
Proof. exact (Rk_weak W c c'). Qed.

Lemma step_keep pre5 c o c' r :
  step pre5 c o = (c', r) -> may_remove o = false ->
  inactive c \/ rewrite_ok c o ->
  keptP c c'.
Proof.
  intros H Hm Hg.
  assert (HF : forall d, FalseP d -> exp_idx (idx c) (now c) d = false) by (intros d []).
  destruct o; simpl in *; try discriminate.
  - apply (Rk_keptP FalseP); [ | exact HF ].
    exact (proj1 (insert_one_RE _ _ _ _ (Rk_closed FalseP) _ _ _ _ H (ins_ok_true _))).
  - apply (Rk_keptP FalseP); [ | exact HF ].
    exact (proj1 (insert_many_RE _ _ _ _ (Rk_closed FalseP) _ _ _ _ _ H (ins_ok_true_all _))).
  - destruct (update_op_cases _ _ _ _ _ _ _ _ H) as [[-> _] | H'];
      [ apply keptP_same; reflexivity | ].
    destruct Hg as [Hg | [-> Hg]].
    + apply (Rk_keptP TrueP); [ | intros d _; apply Hg ].
      eapply (update_R _ _ _ _ (Rk_closed TrueP)); [ | | exact H' ]; intros; exact I.
    + apply (Rk_keptP (alive (idx c) (now c))); [ | intros d Hd; exact Hd ].
      exact (proj1 (update_noupsert_RE _ _ _ _ (Rk_closed _) _ _ _ _ _ _ _
                      (images_side _ _ _ Hg) H')).
  - destruct (replace_op_cases _ _ _ _ _ _ _ H) as [[-> _] | H'];
      [ apply keptP_same; reflexivity | ].
    destruct Hg as [Hg | [-> Hg]].
    + apply (Rk_keptP TrueP); [ | intros d _; apply Hg ].
      eapply (update_R _ _ _ _ (Rk_closed TrueP)); [ | | exact H' ]; intros; exact I.
    + apply (Rk_keptP (alive (idx c) (now c))); [ | intros d Hd; exact Hd ].
      exact (proj1 (update_noupsert_RE _ _ _ _ (Rk_closed _) _ _ _ _ _ _ _
                      (images_side _ _ _ Hg) H')).
  - eapply keptP_read. eapply find_op_cases. exact H.
  - eapply keptP_read. eapply count_op_cases. exact H.
  - eapply keptP_read. eapply distinct_op_cases. exact H.
  - destruct k; try discriminate.
    + destruct Hg as [Hg | Hg]; [ | discriminate ].
      apply (Rk_keptP TrueP); [ | intros d _; apply Hg ].
      refine (proj1 (find_and_modify_RE _ _ _ _ (Rk_closed TrueP) pre5 c f proj sort _ c' r _ H)).
      simpl. split; intros; exact I.
    + destruct Hg as [Hg | Hg]; [ | discriminate ].
      apply (Rk_keptP TrueP); [ | intros d _; apply Hg ].
      refine (proj1 (find_and_modify_RE _ _ _ _ (Rk_closed TrueP) pre5 c f proj sort _ c' r _ H)).
      simpl. split; intros; exact I.
  - destruct (create_index_cases _ _ _ _ _ _ _ _ _ H)
      as [[-> _] | [c1 [[[_ ->] | [_ Hx]] [[-> _] | [_ [i [_ ->]]]]]]];
      try (apply keptP_same; reflexivity); eapply keptP_exp; eauto.
  - destruct (drop_index_cases _ _ _ _ H) as [[-> _] | [c1 [Hx [[-> _] | [_ ->]]]]];
      try (apply keptP_same; reflexivity); eapply keptP_exp; eauto.
  - unfold drop_indexes in H. inv_pair H. apply keptP_same. reflexivity.
  - unfold index_information in H. destruct (is_created c); inv_pair H; apply keptP_same; reflexivity.
  - inv_pair H. apply keptP_same. reflexivity.
Qed.

(* ---------------------------------------------------------------- clause (b): alive afterwards *)
Lemma live_read c c' (r : res value) :
  (c' = c /\ is_ok r = false) \/ expire c = Ok c' -> is_ok r = true ->
  live (idx c) (now c) (docs c').
Proof.
  intros [[_ Hr] | H] Hok; [ rewrite Hok in Hr; discriminate | exact (expire_live _ _ H) ].
Qed.

Lemma step_live pre5 c o c' r :
  step pre5 c o = (c', r) -> triggers_expiry o = true -> is_ok r = true ->
  inactive c \/ rewrite_ok c o ->
  (forall d, In d (c09_inserted o) -> exp_idx (idx c) (now c) (patch d) = false) ->
  inactive c \/ match o, r with
                | OBulk rs _, Ok v =>
                    existsb (fun r => match r with BDelete _ _ => true | _ => false end) rs = false
                    \/ get_field "BulkWriteError" v = None
                | _, _ => True
                end ->
  inactive c \/ live (idx c) (now c) (docs c').
Proof.
  intros H Ht Hok Hg2 Hg4 Hg8.
  destruct Hg2 as [Hg2 | Hg2]; [ left; exact Hg2 | ]. right.
  set (I := idx c) in *. set (t := now c) in *.
  destruct o; simpl in *; try discriminate.
  - apply (El_live I t c c'); try reflexivity.
    refine (proj2 (insert_one_RE _ _ _ _ (Rl_closed I t) _ _ _ _ H _) Hok).
    apply ins_ok_alive. apply Hg4. left. reflexivity.
  - apply (El_live I t c c'); try reflexivity.
    refine (proj2 (insert_many_RE _ _ _ _ (Rl_closed I t) _ _ _ _ _ H _) Hok).
    apply ins_ok_alive_all. exact Hg4.
  - destruct (update_op_cases _ _ _ _ _ _ _ _ H) as [[_ Hr] | H'];
      [ rewrite Hok in Hr; discriminate | ].
    destruct Hg2 as [-> Hg2].
    apply (El_live I t c c'); try reflexivity.
    exact (proj2 (update_noupsert_RE _ _ _ _ (Rl_closed I t) _ _ _ _ _ _ _
                    (images_side _ _ _ Hg2) H') Hok).
  - destruct (replace_op_cases _ _ _ _ _ _ _ H) as [[_ Hr] | H'];
      [ rewrite Hok in Hr; discriminate | ].
    destruct Hg2 as [-> Hg2].
    apply (El_live I t c c'); try reflexivity.
    exact (proj2 (update_noupsert_RE _ _ _ _ (Rl_closed I t) _ _ _ _ _ _ _
                    (images_side _ _ _ Hg2) H') Hok).
  - apply (El_live I t c c'); try reflexivity.
    exact (proj2 (delete_op_RE _ _ _ _ (Rl_closed I t) _ _ _ _ _ Logic.I H) Hok).
  - eapply live_read; [ eapply find_op_cases; exact H | exact Hok ].
  - eapply live_read; [ eapply count_op_cases; exact H | exact Hok ].
  - eapply live_read; [ eapply distinct_op_cases; exact H | exact Hok ].
  - destruct k; try discriminate.
    apply (El_live I t c c'); try reflexivity.
    exact (proj2 (find_and_modify_RE _ _ _ _ (Rl_closed I t) pre5 c f proj sort FamDelete c' r
                    Logic.I H) Hok).
  - destruct r as [v|e]; [ | discriminate ].
    destruct (bulk_side I t rs Hg2 Hg4) as [Hs1 Hs2].
    destruct Hg8 as [Hg8 | Hg8].
    { intros kd _. apply Hg8. }
    apply (El_live I t c c'); try reflexivity.
    destruct Hg8 as [Hg8 | Hg8].
    + refine (bulk_write_E_ins _ _ _ _ (Rl_closed I t) _ _ _ _ _ _ Hs1 _ H).
      apply Forall_forall. intros rq Hrq.
      pose proof (proj1 (Forall_forall _ _) Hs2 rq Hrq) as Hq.
      pose proof (existsb_false_in _ _ Hg8 rq Hrq) as Hd.
      destruct rq; try contradiction; [ exact Logic.I | discriminate ].
    + exact (bulk_write_E _ _ _ _ (Rl_closed I t) _ _ _ _ _ _ Hs1 Hs2 H Hg8).
  - destruct (create_index_cases _ _ _ _ _ _ _ _ _ H)
      as [[_ Hr] | [c1 [[[Hu _] | [_ Hx]] [[_ Hr] | [_ [i [_ ->]]]]]]];
      try (rewrite Hok in Hr; discriminate); try (rewrite Ht in Hu; discriminate).
    simpl. exact (expire_live _ _ Hx).
  - destruct (drop_index_cases _ _ _ _ H) as [[_ Hr] | [c1 [Hx [[_ Hr] | [_ ->]]]]];
      try (rewrite Hok in Hr; discriminate).
    simpl. exact (expire_live _ _ Hx).
Qed.

(* ---------------------------------------------------------------- clause (c): find *)
Lemma find_live c f s sk lim c' l :
  find_op c f None s sk lim = (c', Ok (VArr l)) ->
  forall d, In d l -> exp_idx (idx c) (now c) d = false.
Proof.
  unfold find_op. intros H d Hd.
  destruct (find_docs c f s) as [[c0 l0]|e] eqn:Ef; [ | discriminate ].
  destruct (project_all None l0) as [l1|e] eqn:Ep; [ | discriminate ].
  apply project_all_none in Ep. subst l1. inv_pair H.
  apply cursor_slice_in in Hd.
  unfold find_docs in Ef. destruct f; try discriminate.
  destruct (iter_documents c (patch (VDoc fs))) as [[c1 m]|e] eqn:Ei; simpl in Ef; [ | discriminate ].
  destruct (sort_docs s (map snd m)) as [sorted|e] eqn:Es; simpl in Ef; [ | discriminate ].
  inv_pair Ef.
  pose proof (sort_docs_in _ _ _ _ Es Hd) as Hm. apply in_map_iff in Hm.
  destruct Hm as [kd [<- Hkd]].
  pose proof (iter_documents_exp _ _ _ _ Ei) as Hx.
  unfold iter_documents in Ei. rewrite Hx in Ei. simpl in Ei.
  repeat dm Ei. inv_pair Ei.
  apply (expire_live _ _ Hx). eapply scan_in; eauto.
Qed.
