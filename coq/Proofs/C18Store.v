(* C18 proofs, part 4: the state invariant "every stored document has only normal datetimes"
   is preserved by every operation of the collection state machine, and the documents
   returned by find / find_one_and_* / distinct are normal (hence naive). *)
From Coq Require Import ZArith List String Bool Ascii Lia.
From Verif Require Import Value PyEq BsonOrder Path Filter Update Project Coll HistCheck HistProps
  DatetimeSpec DatetimeRel.
From Verif.Proofs Require Import C01Values C18Values C18Update C18Project.
Import ListNotations.
Open Scope Z_scope.
Open Scope string_scope.
Open Scope list_scope.

(* ---------------------------------------------------------------- the invariant *)
Definition DNS (l : list (value * value)) : Prop := Forall (fun kd => DN (snd kd)) l.
Definition Inv (c : coll) : Prop := DNS (docs c).
(* outcome carrying documents *)
Definition Res (r : res value) : Prop := match r with Ok v => DN v | Err _ => True end.

Lemma Inv_empty : Inv empty_coll.
Proof. constructor. Qed.

Lemma Inv_with_docs c l : DNS l -> Inv (with_docs c l).
Proof. intros H. exact H. Qed.

Lemma Inv_with_docs_w c l : DNS l -> Inv (with_docs_w c l).
Proof. intros H. exact H. Qed.

Lemma Inv_with_idx c i : Inv c -> Inv (with_idx c i).
Proof. intros H. exact H. Qed.

Lemma Inv_with_idx_w c i : Inv c -> Inv (with_idx_w c i).
Proof. intros H. exact H. Qed.

Lemma dns_filter f l : DNS l -> DNS (List.filter f l).
Proof.
  induction 1 as [ | x l Hx _ IH ]; simpl; [ constructor | ].
  destruct (f x); [ constructor; assumption | assumption ].
Qed.

Lemma dns_store_del k l : DNS l -> DNS (store_del k l).
Proof.
  induction 1 as [ | [k' d'] l Hx Hl IH ]; simpl; [ constructor | ].
  destruct (py_eq k' k); [ assumption | constructor; assumption ].
Qed.

Lemma dns_store_set k d l : DNS l -> DN d -> DNS (store_set k d l).
Proof.
  intros H Hd. induction H as [ | [k' d'] l Hx Hl IH ]; simpl.
  - constructor; [ exact Hd | constructor ].
  - destruct (py_eq k' k); constructor; assumption.
Qed.

Lemma dns_app_end k d l : DNS l -> DN d -> DNS (l ++ [(k, d)]).
Proof.
  intros H Hd. apply Forall_app. split; [ exact H | constructor; [ exact Hd | constructor ] ].
Qed.

Lemma dns_snd l : DNS l -> DNL (map snd l).
Proof. induction 1; simpl; constructor; assumption. Qed.

(* ---------------------------------------------------------------- expiry *)
Lemma expire_index_inv i c c' : expire_index i c = Ok c' -> Inv c -> Inv c'.
Proof.
  unfold expire_index, Inv. intros H Hi.
  repeat dm H; inv_pair H; simpl; auto using dns_filter.
Qed.

Lemma expire_fold_err is e :
  fold_left (fun acc i => let! c' := acc in expire_index i c') is (Err e) = Err e.
Proof. induction is as [ | i is IH ]; simpl; auto. Qed.

Lemma expire_fold_inv : forall is c c',
  fold_left (fun acc i => let! c' := acc in expire_index i c') is (Ok c) = Ok c' ->
  Inv c -> Inv c'.
Proof.
  induction is as [ | i is IH ]; simpl; intros c c' H Hi.
  - inv_pair H. assumption.
  - destruct (expire_index i c) as [c1|e] eqn:E.
    + eapply IH; [ exact H | eapply expire_index_inv; eauto ].
    + rewrite expire_fold_err in H. discriminate.
Qed.

Lemma expire_inv c c' : expire c = Ok c' -> Inv c -> Inv c'.
Proof. unfold expire. apply expire_fold_inv. Qed.

Lemma expire_if_inv b c c' : expire_if b c = Ok c' -> Inv c -> Inv c'.
Proof. destruct b; simpl; [ apply expire_inv | intros H; inv_pair H; auto ]. Qed.

(* ---------------------------------------------------------------- reads *)
Lemma scan_dns f : forall l m, scan f l = Ok m -> DNS l -> DNS m.
Proof.
  induction l as [ | [k d] l IH ]; simpl; intros m H Hl.
  - inv_pair H. constructor.
  - inversion Hl; subst.
    destruct (filter_applies f d) as [b|e]; simpl in H; [ | discriminate ].
    destruct (scan f l) as [r|e] eqn:E; simpl in H; [ | discriminate ].
    inv_pair H. specialize (IH r eq_refl ltac:(assumption)).
    destruct b; [ constructor; assumption | assumption ].
Qed.

Lemma iter_documents_inv c f c1 m :
  iter_documents c f = Ok (c1, m) -> Inv c -> Inv c1 /\ DNS m.
Proof.
  unfold iter_documents. intros H Hi.
  destruct (expire c) as [c0|e] eqn:E; simpl in H; [ | discriminate ].
  assert (H0 : Inv c0) by (eapply expire_inv; eauto).
  destruct (match docs c0 with [] => filter_applies f (VDoc []) | _ => Ok true end) as [b|e];
    simpl in H; [ | destruct (Nat.eqb _ _); discriminate ].
  destruct (scan f (docs c0)) as [m0|e] eqn:Es; simpl in H;
    [ | destruct (Nat.eqb _ _); discriminate ].
  inv_pair H. split; [ exact H0 | eapply scan_dns; eauto ].
Qed.

Lemma sort_docs_dn : forall spec l r, sort_docs spec l = Ok r -> DNL l -> DNL r.
Proof.
  induction spec as [ | [k dir] spec IH ]; simpl; intros l r H Hl.
  - inv_pair H. exact Hl.
  - destruct (sort_docs spec l) as [l'|e] eqn:E; simpl in H; [ | discriminate ].
    specialize (IH l l' E Hl).
    destruct (k =? "$natural").
    { inv_pair H. destruct (dir <?? 0); [ apply dnl_rev | ]; exact IH. }
    destruct (starts_dollar k); [ discriminate | ].
    destruct (negb (path_modelled (split_dots k))); [ discriminate | ].
    eapply py_sorted_Forall; [ exact H | exact IH ].
Qed.

Lemma find_docs_inv c f s c1 l : find_docs c f s = Ok (c1, l) -> Inv c -> Inv c1 /\ DNL l.
Proof.
  unfold find_docs. intros H Hi. destruct f; try discriminate.
  destruct (iter_documents c (patch (VDoc fs))) as [[c0 m]|e] eqn:E; simpl in H; [ | discriminate ].
  destruct (iter_documents_inv _ _ _ _ E Hi) as [H0 Hm].
  destruct (sort_docs s (map snd m)) as [sorted|e] eqn:Es; simpl in H; [ | discriminate ].
  inv_pair H. split; [ exact H0 | ]. eapply sort_docs_dn; [ exact Es | apply dns_snd; exact Hm ].
Qed.

Lemma cursor_slice_dn skip limit l : DNL l -> DNL (cursor_slice skip limit l).
Proof.
  intros H. unfold cursor_slice.
  destruct (limit =?? 0); [ | apply dnl_firstn ]; destruct (skip <?? 0); apply dnl_skipn; exact H.
Qed.

Lemma find_op_inv c f p s sk lim c1 r :
  find_op c f p s sk lim = (c1, r) -> Inv c -> Inv c1 /\ Res r.
Proof.
  unfold find_op. intros H Hi.
  destruct (find_docs c f s) as [[c0 l]|e] eqn:E.
  - destruct (find_docs_inv _ _ _ _ _ E Hi) as [H0 Hl].
    destruct (project_all p l) as [l'|e] eqn:Ep; inv_pair H; (split; [ exact H0 | ]); [ | exact I ].
    simpl. apply dn_arr. apply cursor_slice_dn. eapply project_all_dn; eauto.
  - inv_pair H. split; [ assumption | exact I ].
Qed.

Definition ResO (r : res (option value)) : Prop :=
  match r with Ok (Some d) => DN d | _ => True end.

Lemma find_one_inv c f p s c1 r : find_one c f p s = (c1, r) -> Inv c -> Inv c1 /\ ResO r.
Proof.
  unfold find_one. intros H Hi.
  destruct (find_op c f p s 0 0) as [c0 r0] eqn:E.
  destruct (find_op_inv _ _ _ _ _ _ _ _ E Hi) as [H0 Hr].
  destruct r0 as [v|e]; [ | inv_pair H; split; [ assumption | exact I ] ].
  simpl in Hr.
  destruct v; try (inv_pair H; split; [ assumption | exact I ]).
  destruct xs as [ | d xs ]; inv_pair H; (split; [ assumption | ]); [ exact I | ].
  simpl. apply dn_arr_inv in Hr. inversion Hr; assumption.
Qed.

Lemma count_op_inv c f sk lim c1 r : count_op c f sk lim = (c1, r) -> Inv c -> Inv c1.
Proof.
  unfold count_op. intros H Hi.
  repeat dm H; inv_pair H; try assumption;
    match goal with E : iter_documents _ _ = Ok _ |- _ =>
      exact (proj1 (iter_documents_inv _ _ _ _ E Hi)) end.
Qed.

Lemma dedup_dn l : DNL l -> DNL (dedup l).
Proof.
  unfold dedup. assert (G : forall acc, DNL acc -> DNL l ->
    DNL (fold_left (fun acc v => if py_in v acc then acc else acc ++ [v]) l acc)).
  { induction l as [ | x l IH ]; simpl; intros acc Ha Hl; [ exact Ha | ].
    inversion Hl; subst. apply IH; [ | assumption ].
    destruct (py_in x acc); [ exact Ha | apply dnl_app; [ exact Ha | apply dnl_one; assumption ] ]. }
  intros H. apply G; [ constructor | exact H ].
Qed.

Lemma distinct_op_inv c k f c1 r : distinct_op c k f = (c1, r) -> Inv c -> Inv c1 /\ Res r.
Proof.
  unfold distinct_op. intros H Hi.
  destruct (negb (path_modelled (split_dots k))); [ inv_pair H; split; [ assumption | exact I ] | ].
  destruct (find_docs c f []) as [[c0 l]|e] eqn:E.
  - destruct (find_docs_inv _ _ _ _ _ E Hi) as [H0 Hl].
    match type of H with (if ?b then _ else _) = _ => destruct b end; inv_pair H;
      (split; [ exact H0 | ]); [ exact I | ].
    simpl. apply dn_doc. constructor; [ | constructor ]. simpl. apply dn_arr. apply dedup_dn.
    apply dnl_flat_map. intros d Hd. apply dnl_flat_map. intros cnd Hc.
    pose proof (candidates_dn (split_dots k) d (dnl_In _ _ Hl Hd)) as Hall.
    rewrite Forall_forall in Hall. specialize (Hall cnd Hc).
    destruct cnd as [v|]; [ | constructor ]. simpl in Hall.
    destruct v; try (apply dnl_one; exact Hall). apply dn_arr_inv. exact Hall.
  - inv_pair H. split; [ assumption | exact I ].
Qed.

(* ---------------------------------------------------------------- insert *)
Lemma insert_doc_inv c d c' r : insert_doc c d = (c', r) -> Inv c -> Inv c'.
Proof.
  unfold insert_doc. intros H Hi.
  destruct d as [ | | | | | | | fs | ]; try (inv_pair H; assumption).
  set (t := match assoc "_id" fs with
            | Some i => (c, fs, patch i)
            | None => (mkColl (docs c) (idx c) (forced c) (next_oid c + 1) (now c) (odocs c),
                       fs ++ [("_id", VOid (next_oid c))], VOid (next_oid c))
            end) in H.
  assert (Ht : Inv (fst (fst t))).
  { subst t. destruct (assoc "_id" fs); simpl; exact Hi. }
  destruct t as [[c0 fs1] id]. simpl in Ht.
  destruct (negb (id_modelled id)).
  { destruct id; inv_pair H; assumption. }
  destruct (expire c0) as [c1|e] eqn:E1; [ | inv_pair H; assumption ].
  assert (H1 : Inv c1) by eauto using expire_inv.
  destruct (store_get id (docs c1)) eqn:Eg; [ inv_pair H; assumption | ].
  set (data := patch (VDoc fs1)) in H.
  set (c2 := with_docs_w c1 (docs c1 ++ [(id, data)])) in H.
  assert (H2 : Inv c2).
  { apply Inv_with_docs_w. apply dns_app_end; [ exact H1 | apply patch_DN ]. }
  destruct (ensure_uniques c2 data) as [touched|e] eqn:Eu.
  - destruct (expire_if touched c2) as [c3|e] eqn:E3; inv_pair H; eauto using expire_if_inv.
  - destruct (expire c2) as [c3|e'] eqn:E3; inv_pair H; [ | assumption ].
    assert (H3 : Inv c3) by eauto using expire_inv.
    apply Inv_with_docs. apply dns_store_del. exact H3.
Qed.

Lemma insert_one_inv c d c' r : insert_one c d = (c', r) -> Inv c -> Inv c'.
Proof.
  unfold insert_one. intros H Hi. destruct (insert_doc c d) as [c0 r0] eqn:E.
  inv_pair H. eauto using insert_doc_inv.
Qed.

Lemma insert_many_go_inv : forall ds c ordered index ids errs n c' r,
  insert_many_go c ds ordered index ids errs n = (c', r) -> Inv c -> Inv c'.
Proof.
  induction ds as [ | d ds IH ]; simpl; intros c ordered index ids errs n c' r H Hi.
  - inv_pair H. assumption.
  - destruct (insert_doc c d) as [c0 r0] eqn:E.
    assert (H0 : Inv c0) by eauto using insert_doc_inv.
    destruct r0 as [id|e]; [ eauto | ].
    destruct (is_write_error e); [ | inv_pair H; assumption ].
    destruct ordered; [ inv_pair H; assumption | eauto ].
Qed.

Lemma insert_many_inv c ds ordered c' r : insert_many c ds ordered = (c', r) -> Inv c -> Inv c'.
Proof.
  unfold insert_many. intros H Hi.
  destruct ds as [ | d ds ]; [ inv_pair H; assumption | ].
  destruct (negb (forallb is_doc (d :: ds))); [ inv_pair H; assumption | ].
  destruct (insert_many_go c (d :: ds) ordered 0 [] [] 0) as [c0 r0] eqn:E.
  inv_pair H. eauto using insert_many_go_inv.
Qed.

(* ---------------------------------------------------------------- update *)
Lemma update_loop_inv : forall todo c spec upd multi m md c' r,
  DN spec -> DN upd -> DNS todo ->
  update_loop c spec upd multi todo m md = (c', r) -> Inv c -> Inv c'.
Proof.
  induction todo as [ | [k d] todo IH ]; simpl; intros c spec upd multi m md c' r Hs Hu Ht H Hi.
  - inv_pair H. assumption.
  - inversion Ht as [ | ? ? Hd Htl ]; subst. simpl in Hd.
    destruct (filter_applies spec d) as [[|]|e]; [ | eauto | inv_pair H; assumption ].
    destruct (apply_update spec upd false (now c) d) as [d'|e] eqn:Ea; [ | inv_pair H; assumption ].
    assert (Hd' : DN d') by (eapply apply_update_dn; [ exact Hs | exact Hu | exact Hd | exact Ea ]).
    destruct (negb (negb (py_eq d' d))).
    { destruct (negb (value_eqb d' d) && py_in k (odocs c)); [ inv_pair H; assumption | ].
      destruct multi; [ eauto | inv_pair H; assumption ]. }
    match type of H with (if negb ?s then _ else _) = _ => destruct (negb s) end;
      [ inv_pair H; assumption | ].
    destruct (match d with VDoc fs => assoc "_id" fs | _ => None end);
      [ | inv_pair H; assumption ].
    set (c1 := with_docs_w c (store_set k d' (docs c))) in H.
    assert (H1 : Inv c1) by (apply Inv_with_docs_w; apply dns_store_set; [ exact Hi | exact Hd' ]).
    destruct (ensure_uniques c1 d') as [touched|e] eqn:Eu.
    + destruct (expire_if touched c1) as [c2|e] eqn:E2; [ | inv_pair H; assumption ].
      assert (H2 : Inv c2) by eauto using expire_if_inv.
      destruct multi; [ eauto | inv_pair H; assumption ].
    + destruct e; try (inv_pair H; assumption);
      (destruct (expire c1) as [c2|e] eqn:E2; inv_pair H; [ | assumption ];
       assert (H2 : Inv c2) by eauto using expire_inv;
       apply Inv_with_docs; apply dns_store_set; [ exact H2 | exact Hd ]).
Qed.

Lemma update_inv pre5 c f u multi upsert c' r :
  update pre5 c f u multi upsert = (c', r) -> Inv c -> Inv c'.
Proof.
  unfold update. intros H Hi.
  pose proof (patch_DN f) as Hf. pose proof (patch_DN u) as Hu.
  destruct (patch f) as [ | | | | | | | sfs | ]; try (inv_pair H; assumption).
  destruct (patch u) as [ | | | | | | | ufs | ]; try (inv_pair H; assumption).
  destruct (empty_operator pre5 (VDoc ufs)); [ inv_pair H; assumption | ].
  destruct (expire c) as [c1|e] eqn:E1; [ | inv_pair H; assumption ].
  assert (H1 : Inv c1) by eauto using expire_inv.
  match type of H with (match ?x with Ok _ => _ | Err _ => _ end) = _ => destruct x end;
    [ | inv_pair H; assumption ].
  destruct (update_loop c1 (VDoc sfs) (VDoc ufs) multi (docs c1) 0 0) as [c2 r2] eqn:El.
  assert (H2 : Inv c2) by (eapply update_loop_inv; [ exact Hf | exact Hu | exact H1 | exact El | exact H1 ]).
  destruct r2 as [[matched modified]|e]; [ | inv_pair H; assumption ].
  destruct (negb upsert || negb (matched =?? 0)); [ inv_pair H; assumption | ].
  match type of H with (let '(c3, id) := ?t in _) = _ => set (t3 := t) in H end.
  assert (H3 : Inv (fst t3)).
  { subst t3. repeat match goal with |- context [match ?x with _ => _ end] => destruct x end;
      simpl; exact H2. }
  destruct t3 as [c3 id]. simpl in H3.
  destruct (expand_dots (set_key "_id" id sfs)) as [expanded|e]; [ | inv_pair H; assumption ].
  match type of H with (match ?x with Ok _ => _ | Err _ => _ end) = _ => destruct x as [d'|e] end;
    [ | inv_pair H; assumption ].
  destruct (insert_doc c3 d') as [c4 ir] eqn:E4.
  assert (H4 : Inv c4) by eauto using insert_doc_inv.
  destruct ir; inv_pair H; assumption.
Qed.

Lemma update_op_inv pre5 c f u multi upsert c' r :
  update_op pre5 c f u multi upsert = (c', r) -> Inv c -> Inv c'.
Proof.
  unfold update_op. intros H Hi.
  destruct u; try (inv_pair H; assumption).
  destruct (first_key_dollar (VDoc fs)) as [[|]|]; try (inv_pair H; assumption).
  eauto using update_inv.
Qed.

Lemma replace_op_inv pre5 c f u upsert c' r :
  replace_op pre5 c f u upsert = (c', r) -> Inv c -> Inv c'.
Proof.
  unfold replace_op. intros H Hi.
  destruct u; try (inv_pair H; assumption).
  destruct (first_key_dollar (VDoc fs)) as [[|]|]; try (inv_pair H; assumption);
    eauto using update_inv.
Qed.

(* ---------------------------------------------------------------- delete *)
Lemma delete_go_inv : forall l c multi n c' r,
  delete_go c l multi n = (c', r) -> Inv c -> Inv c'.
Proof.
  induction l as [ | d l IH ]; simpl; intros c multi n c' r H Hi.
  - inv_pair H. assumption.
  - destruct d; try (inv_pair H; assumption).
    destruct (assoc "_id" fs) as [id|]; [ | inv_pair H; assumption ].
    destruct (store_get id (docs c)); [ | inv_pair H; assumption ].
    match type of H with context [if multi then delete_go ?c1 _ _ _ else _] =>
      assert (H1 : Inv c1) by (unfold Inv; simpl; apply dns_store_del; exact Hi) end.
    destruct multi; [ eauto | inv_pair H; assumption ].
Qed.

Lemma delete_op_inv c f multi c' r : delete_op c f multi = (c', r) -> Inv c -> Inv c'.
Proof.
  unfold delete_op. intros H Hi.
  destruct f; try (inv_pair H; assumption).
  destruct (find_docs c (VDoc fs) []) as [[c1 l]|e] eqn:E; [ | inv_pair H; assumption ].
  destruct (delete_go c1 l multi 0) as [c2 r2] eqn:Ed.
  inv_pair H. eapply delete_go_inv; [ exact Ed | ]. exact (proj1 (find_docs_inv _ _ _ _ _ E Hi)).
Qed.

(* ---------------------------------------------------------------- find_one_and_* *)
Lemma dn_opt_to_value o : ResO (Ok o) -> DN (opt_to_value o).
Proof. destruct o; simpl; [ auto | reflexivity ]. Qed.

Lemma find_and_modify_inv pre5 c f proj sort k c' r :
  find_and_modify pre5 c f proj sort k = (c', r) -> Inv c -> Inv c' /\ Res r.
Proof.
  unfold find_and_modify. intros H Hi.
  assert (Hout : forall e, Inv c /\ Res (Err e)) by (intros e; split; [ exact Hi | exact I ]).
  destruct f; try (inv_pair H; apply Hout).
  match type of H with (match ?v with Ok _ => _ | Err _ => _ end) = _ => destruct v end;
    [ | inv_pair H; apply Hout ].
  match type of H with (if ?b then _ else _) = _ => destruct b end; [ inv_pair H; apply Hout | ].
  destruct (find_one c (VDoc fs) None sort) as [c1 r1] eqn:E1.
  destruct (find_one_inv _ _ _ _ _ _ E1 Hi) as [H1 _].
  destruct r1 as [target|e]; [ | inv_pair H; split; [ assumption | exact I ] ].
  set (upsert := match k with FamDelete => false | FamUpdate _ u _ | FamReplace _ u _ => u end) in H.
  assert (Hgo : forall query,
    (let '(c2, old_r) := match target with
                         | Some _ => find_one c1 query proj []
                         | None => (c1, Ok None)
                         end in
     match old_r with
     | Err e => (c2, Err e)
     | Ok old =>
         let '(c3, wr, query') :=
           match k with
           | FamDelete => let '(c', r) := delete_op c2 query false in (c', r, query)
           | FamUpdate u _ _ | FamReplace u _ _ =>
               let '(c', r) := update pre5 c2 query u false upsert in
               (c', r,
                match r with
                | Ok (VDoc rfs) => match assoc "upserted_id" rfs with
                                   | Some i => if truthy i then VDoc [("_id", i)] else query
                                   | None => query end
                | _ => query
                end)
           end in
         match wr with
         | Err e => (c3, Err e)
         | Ok _ =>
             if match k with FamDelete => false | FamUpdate _ _ a | FamReplace _ _ a => a end then
               match find_one c3 query' proj [] with
               | (c4, Ok r) => (c4, Ok (opt_to_value r))
               | (c4, Err e) => (c4, Err e)
               end
             else (c3, Ok (opt_to_value old))
         end
     end) = (c', r) -> Inv c' /\ Res r).
  { intros query Hq.
    match type of Hq with (match ?t with _ => _ end) = _ => destruct t as [c2 old_r] eqn:E2 end.
    assert (H2 : Inv c2 /\ ResO old_r).
    { destruct target; [ eapply find_one_inv; [ exact E2 | exact H1 ]
                       | inv_pair E2; split; [ assumption | exact I ] ]. }
    destruct H2 as [H2 Hold].
    destruct old_r as [old|e]; [ | inv_pair Hq; split; [ assumption | exact I ] ].
    match type of Hq with (match ?t with _ => _ end) = _ =>
      destruct t as [[c3 wr] query'] eqn:E3 end.
    assert (H3 : Inv c3).
    { destruct k.
      - destruct (delete_op c2 query false) as [cx rx] eqn:Ex. inv_pair E3. eauto using delete_op_inv.
      - destruct (update pre5 c2 query u false upsert) as [cx rx] eqn:Ex. inv_pair E3.
        eauto using update_inv.
      - destruct (update pre5 c2 query r0 false upsert) as [cx rx] eqn:Ex. inv_pair E3.
        eauto using update_inv. }
    destruct wr; [ | inv_pair Hq; split; [ assumption | exact I ] ].
    match type of Hq with (if ?b then _ else _) = _ => destruct b end;
      [ | inv_pair Hq; split; [ assumption | apply dn_opt_to_value; exact Hold ] ].
    destruct (find_one c3 query' proj []) as [c4 r4] eqn:E4.
    destruct (find_one_inv _ _ _ _ _ _ E4 H3) as [H4 Hr4].
    destruct r4; inv_pair Hq; (split; [ assumption | ]); [ apply dn_opt_to_value; exact Hr4 | exact I ]. }
  destruct target as [t|]; [ | destruct upsert eqn:Eup ].
  - match type of H with (match ?q with Some _ => _ | None => _ end) = _ => destruct q as [query|] end;
      [ | inv_pair H; split; [ assumption | exact I ] ].
    eapply Hgo. exact H.
  - eapply Hgo. exact H.
  - inv_pair H. split; [ assumption | reflexivity ].
Qed.

(* ---------------------------------------------------------------- bulk_write *)
Lemma bulk_exec_inv pre5 c rq a c' r : bulk_exec pre5 c rq a = (c', r) -> Inv c -> Inv c'.
Proof.
  unfold bulk_exec. intros H Hi. destruct rq.
  - destruct d; try (inv_pair H; assumption).
    destruct (insert_doc c (VDoc fs)) as [c0 o] eqn:E. inv_pair H. eauto using insert_doc_inv.
  - destruct (update pre5 c f u multi upsert) as [c0 o] eqn:E. inv_pair H. eauto using update_inv.
  - destruct (update pre5 c f r0 false upsert) as [c0 o] eqn:E. inv_pair H. eauto using update_inv.
  - destruct (delete_op c f multi) as [c0 o] eqn:E. inv_pair H. eauto using delete_op_inv.
Qed.

Lemma bulk_go_inv pre5 : forall rs c ordered index a c' r,
  bulk_go pre5 c rs ordered index a = (c', r) -> Inv c -> Inv c'.
Proof.
  induction rs as [ | rq rs IH ]; simpl; intros c ordered index a c' r H Hi.
  - inv_pair H. assumption.
  - destruct (bulk_exec pre5 c rq a) as [c0 o] eqn:E.
    assert (H0 : Inv c0) by eauto using bulk_exec_inv.
    destruct o as [a'|e]; [ eauto | ].
    destruct (is_write_error e); [ | inv_pair H; assumption ].
    destruct ordered; [ inv_pair H; assumption | eauto ].
Qed.

Lemma bulk_write_inv pre5 c rs ordered c' r :
  bulk_write pre5 c rs ordered = (c', r) -> Inv c -> Inv c'.
Proof.
  unfold bulk_write. intros H Hi.
  match type of H with (match ?x with Ok _ => _ | Err _ => _ end) = _ => destruct x end;
    [ | inv_pair H; assumption ].
  destruct rs as [ | rq rs ]; [ inv_pair H; assumption | ].
  destruct (bulk_go pre5 c (rq :: rs) ordered 0 (mkAcc 0 0 0 0 0 [] [])) as [c0 o] eqn:E.
  inv_pair H. eauto using bulk_go_inv.
Qed.

(* ---------------------------------------------------------------- indexes *)
Lemma create_index_inv c key u s t p n c' r :
  create_index c key u s t p n = (c', r) -> Inv c -> Inv c'.
Proof.
  unfold create_index. intros H Hi. cbv zeta in H.
  match type of H with (if ?b then _ else _) = _ => destruct b end; [ inv_pair H; assumption | ].
  match type of H with (if ?b then _ else _) = _ => destruct b end; [ inv_pair H; assumption | ].
  destruct u.
  - destruct (expire c) as [c1|e] eqn:E; [ | inv_pair H; assumption ].
    assert (H1 : Inv c1) by eauto using expire_inv.
    match type of H with (if ?b then _ else _) = _ => destruct b end; inv_pair H; exact H1.
  - inv_pair H. exact Hi.
Qed.

Lemma drop_index_inv c n c' r : drop_index c n = (c', r) -> Inv c -> Inv c'.
Proof.
  unfold drop_index. intros H Hi.
  destruct (expire c) as [c1|e] eqn:E; [ | inv_pair H; assumption ].
  assert (H1 : Inv c1) by eauto using expire_inv.
  destruct (find_index_by_name n (idx c1)); inv_pair H; exact H1.
Qed.

(* ---------------------------------------------------------------- every step *)
Theorem step_inv pre5 c o c' r : step pre5 c o = (c', r) -> Inv c -> Inv c'.
Proof.
  destruct o; simpl; intros H Hi.
  - eauto using insert_one_inv.
  - eauto using insert_many_inv.
  - eauto using update_op_inv.
  - eauto using replace_op_inv.
  - eauto using delete_op_inv.
  - exact (proj1 (find_op_inv _ _ _ _ _ _ _ _ H Hi)).
  - eauto using count_op_inv.
  - exact (proj1 (distinct_op_inv _ _ _ _ _ H Hi)).
  - exact (proj1 (find_and_modify_inv _ _ _ _ _ _ _ _ H Hi)).
  - eauto using bulk_write_inv.
  - eauto using create_index_inv.
  - eauto using drop_index_inv.
  - unfold drop_indexes in H. inv_pair H. exact Hi.
  - unfold index_information in H. destruct (is_created c); inv_pair H; exact Hi.
  - unfold drop_coll in H. inv_pair H. constructor.
  - inv_pair H. exact Hi.
Qed.

(* the operations that return documents return normal ones *)
Theorem step_res pre5 c o c' v :
  step pre5 c o = (c', Ok v) -> Inv c -> returns_documents o = true -> DN v.
Proof.
  destruct o; simpl; intros H Hi Hr; try discriminate.
  - exact (proj2 (find_op_inv _ _ _ _ _ _ _ _ H Hi)).
  - exact (proj2 (distinct_op_inv _ _ _ _ _ H Hi)).
  - exact (proj2 (find_and_modify_inv _ _ _ _ _ _ _ _ H Hi)).
Qed.
