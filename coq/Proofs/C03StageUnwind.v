(* C03 part B -- $unwind (without includeArrayIndex): model = specification *)
From Coq Require Import ZArith List String Bool Ascii Lia Permutation.
From Verif Require Import Value PyEq BsonOrder Path Update Filter FilterSpec FilterGuard Coll Cursor
     Expr ExprSpec Pipeline PipelineSpec PipelineGuard.
From Verif Require Import C03Base C03Laws C03Unwind C03Stages.
Import ListNotations.
Open Scope Z_scope.
Open Scope string_scope.
Open Scope list_scope.

(* ---------- removing the path *)
Definition del_fn (child : string) (par : value) : option value :=
  match par with VDoc fs => Some (VDoc (del_key child fs)) | _ => None end.

Definition del_by_dot (parts : list string) (doc : value) : option value :=
  match split_last parts with
  | Some (parent, child) => update_at parent (del_fn child) doc
  | None => None
  end.

Lemma del_by_dot_cons p q rest fs :
  del_by_dot (p :: q :: rest) (VDoc fs) =
  match assoc p fs with
  | Some sub => match del_by_dot (q :: rest) sub with
                | Some s' => Some (VDoc (set_key p s' fs))
                | None => None
                end
  | None => None
  end.
Proof.
  unfold del_by_dot. rewrite split_last_cons.
  destruct (split_last_some q rest) as (par & c & Hs). rewrite Hs.
  cbn [update_at]. reflexivity.
Qed.

Lemma del_by_dot_plain parts : forall d,
  parts <> [] -> parent_doc parts d -> del_by_dot parts d = Some (plain_set parts None d).
Proof.
  induction parts as [|p rest IH]; intros d Hne [pfs Hp]; [contradiction|].
  destruct rest as [|q rest].
  - simpl in Hp. inversion Hp; subst. reflexivity.
  - change (removelast (p :: q :: rest)) with (p :: removelast (q :: rest)) in Hp.
    cbn [plain_get] in Hp. destruct d; try discriminate.
    rewrite del_by_dot_cons. cbn [plain_set].
    destruct (assoc p fs) as [sub|]; [|discriminate].
    rewrite IH; [reflexivity|discriminate|exists pfs; exact Hp].
Qed.

Lemma set_key_same {A} k (v : A) l : assoc k l = Some v -> set_key k v l = l.
Proof.
  induction l as [|[k' v'] l IH]; simpl; [discriminate|].
  destruct (String.eqb k k') eqn:E.
  - apply String.eqb_eq in E. subst. intros H. inversion H. reflexivity.
  - intros H. f_equal. apply IH. exact H.
Qed.

Lemma plain_set_cons2 p q rest v fs :
  plain_set (p :: q :: rest) v (VDoc fs) =
  match assoc p fs with
  | Some sub => VDoc (set_key p (plain_set (q :: rest) v sub) fs)
  | None => VDoc fs
  end.
Proof. reflexivity. Qed.

Lemma plain_set_same parts : forall d v,
  parts <> [] -> plain_get parts d = Some (Some v) -> plain_set parts (Some v) d = d.
Proof.
  induction parts as [|p rest IH]; intros d v Hne H; [contradiction|].
  cbn [plain_get] in H. destruct d; try discriminate.
  destruct (assoc p fs) as [sub|] eqn:Ha; [|discriminate].
  destruct rest as [|q rest].
  - simpl in H. inversion H; subst. cbn [plain_set]. rewrite set_key_same by exact Ha. reflexivity.
  - rewrite plain_set_cons2, Ha. rewrite IH; [|discriminate|exact H].
    rewrite set_key_same by exact Ha. reflexivity.
Qed.

(* ---------- one document *)
Lemma unwind_doc_spec parts preserve d r :
  parts <> [] ->
  spec_unwind_doc parts preserve None d = Some r ->
  unwind_doc parts preserve None d = Ok r.
Proof.
  intros Hne. unfold spec_unwind_doc.
  destruct (plain_get parts d) as [[v|]|] eqn:Hg; [| |discriminate].
  - assert (Hget := plain_get_get _ _ _ Hg).
    assert (Hpar : parent_doc parts d) by (eapply plain_get_parent; eassumption).
    assert (Hscalar : forall other, v = other ->
              match other with VNull | VArr _ => False | _ => True end ->
              unwind_doc parts preserve None d = Ok [d]).
    { intros other Hv Hnot. subst other. unfold unwind_doc. rewrite Hget.
      assert (Hm : mapM (fun iv : value * value =>
                 match set_by_dot parts (snd iv) d with
                 | Some d0 => Ok d0 | None => Err EKey end) [(VNull, v)] = Ok [d]).
      { cbn [mapM snd]. rewrite set_by_dot_plain by assumption.
        rewrite plain_set_same by assumption. reflexivity. }
      destruct v; try contradiction; exact Hm. }
    destruct v as [| | | | | | | |xs];
      try (intros H; inversion H; subst; apply (Hscalar _ eq_refl I)).
    + (* null *)
      intros H. unfold unwind_doc. rewrite Hget. destruct preserve; inversion H; reflexivity.
    + destruct xs as [|x xs].
      * intros H. unfold unwind_doc. rewrite Hget. destruct preserve; cbn [negb].
        -- inversion H; subst.
           assert (Hd := del_by_dot_plain parts d Hne Hpar). unfold del_by_dot in Hd.
           destruct (split_last parts) as [[parent child]|]; [|discriminate].
           unfold del_fn in Hd. rewrite Hd. reflexivity.
        -- inversion H; reflexivity.
      * intros H. inversion H; subst. clear H. unfold unwind_doc. rewrite Hget.
        erewrite mapM_ext.
        -- rewrite (mapM_pure (fun iv => plain_set parts (Some (snd iv)) d)).
           f_equal.
           rewrite (map_snd_combine (fun y => plain_set parts (Some y) d))
             by (rewrite map_length, seq_length; reflexivity).
           rewrite (map_snd_combine (fun y => plain_set parts (Some y) d))
             by (rewrite seq_length; reflexivity).
           reflexivity.
        -- intros iv _. cbv beta. rewrite set_by_dot_plain by assumption. reflexivity.
  - assert (Hget := plain_get_get _ _ _ Hg).
    intros H. unfold unwind_doc. rewrite Hget. destruct preserve; inversion H; reflexivity.
Qed.

Lemma unwind_docs_spec parts preserve l ls :
  parts <> [] ->
  all_opt (map (spec_unwind_doc parts preserve None) l) = Some ls ->
  mapM (unwind_doc parts preserve None) l = Ok ls.
Proof.
  intros Hne. revert ls. induction l as [|d l IH]; intros ls H; cbn [map all_opt mapM] in *.
  - inversion H; reflexivity.
  - destruct (spec_unwind_doc parts preserve None d) as [r|] eqn:Hr; [|discriminate].
    destruct (all_opt (map (spec_unwind_doc parts preserve None) l)) as [rs|]; [|discriminate].
    inversion H; subst. rewrite (unwind_doc_spec _ _ _ _ Hne Hr). rewrite (IH rs eq_refl). reflexivity.
Qed.

(* ---------- the stage *)
Definition spec_unwind_body (opts : list (string * value)) (rest : string) (s : stream) : pres :=
  let parts := split_dots rest in
  if existsb (fun p => (p =? "") || starts_dollar p) parts then PUndef else
  if existsb (fun k => mem_str k (s_sets s)) (firstn 1 parts) then PUndef else
  match (match assoc "preserveNullAndEmptyArrays" opts with
         | None => Some false | Some (VBool b) => Some b | Some _ => None end),
        (match assoc "includeArrayIndex" opts with
         | None => Some None
         | Some (VStr n) =>
             if forallb plain_name (split_dots n)
                && negb (ProjectSpec.is_prefix_of (split_dots n) parts || ProjectSpec.is_prefix_of parts (split_dots n))
             then Some (Some (split_dots n)) else None
         | Some _ => None end) with
  | Some preserve, Some idx =>
      match all_opt (map (spec_unwind_doc parts preserve idx) (s_docs s)) with
      | Some ls => PV (mkStream (List.concat ls) (s_ord s) (s_sets s))
      | None => PUndef
      end
  | _, _ => PUndef
  end.

Definition unwind_opts (o : value) : list (string * value) :=
  match o with VDoc fs => fs | _ => [("path", o)] end.

Lemma spec_unwind_unfold o s :
  spec_unwind o s =
  if negb (forallb (fun kv => mem_str (fst kv) ["path"; "preserveNullAndEmptyArrays"; "includeArrayIndex"])
                   (unwind_opts o))
  then PErr else
  match assoc "path" (unwind_opts o) with
  | Some (VStr path) =>
      match path with
      | EmptyString => PErr
      | String c rest => if Ascii.eqb c "$" then spec_unwind_body (unwind_opts o) rest s else PErr
      end
  | _ => PErr
  end.
Proof.
  unfold spec_unwind. fold (unwind_opts o).
  destruct (negb (forallb _ (unwind_opts o))); [reflexivity|].
  destruct (assoc "path" (unwind_opts o)) as [pv|]; [|reflexivity].
  destruct pv; try reflexivity. destruct s0 as [|c rest]; [reflexivity|].
  destruct c as [[] [] [] [] [] [] [] []]; reflexivity.
Qed.

Definition unwind_covered (o : value) : bool :=
  match o with VDoc fs => negb (has_key "includeArrayIndex" fs) | _ => true end.

Lemma has_key_assoc {A} k (l : list (string * A)) : has_key k l = false -> assoc k l = None.
Proof.
  induction l as [|[k' v] l IH]; simpl; [reflexivity|].
  destruct (String.eqb k k'); [discriminate|exact IH].
Qed.

Lemma stage_unwind db o l :
  unwind_covered o = true ->
  stage_reasons db "$unwind" o l = 0 ->
  rel (spec_stage db "$unwind" o (mkStream l true [])) (run_stage db "$unwind" o l).
Proof.
  intros Hc Hg.
  assert (Hs : spec_stage db "$unwind" o (mkStream l true []) = spec_unwind o (mkStream l true []))
    by (destruct o; reflexivity).
  rewrite Hs. clear Hs. rewrite run_stage_unwind. rewrite spec_unwind_unfold.
  assert (Hall : forallb (fun kv => mem_str (fst kv) ["path"; "preserveNullAndEmptyArrays"; "includeArrayIndex"])
                   (unwind_opts o) = true).
  { destruct o; try reflexivity.
    assert (Hg' : zb (negb (forallb (fun kv => mem_str (fst kv)
                         ["path"; "preserveNullAndEmptyArrays"; "includeArrayIndex"]) fs)) 256 = 0) by exact Hg.
    apply zb_zero in Hg'; [|discriminate]. apply negb_false_iff in Hg'. exact Hg'. }
  rewrite Hall. cbn [negb].
  assert (Hidx : assoc "includeArrayIndex" (unwind_opts o) = None).
  { destruct o; try reflexivity. apply has_key_assoc. apply negb_true_iff. exact Hc. }
  unfold unwind. fold (unwind_opts o).
  destruct (assoc "path" (unwind_opts o)) as [pv|]; [|apply rel_err].
  destruct pv; try apply rel_err. rename s into path.
  destruct path as [|c rest]; [apply rel_err|].
  destruct (Ascii.eqb c "$") eqn:Hc'; cbn [negb]; [|apply rel_err].
  unfold spec_unwind_body. cbv zeta. cbn [s_docs s_ord s_sets].
  destruct (existsb (fun p => (p =? "") || starts_dollar p) (split_dots rest)); [exact I|].
  assert (Hsets : existsb (fun k => mem_str k []) (firstn 1 (split_dots rest)) = false).
  { destruct (split_dots rest); reflexivity. }
  rewrite Hsets.
  destruct (negb (path_modelled (split_dots rest))); [apply rel_unmodelled|].
  rewrite Hidx.
  assert (Hbody : forall preserve,
     rel match all_opt (map (spec_unwind_doc (split_dots rest) preserve None) l) with
         | Some ls => PV (mkStream (List.concat ls) true [])
         | None => PUndef
         end
         (let! parts_l := mapM (unwind_doc (split_dots rest) preserve None) l in Ok (List.concat parts_l))).
  { intros preserve.
    destruct (all_opt (map (spec_unwind_doc (split_dots rest) preserve None) l)) as [ls|] eqn:Hls; [|exact I].
    rewrite (unwind_docs_spec _ _ _ _ (split_dots_ne rest) Hls). simpl. repeat split. }
  destruct (assoc "preserveNullAndEmptyArrays" (unwind_opts o)) as [pv|].
  - destruct pv; try exact I. apply Hbody.
  - apply Hbody.
Qed.
