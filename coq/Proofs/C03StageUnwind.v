(* C03 part B -- $unwind (with or without includeArrayIndex): model = specification *)
From Coq Require Import ZArith List String Bool Ascii Lia Permutation.
From Verif Require Import Value PyEq BsonOrder Path Update Filter FilterSpec FilterGuard Coll Cursor
     Expr ExprSpec Pipeline PipelineSpec PipelineGuard.
From Verif Require Import C03Base C03Laws C03Unwind C03Stages.
Import ListNotations.
Open Scope Z_scope.
Open Scope string_scope.
Open Scope list_scope.

(* ---------- removing the path *)
Definition del_fn (child : string) (par : value) : option value :=
  match par with VDoc fs => Some (VDoc (del_key child fs)) | _ => None end.

Definition del_by_dot (parts : list string) (doc : value) : option value :=
  match split_last parts with
  | Some (parent, child) => update_at parent (del_fn child) doc
  | None => None
  end.

Lemma del_by_dot_cons p q rest fs :
  del_by_dot (p :: q :: rest) (VDoc fs) =
  match assoc p fs with
  | Some sub => match del_by_dot (q :: rest) sub with
                | Some s' => Some (VDoc (set_key p s' fs))
                | None => None
                end
  | None => None
  end.
Proof.
  unfold del_by_dot. rewrite split_last_cons.
  destruct (split_last_some q rest) as (par & c & Hs). rewrite Hs.
  cbn [update_at]. reflexivity.
Qed.

Lemma del_by_dot_plain parts : forall d,
  parts <> [] -> parent_doc parts d -> del_by_dot parts d = Some (plain_set parts None d).
Proof.
  induction parts as [|p rest IH]; intros d Hne [pfs Hp]; [contradiction|].
  destruct rest as [|q rest].
  - simpl in Hp. inversion Hp; subst. reflexivity.
  - change (removelast (p :: q :: rest)) with (p :: removelast (q :: rest)) in Hp.
    cbn [plain_get] in Hp. destruct d; try discriminate.
    rewrite del_by_dot_cons. cbn [plain_set].
    destruct (assoc p fs) as [sub|]; [|discriminate].
    rewrite IH; [reflexivity|discriminate|exists pfs; exact Hp].
Qed.

Lemma set_key_same {A} k (v : A) l : assoc k l = Some v -> set_key k v l = l.
Proof.
  induction l as [|[k' v'] l IH]; simpl; [discriminate|].
  destruct (String.eqb k k') eqn:E.
  - apply String.eqb_eq in E. subst. intros H. inversion H. reflexivity.
  - intros H. f_equal. apply IH. exact H.
Qed.

Lemma plain_set_cons2 p q rest v fs :
  plain_set (p :: q :: rest) v (VDoc fs) =
  match assoc p fs with
  | Some sub => VDoc (set_key p (plain_set (q :: rest) v sub) fs)
  | None => VDoc fs
  end.
Proof. reflexivity. Qed.

Lemma plain_set_same parts : forall d v,
  parts <> [] -> plain_get parts d = Some (Some v) -> plain_set parts (Some v) d = d.
Proof.
  induction parts as [|p rest IH]; intros d v Hne H; [contradiction|].
  cbn [plain_get] in H. destruct d; try discriminate.
  destruct (assoc p fs) as [sub|] eqn:Ha; [|discriminate].
  destruct rest as [|q rest].
  - simpl in H. inversion H; subst. cbn [plain_set]. rewrite set_key_same by exact Ha. reflexivity.
  - rewrite plain_set_cons2, Ha. rewrite IH; [|discriminate|exact H].
    rewrite set_key_same by exact Ha. reflexivity.
Qed.

(* ---------- one document *)
Lemma unwind_doc_spec parts preserve d r :
  parts <> [] ->
  spec_unwind_doc parts preserve None d = Some r ->
  unwind_doc parts preserve None d = Ok r.
Proof.
  intros Hne. unfold spec_unwind_doc.
  destruct (plain_get parts d) as [[v|]|] eqn:Hg; [| |discriminate].
  - assert (Hget := plain_get_get _ _ _ Hg).
    assert (Hpar : parent_doc parts d) by (eapply plain_get_parent; eassumption).
    assert (Hscalar : forall other, v = other ->
              match other with VNull | VArr _ => False | _ => True end ->
              unwind_doc parts preserve None d = Ok [d]).
    { intros other Hv Hnot. subst other. unfold unwind_doc. rewrite Hget.
      assert (Hm : mapM (fun iv : value * value =>
                 match set_by_dot parts (snd iv) d with
                 | Some d0 => Ok d0 | None => Err EKey end) [(VNull, v)] = Ok [d]).
      { cbn [mapM snd]. rewrite set_by_dot_plain by assumption.
        rewrite plain_set_same by assumption. reflexivity. }
      destruct v; try contradiction; exact Hm. }
    destruct v as [| | | | | | | |xs];
      try (intros H; inversion H; subst; apply (Hscalar _ eq_refl I)).
    + (* null *)
      intros H. unfold unwind_doc. rewrite Hget. destruct preserve; inversion H; reflexivity.
    + destruct xs as [|x xs].
      * intros H. unfold unwind_doc. rewrite Hget. destruct preserve; cbn [negb].
        -- inversion H; subst.
           assert (Hd := del_by_dot_plain parts d Hne Hpar). unfold del_by_dot in Hd.
           destruct (split_last parts) as [[parent child]|]; [|discriminate].
           unfold del_fn in Hd. rewrite Hd. reflexivity.
        -- inversion H; reflexivity.
      * intros H. inversion H; subst. clear H. unfold unwind_doc. rewrite Hget.
        erewrite mapM_ext.
        -- rewrite (mapM_pure (fun iv => plain_set parts (Some (snd iv)) d)).
           f_equal.
           rewrite (map_snd_combine (fun y => plain_set parts (Some y) d))
             by (rewrite map_length, seq_length; reflexivity).
           rewrite (map_snd_combine (fun y => plain_set parts (Some y) d))
             by (rewrite seq_length; reflexivity).
           reflexivity.
        -- intros iv _. cbv beta. rewrite set_by_dot_plain by assumption. reflexivity.
  - assert (Hget := plain_get_get _ _ _ Hg).
    intros H. unfold unwind_doc. rewrite Hget. destruct preserve; inversion H; reflexivity.
Qed.

(* ---------- includeArrayIndex: the index name is written after the path *)
Lemma plain_set_doc parts v fs : exists gs, plain_set parts v (VDoc fs) = VDoc gs.
Proof.
  destruct parts as [|p rest]; [eexists; reflexivity|].
  destruct rest as [|q rest]; cbn [plain_set].
  - eexists; reflexivity.
  - destruct (assoc p fs); eexists; reflexivity.
Qed.

Lemma assoc_del_key_other {A} k k' (l : list (string * A)) :
  k <> k' -> assoc k (del_key k' l) = assoc k l.
Proof.
  intros Hk. induction l as [|[a x] l IH]; [reflexivity|]. simpl.
  destruct (String.eqb k' a) eqn:E.
  - apply String.eqb_eq in E. subst a.
    destruct (String.eqb k k') eqn:E2; [apply String.eqb_eq in E2; contradiction|reflexivity].
  - simpl. destruct (String.eqb k a); [reflexivity|exact IH].
Qed.

(* setting the path leaves every other top-level field as it was *)
Lemma plain_set_assoc_other p rest v fs m :
  m <> p -> exists gs, plain_set (p :: rest) v (VDoc fs) = VDoc gs /\ assoc m gs = assoc m fs.
Proof.
  intros Hm. destruct rest as [|q rest]; cbn [plain_set].
  - destruct v as [x|]; eexists; (split; [reflexivity|]).
    + apply assoc_set_key_other. apply not_eq_sym. exact Hm.
    + apply assoc_del_key_other. exact Hm.
  - destruct (assoc p fs); eexists; (split; [reflexivity|]).
    + apply assoc_set_key_other. apply not_eq_sym. exact Hm.
    + reflexivity.
Qed.

(* an index name that is neither a prefix of the path nor below it: its parent is still an
   existing sub-document after the path has been set *)
Lemma parent_doc_after_set n : forall parts v d,
  ProjectSpec.is_prefix_of n parts = false -> ProjectSpec.is_prefix_of parts n = false ->
  parent_doc n d -> parent_doc n (plain_set parts v d).
Proof.
  induction n as [|m nrest IH]; intros parts v d Hnp Hpn [pfs Hp]; [discriminate|].
  destruct parts as [|p rest]; [discriminate|].
  destruct nrest as [|m2 nr].
  - simpl in Hp. inversion Hp; subst.
    destruct (plain_set_doc (p :: rest) v pfs) as [gs Hgs]. rewrite Hgs. exists gs. reflexivity.
  - change (removelast (m :: m2 :: nr)) with (m :: removelast (m2 :: nr)) in Hp.
    cbn [plain_get] in Hp. destruct d; try discriminate.
    destruct (assoc m fs) as [sub|] eqn:Ha; [|discriminate].
    unfold parent_doc.
    change (removelast (m :: m2 :: nr)) with (m :: removelast (m2 :: nr)).
    destruct (String.eqb m p) eqn:Emp.
    + apply String.eqb_eq in Emp. subst m.
      cbn [ProjectSpec.is_prefix_of] in Hnp, Hpn. rewrite String.eqb_refl in Hnp, Hpn.
      cbn [andb] in Hnp, Hpn.
      destruct rest as [|q rest]; [discriminate|].
      rewrite plain_set_cons2, Ha.
      destruct (IH (q :: rest) v sub Hnp Hpn (ex_intro _ pfs Hp)) as [pfs' Hp'].
      exists pfs'. cbn [plain_get]. rewrite assoc_set_key_same. exact Hp'.
    + apply String.eqb_neq in Emp.
      destruct (plain_set_assoc_other p rest v fs m Emp) as (gs & Hgs & Hags).
      rewrite Hgs. exists pfs. cbn [plain_get]. rewrite Hags, Ha. exact Hp.
Qed.

Lemma combine_map_l {A B C} (f : A -> C) (a : list A) (b : list B) :
  combine (map f a) b = map (fun ab => (f (fst ab), snd ab)) (combine a b).
Proof.
  revert b. induction a as [|x a IH]; intros b; [reflexivity|].
  destruct b as [|y b]; [reflexivity|]. simpl. f_equal. apply IH.
Qed.

Lemma unwind_doc_spec_idx parts preserve n d r :
  parts <> [] -> n <> [] ->
  ProjectSpec.is_prefix_of n parts = false -> ProjectSpec.is_prefix_of parts n = false ->
  spec_unwind_doc parts preserve (Some n) d = Some r ->
  unwind_doc parts preserve (Some n) d = Ok r.
Proof.
  intros Hne Hnn Hnp Hpn. unfold spec_unwind_doc.
  destruct (plain_get (removelast n) d) as [[pv|]|] eqn:Hpar; try discriminate.
  destruct pv as [| | | | | | |pfs|]; try discriminate.
  assert (Hpd : parent_doc n d) by (exists pfs; exact Hpar).
  destruct (plain_get parts d) as [[v|]|] eqn:Hg; [| |discriminate].
  - assert (Hget := plain_get_get _ _ _ Hg).
    assert (Hparts : parent_doc parts d) by (eapply plain_get_parent; eassumption).
    assert (Hscalar : forall other, v = other ->
              match other with VNull | VArr _ => False | _ => True end ->
              unwind_doc parts preserve (Some n) d = Ok [plain_set n (Some VNull) d]).
    { intros other Hv Hnot. subst other. unfold unwind_doc. rewrite Hget.
      assert (Hm : mapM (fun iv : value * value =>
                 match set_by_dot parts (snd iv) d with
                 | Some d0 => match set_by_dot n (fst iv) d0 with Some d' => Ok d' | None => Err EKey end
                 | None => Err EKey end) [(VNull, v)] = Ok [plain_set n (Some VNull) d]).
      { cbn [mapM snd fst]. rewrite set_by_dot_plain by assumption.
        rewrite plain_set_same by assumption.
        rewrite set_by_dot_plain by assumption. reflexivity. }
      destruct v; try contradiction; exact Hm. }
    destruct v as [| | | | | | | |xs];
      try (intros H; inversion H; subst; apply (Hscalar _ eq_refl I)).
    + (* null *)
      intros H. unfold unwind_doc. rewrite Hget. destruct preserve; inversion H; reflexivity.
    + destruct xs as [|x xs].
      * intros H. unfold unwind_doc. rewrite Hget. destruct preserve; cbn [negb]; inversion H; reflexivity.
      * intros H. inversion H; subst. clear H. unfold unwind_doc. rewrite Hget.
        erewrite mapM_ext.
        -- rewrite (mapM_pure (fun iv => plain_set n (Some (fst iv)) (plain_set parts (Some (snd iv)) d))).
           f_equal. rewrite combine_map_l, map_map. reflexivity.
        -- intros iv _. cbv beta. rewrite set_by_dot_plain by assumption.
           rewrite set_by_dot_plain; [reflexivity|assumption|].
           apply parent_doc_after_set; assumption.
  - assert (Hget := plain_get_get _ _ _ Hg).
    intros H. unfold unwind_doc. rewrite Hget. destruct preserve; inversion H; reflexivity.
Qed.

Definition idx_ok (parts : list string) (idx : option (list string)) : Prop :=
  match idx with
  | None => True
  | Some n => n <> [] /\ ProjectSpec.is_prefix_of n parts = false /\ ProjectSpec.is_prefix_of parts n = false
  end.

Lemma unwind_doc_spec_any parts preserve idx d r :
  parts <> [] -> idx_ok parts idx ->
  spec_unwind_doc parts preserve idx d = Some r ->
  unwind_doc parts preserve idx d = Ok r.
Proof.
  intros Hne Hi. destruct idx as [n|].
  - destruct Hi as (Hnn & Hnp & Hpn). apply unwind_doc_spec_idx; assumption.
  - apply unwind_doc_spec; assumption.
Qed.

Lemma unwind_docs_spec parts preserve idx l ls :
  parts <> [] -> idx_ok parts idx ->
  all_opt (map (spec_unwind_doc parts preserve idx) l) = Some ls ->
  mapM (unwind_doc parts preserve idx) l = Ok ls.
Proof.
  intros Hne Hi. revert ls. induction l as [|d l IH]; intros ls H; cbn [map all_opt mapM] in *.
  - inversion H; reflexivity.
  - destruct (spec_unwind_doc parts preserve idx d) as [r|] eqn:Hr; [|discriminate].
    destruct (all_opt (map (spec_unwind_doc parts preserve idx) l)) as [rs|]; [|discriminate].
    inversion H; subst. rewrite (unwind_doc_spec_any _ _ _ _ _ Hne Hi Hr). rewrite (IH rs eq_refl). reflexivity.
Qed.

(* ---------- the stage *)
Definition spec_unwind_body (opts : list (string * value)) (rest : string) (s : stream) : pres :=
  let parts := split_dots rest in
  if existsb (fun p => (p =? "") || starts_dollar p) parts then PUndef else
  if existsb (fun k => mem_str k (s_sets s)) (firstn 1 parts) then PUndef else
  match (match assoc "preserveNullAndEmptyArrays" opts with
         | None => Some false | Some (VBool b) => Some b | Some _ => None end),
        (match assoc "includeArrayIndex" opts with
         | None => Some None
         | Some (VStr n) =>
             if forallb plain_name (split_dots n)
                && negb (ProjectSpec.is_prefix_of (split_dots n) parts || ProjectSpec.is_prefix_of parts (split_dots n))
             then Some (Some (split_dots n)) else None
         | Some _ => None end) with
  | Some preserve, Some idx =>
      match all_opt (map (spec_unwind_doc parts preserve idx) (s_docs s)) with
      | Some ls => PV (mkStream (List.concat ls) (s_ord s) (s_sets s))
      | None => PUndef
      end
  | _, _ => PUndef
  end.

Definition unwind_opts (o : value) : list (string * value) :=
  match o with VDoc fs => fs | _ => [("path", o)] end.

Lemma spec_unwind_unfold o s :
  spec_unwind o s =
  if negb (forallb (fun kv => mem_str (fst kv) ["path"; "preserveNullAndEmptyArrays"; "includeArrayIndex"])
                   (unwind_opts o))
  then PErr else
  match assoc "path" (unwind_opts o) with
  | Some (VStr path) =>
      match path with
      | EmptyString => PErr
      | String c rest => if Ascii.eqb c "$" then spec_unwind_body (unwind_opts o) rest s else PErr
      end
  | _ => PErr
  end.
Proof.
  unfold spec_unwind. fold (unwind_opts o).
  destruct (negb (forallb _ (unwind_opts o))); [reflexivity|].
  destruct (assoc "path" (unwind_opts o)) as [pv|]; [|reflexivity].
  destruct pv; try reflexivity. destruct s0 as [|c rest]; [reflexivity|].
  destruct c as [[] [] [] [] [] [] [] []]; reflexivity.
Qed.

(* every option document is covered: with includeArrayIndex the specification decides only
   index names whose components are plain and that are neither a prefix of the path nor
   below it, on documents where the parent of the index name is an existing sub-document and
   (with preserveNullAndEmptyArrays) the path holds a non-empty array or a scalar; there the
   model writes the same index *)
Lemma stage_unwind db o l :
  stage_reasons db "$unwind" o l = 0 ->
  rel (spec_stage db "$unwind" o (mkStream l true [])) (run_stage db "$unwind" o l).
Proof.
  intros Hg.
  assert (Hs : spec_stage db "$unwind" o (mkStream l true []) = spec_unwind o (mkStream l true []))
    by (destruct o; reflexivity).
  rewrite Hs. clear Hs. rewrite run_stage_unwind. rewrite spec_unwind_unfold.
  assert (Hall : forallb (fun kv => mem_str (fst kv) ["path"; "preserveNullAndEmptyArrays"; "includeArrayIndex"])
                   (unwind_opts o) = true).
  { destruct o; try reflexivity.
    assert (Hg' : zb (negb (forallb (fun kv => mem_str (fst kv)
                         ["path"; "preserveNullAndEmptyArrays"; "includeArrayIndex"]) fs)) 256 = 0) by exact Hg.
    apply zb_zero in Hg'; [|discriminate]. apply negb_false_iff in Hg'. exact Hg'. }
  rewrite Hall. cbn [negb].
  unfold unwind. fold (unwind_opts o).
  destruct (assoc "path" (unwind_opts o)) as [pv|]; [|apply rel_err].
  destruct pv; try apply rel_err. rename s into path.
  destruct path as [|c rest]; [apply rel_err|].
  destruct (Ascii.eqb c "$") eqn:Hc'; cbn [negb]; [|apply rel_err].
  unfold spec_unwind_body. cbv zeta. cbn [s_docs s_ord s_sets].
  destruct (existsb (fun p => (p =? "") || starts_dollar p) (split_dots rest)); [exact I|].
  assert (Hsets : existsb (fun k => mem_str k []) (firstn 1 (split_dots rest)) = false).
  { destruct (split_dots rest); reflexivity. }
  rewrite Hsets.
  destruct (negb (path_modelled (split_dots rest))); [apply rel_unmodelled|].
  assert (Hbody : forall preserve idx, idx_ok (split_dots rest) idx ->
     rel match all_opt (map (spec_unwind_doc (split_dots rest) preserve idx) l) with
         | Some ls => PV (mkStream (List.concat ls) true [])
         | None => PUndef
         end
         (let! parts_l := mapM (unwind_doc (split_dots rest) preserve idx) l in Ok (List.concat parts_l))).
  { intros preserve idx Hi.
    destruct (all_opt (map (spec_unwind_doc (split_dots rest) preserve idx) l)) as [ls|] eqn:Hls; [|exact I].
    rewrite (unwind_docs_spec _ _ _ _ _ (split_dots_ne rest) Hi Hls). simpl. repeat split. }
  (* the specification's reading of preserveNullAndEmptyArrays: a boolean, or absent *)
  destruct (match assoc "preserveNullAndEmptyArrays" (unwind_opts o) with
            | None => Some false | Some (VBool b) => Some b | Some _ => None end) as [sp|] eqn:Hsp;
    [|exact I].
  assert (Hpres : (match assoc "preserveNullAndEmptyArrays" (unwind_opts o) with
                   | Some v => truthy v | None => false end) = sp).
  { destruct (assoc "preserveNullAndEmptyArrays" (unwind_opts o)) as [pv|].
    - destruct pv; try discriminate. inversion Hsp; subst. destruct sp; reflexivity.
    - inversion Hsp; reflexivity. }
  rewrite Hpres.
  destruct (assoc "includeArrayIndex" (unwind_opts o)) as [iv|].
  - destruct iv as [| | | |n| | | |]; try exact I.
    destruct (forallb plain_name (split_dots n)
              && negb (ProjectSpec.is_prefix_of (split_dots n) (split_dots rest)
                       || ProjectSpec.is_prefix_of (split_dots rest) (split_dots n))) eqn:Hok; [|exact I].
    apply andb_true_iff in Hok. destruct Hok as [Hplain Hpre].
    apply negb_true_iff, orb_false_iff in Hpre. destruct Hpre as [Hnp Hpn].
    assert (Hn : (n =? "") = false).
    { destruct n; [discriminate Hplain|reflexivity]. }
    rewrite Hn.
    destruct (path_modelled (split_dots n)); [|apply rel_unmodelled].
    apply Hbody. split; [apply split_dots_ne|]. split; assumption.
  - apply Hbody. exact I.
Qed.
