(* C01 proofs, part 6: the evaluator implements the specification inside the guard. *)
From Coq Require Import ZArith List String Bool Ascii Lia.
From Verif Require Import Value PyEq BsonOrder Path Filter FilterSpec FilterGuard.
From Verif.Proofs Require Import C01Values C01Paths C01Loop C01Ops C01Agg.
Import ListNotations.
Open Scope Z_scope.
Open Scope string_scope.
Open Scope list_scope.

Scheme fop_mind := Induction for fop Sort Prop
with fops_mind := Induction for fops Sort Prop
with search_mind := Induction for search Sort Prop
with emq_mind := Induction for emq Sort Prop
with allarg_mind := Induction for allarg Sort Prop
with allitems_mind := Induction for allitems Sort Prop
with allitem_mind := Induction for allitem Sort Prop
with clause_mind := Induction for clause Sort Prop
with largs_mind := Induction for largs Sort Prop
with lq_mind := Induction for lq Sort Prop
with filter_mind := Induction for filter Sort Prop.

Combined Scheme filter_mutind from fop_mind, fops_mind, search_mind, emq_mind, allarg_mind,
  allitems_mind, allitem_mind, clause_mind, largs_mind, lq_mind, filter_mind.

(* ---------------------------------------------------------------- induction predicates *)
Definition P_fop (o : fop) : Prop := forall key C de d c,
  g_fop o key C de d = [] -> In c C ->
  (fop_is_all o = true -> nested_first c = false) ->
  eval_fop o key c d = Ok (leaf_fop o key d c).

Definition P_fops (os : fops) : Prop := forall key C de d c,
  g_fops os key C de d = [] -> In c C ->
  (fops_has_all os = true -> nested_first c = false) ->
  fops_unknown os = None /\
  eval_fops os key c d = Ok (fops_forall (fun o => leaf_fop o key d c) os).

Definition P_search (s : search) : Prop := forall key d,
  g_search key s d = [] -> eval_field key s d = Ok (spec_search key s d).

Definition P_emq (q : emq) : Prop := forall xs,
  g_emq q xs = [] -> eval_emq q xs = Ok (spec_emq q xs).

Definition P_clause (c : clause) : Prop := forall d,
  g_clause c d = [] -> eval_clause c d = Ok (spec_clause c d).

Definition P_largs (a : largs) : Prop := forall k d,
  g_largs a d = [] -> eval_largs k a d = Ok (spec_largs k a d).

Definition P_filter (f : filter) : Prop := forall d,
  g_matches f d = [] -> matches f d = Ok (spec_matches f d).

Definition P_lq (q : lq) : Prop :=
  match q with LqBad => True | LqF f => P_filter f end.

(* ---------------------------------------------------------------- literal operand *)
Lemma sval_test_leaf v c :
  eq_compat_c v c = true -> sval_test v c = Ok (lift (fun c => spec_eq c v) c).
Proof.
  intros Hc. destruct c as [x|].
  - destruct x as [|b|z|e|s|us tz|n|fs|xs];
      try (cbn [sval_test eq_compat_c] in *; unfold lift; cbn [spec_eq];
           rewrite (eq_compat_py _ _ Hc), orb_false_r; reflexivity).
    cbn [sval_test eq_compat_c] in *. unfold lift. cbn [spec_eq].
    rewrite (eq_compat_py_flip _ _ Hc), orb_comm. f_equal. f_equal.
    unfold py_in. apply existsb_ext_in. intros e He. apply eq_compat_py.
    eapply eq_compat_elem; eassumption.
  - cbn [sval_test]. unfold lift. cbn [spec_eq]. rewrite orb_false_r. reflexivity.
Qed.

Lemma path_guard parts key :
  negb (path_modelled parts) || (key =? "") || ends_empty parts = false ->
  path_modelled parts = true /\ ends_empty parts = false.
Proof.
  intros H. apply orb_false_iff in H. destruct H as [H He].
  apply orb_false_iff in H. destruct H as [Hp _]. apply negb_false_iff in Hp.
  split; assumption.
Qed.

Lemma search_SVal_correct v : P_search (SVal v).
Proof.
  intros key d Hg. cbn [g_search] in Hg.
  set (parts := split_dots key) in *.
  set (C := candidates parts d) in *. set (de := dead_end parts d) in *.
  apply app_eq_nil in Hg. destruct Hg as [Hpath Hg]. apply r_if_nil in Hpath.
  apply app_eq_nil in Hg. destruct Hg as [Heq Hg].
  apply app_eq_nil in Hg. destruct Hg as [Hdoc Hg]. apply r_if_nil in Hdoc.
  apply app_eq_nil in Hg. destruct Hg as [H1 H2]. apply r_if_nil in H1, H2.
  apply path_guard in Hpath. destruct Hpath as [Hpm Hee].
  apply eq_reasons_nil in Heq. destruct Heq as [Hcompat _].
  rewrite eval_field_SVal. cbv zeta. fold parts. fold C. rewrite Hpm. cbn [negb].
  assert (Hneg : search_neg (SVal v) = false) by (destruct v; try reflexivity; discriminate Hdoc).
  assert (Hpos : search_pos (SVal v) = true) by (destruct v; try reflexivity; discriminate Hdoc).
  rewrite Hneg, Hpos.
  rewrite (loop_positive_lemma _ (lift (fun c => spec_eq c v))).
  - cbn [negb andb]. rewrite orb_false_r. f_equal.
    change (holds (fun c => spec_eq c v) C = holds (fun c => spec_eq c v) (path_values parts d)).
    symmetry. apply (holds_CP C (path_values parts d) de) with (nullish := null_sensitive_val v);
      try assumption.
    + apply somes_candidates. exact Hee.
    + intros E1 E2. apply candidates_no_dead_end; [exact Hee|]. apply dead_end_zero; assumption.
    + apply spec_eq_none.
  - intros c Hc. apply sval_test_leaf. apply Hcompat. exact Hc.
Qed.

(* ---------------------------------------------------------------- one operator, one candidate *)
Lemma In_arrays_of xs C : In (Some (VArr xs)) C -> In xs (arrays_of C).
Proof.
  intros H. unfold arrays_of. apply in_flat_map. exists (Some (VArr xs)). split; [exact H|].
  left. reflexivity.
Qed.

Lemma fop_OEq v : P_fop (OEq v).
Proof.
  intros key C de d c Hg Hc _. cbn [g_fop] in Hg.
  apply app_eq_nil in Hg. destruct Hg as [Heq _].
  apply eq_reasons_nil in Heq. destruct Heq as [Hcompat Hnest].
  change (eq_op c v = Ok (lift (fun c => spec_eq c v) c)).
  apply eq_op_leaf; [apply Hcompat; exact Hc|]. intros Hv. apply Hnest; assumption.
Qed.

Lemma fop_ONe v : P_fop (ONe v).
Proof.
  intros key C de d c Hg Hc _. cbn [g_fop] in Hg.
  apply app_eq_nil in Hg. destruct Hg as [Heq _].
  apply eq_reasons_nil in Heq. destruct Heq as [Hcompat Hnest].
  change (ne_op c v = Ok (negb (lift (fun c => spec_eq c v) c))).
  apply ne_op_leaf; [apply Hcompat; exact Hc|]. intros Hv. apply Hnest; assumption.
Qed.

Lemma fop_OCmp op v : P_fop (OCmp op v).
Proof.
  intros key C de d c Hg Hc _. cbn [g_fop] in Hg.
  apply app_eq_nil in Hg. destruct Hg as [Hs Ha]. apply r_if_nil in Hs, Ha.
  apply negb_false_iff in Hs. apply orb_false_iff in Ha. destruct Ha as [Hav HaC].
  change (cmp_op op c v = Ok (lift (fun c => spec_cmp op c v) c)).
  apply cmp_op_leaf; try assumption.
  exact (existsb_false_In _ _ HaC c Hc).
Qed.

Lemma in_guard l C :
  flat_map (fun v => eq_reasons v C) l = [] ->
  forall c, In c C -> forall v, In v l -> eq_compat_c v c = true.
Proof.
  intros H c Hc v Hv. pose proof (flat_map_nil _ _ H v Hv) as Hr.
  apply eq_reasons_nil in Hr. destruct Hr as [Hcompat _]. apply Hcompat. exact Hc.
Qed.

Lemma fop_OIn v : P_fop (OIn v).
Proof.
  intros key C de d c Hg Hc _. cbn [g_fop] in Hg.
  destruct v as [|b|z|e|s|us tz|n|fs|l]; try discriminate Hg.
  apply app_eq_nil in Hg. destruct Hg as [Heq Hg].
  apply app_eq_nil in Hg. destruct Hg as [Harr _]. apply r_if_nil in Harr.
  change (in_op c (VArr l) = Ok (lift (spec_in l) c)).
  apply in_op_leaf; [|exact Harr]. apply (in_guard l C Heq c Hc).
Qed.

Lemma fop_ONin v : P_fop (ONin v).
Proof.
  intros key C de d c Hg Hc _. cbn [g_fop] in Hg.
  destruct v as [|b|z|e|s|us tz|n|fs|l]; try discriminate Hg.
  apply app_eq_nil in Hg. destruct Hg as [Heq Hg].
  apply app_eq_nil in Hg. destruct Hg as [Harr _]. apply r_if_nil in Harr.
  change ((let! b := in_op c (VArr l) in Ok (negb b)) = Ok (negb (lift (spec_in l) c))).
  rewrite in_op_leaf; [reflexivity| |exact Harr]. apply (in_guard l C Heq c Hc).
Qed.

Lemma fop_OExists v : P_fop (OExists v).
Proof. intros key C de d c _ _ _. destruct c; reflexivity. Qed.

Lemma fop_OType v : P_fop (OType v).
Proof.
  intros key C de d c Hg Hc _. cbn [g_fop] in Hg.
  destruct v as [|b|z|e|name|us tz|n|fs|l]; try discriminate Hg.
  destruct (type_pred name) as [[p|]|] eqn:Hp; try discriminate Hg.
  change (type_op c (VStr name) = Ok (lift (spec_type name) c)).
  eapply type_op_leaf. exact Hp.
Qed.

Lemma fop_OSize v : P_fop (OSize v).
Proof.
  intros key C de d c Hg Hc _. cbn [g_fop] in Hg.
  apply app_eq_nil in Hg. destruct Hg as [Hv Hs]. apply r_if_nil in Hv, Hs.
  destruct v as [|b|z|e|s|us tz|n|fs|l]; try discriminate Hv.
  change (Ok (size_op c (VInt z)) = Ok (size_leaf (VInt z) c)). f_equal.
  apply size_op_leaf. exact (existsb_false_In _ _ Hs c Hc).
Qed.

Lemma fop_OAll a : P_fop (OAll a).
Proof.
  intros key C de d c Hg Hc Hnf. cbn [g_fop] in Hg.
  destruct a as [|items]; [discriminate Hg|].
  apply app_eq_nil in Hg. destruct Hg as [Hnil Hg].
  apply app_eq_nil in Hg. destruct Hg as [Hmulti Hitems]. apply r_if_nil in Hmulti.
  assert (HC : C = [c]).
  { destruct C as [|c0 [|c1 C']]; [destruct Hc| |discriminate Hmulti].
    destruct Hc as [->|[]]. reflexivity. }
  rewrite HC in Hitems. specialize (Hnf eq_refl).
  cbn [leaf_fop spec_allarg].
  assert (E : eval_fop (OAll (AllItems items)) key c d =
              eval_allitems items (force_list c) (match c with Some (VArr _) => true | _ => false end)).
  { destruct c as [x|]; [|reflexivity]. destruct x as [|b|z|e|s|us tz|n|fs|xs]; try reflexivity.
    destruct xs as [|y ys]; [reflexivity|].
    destruct y; try reflexivity. discriminate Hnf. }
  rewrite E. apply eval_allitems_plain; [apply dv_for_force|exact Hitems].
Qed.

Lemma fop_OElemMatch q : P_emq q -> P_fop (OElemMatch q).
Proof.
  intros IH key C de d c Hg Hc _. cbn [g_fop] in Hg.
  destruct c as [x|]; [|reflexivity].
  destruct x as [|b|z|e|s|us tz|n|fs|xs]; try reflexivity.
  change (eval_emq q xs = Ok (spec_emq q xs)). apply IH.
  apply (flat_map_nil _ _ Hg). apply In_arrays_of. exact Hc.
Qed.

Lemma fop_ONot bad s : P_search s -> P_fop (ONot bad s).
Proof.
  intros IH key C de d c Hg Hc _. cbn [g_fop] in Hg.
  apply app_eq_nil in Hg. destruct Hg as [Hbad Hg]. apply r_if_nil in Hbad.
  apply app_eq_nil in Hg. destruct Hg as [_ Hs].
  subst bad.
  change ((let! b := eval_field key s d in Ok (negb b)) = Ok (negb (spec_search key s d))).
  rewrite (IH key d Hs). reflexivity.
Qed.

Lemma fop_OUnknown ni : P_fop (OUnknown ni).
Proof. intros key C de d c Hg. discriminate Hg. Qed.

Lemma fop_OUnmodelled : P_fop OUnmodelled.
Proof. intros key C de d c Hg. discriminate Hg. Qed.

(* ---------------------------------------------------------------- operator lists *)
Lemma fops_FNil : P_fops FNil.
Proof. intros key C de d c _ _ _. split; reflexivity. Qed.

Lemma fops_FCons o os : P_fop o -> P_fops os -> P_fops (FCons o os).
Proof.
  intros IHo IHos key C de d c Hg Hc Hnf. cbn [g_fops] in Hg.
  apply app_eq_nil in Hg. destruct Hg as [Ho Hos].
  rewrite fops_has_all_cons in Hnf.
  assert (Hnf1 : fop_is_all o = true -> nested_first c = false).
  { intros H. apply Hnf. rewrite H. reflexivity. }
  assert (Hnf2 : fops_has_all os = true -> nested_first c = false).
  { intros H. apply Hnf. rewrite H. apply orb_true_r. }
  destruct (IHos key C de d c Hos Hc Hnf2) as [Hunk Hev].
  pose proof (IHo key C de d c Ho Hc Hnf1) as Hevo.
  split.
  - destruct o; try exact Hunk. discriminate Ho.
  - cbn [eval_fops fops_forall]. rewrite Hevo. cbn [bind]. rewrite Hev.
    destruct (leaf_fop o key d c); reflexivity.
Qed.

(* ---------------------------------------------------------------- operator dict on a field *)
Lemma loop_single (test : lookup -> res bool) (t : lookup -> bool) neg pos c :
  test c = Ok (t c) -> (neg = false -> pos = true) ->
  loop_clause pos (field_loop test neg [c] false false) = Ok (t c).
Proof.
  intros Ht Hp.
  assert (Ht' : forall c', In c' [c] -> test c' = Ok (t c')).
  { intros c' [<-|[]]. exact Ht. }
  destruct neg.
  - rewrite (loop_negative_lemma test t pos [c] Ht'). cbn [forallb].
    rewrite orb_true_r, !andb_true_r. reflexivity.
  - rewrite (loop_positive_lemma test t pos [c] Ht'). rewrite (Hp eq_refl).
    cbn [existsb negb andb]. rewrite !orb_false_r. reflexivity.
Qed.

Lemma agg_single o (t : lookup -> bool) c : agg o t [c] = t c.
Proof.
  unfold agg. destruct (fop_is_neg o); cbn; [apply andb_true_r|apply orb_false_r].
Qed.

Lemma agg_nil o (t : lookup -> bool) : agg o t [] = fop_is_neg o.
Proof. unfold agg. destruct (fop_is_neg o); reflexivity. Qed.

Lemma search_SOps_correct os : P_fops os -> P_search (SOps os).
Proof.
  intros IH key d Hg. cbn [g_search] in Hg.
  set (parts := split_dots key) in *.
  set (C := candidates parts d) in *. set (de := dead_end parts d) in *.
  apply app_eq_nil in Hg. destruct Hg as [Hpath Hg]. apply r_if_nil in Hpath.
  apply app_eq_nil in Hg. destruct Hg as [Hmulti Hg]. apply r_if_nil in Hmulti.
  apply app_eq_nil in Hg. destruct Hg as [Hexf Hg]. apply r_if_nil in Hexf.
  apply app_eq_nil in Hg. destruct Hg as [Hunm Hops]. apply r_if_nil in Hunm.
  apply path_guard in Hpath. destruct Hpath as [Hpm Hee].
  set (P := path_values parts d).
  assert (HS : somes C = somes P) by (apply somes_candidates; exact Hee).
  assert (HN : (de =? 1)%Z = false -> (de =? 2)%Z = false -> C = P).
  { intros E1 E2. apply candidates_no_dead_end; [exact Hee|]. apply dead_end_zero; assumption. }
  change (spec_search key (SOps os) d) with (spec_fops os key P d).
  rewrite eval_field_SOps. cbv zeta. fold parts. fold C. rewrite Hpm. cbn [negb].
  (* the per-candidate test *)
  assert (Htest : forall c, In c C -> (fops_has_all os = true -> nested_first c = false) ->
                  sops_test os key d c = Ok (fops_forall (fun o => leaf_fop o key d c) os)).
  { intros c Hc Hnf. destruct (IH key C de d c Hops Hc Hnf) as [Hunk Hev].
    unfold sops_test. rewrite Hunk. exact Hev. }
  destruct os as [|o0 os0].
  { (* empty operator list (never produced by the parser) *)
    cbn [is_exists_false andb eval_all_pre bind fops_has_pos fops_has_neg spec_fops].
    rewrite (loop_positive_lemma _ (fun _ => true)); [|reflexivity].
    destruct C as [|c C']; reflexivity. }
  set (os := FCons o0 os0) in *.
  assert (Hne : os <> FNil) by discriminate.
  destruct C as [|c [|c' C']] eqn:HC.
  - (* no candidate *)
    destruct (is_exists_false (SOps os)) eqn:Hief.
    + apply is_exists_false_inv in Hief. destruct Hief as [v [Hos Hv]].
      rewrite Hos. cbn [andb spec_fops]. rewrite andb_true_r.
      rewrite (spec_fop_falsy_nil [] P HS); [reflexivity|reflexivity|].
      cbn [exists_falsy]. rewrite (py_eq_false_falsy v Hv). reflexivity.
    + cbn [andb]. rewrite eval_all_pre_eq.
      destruct (fops_all os) as [a|] eqn:Hall.
      * pose proof (fops_all_guard os a key [] de d Hall Hops) as Hga.
        assert (Hsp : spec_fop (OAll a) key P d = false).
        { rewrite (spec_fop_agg [] P de HS HN); [reflexivity|exact Hga|reflexivity]. }
        rewrite (spec_fops_member os a key P d Hall Hsp).
        cbn [g_fop] in Hga. destruct a as [|items]; [discriminate Hga|].
        apply app_eq_nil in Hga. destruct Hga as [Hnil Hga].
        apply app_eq_nil in Hga. destruct Hga as [_ Hitems].
        cbn [pre_dv eval_allarg].
        rewrite (eval_allitems_plain items [] [] true dv_for_nil Hitems).
        rewrite spec_allitems_nil; [reflexivity| |exact Hitems|reflexivity].
        intros ->. discriminate Hnil.
      * cbn [bind field_loop loop_clause negb andb orb].
        assert (Hnoex : fops_has_exists_false os = false).
        { destruct os0 as [|o1 os1].
          - subst os. rewrite fops_has_exists_false_cons. cbn [fops_has_exists_false].
            rewrite orb_false_r. destruct (exists_falsy o0) eqn:Hef; [|reflexivity].
            exfalso. destruct o0; try discriminate Hef. cbn [exists_falsy] in Hef.
            cbn [g_fops g_fop] in Hops.
            apply app_eq_nil in Hops. destruct Hops as [Hops _].
            apply app_eq_nil in Hops. destruct Hops as [_ Hnew]. apply r_if_nil in Hnew.
            rewrite Hef in Hnew. cbn [andb] in Hnew. rewrite andb_true_r in Hnew.
            apply negb_false_iff in Hnew. cbn [is_exists_false] in Hief.
            rewrite Hnew in Hief. discriminate Hief.
          - exact Hexf. }
        rewrite (spec_fops_agg [] P de HS HN os key d Hops (fun _ => Hnoex)).
        rewrite (fops_forall_ext _ fop_is_neg) by (intros o; apply agg_nil).
        rewrite fops_forall_neg. reflexivity.
  - (* one candidate *)
    rewrite andb_false_r.
    assert (Hspec : spec_fops os key P d = fops_forall (fun o => leaf_fop o key d c) os).
    { rewrite (spec_fops_agg [c] P de HS HN os key d Hops) by discriminate.
      apply fops_forall_ext. intros o. apply agg_single. }
    assert (Hloop : (fops_has_all os = true -> nested_first c = false) ->
                    loop_clause (fops_has_pos os)
                      (field_loop (sops_test os key d) (fops_has_neg os) [c] false false) =
                    Ok (spec_fops os key P d)).
    { intros Hnf. rewrite Hspec.
      apply (loop_single _ (fun c0 => fops_forall (fun o => leaf_fop o key d c0) os)).
      - apply Htest; [left; reflexivity|exact Hnf].
      - apply fops_pos_or_neg. exact Hne. }
    rewrite eval_all_pre_eq.
    destruct (fops_all os) as [a|] eqn:Hall.
    + pose proof (fops_all_guard os a key [c] de d Hall Hops) as Hga.
      pose proof (spec_fop_agg [c] P de HS HN (OAll a) key d Hga) as Hsp.
      rewrite agg_single in Hsp. specialize (Hsp ltac:(discriminate)).
      cbn [g_fop] in Hga. destruct a as [|items]; [discriminate Hga|].
      apply app_eq_nil in Hga. destruct Hga as [Hnil Hga].
      apply app_eq_nil in Hga. destruct Hga as [_ Hitems].
      rewrite pre_dv_single. cbn [eval_allarg].
      rewrite (eval_allitems_plain items (force_list c) [c] true (dv_for_force c) Hitems).
      cbn [bind]. cbn [leaf_fop spec_allarg] in Hsp.
      destruct (spec_allitems items [c]) eqn:Hb.
      * cbn [negb].
        destruct (Nat.eqb (fops_len os) 1) eqn:Hlen.
        -- apply Nat.eqb_eq in Hlen. rewrite (fops_len1_all os _ Hlen Hall).
           cbn [spec_fops]. rewrite Hsp. reflexivity.
        -- apply Hloop. intros _.
           destruct (nested_first c) eqn:Hnf; [|reflexivity]. exfalso.
           assert (Hlt : Nat.ltb 1 (fops_len os) = true).
           { apply Nat.ltb_lt. apply Nat.eqb_neq in Hlen. subst os. cbn [fops_len] in *. lia. }
           rewrite Hlt in Hunm. unfold fops_has_all in Hunm. rewrite Hall in Hunm.
           cbn [andb existsb] in Hunm. rewrite orb_false_r in Hunm.
           destruct c as [x|]; try discriminate Hnf.
           destruct x as [|b|z|e|s|us tz|n|fs|xs]; try discriminate Hnf.
           destruct xs as [|y ys]; try discriminate Hnf.
           destruct y; try discriminate Hnf.
           cbn [all_unmodelled_cand] in Hunm. apply negb_false_iff in Hunm.
           rewrite spec_allitems_all_lists in Hb; [discriminate Hb| |exact Hitems|exact Hunm].
           intros ->. discriminate Hnil.
      * cbn [negb]. rewrite (spec_fops_member os _ key P d Hall Hsp). reflexivity.
    + cbn [bind]. apply Hloop. unfold fops_has_all. rewrite Hall. discriminate.
  - (* several candidates: a single operator, not $all *)
    cbn [length] in Hmulti. rewrite andb_true_r in Hmulti.
    destruct os0 as [|o1 os1]; [|discriminate Hmulti].
    subst os. rewrite andb_false_r.
    assert (Hnall : fops_all (FCons o0 FNil) = None).
    { destruct o0; try reflexivity. exfalso.
      cbn [g_fops g_fop] in Hops. destruct arg as [|items]; [discriminate Hops|].
      apply app_eq_nil in Hops. destruct Hops as [Hops _].
      apply app_eq_nil in Hops. destruct Hops as [_ Hops].
      apply app_eq_nil in Hops. destruct Hops as [Hm _]. discriminate Hm. }
    rewrite eval_all_pre_eq, Hnall. cbn [bind].
    rewrite <- HC in *.
    assert (Htest' : forall c0, In c0 C ->
               sops_test (FCons o0 FNil) key d c0 = Ok (leaf_fop o0 key d c0)).
    { intros c0 Hc0. rewrite Htest; [|exact Hc0|].
      - cbn [fops_forall]. rewrite andb_true_r. reflexivity.
      - unfold fops_has_all. rewrite Hnall. discriminate. }
    rewrite (spec_fops_agg C P de HS HN (FCons o0 FNil) key d Hops)
      by (intros E; rewrite E in HC; discriminate HC).
    cbn [fops_forall]. rewrite andb_true_r.
    rewrite fops_has_pos_cons, fops_has_neg_cons. cbn [fops_has_pos fops_has_neg].
    rewrite !orb_false_r. unfold agg.
    destruct (fop_is_neg o0).
    + rewrite (loop_negative_lemma _ _ _ C Htest'). cbn [negb orb]. rewrite andb_true_r.
      reflexivity.
    + rewrite (loop_positive_lemma _ _ _ C Htest'). cbn [negb andb]. rewrite orb_false_r.
      reflexivity.
Qed.

(* ---------------------------------------------------------------- $elemMatch *)
Fixpoint emq_go (f : filter) (s : search) (xs : list value) : res bool :=
  match xs with
  | [] => Ok false
  | x :: xs' =>
      match matches f x with
      | Ok true => Ok true
      | Ok false => emq_go f s xs'
      | Err EOpFail =>
          let! b := eval_field "field" s (VDoc [("field", x)]) in
          if b then Ok true else emq_go f s xs'
      | Err e => Err e
      end
  end.

Lemma eval_emq_EmQ f s xs : eval_emq (EmQ f s) xs = emq_go f s xs.
Proof. induction xs as [|x xs IH]; [reflexivity|]. cbn [emq_go]. rewrite <- IH. reflexivity. Qed.

Lemma emq_go_doc f s xs :
  (forall x, In x xs -> matches f x = Ok (spec_matches f x)) ->
  emq_go f s xs = Ok (existsb (fun x => spec_matches f x) xs).
Proof.
  induction xs as [|x xs IH]; intros H; [reflexivity|].
  cbn [emq_go existsb]. rewrite (H x (or_introl eq_refl)).
  destruct (spec_matches f x); [reflexivity|]. apply IH.
  intros y Hy. apply H. right. exact Hy.
Qed.

Lemma emq_go_ops f s xs :
  (forall x, In x xs -> matches f x = Err EOpFail) ->
  (forall x, In x xs -> eval_field "field" s (VDoc [("field", x)]) =
                        Ok (spec_search "field" s (VDoc [("field", x)]))) ->
  emq_go f s xs = Ok (existsb (fun x => spec_search "field" s (VDoc [("field", x)])) xs).
Proof.
  induction xs as [|x xs IH]; intros Hf Hs; [reflexivity|].
  cbn [emq_go existsb]. rewrite (Hf x (or_introl eq_refl)), (Hs x (or_introl eq_refl)).
  cbn [bind].
  destruct (spec_search "field" s (VDoc [("field", x)])); [reflexivity|]. apply IH.
  - intros y Hy. apply Hf. right. exact Hy.
  - intros y Hy. apply Hs. right. exact Hy.
Qed.

Lemma emq_EmBad : P_emq EmBad.
Proof. intros xs Hg. discriminate Hg. Qed.

Lemma emq_EmQ f s : P_filter f -> P_search s -> P_emq (EmQ f s).
Proof.
  intros IHf IHs xs Hg. rewrite eval_emq_EmQ. cbn [g_emq] in Hg.
  destruct s as [v|os|].
  - cbn [spec_emq]. apply emq_go_doc. intros x Hx. apply IHf.
    exact (flat_map_nil _ _ Hg x Hx).
  - apply app_eq_nil in Hg. destruct Hg as [Hfb Hg]. apply r_if_nil in Hfb.
    apply negb_false_iff in Hfb. cbn [spec_emq]. apply emq_go_ops.
    + intros x _. destruct f as [|c f']; try discriminate Hfb.
      destruct c; try discriminate Hfb. reflexivity.
    + intros x Hx. apply IHs. exact (flat_map_nil _ _ Hg x Hx).
  - discriminate Hg.
Qed.

(* ---------------------------------------------------------------- clauses and filters *)
Lemma clause_CLogic k falsy arg : P_largs arg -> P_clause (CLogic k falsy arg).
Proof.
  intros IH d Hg. cbn [g_clause] in Hg.
  apply app_eq_nil in Hg. destruct Hg as [Hf Ha]. apply r_if_nil in Hf. subst falsy.
  cbn [eval_clause spec_clause]. apply IH. exact Ha.
Qed.

Lemma largs_LCons q qs : P_lq q -> P_largs qs -> P_largs (LCons q qs).
Proof.
  intros IHq IHqs k d Hg. cbn [g_largs] in Hg.
  apply app_eq_nil in Hg. destruct Hg as [Hq Hqs].
  destruct q as [|f]; [discriminate Hq|].
  cbn [eval_largs spec_largs]. rewrite (IHq d Hq). cbn [bind].
  destruct k; rewrite (IHqs _ d Hqs); destruct (spec_matches f d); reflexivity.
Qed.

Lemma filter_FAnd c f : P_clause c -> P_filter f -> P_filter (FAnd c f).
Proof.
  intros IHc IHf d Hg. cbn [g_matches] in Hg.
  apply app_eq_nil in Hg. destruct Hg as [Hc Hf].
  cbn [matches spec_matches]. rewrite (IHc d Hc). cbn [bind].
  rewrite (IHf d Hf). destruct (spec_clause c d); reflexivity.
Qed.

Theorem all_correct :
  (forall o, P_fop o) /\ (forall os, P_fops os) /\ (forall s, P_search s) /\
  (forall q, P_emq q) /\ (forall a : allarg, True) /\ (forall i : allitems, True) /\
  (forall i : allitem, True) /\ (forall c, P_clause c) /\ (forall a, P_largs a) /\
  (forall q, P_lq q) /\ (forall f, P_filter f).
Proof.
  apply filter_mutind; try (intros; exact I).
  - exact fop_OEq.
  - exact fop_ONe.
  - exact fop_OCmp.
  - exact fop_OIn.
  - exact fop_ONin.
  - exact fop_OExists.
  - exact fop_OType.
  - exact fop_OSize.
  - intros a _. apply fop_OAll.
  - exact fop_OElemMatch.
  - exact fop_ONot.
  - exact fop_OUnknown.
  - exact fop_OUnmodelled.
  - exact fops_FNil.
  - intros o Ho os Hos. exact (fops_FCons o os Ho Hos).
  - exact search_SVal_correct.
  - exact search_SOps_correct.
  - intros key d Hg. cbn [g_search] in Hg. apply app_eq_nil in Hg. destruct Hg as [_ Hg].
    discriminate Hg.
  - exact emq_EmBad.
  - intros f Hf s Hs. exact (emq_EmQ f s Hf Hs).
  - intros d _. reflexivity.
  - exact clause_CLogic.
  - intros key s IH d Hg. apply IH. exact Hg.
  - intros d Hg. discriminate Hg.
  - intros d Hg. discriminate Hg.
  - intros d Hg. discriminate Hg.
  - intros k d Hg. discriminate Hg.
  - intros k d _. reflexivity.
  - intros q Hq qs Hqs. exact (largs_LCons q qs Hq Hqs).
  - intros f IH. exact IH.
  - intros d _. reflexivity.
  - intros c Hc f Hf. exact (filter_FAnd c f Hc Hf).
Qed.

Lemma G01_nil f d : G01 f d = true -> g_matches f d = [].
Proof. unfold G01, guard_reasons. destruct (g_matches f d); [reflexivity|discriminate]. Qed.

Theorem filter_match_correct : forall (f : filter) (d : value),
  G01 f d = true -> matches f d = Ok (spec_matches f d).
Proof.
  intros f d HG. apply G01_nil in HG.
  destruct all_correct as (_ & _ & _ & _ & _ & _ & _ & _ & _ & _ & Hf).
  exact (Hf f d HG).
Qed.

(* the closed forms of the candidate loop, for Properties/C01.v *)
Definition loop_positive_correct := loop_positive_lemma.
Definition loop_negative_correct := loop_negative_lemma.
