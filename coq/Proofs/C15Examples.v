(* C15: the hypotheses of the theorems are satisfiable on non-trivial concrete histories. *)
From Coq Require Import ZArith List String Bool Ascii.
From Verif Require Import Value PyEq BsonOrder Path Filter Update Project Coll HistCheck HistProps
  HistGuards.
Import ListNotations.
Open Scope Z_scope.
Open Scope string_scope.

Definition c15_ex_reqs : list bulk_req :=
  [BInsert (VDoc [("_id", VInt 1); ("a", VInt 1)]);
   BInsert (VDoc [("_id", VInt 1)]);                               (* duplicate key *)
   BUpdate (VDoc [("a", VInt 1)]) (VDoc [("$inc", VDoc [("a", VInt 1)])]) true false;
   BUpdate (VDoc [("a", VInt 7)]) (VDoc [("$set", VDoc [("b", VInt 1)])]) false true; (* upsert *)
   BReplace (VDoc [("a", VInt 2)]) (VDoc [("a", VInt 3)]) false;
   BDelete (VDoc [("a", VInt 7)]) true].

Definition c15_ex_ops : list op :=
  [OInsertOne (VDoc [("_id", VInt 0); ("a", VInt 1)]);
   OCreateIndex [("a", VInt 1)] false false None None None;
   OBulk c15_ex_reqs false;
   OBulk c15_ex_reqs true;
   OFind (VDoc []) None [] 0 0].

Example c15_ex_valid :
  c15_ex_reqs <> [] /\ forallb (fun r => match bulk_valid r with Ok _ => true | _ => false end)
                               c15_ex_reqs = true.
Proof. split; [discriminate|vm_compute; reflexivity]. Qed.

(* the unordered bulk: one write error (index 1), every other request executed *)
Example c15_ex_run :
  (let '(c2, outs, aborted) := seq_run false empty_coll c15_ex_reqs false [] in
   (List.length (docs c2), List.length outs, aborted, error_indexes outs)) =
  (1%nat, 6%nat, false, [1]) /\
  snd (bulk_write false empty_coll c15_ex_reqs false) =
  Ok (VDoc [("BulkWriteError",
             VDoc [("nInserted", VInt 1); ("nMatched", VInt 2); ("nModified", VInt 2);
                   ("nUpserted", VInt 1); ("nRemoved", VInt 1); ("upserted", VArr [VOid 1000]);
                   ("writeErrors", VArr [VDoc [("index", VInt 1); ("code", VInt 11000)]])])]).
Proof. vm_compute. split; reflexivity. Qed.

Example c15_ex_history :
  c15_reasons c15_ex_ops (model_obs false empty_coll c15_ex_ops) = 0 /\
  modelled false empty_coll c15_ex_ops = true /\
  c15_ok false c15_ex_ops (model_obs false empty_coll c15_ex_ops) = true.
Proof. vm_compute. repeat split; reflexivity. Qed.
