(* C04 proofs: Python slices (py_slice) as firstn / skipn. *)
From Coq Require Import ZArith List String Bool Ascii Lia.
From Verif Require Import Value PyEq BsonOrder Path Update Expr ExprSpec.
Import ListNotations.
Open Scope Z_scope.

Section slices.
Context {A : Type}.
Implicit Types l : list A.

Lemma firstn_ge l n : (List.length l <= n)%nat -> firstn n l = l.
Proof. apply firstn_all2. Qed.
Lemma skipn_ge l n : (List.length l <= n)%nat -> skipn n l = [].
Proof. apply skipn_all2. Qed.

Lemma py_slice_from l f : 0 <= f -> py_slice l (Some f) None = skipn (Z.to_nat f) l.
Proof.
  intros Hf. unfold py_slice, py_index.
  destruct (Z.ltb_spec f 0) as [H|_]; [lia|].
  destruct (Z.leb_spec (Z.of_nat (List.length l)) (Z.min f (Z.of_nat (List.length l)))) as [H|H].
  - symmetry. apply skipn_ge. lia.
  - assert (Z.min f (Z.of_nat (List.length l)) = f) as -> by lia.
    apply firstn_ge. rewrite skipn_length. lia.
Qed.

Lemma py_slice_window l f n : 0 <= f -> 0 <= n ->
  py_slice l (Some f) (Some (f + n)) = firstn (Z.to_nat n) (skipn (Z.to_nat f) l).
Proof.
  intros Hf Hn. unfold py_slice, py_index.
  destruct (Z.ltb_spec f 0) as [H|_]; [lia|].
  destruct (Z.ltb_spec (f + n) 0) as [H|_]; [lia|].
  set (len := Z.of_nat (List.length l)).
  destruct (Z.leb_spec (Z.min (f + n) len) (Z.min f len)) as [H|H].
  - destruct (Z.le_gt_cases len f) as [H1|H1].
    + rewrite skipn_ge by (unfold len in *; lia). rewrite firstn_nil. reflexivity.
    + assert (n = 0) as -> by lia. reflexivity.
  - assert (Z.min f len = f) as -> by lia.
    destruct (Z.le_gt_cases (f + n) len) as [H1|H1].
    + assert (Z.min (f + n) len = f + n) as -> by lia. f_equal. lia.
    + assert (Z.min (f + n) len = len) as -> by lia.
      rewrite !firstn_ge; try reflexivity; rewrite skipn_length; unfold len in *; lia.
Qed.

Lemma py_slice_first l n : 0 <= n -> py_slice l (Some 0) (Some n) = firstn (Z.to_nat n) l.
Proof.
  intros Hn. pose proof (py_slice_window l 0 n (Z.le_refl 0) Hn) as H.
  rewrite Z.add_0_l in H. exact H.
Qed.

Lemma py_slice_last l n : n < 0 ->
  py_slice l (Some n) None = skipn (Z.to_nat (Z.max 0 (Z.of_nat (List.length l) + n))) l.
Proof.
  intros Hn. unfold py_slice, py_index.
  destruct (Z.ltb_spec n 0) as [_|H]; [|lia].
  set (len := Z.of_nat (List.length l)).
  destruct (Z.leb_spec len (Z.max 0 (len + n))) as [H|H].
  - symmetry. apply skipn_ge. unfold len in *. lia.
  - apply firstn_ge. rewrite skipn_length. unfold len in *. lia.
Qed.

Lemma py_slice_neg_window l s n : s < 0 -> 0 <= Z.of_nat (List.length l) + s -> 0 < n ->
  py_slice l (Some s) (Some (Z.of_nat (List.length l) + s + n)) =
  firstn (Z.to_nat n) (skipn (Z.to_nat (Z.max 0 (Z.of_nat (List.length l) + s))) l).
Proof.
  intros Hs Hl Hn. unfold py_slice, py_index.
  destruct (Z.ltb_spec s 0) as [_|H]; [|lia].
  set (len := Z.of_nat (List.length l)) in *.
  destruct (Z.ltb_spec (len + s + n) 0) as [H|_]; [lia|].
  assert (Z.max 0 (len + s) = len + s) as -> by lia.
  destruct (Z.leb_spec (Z.min (len + s + n) len) (len + s)) as [H|H]; [lia|].
  destruct (Z.le_gt_cases (len + s + n) len) as [H1|H1].
  - assert (Z.min (len + s + n) len = len + s + n) as -> by lia. f_equal. lia.
  - assert (Z.min (len + s + n) len = len) as -> by lia.
    rewrite !firstn_ge; try reflexivity; rewrite skipn_length; unfold len in *; lia.
Qed.

Lemma skipn_min l p : 0 <= p ->
  skipn (Z.to_nat (Z.min p (Z.of_nat (List.length l)))) l = skipn (Z.to_nat p) l.
Proof.
  intros Hp. destruct (Z.le_gt_cases p (Z.of_nat (List.length l))) as [H|H].
  - f_equal. lia.
  - rewrite !skipn_ge; try reflexivity; lia.
Qed.
End slices.
