(* C06 proofs, part 3: every operation of the collection state machine preserves the
   invariant, unless it answers EUnmodelled (update keeps the unchecked image then). *)
From Coq Require Import ZArith List String Bool Ascii Lia.
From Verif Require Import Value PyEq BsonOrder Path Filter FilterSpec FilterGuard Update Project
  Coll HistCheck HistProps HistGuards.
From Verif.Proofs Require Import C01Values C01Paths C01Loop C06Values C06Base C06Inv.
Import ListNotations.
Open Scope Z_scope.
Open Scope string_scope.
Open Scope list_scope.

Lemma expire_if_facts b c c' :
  expire_if b c = Ok c' -> sub (docs c') (docs c) /\ idx c' = idx c /\ now c' = now c.
Proof.
  destruct b; simpl; intros H.
  - apply expire_char in H. subst c'. simpl. split; [ apply sub_filter | auto ].
  - inv_pair H. split; [ apply sub_refl | auto ].
Qed.

(* ---------------------------------------------------------------- reads *)
Lemma iter_documents_Inv c f c1 m : iter_documents c f = Ok (c1, m) -> Inv c -> Inv c1.
Proof.
  intros H Hi. apply iter_documents_inv in H. destruct H as [H _]. eauto using expire_Inv.
Qed.

Lemma find_docs_Inv c f s c1 l : find_docs c f s = Ok (c1, l) -> Inv c -> Inv c1.
Proof.
  unfold find_docs. intros H Hi. destruct f; try discriminate.
  destruct (iter_documents c (patch (VDoc fs))) as [[c0 m]|e] eqn:E; simpl in H; [ | discriminate ].
  dm H. inv_pair H. simpl. eauto using iter_documents_Inv.
Qed.

Lemma find_op_Inv c f p s sk lim c1 r : find_op c f p s sk lim = (c1, r) -> Inv c -> Inv c1.
Proof.
  unfold find_op. intros H Hi.
  destruct (find_docs c f s) as [[c0 l]|e] eqn:E.
  - dm H; inv_pair H; eauto using find_docs_Inv.
  - inv_pair H. assumption.
Qed.

Lemma find_one_Inv c f p s c1 r : find_one c f p s = (c1, r) -> Inv c -> Inv c1.
Proof.
  unfold find_one. intros H Hi.
  destruct (find_op c f p s 0 0) as [c0 r0] eqn:E.
  assert (Hc0 : Inv c0) by eauto using find_op_Inv.
  repeat dm H; inv_pair H; assumption.
Qed.

Lemma count_op_Inv c f sk lim c1 r : count_op c f sk lim = (c1, r) -> Inv c -> Inv c1.
Proof.
  unfold count_op. intros H Hi.
  repeat dm H; inv_pair H; eauto using iter_documents_Inv.
Qed.

Lemma distinct_op_Inv c k f c1 r : distinct_op c k f = (c1, r) -> Inv c -> Inv c1.
Proof.
  unfold distinct_op. intros H Hi.
  destruct (negb (path_modelled (split_dots k))); [ inv_pair H; assumption | ].
  destruct (find_docs c f []) as [[c0 l]|e] eqn:E.
  - dm H; inv_pair H; eauto using find_docs_Inv.
  - inv_pair H. assumption.
Qed.

(* ---------------------------------------------------------------- insert *)
Definition insert_core (c0 : coll) (fs1 : list (string * value)) (id : value) : coll * res value :=
  if negb (id_modelled id) then
    match id with VArr _ => (c0, Err EType) | _ => (c0, Err EUnmodelled) end
  else
  match expire c0 with
  | Err e => (c0, Err e)
  | Ok c1 =>
      match store_get id (docs c1) with
      | Some _ => (c1, Err EDup)
      | None =>
          let data := patch (VDoc fs1) in
          let c2 := with_docs_w c1 (docs c1 ++ [(id, data)]) in
          match ensure_uniques c2 data with
          | Ok touched =>
              match expire_if touched c2 with
              | Ok c3 => (c3, Ok id)
              | Err e => (c2, Err e)
              end
          | Err e =>
              match expire c2 with
              | Ok c3 => (with_docs c3 (store_del id (docs c3)), Err e)
              | Err _ => (c1, Err e)
              end
          end
      end
  end.

Lemma insert_doc_eq c fs :
  insert_doc c (VDoc fs) =
  let '(c0, fs1, id) :=
    match assoc "_id" fs with
    | Some i => (c, fs, patch i)
    | None => (mkColl (docs c) (idx c) (forced c) (next_oid c + 1) (now c) (odocs c),
               fs ++ [("_id", VOid (next_oid c))], VOid (next_oid c))
    end in
  insert_core c0 fs1 id.
Proof. reflexivity. Qed.

Lemma insert_core_Inv c0 fs1 id c' r : insert_core c0 fs1 id = (c', r) -> Inv c0 -> Inv c'.
Proof.
  unfold insert_core. intros H Hi.
  destruct (negb (id_modelled id)).
  { destruct id; inv_pair H; assumption. }
  destruct (expire c0) as [c1|e] eqn:E1; [ | inv_pair H; assumption ].
  assert (H1 : Inv c1) by eauto using expire_Inv.
  destruct (store_get id (docs c1)) eqn:Eg; [ inv_pair H; assumption | ].
  apply store_get_none in Eg. cbv zeta in H.
  set (data := patch (VDoc fs1)) in *.
  set (c2 := with_docs_w c1 (docs c1 ++ [(id, data)])) in *.
  assert (Hnd2 : store_nd (docs c2)).
  { simpl. apply store_nd_app_end; [ exact (proj1 H1) | exact Eg ]. }
  destruct (ensure_uniques c2 data) as [touched|e] eqn:Eu.
  - destruct (check_expire _ _ _ Eu) as [c3 E3]. rewrite E3 in H. inv_pair H.
    destruct (expire_if_facts _ _ _ E3) as (Hs & Hx & _).
    split.
    + eapply store_nd_sub; eauto.
    + intros i Hi' Hu. rewrite Hx in Hi'. simpl in Hi'.
      eapply (check_ok c2 data id (docs c1) [] touched c' i); try eassumption.
      * reflexivity.
      * rewrite app_nil_r. apply (proj2 H1); assumption.
  - destruct (expire c2) as [c3|e'] eqn:E3; inv_pair H; [ | assumption ].
    apply expire_char in E3. subst c3. simpl.
    set (L := live (idx c1) (now c1)).
    split; simpl.
    + eapply store_nd_sub; [ | exact Hnd2 ].
      eapply sub_trans; [ apply sub_filter | apply store_del_sub ].
    + intros i Hi' Hu. pose proof (proj2 H1 i Hi' Hu) as Hp.
      destruct (ks id) eqn:Ek.
      * assert (Hdel : store_del id (List.filter L (docs c1 ++ [(id, data)]))
                       = List.filter L (docs c1)).
        { rewrite filter_app. simpl. destruct (L (id, data)).
          - apply store_del_app_hit; [ apply Forall_filter; exact Eg | apply ks_py_refl; exact Ek ].
          - rewrite app_nil_r. apply store_del_none. apply Forall_filter. exact Eg. }
        rewrite Hdel. eapply PW_sub; [ apply sub_filter | exact Hp ].
      * eapply PW_sub;
          [ eapply sub_trans; [ apply sub_filter | apply store_del_sub ] | ].
        apply PW_insert; [ rewrite app_nil_r; exact Hp | | intros ? [] ].
        intros. apply R_bad_r. apply good_ks_false. exact Ek.
Qed.

Lemma insert_doc_Inv c d c' r : insert_doc c d = (c', r) -> Inv c -> Inv c'.
Proof.
  intros H Hi.
  destruct d as [ | | | | | | | fs | ]; try (unfold insert_doc in H; inv_pair H; assumption).
  rewrite insert_doc_eq in H.
  destruct (assoc "_id" fs); eapply insert_core_Inv; try exact H; try exact Hi.
Qed.

Lemma insert_one_Inv c d c' r : insert_one c d = (c', r) -> Inv c -> Inv c'.
Proof.
  unfold insert_one. intros H Hi. destruct (insert_doc c d) as [c0 r0] eqn:E.
  inv_pair H. eauto using insert_doc_Inv.
Qed.

Lemma insert_many_go_Inv : forall ds c ordered index ids errs n c' r,
  insert_many_go c ds ordered index ids errs n = (c', r) -> Inv c -> Inv c'.
Proof.
  induction ds as [ | d ds IH ]; simpl; intros c ordered index ids errs n c' r H Hi.
  - inv_pair H. assumption.
  - destruct (insert_doc c d) as [c0 r0] eqn:E.
    assert (H0 : Inv c0) by eauto using insert_doc_Inv.
    destruct r0 as [id|e]; [ eauto | ].
    destruct (is_write_error e); [ | inv_pair H; assumption ].
    destruct ordered; [ inv_pair H; assumption | eauto ].
Qed.

Lemma insert_many_Inv c ds ordered c' r : insert_many c ds ordered = (c', r) -> Inv c -> Inv c'.
Proof.
  unfold insert_many. intros H Hi.
  destruct ds as [ | d ds ]; [ inv_pair H; assumption | ].
  destruct (negb (forallb is_doc (d :: ds))); [ inv_pair H; assumption | ].
  destruct (insert_many_go c (d :: ds) ordered 0 [] [] 0) as [c0 r0] eqn:E.
  inv_pair H. eauto using insert_many_go_Inv.
Qed.

(* ---------------------------------------------------------------- update *)
(* the snapshot still to be processed: its scalar-keyed entries are in the store, unchanged,
   and are not expired at the (constant) clock of the operation *)
Definition todo_ok (c : coll) (todo : list entry) : Prop :=
  forall k d, In (k, d) todo -> ks k = true ->
    In (k, d) (docs c) /\ live (idx c) (now c) (k, d) = true.

Lemma update_loop_Inv : forall todo c spec upd multi m md c' r,
  update_loop c spec upd multi todo m md = (c', r) ->
  Inv c -> store_nd todo -> todo_ok c todo -> r <> Err EUnmodelled -> Inv c'.
Proof.
  induction todo as [ | [k d] todo IH ]; simpl; intros c spec upd multi m md c' r H Hi Hn Ht Hr.
  - inv_pair H. assumption.
  - assert (Ht' : todo_ok c todo) by (intros k2 d2 H2; apply Ht; right; exact H2).
    destruct Hn as [Hn1 Hn2].
    destruct (filter_applies spec d) as [[|]|e]; [ | eauto | inv_pair H; assumption ].
    destruct (apply_update spec upd false (now c) d) as [d'|e]; [ | inv_pair H; assumption ].
    destruct (negb (negb (py_eq d' d))).
    { destruct (negb (value_eqb d' d) && py_in k (odocs c)); [ inv_pair H; assumption | ].
      destruct multi; [ eauto | inv_pair H; assumption ]. }
    match type of H with (if negb ?s then _ else _) = _ => destruct (negb s) end;
      [ inv_pair H; assumption | ].
    destruct (match d with VDoc fs => assoc "_id" fs | _ => None end);
      [ | inv_pair H; assumption ].
    set (c1 := with_docs_w c (store_set k d' (docs c))) in H.
    destruct Hi as [Hnd Hpw].
    destruct (ensure_uniques c1 d') as [touched|e] eqn:Eu.
    + destruct (check_expire _ _ _ Eu) as [c2 E2]. rewrite E2 in H.
      destruct (expire_if_facts _ _ _ E2) as (Hs & Hx & Hw).
      assert (H2 : Inv c2).
      { split.
        - eapply store_nd_sub; [ exact Hs | ]. simpl. apply store_nd_set. exact Hnd.
        - intros i Hi' Hu. rewrite Hx in Hi'. simpl in Hi'.
          pose proof (Hpw i Hi' Hu) as Hp.
          destruct (store_set_split k d' (docs c)) as [(a & k0 & d0 & b & Ha & Hb & Hc)|Hb].
          + eapply (check_ok c1 d' k0 a b touched c2 i); try eassumption.
            rewrite Ha in Hp. apply PW_split in Hp. exact (proj1 Hp).
          + eapply (check_ok c1 d' k (docs c) [] touched c2 i); try eassumption.
            rewrite app_nil_r. exact Hp. }
      assert (Ht2 : todo_ok c2 todo).
      { intros k2 d2 Hin Hk2. destruct (Ht' k2 d2 Hin Hk2) as [Hin2 Hl2].
        rewrite Hx, Hw. simpl. split; [ | exact Hl2 ].
        assert (Hne : py_eq k2 k = false).
        { destruct (py_eq k2 k) eqn:E; [ exfalso | reflexivity ].
          destruct (ks_py_other _ _ Hk2 E) as [_ S]. rewrite Forall_forall in Hn1.
          pose proof (Hn1 (k2, d2) Hin) as Hf. simpl in Hf. congruence. }
        assert (Hin1 : In (k2, d2) (docs c1)).
        { simpl. apply store_set_In_other; assumption. }
        destruct touched; simpl in E2.
        - apply expire_char in E2. subst c2. simpl. apply filter_In. split; assumption.
        - inv_pair E2. exact Hin1. }
      destruct multi; [ eapply IH; eauto | inv_pair H; assumption ].
    + assert (Hroll : forall c2, expire c1 = Ok c2 ->
                                 Inv (with_docs c2 (store_set k d (docs c2)))).
      { intros c2 E2. apply expire_char in E2. subst c2. simpl.
        set (L := live (idx c) (now c)).
        split; simpl.
        - apply store_nd_set. eapply store_nd_sub; [ apply sub_filter | ].
          apply store_nd_set. exact Hnd.
        - intros i Hi' Hu. pose proof (Hpw i Hi' Hu) as Hp.
          destruct (ks k) eqn:Ek.
          + destruct (Ht k d (or_introl eq_refl) Ek) as [Hin Hlive].
            apply in_split in Hin. destruct Hin as (a & b & Hab).
            rewrite Hab in Hnd, Hp |- *.
            destruct (store_nd_split _ _ _ _ Hnd) as [Fa Fb].
            assert (Hkk : py_eq k k = true) by (apply ks_py_refl; exact Ek).
            rewrite (store_set_at a k d b k d' Fa Hkk). rewrite filter_split.
            destruct (L (k, d')); simpl.
            * rewrite store_set_at; [ | apply Forall_filter; exact Fa | exact Hkk ].
              eapply PW_sub; [ | exact Hp ].
              apply sub_app; [ apply sub_filter | apply sub_keep; apply sub_filter ].
            * apply PW_split in Hp. destruct Hp as (Hp0 & Hpa & Hpb).
              assert (Hsub : PW (R i) (List.filter L a ++ List.filter L b)).
              { eapply PW_sub; [ | exact Hp0 ]. apply sub_app; apply sub_filter. }
              assert (HR : forall x, In x (List.filter L a ++ List.filter L b) -> R i x (k, d)).
              { intros x Hx. apply in_app_or in Hx. destruct Hx as [Hx|Hx];
                  apply filter_In in Hx; destruct Hx as [Hx _].
                - apply Hpa. exact Hx.
                - apply R_sym. apply Hpb. exact Hx. }
              destruct (store_set_split k d (List.filter L a ++ List.filter L b))
                as [(a1 & k0 & d0 & b1 & H1 & H2 & H3)|H1].
              -- (* a later entry whose key is == k: that key is not well-formed *)
                 rewrite H2. rewrite H1 in Hsub. apply PW_split in Hsub.
                 assert (Hb : good i (k0, d) = false).
                 { apply good_ks_false. destruct (ks k0) eqn:Ek0; [ exfalso | reflexivity ].
                   destruct (ks_py_other _ _ Ek0 H3) as [_ S].
                   assert (Hin0 : In (k0, d0) (List.filter L a ++ List.filter L b)).
                   { rewrite H1. apply in_or_app. right. left. reflexivity. }
                   apply in_app_or in Hin0. destruct Hin0 as [Hin0|Hin0];
                     apply filter_In in Hin0; destruct Hin0 as [Hin0 _].
                   - rewrite Forall_forall in Fa. specialize (Fa _ Hin0). simpl in Fa. congruence.
                   - rewrite Forall_forall in Fb. specialize (Fb _ Hin0). simpl in Fb. congruence. }
                 apply PW_insert; [ exact (proj1 Hsub) | intros; apply R_bad_r; exact Hb
                                  | intros; apply R_bad_l; exact Hb ].
              -- rewrite H1. apply PW_insert; [ rewrite app_nil_r; exact Hsub | exact HR | intros ? [] ].
          + apply PW_store_set_bad; [ exact Ek | ].
            eapply PW_sub; [ apply sub_filter | ].
            apply PW_store_set_bad; [ exact Ek | exact Hp ]. }
      destruct e;
        try (destruct (expire c1) as [c2|e2] eqn:E2; inv_pair H;
             [ apply Hroll; reflexivity | split; assumption ]).
      inv_pair H. exfalso. apply Hr. reflexivity.
Qed.

Lemma update_Inv pre5 c f u multi upsert c' r :
  update pre5 c f u multi upsert = (c', r) -> Inv c -> r <> Err EUnmodelled -> Inv c'.
Proof.
  unfold update. intros H Hi Hr.
  destruct (patch f) as [ | | | | | | | sfs | ]; try (inv_pair H; assumption).
  destruct (patch u) as [ | | | | | | | ufs | ]; try (inv_pair H; assumption).
  destruct (empty_operator pre5 (VDoc ufs)); [ inv_pair H; assumption | ].
  destruct (expire c) as [c1|e] eqn:E1; [ | inv_pair H; assumption ].
  assert (H1 : Inv c1) by eauto using expire_Inv.
  assert (Ht1 : todo_ok c1 (docs c1)).
  { apply expire_char in E1. subst c1. simpl. intros k d Hin _. split; [ exact Hin | ].
    apply filter_In in Hin. exact (proj2 Hin). }
  match type of H with (match ?x with Ok _ => _ | Err _ => _ end) = _ => destruct x end;
    [ | inv_pair H; assumption ].
  destruct (update_loop c1 (VDoc sfs) (VDoc ufs) multi (docs c1) 0 0) as [c2 r2] eqn:El.
  destruct r2 as [[matched modified]|e].
  2:{ inv_pair H. eapply update_loop_Inv; eauto; [ exact (proj1 H1) | ].
      intros He. apply Hr. inversion He. reflexivity. }
  assert (H2 : Inv c2).
  { eapply update_loop_Inv; eauto; [ exact (proj1 H1) | discriminate ]. }
  destruct (negb upsert || negb (matched =?? 0)); [ inv_pair H; assumption | ].
  cbv zeta in H.
  match type of H with (let '(c3, id) := ?t in _) = _ => set (t3 := t) in H end.
  assert (H3 : Inv (fst t3)).
  { subst t3. repeat match goal with |- context [match ?x with _ => _ end] => destruct x end;
      simpl; solve [ exact H2 | eapply Inv_same; [ | | exact H2 ]; reflexivity ]. }
  destruct t3 as [c3 id]. simpl in H3.
  destruct (expand_dots (set_key "_id" id sfs)) as [expanded|e]; [ | inv_pair H; assumption ].
  match type of H with (match ?x with Ok _ => _ | Err _ => _ end) = _ => destruct x as [d'|e] end;
    [ | inv_pair H; assumption ].
  destruct (insert_doc c3 d') as [c4 ir] eqn:E4.
  assert (H4 : Inv c4) by eauto using insert_doc_Inv.
  destruct ir; inv_pair H; [ | assumption ].
  eapply Inv_same; [ | | exact H4 ]; reflexivity.
Qed.

Lemma update_op_Inv pre5 c f u multi upsert c' r :
  update_op pre5 c f u multi upsert = (c', r) -> Inv c -> r <> Err EUnmodelled -> Inv c'.
Proof.
  unfold update_op. intros H Hi Hr.
  destruct u; try (inv_pair H; assumption).
  destruct (first_key_dollar (VDoc fs)) as [[|]|]; try (inv_pair H; assumption).
  eauto using update_Inv.
Qed.

Lemma replace_op_Inv pre5 c f u upsert c' r :
  replace_op pre5 c f u upsert = (c', r) -> Inv c -> r <> Err EUnmodelled -> Inv c'.
Proof.
  unfold replace_op. intros H Hi Hr.
  destruct u; try (inv_pair H; assumption).
  destruct (first_key_dollar (VDoc fs)) as [[|]|]; try (inv_pair H; assumption);
    eauto using update_Inv.
Qed.

(* ---------------------------------------------------------------- delete *)
Lemma delete_go_Inv : forall l c multi n c' r,
  delete_go c l multi n = (c', r) -> Inv c -> Inv c'.
Proof.
  induction l as [ | d l IH ]; simpl; intros c multi n c' r H Hi.
  - inv_pair H. assumption.
  - destruct d; try (inv_pair H; assumption).
    destruct (assoc "_id" fs) as [id|]; [ | inv_pair H; assumption ].
    destruct (store_get id (docs c)); [ | inv_pair H; assumption ].
    match type of H with context [if multi then delete_go ?c1 _ _ _ else _] =>
      assert (H1 : Inv c1) end.
    { destruct Hi as [Ha Hb]. split; simpl.
      - eapply store_nd_sub; [ apply store_del_sub | exact Ha ].
      - intros i Hi' Hu. eapply PW_sub; [ apply store_del_sub | auto ]. }
    destruct multi; [ eauto | inv_pair H; assumption ].
Qed.

Lemma delete_op_Inv c f multi c' r : delete_op c f multi = (c', r) -> Inv c -> Inv c'.
Proof.
  unfold delete_op. intros H Hi.
  destruct f; try (inv_pair H; assumption).
  destruct (find_docs c (VDoc fs) []) as [[c1 l]|e] eqn:E; [ | inv_pair H; assumption ].
  destruct (delete_go c1 l multi 0) as [c2 r2] eqn:Ed.
  inv_pair H. eauto using delete_go_Inv, find_docs_Inv.
Qed.

(* ---------------------------------------------------------------- find_one_and_* *)
Lemma find_and_modify_Inv pre5 c f proj sort k c' r :
  find_and_modify pre5 c f proj sort k = (c', r) -> Inv c -> r <> Err EUnmodelled -> Inv c'.
Proof.
  unfold find_and_modify. intros H Hi Hr.
  destruct f; try (inv_pair H; assumption).
  match type of H with (match ?v with Ok _ => _ | Err _ => _ end) = _ => destruct v end;
    [ | inv_pair H; assumption ].
  match type of H with (if ?b then _ else _) = _ => destruct b end; [ inv_pair H; assumption | ].
  destruct (find_one c (VDoc fs) None sort) as [c1 r1] eqn:E1.
  assert (H1 : Inv c1) by eauto using find_one_Inv.
  destruct r1 as [target|e]; [ | inv_pair H; assumption ].
  set (upsert := match k with FamDelete => false | FamUpdate _ u _ | FamReplace _ u _ => u end) in H.
  assert (Hgo : forall query,
    (let '(c2, old_r) := match target with
                         | Some _ => find_one c1 query proj []
                         | None => (c1, Ok None)
                         end in
     match old_r with
     | Err e => (c2, Err e)
     | Ok old =>
         let '(c3, wr, query') :=
           match k with
           | FamDelete => let '(c', r) := delete_op c2 query false in (c', r, query)
           | FamUpdate u _ _ | FamReplace u _ _ =>
               let '(c', r) := update pre5 c2 query u false upsert in
               (c', r,
                match r with
                | Ok (VDoc rfs) => match assoc "upserted_id" rfs with
                                   | Some i => if truthy i then VDoc [("_id", i)] else query
                                   | None => query end
                | _ => query
                end)
           end in
         match wr with
         | Err e => (c3, Err e)
         | Ok _ =>
             if match k with FamDelete => false | FamUpdate _ _ a | FamReplace _ _ a => a end then
               match find_one c3 query' proj [] with
               | (c4, Ok r) => (c4, Ok (opt_to_value r))
               | (c4, Err e) => (c4, Err e)
               end
             else (c3, Ok (opt_to_value old))
         end
     end) = (c', r) -> Inv c').
  { intros query Hq.
    match type of Hq with (match ?t with _ => _ end) = _ => destruct t as [c2 old_r] eqn:E2 end.
    assert (H2 : Inv c2).
    { destruct target; [ eauto using find_one_Inv | inv_pair E2; assumption ]. }
    destruct old_r as [old|e]; [ | inv_pair Hq; assumption ].
    match type of Hq with (match ?t with _ => _ end) = _ =>
      destruct t as [[c3 wr] query'] eqn:E3 end.
    assert (H3 : wr <> Err EUnmodelled -> Inv c3).
    { intros Hw. destruct k.
      - destruct (delete_op c2 query false) as [cx rx] eqn:Ex. inv_pair E3. eauto using delete_op_Inv.
      - destruct (update pre5 c2 query u false upsert) as [cx rx] eqn:Ex. inv_pair E3.
        eauto using update_Inv.
      - destruct (update pre5 c2 query r0 false upsert) as [cx rx] eqn:Ex. inv_pair E3.
        eauto using update_Inv. }
    destruct wr; [ | inv_pair Hq; apply H3; exact Hr ].
    assert (H3' : Inv c3) by (apply H3; discriminate).
    match type of Hq with (if ?b then _ else _) = _ => destruct b end; [ | inv_pair Hq; assumption ].
    destruct (find_one c3 query' proj []) as [c4 r4] eqn:E4.
    assert (H4 : Inv c4) by eauto using find_one_Inv.
    destruct r4; inv_pair Hq; assumption. }
  destruct target as [t|]; [ | destruct upsert eqn:Eup ].
  - match type of H with (match ?q with Some _ => _ | None => _ end) = _ => destruct q as [query|] end;
      [ | inv_pair H; assumption ].
    eapply Hgo. exact H.
  - eapply Hgo. exact H.
  - inv_pair H. assumption.
Qed.

(* ---------------------------------------------------------------- bulk_write *)
Lemma bulk_exec_Inv pre5 c rq a c' r :
  bulk_exec pre5 c rq a = (c', r) -> Inv c -> r <> Err EUnmodelled -> Inv c'.
Proof.
  unfold bulk_exec. intros H Hi Hr. destruct rq.
  - destruct d; try (inv_pair H; assumption).
    destruct (insert_doc c (VDoc fs)) as [c0 o] eqn:E. inv_pair H. eauto using insert_doc_Inv.
  - destruct (update pre5 c f u multi upsert) as [c0 o] eqn:E. inv_pair H.
    eapply update_Inv; eauto. intros ->. apply Hr. reflexivity.
  - destruct (update pre5 c f r0 false upsert) as [c0 o] eqn:E. inv_pair H.
    eapply update_Inv; eauto. intros ->. apply Hr. reflexivity.
  - destruct (delete_op c f multi) as [c0 o] eqn:E. inv_pair H. eauto using delete_op_Inv.
Qed.

Lemma bulk_go_Inv pre5 : forall rs c ordered index a c' r,
  bulk_go pre5 c rs ordered index a = (c', r) -> Inv c -> r <> Err EUnmodelled -> Inv c'.
Proof.
  induction rs as [ | rq rs IH ]; simpl; intros c ordered index a c' r H Hi Hr.
  - inv_pair H. assumption.
  - destruct (bulk_exec pre5 c rq a) as [c0 o] eqn:E.
    destruct o as [a'|e].
    + assert (H0 : Inv c0) by (eapply bulk_exec_Inv; eauto; discriminate). eauto.
    + destruct (is_write_error e) eqn:Ew.
      * assert (H0 : Inv c0).
        { eapply bulk_exec_Inv; eauto. intros He. inv_pair He. discriminate Ew. }
        destruct ordered; [ inv_pair H; assumption | eauto ].
      * inv_pair H. eapply bulk_exec_Inv; eauto.
Qed.

Lemma bulk_write_Inv pre5 c rs ordered c' r :
  bulk_write pre5 c rs ordered = (c', r) -> Inv c -> r <> Err EUnmodelled -> Inv c'.
Proof.
  unfold bulk_write. intros H Hi Hr.
  match type of H with (match ?x with Ok _ => _ | Err _ => _ end) = _ => destruct x end;
    [ | inv_pair H; assumption ].
  destruct rs as [ | rq rs ]; [ inv_pair H; assumption | ].
  destruct (bulk_go pre5 c (rq :: rs) ordered 0 (mkAcc 0 0 0 0 0 [] [])) as [c0 o] eqn:E.
  inv_pair H. eapply bulk_go_Inv; eauto.
  intros ->. apply Hr. reflexivity.
Qed.

(* ---------------------------------------------------------------- indexes *)
Lemma In_set_index i l j : In j (set_index i l) -> j = i \/ In j l.
Proof.
  induction l as [ | x l IH ]; simpl; intros H.
  - destruct H as [<-|[]]. left. reflexivity.
  - destruct (String.eqb (iname x) (iname i)).
    + destruct H as [<-|H]; [ left; reflexivity | right; right; exact H ].
    + destruct H as [<-|H]; [ right; left; reflexivity | ].
      destruct (IH H) as [->|H']; [ left; reflexivity | right; right; exact H' ].
Qed.

(* the values create_index compares, field by field *)
Definition tvals (sparse : bool) (keys : list (string * value)) (d : value) : list value :=
  flat_map (fun kd => match get_by_dot (split_dots (fst kd)) d with
                      | Some v => [v]
                      | None => if sparse then [] else [VNull]
                      end) keys.

Lemma tvals_eq sparse keys d1 d2 :
  Forall (fun kd => pnice sparse (fst kd) d1 = true) keys ->
  Forall (fun kd => pnice sparse (fst kd) d2 = true) keys ->
  list_eqb bson_eq (map (fun kd => kval (fst kd) d1) keys) (map (fun kd => kval (fst kd) d2) keys)
    = true ->
  list_eqb py_eq (tvals sparse keys d2) (tvals sparse keys d1) = true.
Proof.
  induction keys as [ | [p dir] keys IH ]; intros H1 H2 Ht; [ reflexivity | ].
  inversion H1 as [ | ? ? Ha1 Hb1 ]; subst. inversion H2 as [ | ? ? Ha2 Hb2 ]; subst.
  simpl in Ha1, Ha2, Ht. apply andb_true_iff in Ht. destruct Ht as [Ht1 Ht2].
  specialize (IH Hb1 Hb2 Ht2).
  pose proof (pnice_kval_sval _ _ _ Ha1) as Hs1. pose proof (pnice_kval_sval _ _ _ Ha2) as Hs2.
  pose proof (sval_bson_py _ _ Hs1 Hs2 Ht1) as Hpy.
  destruct (pnice_inv _ _ _ Ha1) as (_ & _ & Hx1). destruct (pnice_inv _ _ _ Ha2) as (_ & _ & Hx2).
  unfold tvals in *. cbn [flat_map fst]. unfold kval in Ht1, Hpy.
  destruct (get_by_dot (split_dots p) d1) as [v1|]; destruct (get_by_dot (split_dots p) d2) as [v2|];
    destruct sparse; cbn [app list_eqb]; try (rewrite Hpy; exact IH); try exact IH.
  - exfalso. apply (proj2 Hx1 eq_refl). apply bson_eq_null_r. exact Ht1.
  - exfalso. apply (proj2 Hx2 eq_refl). destruct v2; try discriminate Ht1. reflexivity.
Qed.

Lemma index_tuple_eq i d :
  index_tuple i d =
  if isparse i && match tvals (isparse i) (ikey i) d with [] => true | _ => false end
  then None else Some (tvals (isparse i) (ikey i) d).
Proof. reflexivity. Qed.

Lemma tvals_cov i d : isparse i = true -> cov i d = true -> tvals true (ikey i) d <> [].
Proof.
  unfold cov. intros -> H. apply andb_true_iff in H. destruct H as [H _].
  apply existsb_exists in H. destruct H as (p & Hp & Hv).
  apply in_map_iff in Hp. destruct Hp as (kd & <- & Hkd).
  unfold tvals. intros Hnil.
  assert (Hin : forall v, get_by_dot (split_dots (fst kd)) d = Some v ->
                          In v (flat_map (fun kd => match get_by_dot (split_dots (fst kd)) d with
                                                    | Some v => [v]
                                                    | None => []
                                                    end) (ikey i))).
  { intros v Hg. apply in_flat_map. exists kd. split; [ exact Hkd | ]. rewrite Hg. left. reflexivity. }
  destruct (get_by_dot (split_dots (fst kd)) d) as [v|]; [ | discriminate Hv ].
  specialize (Hin v eq_refl). rewrite Hnil in Hin. destruct Hin.
Qed.

Lemma good_tuple i e : good i e = true -> index_tuple i (snd e) = Some (tvals (isparse i) (ikey i) (snd e)).
Proof.
  intros G. destruct (good_inv _ _ G) as (_ & _ & Hc). rewrite index_tuple_eq.
  destruct (isparse i) eqn:Es; [ | reflexivity ].
  pose proof (tvals_cov i (snd e) Es Hc) as Hne.
  destruct (tvals true (ikey i) (snd e)); [ congruence | reflexivity ].
Qed.

Lemma has_dup_PW i l :
  has_dup_tuple (flat_map (fun kd : entry => match index_tuple i (snd kd) with
                                             | Some t => [t] | None => [] end) l) = false ->
  PW (R i) l.
Proof.
  induction l as [ | e l IH ]; simpl; intros H; [ exact I | ].
  destruct (good i e) eqn:G.
  - rewrite (good_tuple _ _ G) in H. cbn [app has_dup_tuple] in H.
    apply orb_false_iff in H. destruct H as [H1 H2].
    split; [ | apply IH; exact H2 ].
    intros e' He' _ G'.
    destruct (tuple_eq (kt i (snd e)) (kt i (snd e'))) eqn:Et; [ exfalso | reflexivity ].
    destruct (good_inv _ _ G) as (_ & Hd & _). destruct (good_inv _ _ G') as (_ & Hd' & _).
    pose proof (tvals_eq (isparse i) (ikey i) (snd e) (snd e')
                  (dnice_Forall _ _ Hd) (dnice_Forall _ _ Hd') Et) as Hpy.
    rewrite <- py_eq_arr in Hpy.
    assert (Hex : existsb (fun u => py_eq (VArr u) (VArr (tvals (isparse i) (ikey i) (snd e))))
                    (flat_map (fun kd : entry => match index_tuple i (snd kd) with
                                                 | Some t => [t] | None => [] end) l) = true).
    { apply existsb_exists. exists (tvals (isparse i) (ikey i) (snd e')). split; [ | exact Hpy ].
      apply in_flat_map. exists e'. split; [ exact He' | ].
      rewrite (good_tuple _ _ G'). left. reflexivity. }
    rewrite Hex in H1. discriminate.
  - split; [ intros; apply R_bad_l; exact G | ]. apply IH.
    destruct (index_tuple i (snd e)); [ | exact H ].
    cbn [app has_dup_tuple] in H. apply orb_false_iff in H. exact (proj2 H).
Qed.

Lemma create_index_Inv c key u s t p n c' r :
  create_index c key u s t p n = (c', r) -> Inv c -> Inv c'.
Proof.
  unfold create_index. intros H Hi. cbv zeta in H.
  match type of H with (if ?b then _ else _) = _ => destruct b end; [ inv_pair H; assumption | ].
  match type of H with (if ?b then _ else _) = _ => destruct b end; [ inv_pair H; assumption | ].
  destruct u.
  - destruct (expire c) as [c1|e] eqn:E; [ | inv_pair H; assumption ].
    assert (H1 : Inv c1) by eauto using expire_Inv.
    match type of H with (if ?b then _ else _) = _ => destruct b eqn:Ed end; inv_pair H; [ exact H1 | ].
    split; simpl; [ exact (proj1 H1) | ].
    intros j Hj Hu. apply In_set_index in Hj. destruct Hj as [->|Hj].
    + apply has_dup_PW. exact Ed.
    + apply (proj2 H1); assumption.
  - inv_pair H. split; simpl; [ exact (proj1 Hi) | ].
    intros j Hj Hu. apply In_set_index in Hj. destruct Hj as [->|Hj].
    + simpl in Hu. discriminate Hu.
    + apply (proj2 Hi); assumption.
Qed.

Lemma drop_index_Inv c n c' r : drop_index c n = (c', r) -> Inv c -> Inv c'.
Proof.
  unfold drop_index. intros H Hi.
  destruct (expire c) as [c1|e] eqn:E; [ | inv_pair H; assumption ].
  assert (H1 : Inv c1) by eauto using expire_Inv.
  destruct (find_index_by_name n (idx c1)); inv_pair H; [ | exact H1 ].
  split; simpl; [ exact (proj1 H1) | ].
  intros j Hj Hu. apply filter_In in Hj. apply (proj2 H1); [ exact (proj1 Hj) | exact Hu ].
Qed.

(* ---------------------------------------------------------------- every step *)
Lemma step_Inv pre5 c o c' r :
  step pre5 c o = (c', r) -> Inv c -> r <> Err EUnmodelled -> Inv c'.
Proof.
  destruct o; simpl; intros H Hi Hr.
  - eauto using insert_one_Inv.
  - eauto using insert_many_Inv.
  - eauto using update_op_Inv.
  - eauto using replace_op_Inv.
  - eauto using delete_op_Inv.
  - eauto using find_op_Inv.
  - eauto using count_op_Inv.
  - eauto using distinct_op_Inv.
  - eauto using find_and_modify_Inv.
  - eauto using bulk_write_Inv.
  - eauto using create_index_Inv.
  - eauto using drop_index_Inv.
  - unfold drop_indexes in H. inv_pair H. split; simpl; [ exact (proj1 Hi) | intros ? [] ].
  - unfold index_information in H. destruct (is_created c); inv_pair H; exact Hi.
  - unfold drop_coll in H. inv_pair H. split; simpl; [ exact I | intros ? [] ].
  - inv_pair H. eapply Inv_same; [ | | exact Hi ]; reflexivity.
Qed.
