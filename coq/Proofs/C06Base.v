(* C06 proofs, part 1: scalar values and keys, indexed paths of "nice" documents, and what
   the matcher answers to the re-query {k1: v1, ..., kn: vn} of _ensure_uniques. *)
From Coq Require Import ZArith List String Bool Ascii Lia.
From Verif Require Import Value PyEq BsonOrder Path Filter FilterSpec FilterGuard Update Project
  Coll HistCheck HistProps HistGuards.
From Verif.Proofs Require Import C01Values C01Paths C01Loop C06Values.
Import ListNotations.
Open Scope Z_scope.
Open Scope string_scope.
Open Scope list_scope.

(* ---------------------------------------------------------------- tactics *)
Ltac dm H :=
  match type of H with
  | context [bind ?r _] =>
      let E := fresh "E" in destruct r eqn:E; unfold bind in H; try discriminate H
  | context [match ?x with _ => _ end] =>
      let E := fresh "E" in destruct x eqn:E; try discriminate H
  end.
Ltac inv_pair H := inversion H; subst; clear H.

(* ---------------------------------------------------------------- scalar values and keys *)
(* store keys the proof covers: well-formed values (no repeated field name in a sub-document,
   that is: Python values) *)
Definition ks (k : value) : bool := wf_value k.
(* index key values the proof covers: scalars other than aware datetimes, and well-formed
   sub-documents without aware datetimes and without a '$' field name at the top *)
Definition sval (v : value) : bool := c06_value_ok v.

Lemma sval_vok v : sval v = true -> wf_value v = true /\ has_aware v = false.
Proof.
  destruct v as [ | x | x | x | x | x [tx|] | x | fs | xs ]; unfold sval; cbn [c06_value_ok];
    intros H; try discriminate H; try (split; reflexivity).
  apply andb_true_iff in H. destruct H as [H _]. apply andb_true_iff in H. destruct H as [H1 H2].
  apply negb_true_iff in H2. auto.
Qed.

Lemma sval_bson_py a b :
  sval a = true -> sval b = true -> bson_eq a b = true -> py_eq b a = true.
Proof.
  intros Ha Hb H. destruct (sval_vok _ Ha) as [Wa Na]. destruct (sval_vok _ Hb) as [Wb Nb].
  apply (wf_py_sym a b Wa). apply bson_py_ok; assumption.
Qed.

Lemma sval_bson_sym a b : sval a = true -> sval b = true -> bson_eq a b = bson_eq b a.
Proof. intros _ _. apply bson_eq_sym. Qed.

Lemma sval_bson_refl a : sval a = true -> bson_eq a a = true.
Proof. intros _. apply bson_eq_refl. Qed.

Lemma bson_eq_null_r v : bson_eq v VNull = true -> v = VNull.
Proof. destruct v; simpl; intros H; try discriminate; reflexivity. Qed.

Lemma ks_py_refl k : ks k = true -> py_eq k k = true.
Proof. apply py_eq_refl_wf. Qed.

Lemma ks_py_other a b : ks a = true -> py_eq a b = true -> ks b = true /\ py_eq b a = true.
Proof. apply wf_py_sym. Qed.

Definition tuple_sval (t : list value) : Prop := Forall (fun v => sval v = true) t.

Lemma tuple_eq_sym a : forall b, tuple_sval a -> tuple_sval b -> tuple_eq a b = tuple_eq b a.
Proof.
  unfold tuple_eq, tuple_sval.
  induction a as [ | x a IH ]; intros [ | y b ] Ha Hb; simpl; try reflexivity.
  inversion Ha; subst. inversion Hb; subst.
  rewrite (sval_bson_sym x y) by assumption. f_equal. apply IH; assumption.
Qed.

Lemma tuple_eq_refl a : tuple_sval a -> tuple_eq a a = true.
Proof.
  unfold tuple_eq, tuple_sval. induction 1 as [ | x a Hx _ IH ]; simpl; [ reflexivity | ].
  rewrite sval_bson_refl by assumption. exact IH.
Qed.

(* ---------------------------------------------------------------- indexed paths *)
Lemma split_dots_aux_ne s : forall cur, split_dots_aux s cur <> [].
Proof.
  induction s as [ | c s IH ]; simpl; intros cur; [ discriminate | ].
  destruct (Ascii.eqb c "."); [ discriminate | apply IH ].
Qed.
Lemma split_dots_ne s : split_dots s <> [].
Proof. apply split_dots_aux_ne. Qed.

(* away from the guard's classes, the three readings of a dotted path (the matcher's
   candidates, get_value_by_dot, the statement's path_values) agree *)
Lemma path_char parts : forall d,
  parts <> [] -> ends_empty parts = false -> c06_arr_traverse parts d = false ->
  (Z.eqb (dead_end parts d) 1) = false -> (Z.eqb (dead_end parts d) 2) = false ->
  candidates parts d = [get_by_dot parts d] /\ path_values parts d = [get_by_dot parts d].
Proof.
  induction parts as [ | p rest IH ]; intros d Hne He Ht H1 H2; [ congruence | ].
  destruct (ends_empty_cons _ _ He) as [Hp Hr].
  rewrite candidates_cons by exact Hp.
  destruct d as [ | b | z | e | s | us tz | n | fs | xs ];
    try (simpl in H1; discriminate H1).
  - (* VDoc *)
    simpl in Ht, H1, H2. simpl get_by_dot. simpl path_values.
    destruct (assoc p fs) as [v|] eqn:Ea.
    + destruct rest as [ | q rest' ]; [ split; reflexivity | ].
      apply IH; [ discriminate | apply Hr; discriminate | assumption .. ].
    + destruct rest as [ | q rest' ]; [ split; reflexivity | ].
      rewrite candidates_empty_doc; [ split; reflexivity | discriminate | apply Hr; discriminate ].
  - (* VArr *)
    simpl in Ht. simpl get_by_dot. simpl path_values.
    assert (Hd : dead_end (p :: rest) (VArr xs) =
                 match as_index p with
                 | Some i => match nth_z xs i with Some sub => dead_end rest sub | None => 2 end
                 | None => dead_end (p :: rest) (VArr xs)
                 end).
    { simpl. destruct (as_index p); reflexivity. }
    destruct (as_index p) as [i|]; [ | discriminate Ht ].
    rewrite Hd in H1, H2.
    destruct (nth_z xs i) as [sub|]; [ | discriminate H2 ].
    destruct rest as [ | q rest' ]; [ split; reflexivity | ].
    apply IH; [ discriminate | apply Hr; discriminate | assumption .. ].
Qed.

(* the value an index sees for field p of document d: missing = null *)
Definition kval (p : string) (d : value) : value :=
  match get_by_dot (split_dots p) d with Some v => v | None => VNull end.

(* field p of document d is inside the C06 guard (sparse: the index is sparse) *)
Definition pnice (sparse : bool) (p : string) (d : value) : bool :=
  let parts := split_dots p in
  negb (ends_empty parts) && negb (c06_arr_traverse parts d)
  && negb (Z.eqb (dead_end parts d) 1) && negb (Z.eqb (dead_end parts d) 2)
  && match get_by_dot parts d with
     | Some v => sval v && negb (sparse && is_null v)
     | None => true
     end.

Lemma pnice_inv sparse p d :
  pnice sparse p d = true ->
  candidates (split_dots p) d = [get_by_dot (split_dots p) d]
  /\ path_values (split_dots p) d = [get_by_dot (split_dots p) d]
  /\ match get_by_dot (split_dots p) d with
     | Some v => sval v = true /\ (sparse = true -> v <> VNull)
     | None => True
     end.
Proof.
  unfold pnice. cbv zeta. intros H.
  repeat (apply andb_true_iff in H; destruct H as [H ?]).
  repeat match goal with Hx : negb _ = true |- _ => apply negb_true_iff in Hx end.
  destruct (path_char (split_dots p) d) as [Hc Hp]; try assumption; [ apply split_dots_ne | ].
  split; [ exact Hc | split; [ exact Hp | ] ].
  destruct (get_by_dot (split_dots p) d) as [v|]; [ | exact I ].
  match goal with Hx : sval v && _ = true |- _ => apply andb_true_iff in Hx; destruct Hx as [Hs Hn] end.
  split; [ exact Hs | ]. intros -> ->. discriminate Hn.
Qed.

Lemma pnice_kval_sval sparse p d : pnice sparse p d = true -> sval (kval p d) = true.
Proof.
  intros H. destruct (pnice_inv _ _ _ H) as (_ & _ & Hv). unfold kval.
  destruct (get_by_dot (split_dots p) d); [ exact (proj1 Hv) | reflexivity ].
Qed.

(* the guard's per-path reasons vanish exactly on nice paths (one direction is enough) *)
Lemma path_reasons_nice sparse p d : c06_path_reasons sparse p d = 0 -> pnice sparse p d = true.
Proof.
  unfold c06_path_reasons. cbv zeta. intros H.
  destruct (existsb (fun c => match c with Some (VArr _) => true | _ => false end)
                    (candidates (split_dots p) d)
            || Nat.ltb 1 (List.length (candidates (split_dots p) d))) eqn:E1;
    [ exfalso;
      repeat match type of H with context [if ?b then _ else _] => destruct b end; lia | ].
  destruct (Z.eqb (dead_end (split_dots p) d) 1) eqn:E2;
    [ exfalso;
      repeat match type of H with context [if ?b then _ else _] => destruct b end; lia | ].
  destruct (Z.eqb (dead_end (split_dots p) d) 2) eqn:E3;
    [ exfalso;
      repeat match type of H with context [if ?b then _ else _] => destruct b end; lia | ].
  destruct (c06_arr_traverse (split_dots p) d) eqn:E5;
    [ exfalso;
      repeat match type of H with context [if ?b then _ else _] => destruct b end; lia | ].
  destruct (ends_empty (split_dots p)) eqn:E6;
    [ exfalso;
      repeat match type of H with context [if ?b then _ else _] => destruct b end; lia | ].
  destruct (path_char (split_dots p) d) as [Hc _]; try assumption; [ apply split_dots_ne | ].
  rewrite Hc in H, E1.
  unfold pnice. cbv zeta. rewrite E2, E3, E5, E6. simpl.
  destruct (get_by_dot (split_dots p) d) as [v|]; [ | reflexivity ].
  cbn [existsb] in H, E1. rewrite orb_false_r in E1.
  destruct (sval v) eqn:Ev.
  2:{ exfalso. unfold sval in Ev.
      assert (Hb : match v with VArr _ => false | _ => negb (c06_value_ok v) end = true).
      { destruct v; try (rewrite Ev; reflexivity). simpl in E1. discriminate E1. }
      assert (Hb' : (match Some v with
                     | Some (VArr _) | None => false
                     | Some v0 => negb (c06_value_ok v0) end || false) = true).
      { rewrite orb_false_r. destruct v; exact Hb. }
      rewrite Hb' in H.
      repeat match type of H with context [if ?b then _ else _] => destruct b end; lia. }
  cbn [andb]. destruct sparse; [ | reflexivity ]. destruct (is_null v) eqn:En; [ | reflexivity ].
  exfalso. destruct v; try discriminate En. simpl in H.
  repeat match type of H with context [if ?b then _ else _] => destruct b end; lia.
Qed.

(* ---------------------------------------------------------------- one re-query clause *)
Lemma any_dollar_ops fs : any_dollar fs = false -> is_ops_dict fs = false.
Proof.
  destruct fs as [ | [k a] fs ]; [ reflexivity | ]. unfold any_dollar, is_ops_dict. simpl.
  intros H. apply orb_false_iff in H. destruct H as [H _]. rewrite H. reflexivity.
Qed.

Lemma any_dollar_has_key k fs :
  starts_dollar k = true -> any_dollar fs = false -> has_key k fs = false.
Proof.
  intros Hk. unfold any_dollar. induction fs as [ | [k' a] fs IH ]; simpl; [ reflexivity | ].
  intros H. apply orb_false_iff in H. destruct H as [H1 H2]. rewrite (IH H2), orb_false_r.
  destruct (String.eqb k k') eqn:E; [ | reflexivity ]. apply String.eqb_eq in E. congruence.
Qed.

Lemma sval_dollar fs : sval (VDoc fs) = true -> any_dollar fs = false.
Proof.
  unfold sval. cbn [c06_value_ok]. intros H. apply andb_true_iff in H. destruct H as [_ H].
  apply negb_true_iff in H. exact H.
Qed.

Lemma parse_search_doc fs :
  parse_search (VDoc fs) =
  if is_ops_dict fs then parse_search (VDoc fs)
  else if any_dollar fs then SMixed else SVal (VDoc fs).
Proof. simpl. destruct (is_ops_dict fs); reflexivity. Qed.

Lemma sval_search v : sval v = true -> parse_search v = SVal v.
Proof.
  destruct v as [ | x | x | x | x | x tx | x | fs | xs ]; intros H; try reflexivity.
  apply sval_dollar in H. rewrite parse_search_doc, (any_dollar_ops _ H), H. reflexivity.
Qed.

Lemma sval_search_neg v : sval v = true -> search_neg (SVal v) = false.
Proof.
  destruct v as [ | x | x | x | x | x tx | x | fs | xs ]; intros H; try reflexivity.
  apply sval_dollar in H. simpl.
  rewrite !any_dollar_has_key by (try reflexivity; exact H). reflexivity.
Qed.

Lemma field_match sparse p v x b :
  sval v = true -> pnice sparse p x = true ->
  eval_field p (SVal v) x = Ok b -> bson_eq v (kval p x) = true -> b = true.
Proof.
  intros Hv Hn H Hb. rewrite eval_field_SVal in H. cbv zeta in H.
  destruct (negb (path_modelled (split_dots p))); [ discriminate | ].
  destruct (pnice_inv _ _ _ Hn) as (Hc & _ & Hx). rewrite Hc in H.
  rewrite (sval_search_neg v Hv) in H.
  unfold kval in Hb.
  assert (Ht : sval_test v (get_by_dot (split_dots p) x) = Ok true).
  { destruct (get_by_dot (split_dots p) x) as [w|].
    - destruct Hx as [Hw _].
      assert (Hp : py_eq w v = true) by (apply sval_bson_py; assumption).
      destruct w; try discriminate Hw; unfold sval_test; rewrite Hp; reflexivity.
    - apply bson_eq_null_r in Hb. subst v. reflexivity. }
  cbn [field_loop] in H. rewrite Ht in H. cbn in H. inv_pair H. reflexivity.
Qed.

Lemma clause_match sparse p v x b :
  sval v = true -> pnice sparse p x = true ->
  eval_clause (parse_clause_with parse_search parse_filter p v) x = Ok b ->
  bson_eq v (kval p x) = true -> b = true.
Proof.
  intros Hv Hn H Hb. unfold parse_clause_with in H.
  destruct (p =? "$comment"); [ simpl in H; inv_pair H; reflexivity | ].
  destruct ((p =? "$and") || (p =? "$or") || (p =? "$nor")).
  { exfalso. simpl in H. destruct (negb (truthy v)); [ discriminate | ].
    destruct v; try discriminate Hv; simpl in H; discriminate H. }
  destruct ((p =? "$not") || (p =? "$expr") || (p =? "")); [ discriminate H | ].
  destruct (mem_str p top_level_names); [ discriminate H | ].
  destruct (starts_dollar p); [ discriminate H | ].
  rewrite (sval_search v Hv) in H. simpl eval_clause in H.
  eapply field_match; eassumption.
Qed.

(* ---------------------------------------------------------------- the whole re-query *)
Definition qdoc (keys : list (string * value)) (new : value) : list (string * value) :=
  map (fun kd => (fst kd, kval (fst kd) new)) keys.

Lemma index_query_eq i new q : index_query i new = Ok q -> q = VDoc (qdoc (ikey i) new).
Proof.
  unfold index_query. cbv zeta.
  destruct (negb (forallb (fun kd => path_modelled (split_dots (fst kd))) (ikey i)));
    intros H; inv_pair H. reflexivity.
Qed.

Lemma parse_filter_cons k a fs :
  parse_filter (VDoc ((k, a) :: fs))
  = FAnd (parse_clause_with parse_search parse_filter k a) (parse_filter (VDoc fs)).
Proof. reflexivity. Qed.

Lemma qmatch sparse keys new x : forall b,
  Forall (fun kd => sval (kval (fst kd) new) = true) keys ->
  Forall (fun kd => pnice sparse (fst kd) x = true) keys ->
  matches (parse_filter (VDoc (qdoc keys new))) x = Ok b ->
  tuple_eq (map (fun kd => kval (fst kd) new) keys) (map (fun kd => kval (fst kd) x) keys) = true ->
  b = true.
Proof.
  unfold tuple_eq.
  induction keys as [ | [p dir] keys IH ]; intros b Hs Hn H Ht.
  - simpl in H. inv_pair H. reflexivity.
  - inversion Hs as [ | ? ? Hs1 Hs2 ]; subst. inversion Hn as [ | ? ? Hn1 Hn2 ]; subst.
    simpl in Hs1, Hn1, Ht. apply andb_true_iff in Ht. destruct Ht as [Ht1 Ht2].
    unfold qdoc in H. cbn [map fst] in H. rewrite parse_filter_cons in H.
    cbn [matches] in H.
    destruct (eval_clause (parse_clause_with parse_search parse_filter p (kval p new)) x)
      as [b1|e] eqn:E1; [ | discriminate H ].
    assert (b1 = true) by (eapply clause_match; eassumption). subst b1.
    cbn [bind] in H. apply IH; assumption.
Qed.

(* {$and: [partial, q]} *)
Lemma and_filter pf q x :
  filter_applies (VDoc [("$and", VArr [pf; q])]) x =
  match filter_applies pf x with
  | Err e => Err e
  | Ok false => Ok false
  | Ok true => match filter_applies q x with Err e => Err e | Ok b => Ok b end
  end.
Proof.
  unfold filter_applies.
  destruct pf; destruct q; try reflexivity; simpl;
    repeat match goal with |- context [matches ?f x] => destruct (matches f x) as [[|]|] end;
    reflexivity.
Qed.

(* ---------------------------------------------------------------- scans *)
Definition hit (f : value) (e : value * value) : bool :=
  match filter_applies f (snd e) with Ok true => true | _ => false end.

Lemma scan_filter f l : forall m, scan f l = Ok m -> m = List.filter (hit f) l.
Proof.
  induction l as [ | [k d] l IH ]; simpl; intros m H; [ inv_pair H; reflexivity | ].
  unfold hit at 1. simpl.
  destruct (filter_applies f d) as [b|e]; [ | discriminate H ]. cbn [bind] in H.
  destruct (scan f l) as [r|e]; [ | discriminate H ]. cbn [bind] in H.
  inv_pair H. rewrite (IH r eq_refl). destruct b; reflexivity.
Qed.

Lemma scan_all_ok f l : forall m, scan f l = Ok m ->
  forall e, In e l -> exists b, filter_applies f (snd e) = Ok b.
Proof.
  induction l as [ | [k d] l IH ]; simpl; intros m H e He; [ destruct He | ].
  destruct (filter_applies f d) as [b|e'] eqn:Ef; [ | discriminate H ]. cbn [bind] in H.
  destruct (scan f l) as [r|e'] eqn:Es; [ | discriminate H ].
  destruct He as [<-|He]; [ exists b; exact Ef | eapply IH; eauto ].
Qed.

Lemma filter_length_in {A} (p : A -> bool) l x :
  In x l -> p x = true -> (1 <= List.length (List.filter p l))%nat.
Proof.
  induction l as [ | y l IH ]; simpl; intros Hx Hp; [ destruct Hx | ].
  destruct Hx as [->|Hx].
  - rewrite Hp. simpl. lia.
  - destruct (p y); simpl; [ | auto ]. specialize (IH Hx Hp). lia.
Qed.

Lemma scan_two f l1 y l2 m x :
  scan f (l1 ++ y :: l2) = Ok m -> In x (l1 ++ l2) ->
  hit f x = true -> hit f y = true -> (2 <= List.length m)%nat.
Proof.
  intros H Hx Hhx Hhy. rewrite (scan_filter _ _ _ H).
  rewrite filter_app. simpl. rewrite Hhy. rewrite app_length. simpl.
  apply in_app_or in Hx. destruct Hx as [Hx|Hx].
  - pose proof (filter_length_in (hit f) l1 x Hx Hhx). lia.
  - pose proof (filter_length_in (hit f) l2 x Hx Hhx). lia.
Qed.
