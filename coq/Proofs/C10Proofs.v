(* C10 (second half): reported counts equal the observable change. *)
From Coq Require Import ZArith List String Bool Ascii Lia.
From Verif Require Import Value PyEq BsonOrder Path Filter Update Project Coll HistCheck HistProps.
From Verif Require Import HistGuards C01Values C14Base C14Inv C14Ops C14Step.
Import ListNotations.
Open Scope Z_scope.
Open Scope string_scope.
Open Scope list_scope.

(* ---------------------------------------------------------------- delete *)
Lemma delete_go_count multi : forall l c n c' n',
  delete_go c l multi n = (c', Ok n') ->
  n' - n = Z.of_nat (List.length (docs c)) - Z.of_nat (List.length (docs c')).
Proof.
  induction l as [| d l IH]; intros c n c' n' H; simpl in H.
  - fin H. lia.
  - destruct d; try discriminate. destruct (assoc "_id" fs) as [id|]; [|discriminate].
    destruct (store_get id (docs c)) eqn:Eg; [|discriminate].
    assert (HL : S (List.length (store_del id (docs c))) = List.length (docs c)).
    { apply store_del_length. rewrite Eg. discriminate. }
    destruct multi.
    + apply IH in H. simpl in H. lia.
    + fin H. simpl. lia.
Qed.

Lemma c10_delete_ok c f multi c' v :
  Inv c -> delete_op c f multi = (c', Ok v) ->
  opt_value_eqb (get_field "deleted" v)
    (Some (VInt (Z.of_nat (List.length (docs c)) - Z.of_nat (List.length (docs c'))))) = true.
Proof.
  intros HI H. unfold delete_op in H. destruct f; try discriminate.
  destruct (find_docs c (VDoc fs) []) as [[c1 l]|e] eqn:E; [|discriminate].
  destruct (find_docs_spec c _ [] c1 l HI E) as (-> & _).
  destruct (delete_go c l multi 0) as [c2 r] eqn:Eg.
  destruct r as [n|e]; simpl in H; [|discriminate]. fin H.
  pose proof (delete_go_count multi l c 0 c' n Eg) as Hn.
  simpl. replace (Z.of_nat (List.length (docs c)) - Z.of_nat (List.length (docs c'))) with n by lia.
  apply Z.eqb_refl.
Qed.

(* ---------------------------------------------------------------- inserts *)
Lemma skipn_length_app {A} (l x : list A) : skipn (List.length l) (l ++ x) = x.
Proof. induction l as [| a l IH]; simpl; [reflexivity|exact IH]. Qed.

Lemma list_eqb_value_refl l : list_eqb value_eqb l l = true.
Proof. induction l as [| a l IH]; simpl; [reflexivity|]. rewrite value_eqb_refl. exact IH. Qed.

Lemma c10_insert_one_ok c d c' v :
  Inv c -> insert_one c d = (c', Ok v) ->
  match get_field "inserted_id" v with
  | Some i => list_eqb value_eqb (new_ids (docs c) (docs c')) [i]
  | None => false
  end = true.
Proof.
  intros HI H. unfold insert_one in H.
  destruct (insert_doc c d) as [c1 r] eqn:E.
  destruct (insert_doc_spec c d c1 r HI E) as (_ & Hins & _).
  destruct r as [id|e]; simpl in H; [|discriminate]. fin H.
  destruct (Hins id eq_refl) as [data Hd]. simpl.
  unfold new_ids. rewrite Hd, skipn_length_app. simpl. rewrite value_eqb_refl. reflexivity.
Qed.

Lemma insert_many_go_spec ordered : forall ds c index ids errs n c' ids' errs' n',
  Inv c -> insert_many_go c ds ordered index ids errs n = (c', Ok (ids', errs', n')) ->
  (List.length errs <= List.length errs')%nat /\
  (errs' = [] -> exists added, docs c' = docs c ++ added /\ ids' = ids ++ map fst added).
Proof.
  induction ds as [| d ds IH]; intros c index ids errs n c' ids' errs' n' HI H; simpl in H.
  - fin H. split; [lia|]. intros _. exists []. rewrite !app_nil_r. split; reflexivity.
  - destruct (insert_doc c d) as [c1 r] eqn:E.
    destruct (insert_doc_spec c d c1 r HI E) as (HI1 & Hins & _).
    destruct r as [id|e].
    + destruct (Hins id eq_refl) as [data Hd].
      destruct (IH _ _ _ _ _ _ _ _ _ HI1 H) as [HL HA]. split; [exact HL|].
      intro He. destruct (HA He) as (added & Hdocs & Hids).
      exists ((id, data) :: added). rewrite Hdocs, Hd, Hids, <- !app_assoc. split; reflexivity.
    + destruct (is_write_error e); [|discriminate].
      destruct ordered.
      * fin H. rewrite app_length. simpl. split; [lia|].
        intro He. apply app_eq_nil in He. destruct He as [_ He]. discriminate.
      * destruct (IH _ _ _ _ _ _ _ _ _ HI1 H) as [HL HA]. rewrite app_length in HL. simpl in HL.
        split; [lia|]. intro He. subst errs'. simpl in HL. lia.
Qed.

Lemma c10_insert_many_ok c ds ordered c' v :
  Inv c -> insert_many c ds ordered = (c', Ok v) ->
  match get_field "inserted_ids" v with
  | Some (VArr ids) => list_eqb value_eqb (new_ids (docs c) (docs c')) ids
  | _ => true
  end = true.
Proof.
  intros HI H. unfold insert_many in H. destruct ds as [| d ds]; [discriminate|].
  destruct (negb (forallb is_doc (d :: ds))); [discriminate|].
  destruct (insert_many_go c (d :: ds) ordered 0 [] [] 0) as [c1 r] eqn:E.
  destruct r as [[[ids errs] n]|e]; simpl in H; [|discriminate].
  destruct (insert_many_go_spec ordered _ _ _ _ _ _ _ _ _ _ HI E) as [_ HA].
  destruct errs as [| er errs].
  - fin H. destruct (HA eq_refl) as (added & Hdocs & Hids). simpl in Hids. subst ids. simpl.
    unfold new_ids. rewrite Hdocs, skipn_length_app. apply list_eqb_value_refl.
  - fin H. reflexivity.
Qed.

(* ---------------------------------------------------------------- updates *)
Lemma count_changed_refl s : count_changed s s = 0.
Proof.
  induction s as [| [k d] s IH]; [reflexivity|]. simpl. rewrite value_eqb_refl, IH. reflexivity.
Qed.

Lemma count_changed_app (done a b : store) :
  count_changed (done ++ a) (done ++ b) = count_changed a b.
Proof.
  induction done as [| [k d] done IH]; [reflexivity|]. simpl. rewrite value_eqb_refl, IH. reflexivity.
Qed.

Lemma count_changed_extra : forall (a b : store) x,
  List.length a = List.length b -> count_changed a (b ++ x) = count_changed a b.
Proof.
  induction a as [| [k d] a IH]; intros b x HL.
  - reflexivity.
  - destruct b as [| [k' d'] b]; [discriminate|]. simpl. rewrite IH; [reflexivity|].
    simpl in HL. lia.
Qed.

Definition refl_entry (kd : value * value) : Prop :=
  py_eq (fst kd) (fst kd) = true /\ py_eq (snd kd) (snd kd) = true.

Lemma skeys_mid (pre : store) k d d' post :
  skeys (pre ++ (k, d') :: post) = skeys (pre ++ (k, d) :: post).
Proof. unfold skeys. rewrite !map_app. reflexivity. Qed.

Lemma update_loop_count spec upd multi : forall todo done c m md c' m' md',
  no_ttl c -> docs c = done ++ todo -> knd (skeys (docs c)) -> Forall refl_entry todo ->
  update_loop c spec upd multi todo m md = (c', Ok (m', md')) ->
  exists todo', docs c' = done ++ todo' /\ List.length todo' = List.length todo
    /\ md' - md = count_changed todo todo' /\ 0 <= md' - md <= m' - m.
Proof.
  induction todo as [| [k d] todo IH]; intros done c m md c' m' md' HT Hdocs HK HR H;
    cbn [update_loop] in H.
  - fin H. exists []. split; [exact Hdocs|]. split; [reflexivity|]. simpl. lia.
  - inversion HR as [| ? ? [Hkk Hdd] HR']; subst. simpl in Hkk, Hdd.
    assert (Hdocs2 : forall x, done ++ x :: todo = (done ++ [x]) ++ todo)
      by (intro x; rewrite <- app_assoc; reflexivity).
    assert (Skip : forall m0, update_loop c spec upd multi todo m0 md = (c', Ok (m', md')) ->
              m <= m0 ->
              exists todo', docs c' = done ++ todo' /\ List.length todo' = S (List.length todo)
                /\ md' - md = count_changed ((k, d) :: todo) todo' /\ 0 <= md' - md <= m' - m).
    { intros m0 H0 Hm0. rewrite Hdocs2 in Hdocs.
      destruct (IH _ _ _ _ _ _ _ HT Hdocs HK HR' H0) as (todo'' & Hd'' & HL'' & Hc'' & Hb'').
      exists ((k, d) :: todo''). rewrite Hd'', <- app_assoc. split; [reflexivity|].
      split; [simpl; rewrite HL''; reflexivity|]. simpl. rewrite value_eqb_refl. lia. }
    destruct (filter_applies spec d) as [[|]|e] eqn:Ef; [| |discriminate].
    2:{ apply (Skip m H). lia. }
    destruct (apply_update spec upd false (now c) d) as [d'|e]; [|discriminate].
    destruct (py_eq d' d) eqn:Epy; cbn [negb] in H.
    + destruct (negb (value_eqb d' d) && py_in k (odocs c)); [discriminate|].
      destruct multi; [apply (Skip (m + 1) H); lia|].
      fin H. exists ((k, d) :: todo). split; [exact Hdocs|]. split; [reflexivity|].
      rewrite count_changed_refl. lia.
    + match type of H with context [if negb ?b then _ else _] => destruct (negb b) end;
        [discriminate|].
      destruct (match d with VDoc fs => assoc "_id" fs | _ => None end); [|discriminate].
      set (c1 := with_docs_w c (store_set k d' (docs c))) in H.
      assert (Hneq : value_eqb d d' = false).
      { apply value_eqb_neq. intro E. subst d'. congruence. }
      assert (Hd1 : docs c1 = done ++ (k, d') :: todo).
      { unfold c1. simpl. rewrite Hdocs. apply store_set_at; [|exact Hkk].
        rewrite Hdocs in HK. exact (proj1 (knd_mid _ _ _ _ HK)). }
      destruct (ensure_uniques c1 d') as [touched|e].
      2:{ destruct e; try discriminate; destruct (expire c1); discriminate. }
      rewrite (expire_if_no_ttl touched c1 (no_ttl_with_docs c _ HT)) in H.
      destruct multi.
      * assert (HK1 : knd (skeys (docs c1))).
        { rewrite Hd1, (skeys_mid done k d d' todo), <- Hdocs. exact HK. }
        rewrite Hdocs2 in Hd1.
        destruct (IH _ _ _ _ _ _ _ (no_ttl_with_docs c _ HT) Hd1 HK1 HR' H)
          as (todo'' & Hd'' & HL'' & Hc'' & Hb'').
        exists ((k, d') :: todo''). rewrite Hd'', <- app_assoc. split; [reflexivity|].
        split; [simpl; rewrite HL''; reflexivity|]. simpl. rewrite Hneq. lia.
      * fin H. exists ((k, d') :: todo). split; [exact Hd1|]. split; [reflexivity|].
        simpl. rewrite Hneq, count_changed_refl. lia.
Qed.

Definition rgood (s : store) : Prop := forallb c10_entry_refl s = true.

Lemma rgood_forall s : rgood s -> Forall refl_entry s.
Proof.
  unfold rgood. rewrite forallb_forall, Forall_forall. intros H kd Hin.
  specialize (H kd Hin). unfold c10_entry_refl in H. apply andb_true_iff in H. exact H.
Qed.

Lemma c10_update_ok pre5 c f u multi upsert c' v :
  Inv c -> rgood (docs c) ->
  update pre5 c f u multi upsert = (c', Ok v) ->
  opt_value_eqb (get_field "modified" v) (Some (VInt (count_changed (docs c) (docs c')))) = true.
Proof.
  intros HI HG H.
  destruct (update_unfold pre5 c f u multi upsert c' v HI H)
    as (sfs & ufs & c2 & matched & modified & _ & _ & HL & Hr).
  destruct (update_loop_count _ _ multi (docs c) [] c 0 0 c2 matched modified (proj1 HI) eq_refl
              (proj2 HI) (rgood_forall _ HG) HL) as (todo' & Hd2 & Hlen & Hcount & Hb).
  simpl in Hd2.
  destruct Hr as [[-> ->]|(_ & Hm & x & nid & Hd & ->)].
  - rewrite Hd2. simpl. replace (count_changed (docs c) todo') with modified by lia.
    apply Z.eqb_refl.
  - rewrite Hd, Hd2, count_changed_extra by (symmetry; exact Hlen).
    simpl. replace (count_changed (docs c) todo') with 0 by lia. reflexivity.
Qed.

(* ---------------------------------------------------------------- one step, the history *)
Lemma c10_step_ok pre5 c o info nw :
  Inv c -> rgood (docs c) ->
  c10_step (mkCtx (docs c) info nw) o
           (snd (step pre5 c o), docs (fst (step pre5 c o)),
            match index_information (fst (step pre5 c o)) with (_, Ok v) => v | _ => VNull end)
  = true.
Proof.
  intros HI HG. unfold c10_step. cbn [x_store].
  destruct (step pre5 c o) as [c' r] eqn:Es. cbn [fst snd].
  destruct r as [v|e]; [|reflexivity].
  destruct o; try reflexivity; simpl in Es.
  - exact (c10_insert_one_ok c d c' v HI Es).
  - exact (c10_insert_many_ok c ds ordered c' v HI Es).
  - unfold update_op in Es. destruct u; try discriminate.
    destruct (first_key_dollar (VDoc fs)) as [[|]|]; try discriminate.
    exact (c10_update_ok pre5 c f (VDoc fs) multi upsert c' v HI HG Es).
  - unfold replace_op in Es. destruct r; try discriminate.
    destruct (first_key_dollar (VDoc fs)) as [[|]|]; try discriminate;
      exact (c10_update_ok pre5 c f (VDoc fs) false upsert c' v HI HG Es).
  - exact (c10_delete_ok c f multi c' v HI Es).
Qed.

Lemma c10_trace pre5 : forall ops c info nw,
  Inv c -> rgood (docs c) ->
  existsb c14_ttl_op ops = false ->
  forallb c10_entry_refl (obs_entries (model_obs pre5 c ops)) = true ->
  trace_all c10_step (mkCtx (docs c) info nw) ops (model_obs pre5 c ops) = true.
Proof.
  induction ops as [| o ops IH]; intros c info nw HI HG Ht HE; [reflexivity|].
  simpl in Ht. apply orb_false_iff in Ht. destruct Ht as [Ht1 Ht2].
  pose proof (c10_step_ok pre5 c o info nw HI HG) as Hstep.
  pose proof (step_inv pre5 c o Ht1 HI) as HI'.
  cbn [model_obs] in *. destruct (step pre5 c o) as [c' r]. cbn [fst snd] in *.
  cbn [trace_all]. apply andb_true_iff. split; [exact Hstep|].
  unfold obs_entries in HE. cbn [flat_map fst snd] in HE. rewrite forallb_app in HE.
  apply andb_true_iff in HE. destruct HE as [HE1 HE2].
  apply IH; auto.
Qed.

Theorem C10_history_proof : forall (pre5 : bool) (ops : list op),
  c10_reasons ops (model_obs pre5 empty_coll ops) = 0 ->
  c10_ok ops (model_obs pre5 empty_coll ops) = true.
Proof.
  intros pre5 ops H. unfold c10_reasons in H.
  destruct (existsb c14_ttl_op ops) eqn:E1;
    destruct (existsb (fun kd => negb (c10_entry_refl kd))
                (obs_entries (model_obs pre5 empty_coll ops))) eqn:E2; try discriminate.
  unfold c10_ok, ctx0.
  apply (c10_trace pre5 ops empty_coll); auto using Inv_empty.
  - reflexivity.
  - apply forallb_forall. exact (existsb_negb_false _ _ E2).
Qed.
