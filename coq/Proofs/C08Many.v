(* C08 proofs, part 4: the batch part.  insert_many(ordered=True) inserts the documents one
   after the other and stops at the first one insert_doc rejects. *)
From Coq Require Import ZArith List String Bool Ascii Lia.
From Verif Require Import Value PyEq BsonOrder Path Filter Update Project Coll HistCheck HistProps.
From Verif.Proofs Require Import C01Values C08Store C08Fail.
Import ListNotations.
Open Scope Z_scope.
Open Scope string_scope.
Open Scope list_scope.

(* does Collection._insert accept d in state c *)
Definition accepts (c : coll) (d : value) : bool := is_ok (snd (insert_doc c d)).

(* the entry an accepted document is stored as: under its (normalised) _id (a fresh ObjectId
   when it has none, added as last field), dates truncated to milliseconds *)
Definition stored_entry (c : coll) (d : value) : value * value :=
  match d with
  | VDoc fs =>
      match assoc "_id" fs with
      | Some i => (patch i, patch (VDoc fs))
      | None => (VOid (next_oid c), patch (VDoc (fs ++ [("_id", VOid (next_oid c))])))
      end
  | _ => (VNull, VNull)
  end.

(* the entries of the longest prefix of ds accepted one after the other *)
Fixpoint accepted_prefix (c : coll) (ds : list value) : list (value * value) :=
  match ds with
  | [] => []
  | d :: ds' =>
      if accepts c d then stored_entry c d :: accepted_prefix (fst (insert_doc c d)) ds' else []
  end.

(* the state after inserting one by one until the first rejection (included) *)
Fixpoint insert_until_fail (c : coll) (ds : list value) : coll :=
  match ds with
  | [] => c
  | d :: ds' =>
      match insert_doc c d with
      | (c', Ok _) => insert_until_fail c' ds'
      | (c', Err _) => c'
      end
  end.

Lemma insert_many_go_seq : forall ds c index ids errs n c' r,
  insert_many_go c ds true index ids errs n = (c', r) -> c' = insert_until_fail c ds.
Proof.
  induction ds as [ | d ds IH ]; simpl; intros c index ids errs n c' r H.
  - inv_pair H. reflexivity.
  - destruct (insert_doc c d) as [c0 r0]. destruct r0 as [id|e]; [ eauto | ].
    destruct (is_write_error e); inv_pair H; reflexivity.
Qed.

Lemma insert_many_seq c ds :
  ds <> [] -> forallb is_doc ds = true ->
  fst (insert_many c ds true) = insert_until_fail c ds.
Proof.
  intros Hne Hd. unfold insert_many. destruct ds as [ | d ds ]; [ congruence | ].
  rewrite Hd. simpl negb. cbv iota.
  destruct (insert_many_go c (d :: ds) true 0 [] [] 0) as [c0 r0] eqn:E.
  apply insert_many_go_seq in E. exact E.
Qed.

Lemma insert_doc_ok c d c' id :
  NoTTL (idx c) -> insert_doc c d = (c', Ok id) ->
  docs c' = docs c ++ [stored_entry c d] /\ idx c' = idx c.
Proof.
  unfold insert_doc, stored_entry. intros Hn H.
  destruct d as [ | | | | | | | fs | ]; try discriminate.
  destruct (assoc "_id" fs) as [i|]; cbv iota beta in H.
  - destruct (negb (id_modelled (patch i))); [ destruct (patch i); discriminate | ].
    rewrite (expire_id c Hn) in H.
    destruct (store_get (patch i) (docs c)); [ discriminate | ].
    match type of H with context [ensure_uniques ?c2 ?data] =>
      destruct (ensure_uniques c2 data) as [touched|e]; 
      [ rewrite (expire_if_id touched c2 Hn) in H | rewrite (expire_id c2 Hn) in H; discriminate ]
    end.
    inv_pair H. split; reflexivity.
  - simpl negb in H. cbv iota in H.
    match type of H with context [expire ?c0] => rewrite (expire_id c0 Hn) in H end.
    simpl docs in H.
    destruct (store_get (VOid (next_oid c)) (docs c)); [ discriminate | ].
    match type of H with context [ensure_uniques ?c2 ?data] =>
      destruct (ensure_uniques c2 data) as [touched|e]; 
      [ rewrite (expire_if_id touched c2 Hn) in H | rewrite (expire_id c2 Hn) in H; discriminate ]
    end.
    inv_pair H. split; reflexivity.
Qed.

Lemma insert_many_go_store : forall ds c index ids errs n c' r,
  NoTTL (idx c) -> insert_many_go c ds true index ids errs n = (c', r) ->
  all_refl (docs c') -> docs c' = docs c ++ accepted_prefix c ds.
Proof.
  induction ds as [ | d ds IH ]; simpl; intros c index ids errs n c' r Hn H Hr.
  - inv_pair H. rewrite app_nil_r. reflexivity.
  - unfold accepts. destruct (insert_doc c d) as [c0 r0] eqn:E. simpl.
    destruct r0 as [id|e]; simpl.
    + apply insert_doc_ok in E; [ | exact Hn ]. destruct E as [E1 E2].
      eapply IH in H; [ | rewrite E2; exact Hn | exact Hr ].
      rewrite H, E1, <- app_assoc. reflexivity.
    + assert (Hc : c' = c0) by (destruct (is_write_error e); inv_pair H; reflexivity).
      subst c0. apply insert_doc_fail in E; [ | apply NoTTL_alive; exact Hn | exact Hr ].
      destruct E as (E & _). rewrite E, app_nil_r. reflexivity.
Qed.

Lemma insert_many_ordered_store c ds :
  (forall i, In i (idx c) -> ittl i = None) ->
  ds <> [] -> forallb is_doc ds = true ->
  Forall (fun kd => py_eq (fst kd) (fst kd) = true) (docs (fst (insert_many c ds true))) ->
  docs (fst (insert_many c ds true)) = docs c ++ accepted_prefix c ds.
Proof.
  intros Hn Hne Hd. unfold insert_many. destruct ds as [ | d ds ]; [ congruence | ].
  rewrite Hd. simpl negb. cbv iota.
  destruct (insert_many_go c (d :: ds) true 0 [] [] 0) as [c0 r0] eqn:E.
  simpl fst. intros Hr. eapply insert_many_go_store; eauto.
Qed.
