(* C18 proofs, part 2: every update operator preserves dates_normal when the operand values
   (taken from the patched update document / the patched filter) are normal. *)
From Coq Require Import ZArith List String Bool Ascii Lia.
From Verif Require Import Value PyEq BsonOrder Path Filter Update Project Coll HistCheck HistProps
  DatetimeSpec DatetimeRel.
From Verif.Proofs Require Import C01Values C18Values.
Import ListNotations.
Open Scope Z_scope.
Open Scope string_scope.
Open Scope list_scope.

(* ---------------------------------------------------------------- automation *)
Ltac dn_fwd :=
  repeat match goal with
  | H : DN (VDoc ?fs) |- _ =>
      lazymatch goal with
      | _ : DNF fs |- _ => fail
      | _ => pose proof (dn_doc_inv fs H)
      end
  | H : DN (VArr ?xs) |- _ =>
      lazymatch goal with
      | _ : DNL xs |- _ => fail
      | _ => pose proof (dn_arr_inv xs H)
      end
  | H : DNF ?fs, E : assoc ?k ?fs = Some ?x |- _ =>
      lazymatch goal with
      | _ : DN x |- _ => fail
      | _ => pose proof (dnf_assoc k fs x H E)
      end
  | H : DNL ?xs, E : nth_error ?xs ?n = Some ?x |- _ =>
      lazymatch goal with
      | _ : DN x |- _ => fail
      | _ => pose proof (dnl_nth_error n xs x H E)
      end
  end.

Lemma dn_if (b : bool) x y : DN x -> DN y -> DN (if b then x else y).
Proof. destruct b; auto. Qed.

Lemma dnl_pop_list xs arg : DNL xs -> DNL (pop_list xs arg).
Proof.
  intros H. unfold pop_list. destruct xs; [ constructor | ].
  destruct (py_eq arg (VInt 1)); [ apply dnl_removelast | apply dnl_tl ]; exact H.
Qed.

Lemma dnl_add_each cur news : DNL cur -> DNL news -> DNL (add_each cur news).
Proof. intros H1 H2. unfold add_each. apply dnl_app; [ exact H1 | apply dnl_filter; exact H2 ]. Qed.

Global Hint Resolve dn_doc dn_arr dnf_set_key dnf_del_key dnl_set_nth dnl_pad_to dnl_app dnl_one
  dn_null dn_int dn_dbl dn_oid dn_str dn_bool dnf_nil dnl_nil dn_empty_doc dn_date_floor dn_if
  dnl_pop_list dnl_filter dnl_firstn dnl_skipn dnl_rev dnl_slice_py dnl_add_each dnl_removelast
  dnl_tl patch_DN : dn.

Ltac dn_solve := dn_fwd; solve [ eauto 7 with dn ].

(* ---------------------------------------------------------------- arithmetic *)
Lemma py_add_dn a b s : py_add a b = Ok s -> DN s.
Proof. destruct a, b; simpl; intros H; inv_pair H; reflexivity. Qed.

Lemma py_iadd_ok x a s : py_iadd x a = Ok s -> py_add x a = Ok s.
Proof. unfold py_iadd; destruct x, a; intros H; try exact H; discriminate H. Qed.

(* ---------------------------------------------------------------- one updater *)
Lemma apply_updater_dn u now c name arg r :
  DN c -> DN arg -> apply_updater u now c name arg = Ok r -> DN r.
Proof.
  intros Hc Ha H. unfold apply_updater in H.
  destruct u; destruct c; try (inv_pair H; assumption);
    repeat dm H; try (inv_pair H); try assumption;
    repeat match goal with E : py_iadd _ _ = Ok _ |- _ => apply py_iadd_ok in E end;
    repeat match goal with E : py_add _ _ = Ok _ |- _ => apply py_add_dn in E end;
    dn_solve.
Qed.

(* ---------------------------------------------------------------- the path walk *)
Lemma walk_cons u now p rest doc arg :
  rest <> [] ->
  walk u now (p :: rest) doc arg =
      match doc with
      | VArr xs =>
          match as_index p with
          | Some i =>
              match nth_error xs (Z.to_nat i) with
              | Some sub => let! sub' := walk u now rest sub arg in
                            Ok (VArr (set_nth (Z.to_nat i) sub' xs))
              | None => Err ECrash
              end
          | None =>
              if negb (part_modelled p) || (p =? "$") then Err EUnmodelled
              else walk u now rest doc arg
          end
      | VDoc fs =>
          match assoc p fs with
          | None =>
              match u with
              | UUnset => Ok doc
              | _ => let! sub' := walk u now rest (VDoc []) arg in Ok (VDoc (set_key p sub' fs))
              end
          | Some sub => let! sub' := walk u now rest sub arg in Ok (VDoc (set_key p sub' fs))
          end
      | _ => Ok doc
      end.
Proof. destruct rest; [ congruence | reflexivity ]. Qed.

Lemma walk_dn u now : forall parts doc arg r,
  DN doc -> DN arg -> walk u now parts doc arg = Ok r -> DN r.
Proof.
  induction parts as [ | p rest IH ]; intros doc arg r Hd Ha H.
  - simpl in H. inv_pair H. exact Hd.
  - destruct rest as [ | q rest ].
    + simpl in H. eapply apply_updater_dn; [ exact Hd | exact Ha | exact H ].
    + remember (q :: rest) as rest' eqn:Er.
      rewrite walk_cons in H by (subst rest'; discriminate).
      destruct doc; try (inv_pair H; assumption).
      * (* VDoc *)
        destruct (assoc p fs) as [sub|] eqn:Ea.
        -- destruct (walk u now rest' sub arg) as [sub'|e] eqn:Ew; simpl in H; [ | discriminate ].
           inv_pair H. assert (DN sub') by (eapply IH; [ | exact Ha | exact Ew ]; dn_solve).
           dn_solve.
        -- destruct u; try (inv_pair H; assumption);
           (destruct (walk _ now rest' (VDoc []) arg) as [sub'|e] eqn:Ew; simpl in H; [ | discriminate ];
            inv_pair H; assert (DN sub') by (eapply IH; [ | exact Ha | exact Ew ]; dn_solve);
            dn_solve).
      * (* VArr *)
        destruct (as_index p) as [i|].
        -- destruct (nth_error xs (Z.to_nat i)) as [sub|] eqn:En; [ | discriminate ].
           destruct (walk u now rest' sub arg) as [sub'|e] eqn:Ew; simpl in H; [ | discriminate ].
           inv_pair H. assert (DN sub') by (eapply IH; [ | exact Ha | exact Ew ]; dn_solve).
           dn_solve.
        -- destruct (negb (part_modelled p) || (p =? "$")); [ discriminate | ].
           eapply IH; [ exact Hd | exact Ha | exact H ].
Qed.

Lemma apply_fields_dn u now : forall fields doc r,
  DNF fields -> DN doc -> apply_fields u now fields doc = Ok r -> DN r.
Proof.
  induction fields as [ | [k arg] fields IH ]; simpl; intros doc r Hf Hd H.
  - inv_pair H. exact Hd.
  - inversion Hf as [ | ? ? Hk Hl ]; subst. simpl in Hk.
    destruct (existsb _ _); [ discriminate | ].
    destruct (walk u now (split_dots k) doc arg) as [doc'|e] eqn:Ew; simpl in H; [ | discriminate ].
    eapply IH; [ exact Hl | | exact H ]. eapply walk_dn; [ exact Hd | exact Hk | exact Ew ].
Qed.

(* ---------------------------------------------------------------- parent walks *)
Ltac sb H := cbv beta iota delta [bind] in H.

Lemma with_parent_spec_dn (f : value -> string -> res value) :
  (forall parent last r, DN parent -> f parent last = Ok r -> DN r) ->
  forall parts doc sub r, DN doc -> with_parent_spec parts doc sub f = Ok r -> DN r.
Proof.
  intros Hf. induction parts as [ | p rest IH ]; intros doc sub r Hd H; simpl in H; [ discriminate | ].
  destruct (p =? "$"); [ discriminate | ].
  destruct doc; try (destruct rest; [ eapply Hf; [ | exact H ]; exact Hd | discriminate ]).
  - (* VDoc *)
    destruct rest as [ | q rest ]; [ eapply Hf; [ | exact H ]; exact Hd | ].
    sb H.
    destruct (follow_key sub p) as [sub'|e]; sb H; [ | discriminate ].
    match type of H with context [with_parent_spec ?a ?b ?c ?d] =>
      destruct (with_parent_spec a b c d) as [x'|e] eqn:Ew end; sb H; [ | discriminate ].
    inv_pair H. assert (DN x').
    { eapply IH; [ | exact Ew ]. destruct (assoc p fs) eqn:Ea; dn_solve. }
    dn_solve.
  - (* VArr *)
    destruct (as_index p) as [i|]; [ | destruct (part_modelled p); discriminate ].
    match type of H with (let! _ := ?s in _) = _ => destruct s as [sub1|e] end; sb H;
      [ | discriminate ].
    destruct rest as [ | q rest ]; [ eapply Hf; [ | exact H ]; exact Hd | ].
    sb H.
    destruct (nth_error xs (Z.to_nat i)) as [x|] eqn:En; [ | discriminate ].
    match type of H with (match ?s with Ok _ => _ | Err _ => _ end) = _ =>
      destruct s as [sub2|e] end; sb H; [ | discriminate ].
    match type of H with context [with_parent_spec ?a ?b ?c ?d] =>
      destruct (with_parent_spec a b c d) as [x'|e] eqn:Ew end; sb H; [ | discriminate ].
    inv_pair H. assert (DN x') by (eapply IH; [ | exact Ew ]; dn_solve).
    dn_solve.
Qed.

Lemma with_parent_dn spec parts doc f r :
  (forall parent last r, DN parent -> f parent last = Ok r -> DN r) ->
  DN doc -> with_parent spec parts doc f = Ok r -> DN r.
Proof. intros Hf Hd H. unfold with_parent in H. eapply with_parent_spec_dn; [ exact Hf | exact Hd | exact H ]. Qed.

(* ---------------------------------------------------------------- $push *)
Lemma push_one_dn spec doc field arg r :
  DN doc -> DN arg -> push_one spec doc field arg = Ok r -> DN r.
Proof.
  intros Hd Ha H. unfold push_one in H.
  eapply with_parent_dn; [ | exact Hd | exact H ].
  clear H. intros parent last r0 Hp H. cbv beta zeta in H.
  match type of H with (let! cur := ?cr in _) = _ => destruct cr as [cur|e] eqn:Ec end;
    simpl in H; [ | discriminate ].
  assert (Hcur : DNL cur).
  { repeat dm Ec; inv_pair Ec; dn_solve. }
  match type of H with (let! result := ?rr in _) = _ => destruct rr as [result|e] eqn:Er end;
    simpl in H; [ | discriminate ].
  assert (Hres : DNL result).
  { destruct arg as [ | | | | | | | mods | ]; try (inv_pair Er; dn_solve).
    destruct (has_key "$each" mods); [ | inv_pair Er; dn_solve ].
    destruct (assoc "$each" mods) as [[ | | | | | | | | each]|] eqn:Ee; try discriminate.
    assert (Heach : DNL each) by dn_solve.
    match type of Er with (let! r1 := ?x in _) = _ => destruct x as [r1|e] eqn:E1 end;
      simpl in Er; [ | discriminate ].
    assert (Hr1 : DNL r1).
    { repeat dm E1; inv_pair E1; dn_solve. }
    match type of Er with (let! r2 := ?x in _) = _ => destruct x as [r2|e] eqn:E2 end;
      simpl in Er; [ | discriminate ].
    assert (Hr2 : DNL r2).
    { destruct (assoc "$sort" mods) as [sv|]; [ | inv_pair E2; exact Hr1 ].
      destruct sv; try (dm E2; eapply py_sorted_Forall; [ exact E2 | exact Hr1 ]).
      destruct fs as [ | [k dir] [ | ? ? ] ]; try discriminate.
      cbv beta iota in E2. dm E2. eapply py_sorted_Forall; [ exact E2 | exact Hr1 ]. }
    match type of Er with (let! r3 := ?x in _) = _ => destruct x as [r3|e] eqn:E3 end;
      simpl in Er; [ | discriminate ].
    assert (Hr3 : DNL r3).
    { repeat dm E3; inv_pair E3; dn_solve. }
    dm Er. inv_pair Er. exact Hr3. }
  repeat dm H; inv_pair H; dn_solve.
Qed.

(* ---------------------------------------------------------------- $addToSet *)
Lemma each_of_dn arg each : DN arg -> each_of arg = Some each -> DNL each.
Proof.
  unfold each_of. intros Ha H. repeat dm H. inv_pair H. dn_solve.
Qed.

Lemma add_to_set_one_dn spec doc field arg r :
  DN doc -> DN arg -> add_to_set_one spec doc field arg = Ok r -> DN r.
Proof.
  intros Hd Ha H. unfold add_to_set_one in H.
  assert (Hupd : forall cur, DNL cur ->
            DNL (match each_of arg with
                 | Some each => add_each cur each
                 | None => if py_in arg cur then cur else cur ++ [arg]
                 end)).
  { intros cur Hc. destruct (each_of arg) as [each|] eqn:Ee.
    - apply dnl_add_each; [ exact Hc | eapply each_of_dn; eauto ].
    - destruct (py_in arg cur); dn_solve. }
  match type of H with (if ?b then _ else _) = _ => destruct b end; [ discriminate | ].
  assert (Hf : forall parent last r0, DN parent ->
     match parent with
     | VDoc fs =>
         match assoc last fs with
         | None => Ok (VDoc (set_key last (VArr (match each_of arg with
                 | Some each => add_each [] each
                 | None => if py_in arg [] then [] else [] ++ [arg]
                 end)) fs))
         | Some (VArr xs) => Ok (VDoc (set_key last (VArr (match each_of arg with
                 | Some each => add_each xs each
                 | None => if py_in arg xs then xs else xs ++ [arg]
                 end)) fs))
         | Some (VStr _) | Some (VDoc _) => Err EUnmodelled
         | Some _ => Err ECrash
         end
     | _ => Err EUnmodelled
     end = Ok r0 -> DN r0).
  { intros parent last r0 Hp H0.
    destruct parent; try discriminate.
    destruct (assoc last fs) as [[ | | | | | | | | xs]|] eqn:Ea; try discriminate; inv_pair H0.
    - apply dn_doc. apply dnf_set_key; [ dn_solve | ]. apply dn_arr. apply Hupd. dn_solve.
    - apply dn_doc. apply dnf_set_key; [ dn_solve | ]. apply dn_arr. apply (Hupd []). constructor. }
  destruct (split_dots field) as [ | name [ | q rest ] ].
  - simpl in H. discriminate H.
  - destruct doc; try discriminate.
    eapply (Hf (VDoc fs) name); [ exact Hd | ].
    destruct (assoc name fs) as [[ | | | | | | | | xs]|]; try discriminate; exact H.
  - dm H. eapply with_parent_dn; [ | exact Hd | exact H ].
    intros parent last r0 Hp H0. destruct parent; try discriminate. eapply (Hf (VDoc fs)); [ exact Hp | exact H0 ].
Qed.

(* ---------------------------------------------------------------- $pullAll *)
Lemma pull_all_one_dn spec doc field arg r :
  DN doc -> pull_all_one spec doc field arg = Ok r -> DN r.
Proof.
  intros Hd H. unfold pull_all_one in H.
  destruct arg as [ | | | | | | | | vals ]; try discriminate.
  assert (Hf : forall parent last r0, DN parent ->
     match parent with
     | VDoc fs =>
         match assoc last fs with
         | None => Ok parent
         | Some (VArr xs) =>
             Ok (VDoc (set_key last (VArr (List.filter (fun o => negb (py_in o vals)) xs)) fs))
         | Some _ => Err EUnmodelled
         end
     | _ => Err EUnmodelled
     end = Ok r0 -> DN r0).
  { intros parent last r0 Hp H0.
    destruct parent; try discriminate.
    destruct (assoc last fs) as [[ | | | | | | | | xs]|] eqn:Ea; try discriminate; inv_pair H0;
      dn_solve. }
  destruct (split_dots field) as [ | name [ | q rest ] ].
  - eapply with_parent_dn; [ | exact Hd | exact H ]. exact Hf.
  - destruct doc; try discriminate.
    eapply (Hf (VDoc fs) name); [ exact Hd | ].
    destruct (assoc name fs) as [[ | | | | | | | | xs]|]; try discriminate; exact H.
  - eapply with_parent_dn; [ | exact Hd | exact H ]. exact Hf.
Qed.

(* ---------------------------------------------------------------- $pull *)
Lemma pull_walk_dn (f : list value -> res (list value)) :
  (forall xs ys, DNL xs -> f xs = Ok ys -> DNL ys) ->
  forall parts doc r, DN doc -> pull_walk parts doc f = Ok r -> DN r.
Proof.
  intros Hf. induction parts as [ | p rest IH ]; intros doc r Hd H; simpl in H.
  - destruct doc; try (inv_pair H; assumption).
    destruct (f xs) as [ys|e] eqn:E; simpl in H; [ | discriminate ].
    inv_pair H. apply dn_arr. eapply Hf; [ | exact E ]. dn_solve.
  - destruct doc; try discriminate.
    + destruct (String.index 0 p s); [ discriminate | inv_pair H; assumption ].
    + destruct (assoc p fs) as [sub|] eqn:Ea; [ | inv_pair H; assumption ].
      destruct (pull_walk rest sub f) as [sub'|e] eqn:Ew; simpl in H; [ | discriminate ].
      inv_pair H. assert (DN sub') by (eapply IH; [ | exact Ew ]; dn_solve).
      dn_solve.
Qed.

Lemma pull_one_dn doc field arg r : DN doc -> pull_one doc field arg = Ok r -> DN r.
Proof.
  intros Hd H. unfold pull_one in H.
  eapply pull_walk_dn; [ | exact Hd | exact H ].
  clear. intros xs ys Hx H.
  destruct arg; try (inv_pair H; apply dnl_filter; exact Hx).
  revert ys H. unfold DNL in Hx.
  induction Hx as [ | x xs Hx0 Hxs IH ]; intros ys H.
  - inv_pair H. constructor.
  - sb H.
    match type of H with match ?a with Ok _ => _ | Err _ => _ end = _ =>
      destruct a as [m1|e]; [ | discriminate ] end.
    match type of H with match ?a with Ok _ => _ | Err _ => _ end = _ =>
      destruct a as [m|e]; [ | discriminate ] end.
    match type of H with match ?a with Ok _ => _ | Err _ => _ end = _ =>
      destruct a as [r|e] eqn:Er; [ | discriminate ] end.
    inv_pair H. specialize (IH r Er).
    destruct m; [ exact IH | constructor; assumption ].
Qed.

Lemma fold_fields_dn (f : value -> string -> value -> res value) :
  forall fields doc r,
  (forall d k a r0, In (k, a) fields -> DN d -> f d k a = Ok r0 -> DN r0) ->
  DN doc -> fold_fields f fields doc = Ok r -> DN r.
Proof.
  induction fields as [ | [k a] fields IH ]; simpl; intros doc r Hf Hd H.
  - inv_pair H. exact Hd.
  - destruct (f doc k a) as [d|e] eqn:E; simpl in H; [ | discriminate ].
    eapply IH; [ | | exact H ].
    + intros d0 k0 a0 r0 Hin. apply Hf. right. exact Hin.
    + eapply Hf; [ left; reflexivity | exact Hd | exact E ].
Qed.

Lemma dnf_In fs k a : DNF fs -> In (k, a) fs -> DN a.
Proof.
  unfold DNF. intros H Hin. rewrite Forall_forall in H. apply (H (k, a)). exact Hin.
Qed.

Lemma fields_of_dn v fs : DN v -> fields_of v = Ok fs -> DNF fs.
Proof. destruct v; simpl; intros Hv H; try discriminate. inv_pair H. dn_solve. Qed.

(* ---------------------------------------------------------------- one key of the update *)
Lemma fold_set_key_dn : forall (update base : list (string * value)),
  DNF update -> DNF base ->
  DNF (fold_left (fun acc kv => set_key (fst kv) (snd kv) acc) update base).
Proof.
  induction update as [ | [k v] update IH ]; simpl; intros base Hu Hb; [ exact Hb | ].
  inversion Hu; subst. apply IH; [ assumption | ]. apply dnf_set_key; assumption.
Qed.

(* the _id the replacement branch keeps: that of the document being replaced (a null one counts
   as absent); the filter is not consulted any more (repaired in the library) *)
Definition spec_id (spec doc : value) : option value :=
  match doc with
  | VDoc dfs => match assoc "_id" dfs with
                | Some i => if is_null i then None else Some i
                | None => None
                end
  | _ => None
  end.

Lemma spec_id_dn spec doc i : DN spec -> DN doc -> spec_id spec doc = Some i -> DN i.
Proof.
  unfold spec_id. intros Hs Hd H. repeat dm H; inv_pair H; dn_solve.
Qed.

Lemma id_base_dn spec doc :
  DN spec -> DN doc ->
  DNF (match spec_id spec doc with
       | Some i => [("_id", i)]
       | None => []
       end).
Proof.
  intros Hs Hd. destruct (spec_id spec doc) as [i|] eqn:E; [ | constructor ].
  constructor; [ eapply spec_id_dn; [ exact Hs | exact Hd | exact E ] | constructor ].
Qed.

(* the empty update document keeps only the (non-null) _id of the document *)
Lemma id_only_dn doc :
  DN doc ->
  DNF (match (match doc with VDoc dfs => assoc "_id" dfs | _ => None end) with
       | Some i => if is_null i then [] else [("_id", i)]
       | None => []
       end).
Proof.
  intros Hd. destruct doc as [ | | | | | | | dfs | ]; try constructor.
  destruct (assoc "_id" dfs) as [i|] eqn:E; [ | constructor ].
  destruct (is_null i); [ constructor | ].
  constructor; [ dn_solve | constructor ].
Qed.

Lemma apply_update_key_dn spec update wi now first k v doc d stop :
  DN spec -> DNF update -> DN v -> DN doc ->
  apply_update_key spec update wi now first k v doc = Ok (d, stop) -> DN d.
Proof.
  intros Hs Hu Hv Hd H. unfold apply_update_key in H.
  destruct (updater_of k) as [u|].
  { destruct (fields_of v) as [fs|e] eqn:Ef; simpl in H; [ | discriminate ].
    destruct (apply_fields u now fs doc) as [d0|e] eqn:Ea; simpl in H; [ | discriminate ].
    inv_pair H. eapply apply_fields_dn; [ eapply fields_of_dn; [ exact Hv | exact Ef ] | exact Hd | exact Ea ]. }
  destruct (k =? "$rename").
  { destruct (fields_of v) as [fs|e] eqn:Ef; simpl in H; [ | discriminate ].
    match type of H with (let! d := ?x in _) = _ => destruct x as [d0|e] eqn:Ea end;
      simpl in H; [ | discriminate ].
    inv_pair H. eapply fold_fields_dn; [ | exact Hd | exact Ea ].
    intros d0 src dstv r0 _ Hd0 H0. cbv beta in H0. repeat dm H0; inv_pair H0; dn_solve. }
  destruct (k =? "$setOnInsert").
  { destruct wi; [ | inv_pair H; exact Hd ].
    destruct (fields_of v) as [fs|e] eqn:Ef; simpl in H; [ | discriminate ].
    destruct (apply_fields USet now fs doc) as [d0|e] eqn:Ea; simpl in H; [ | discriminate ].
    inv_pair H. eapply apply_fields_dn; [ eapply fields_of_dn; [ exact Hv | exact Ef ] | exact Hd | exact Ea ]. }
  destruct (k =? "$currentDate").
  { destruct (fields_of v) as [fs|e] eqn:Ef; simpl in H; [ | discriminate ].
    destruct (apply_fields UCurrentDate now fs doc) as [d0|e] eqn:Ea; simpl in H; [ | discriminate ].
    inv_pair H. eapply apply_fields_dn; [ eapply fields_of_dn; [ exact Hv | exact Ef ] | exact Hd | exact Ea ]. }
  destruct (k =? "$addToSet").
  { destruct (fields_of v) as [fs|e] eqn:Ef; simpl in H; [ | discriminate ].
    match type of H with (let! d := ?x in _) = _ => destruct x as [d0|e] eqn:Ea end;
      simpl in H; [ | discriminate ].
    inv_pair H. eapply fold_fields_dn; [ | exact Hd | exact Ea ].
    intros d0 f a r0 Hin Hd0 H0. eapply add_to_set_one_dn; [ exact Hd0 | | exact H0 ].
    eapply dnf_In; [ eapply fields_of_dn; [ exact Hv | exact Ef ] | exact Hin ]. }
  destruct (k =? "$pull").
  { destruct (fields_of v) as [fs|e] eqn:Ef; simpl in H; [ | discriminate ].
    destruct (existsb _ fs); [ discriminate | ].
    match type of H with (let! d := ?x in _) = _ => destruct x as [d0|e] eqn:Ea end;
      simpl in H; [ | discriminate ].
    inv_pair H. eapply fold_fields_dn; [ | exact Hd | exact Ea ].
    intros d0 f a r0 _ Hd0 H0. eapply pull_one_dn; [ exact Hd0 | exact H0 ]. }
  destruct (k =? "$pullAll").
  { destruct (fields_of v) as [fs|e] eqn:Ef; simpl in H; [ | discriminate ].
    match type of H with (let! d := ?x in _) = _ => destruct x as [d0|e] eqn:Ea end;
      simpl in H; [ | discriminate ].
    inv_pair H. eapply fold_fields_dn; [ | exact Hd | exact Ea ].
    intros d0 f a r0 _ Hd0 H0. eapply pull_all_one_dn; [ exact Hd0 | exact H0 ]. }
  destruct (k =? "$push").
  { destruct (fields_of v) as [fs|e] eqn:Ef; simpl in H; [ | discriminate ].
    match type of H with (let! d := ?x in _) = _ => destruct x as [d0|e] eqn:Ea end;
      simpl in H; [ | discriminate ].
    inv_pair H. eapply fold_fields_dn; [ | exact Hd | exact Ea ].
    intros d0 f a r0 Hin Hd0 H0. eapply push_one_dn; [ exact Hd0 | | exact H0 ].
    eapply dnf_In; [ eapply fields_of_dn; [ exact Hv | exact Ef ] | exact Hin ]. }
  destruct first; [ | discriminate ].
  destruct (existsb _ update); [ discriminate | ].
  fold (spec_id spec doc) in H.
  pose proof (fold_set_key_dn update _ Hu (id_base_dn spec doc Hs Hd)) as Hm.
  repeat dm H; inv_pair H; dn_solve.
Qed.

Lemma apply_update_keys_dn spec update wi now : forall todo first doc r,
  DN spec -> DNF update -> DNF todo -> DN doc ->
  apply_update_keys spec update wi now first todo doc = Ok r -> DN r.
Proof.
  induction todo as [ | [k v] todo IH ]; simpl; intros first doc r Hs Hu Ht Hd H.
  - inv_pair H. exact Hd.
  - inversion Ht as [ | ? ? Hk Hl ]; subst. simpl in Hk.
    destruct (apply_update_key spec update wi now first k v doc) as [[d stop]|e] eqn:E;
      simpl in H; [ | discriminate ].
    assert (DN d) by (eapply apply_update_key_dn; [ | | | | exact E ]; assumption).
    destruct stop; [ inv_pair H; assumption | eapply IH; [ exact Hs | exact Hu | exact Hl | | exact H ]; assumption ].
Qed.

Theorem apply_update_dn spec update wi now doc r :
  DN spec -> DN update -> DN doc -> apply_update spec update wi now doc = Ok r -> DN r.
Proof.
  intros Hs Hu Hd H. unfold apply_update in H.
  destruct update as [ | | | | | | | ufs | ]; try discriminate.
  destruct ufs as [ | kv ufs ].
  - inv_pair H. apply dn_doc. apply id_only_dn; assumption.
  - eapply apply_update_keys_dn; [ exact Hs | | | exact Hd | exact H ]; dn_solve.
Qed.
