(* C08 proofs, part 2: a failing single-document write leaves the visible state (documents,
   indexes, created flag) unchanged, when no stored document is expired, and - for the update
   kind - when no TTL index or no unique index exists (the rollback after a failed unique
   check), and no unique index exists if the model's answer is EUnmodelled. *)
From Coq Require Import ZArith List String Bool Ascii Lia.
From Verif Require Import Value PyEq BsonOrder Path Filter Update Project Coll HistCheck.
From Verif.Proofs Require Import C01Values C08Store.
Import ListNotations.
Open Scope Z_scope.
Open Scope string_scope.
Open Scope list_scope.

Definition NoTTL (is : list index) : Prop := forall i, In i is -> ittl i = None.
Definition NoUnique (is : list index) : Prop := forall i, In i is -> iunique i = false.
(* [forced] itself may change (a rolled-back write leaves the collection marked as existing);
   what is visible is is_created *)
Definition same_vis (c c' : coll) : Prop :=
  docs c' = docs c /\ idx c' = idx c /\ is_created c' = is_created c /\ now c' = now c.

(* the model's expiry test of one document under one index *)
Definition expired_by (i : index) (n : Z) (d : value) : bool :=
  match ittl i with
  | None => false
  | Some sv =>
      match ttl_seconds sv with
      | Ok (Some secs) =>
          match ikey i with
          | [(field, _)] =>
              meets_expiry (match d with VDoc fs => assoc field fs | _ => None end) secs n
          | _ => false
          end
      | _ => false
      end
  end.
Definition alive (is : list index) (n : Z) (kd : value * value) : bool :=
  forallb (fun i => negb (expired_by i n (snd kd))) is.
Definition AllAlive (c : coll) : Prop :=
  forall kd, In kd (docs c) -> alive (idx c) (now c) kd = true.
Definition all_refl (l : list (value * value)) : Prop :=
  Forall (fun kd => py_eq (fst kd) (fst kd) = true) l.

Lemma same_vis_refl c : same_vis c c.
Proof. repeat split. Qed.
Lemma same_vis_trans a b c : same_vis a b -> same_vis b c -> same_vis a c.
Proof. unfold same_vis. intros (H1 & H2 & H3 & H3') (H4 & H5 & H6 & H6'). repeat split; congruence. Qed.

Lemma same_vis_alive c c' : same_vis c c' -> AllAlive c -> AllAlive c'.
Proof. intros (H1 & H2 & _ & H4) Ha. unfold AllAlive. rewrite H1, H2, H4. exact Ha. Qed.

Lemma with_docs_same c : with_docs c (docs c) = c.
Proof. destruct c; reflexivity. Qed.

Lemma is_created_idx c : idx c <> [] -> is_created c = true.
Proof. unfold is_created. destruct (docs c), (idx c); congruence. Qed.

Lemma same_vis_docs c c' :
  idx c' = idx c -> now c' = now c -> idx c <> [] -> docs c' = docs c -> same_vis c c'.
Proof.
  intros Hi Hn Hne Hd. repeat split; try assumption.
  rewrite !is_created_idx; congruence.
Qed.

(* a failing unique check needs an index *)
Lemma ensure_uniques_err c new e : ensure_uniques c new = Err e -> idx c <> [].
Proof. unfold ensure_uniques. destruct (idx c); simpl; [ discriminate | discriminate ]. Qed.

(* ---------------------------------------------------------------- no TTL index: no expiry *)
Lemma expire_fold_id : forall is c, NoTTL is ->
  fold_left (fun acc i => let! c' := acc in expire_index i c') is (Ok c) = Ok c.
Proof.
  induction is as [ | i is IH ]; simpl; intros c Hn; [ reflexivity | ].
  assert (Hi : expire_index i c = Ok c).
  { unfold expire_index. rewrite (Hn i (or_introl eq_refl)). reflexivity. }
  rewrite Hi. apply IH. intros j Hj. apply Hn. right. exact Hj.
Qed.

Lemma expire_id c : NoTTL (idx c) -> expire c = Ok c.
Proof. unfold expire. apply expire_fold_id. Qed.

Lemma expire_if_id b c : NoTTL (idx c) -> expire_if b c = Ok c.
Proof. destruct b; simpl; [ apply expire_id | reflexivity ]. Qed.

Lemma NoTTL_alive c : NoTTL (idx c) -> AllAlive c.
Proof.
  intros Hn kd _. unfold alive. apply forallb_forall. intros i Hi.
  unfold expired_by. rewrite (Hn i Hi). reflexivity.
Qed.

(* ---------------------------------------------------------------- expiry in closed form *)
Lemma filter_all_true {A} (f : A -> bool) l : (forall x, In x l -> f x = true) -> List.filter f l = l.
Proof.
  induction l as [ | x l IH ]; simpl; intros H; [ reflexivity | ].
  rewrite (H x (or_introl eq_refl)). rewrite IH; [ reflexivity | ]. intros y Hy. apply H. right. exact Hy.
Qed.

Lemma filter_filter {A} (f g : A -> bool) l :
  List.filter g (List.filter f l) = List.filter (fun x => f x && g x) l.
Proof.
  induction l as [ | x l IH ]; simpl; [ reflexivity | ].
  destruct (f x); simpl; [ destruct (g x); rewrite IH; reflexivity | exact IH ].
Qed.

Lemma expire_index_char i c c1 :
  expire_index i c = Ok c1 ->
  c1 = with_docs c (List.filter (fun kd => negb (expired_by i (now c) (snd kd))) (docs c)).
Proof.
  unfold expire_index, expired_by. intros H.
  assert (Hid : c = with_docs c (List.filter (fun _ : value * value => negb false) (docs c))).
  { rewrite filter_all_true by reflexivity. symmetry. apply with_docs_same. }
  destruct (ittl i) as [sv|]; [ | inv_pair H; exact Hid ].
  destruct (ttl_seconds sv) as [[secs|]|e]; simpl in H; [ | inv_pair H; exact Hid | discriminate ].
  destruct (ikey i) as [ | [field dir] [ | kd2 rest ] ]; try (inv_pair H; exact Hid).
  dm H. inv_pair H. reflexivity.
Qed.

Lemma expire_fold_char : forall is c c',
  fold_left (fun acc i => let! c' := acc in expire_index i c') is (Ok c) = Ok c' ->
  c' = with_docs c (List.filter (alive is (now c)) (docs c)).
Proof.
  induction is as [ | i is IH ]; simpl; intros c c' H.
  - inv_pair H. rewrite filter_all_true by reflexivity. symmetry. apply with_docs_same.
  - destruct (expire_index i c) as [c1|e] eqn:E.
    + apply expire_index_char in E. apply IH in H. subst c1. rewrite H. simpl.
      rewrite filter_filter. reflexivity.
    + rewrite expire_fold_err in H. discriminate.
Qed.

Lemma expire_char c c' :
  expire c = Ok c' -> c' = with_docs c (List.filter (alive (idx c) (now c)) (docs c)).
Proof. unfold expire. apply expire_fold_char. Qed.

Lemma expire_alive c c' : AllAlive c -> expire c = Ok c' -> c' = c.
Proof.
  intros Ha H. apply expire_char in H. rewrite filter_all_true in H by exact Ha.
  rewrite with_docs_same in H. exact H.
Qed.

Lemma iter_documents_id c f c1 m : AllAlive c -> iter_documents c f = Ok (c1, m) -> c1 = c.
Proof.
  unfold iter_documents. intros Hn H.
  destruct (expire c) as [c0|e] eqn:E; simpl in H; [ | discriminate ].
  apply expire_alive in E; [ | exact Hn ]. subst c0.
  repeat dm H; inv_pair H; reflexivity.
Qed.

Lemma find_docs_id c f s c1 l : AllAlive c -> find_docs c f s = Ok (c1, l) -> c1 = c.
Proof.
  unfold find_docs. intros Hn H. destruct f; try discriminate.
  destruct (iter_documents c (patch (VDoc fs))) as [[c0 m]|e] eqn:E; simpl in H; [ | discriminate ].
  dm H. inv_pair H. simpl. eauto using iter_documents_id.
Qed.

Lemma find_op_id c f p s sk lim c1 r : AllAlive c -> find_op c f p s sk lim = (c1, r) -> c1 = c.
Proof.
  unfold find_op. intros Hn H.
  destruct (find_docs c f s) as [[c0 l]|e] eqn:E.
  - apply find_docs_id in E; [ | exact Hn ]. subst c0. dm H; inv_pair H; reflexivity.
  - inv_pair H. reflexivity.
Qed.

Lemma find_one_id c f p s c1 r : AllAlive c -> find_one c f p s = (c1, r) -> c1 = c.
Proof.
  unfold find_one. intros Hn H.
  destruct (find_op c f p s 0 0) as [c0 r0] eqn:E.
  apply find_op_id in E; [ | exact Hn ]. subst c0.
  repeat dm H; inv_pair H; reflexivity.
Qed.

(* a unique check that read the store has expired it successfully *)
Lemma ensure_uniques_l_touched : forall is c new t,
  ensure_uniques_l is c new t = Ok true -> t = true \/ exists c', expire c = Ok c'.
Proof.
  induction is as [ | i is IH ]; simpl; intros c new t H.
  - inv_pair H. left. reflexivity.
  - destruct (negb (iunique i)); [ eauto | ].
    destruct (index_query i new) as [q|e]; simpl in H; [ | discriminate ].
    match type of H with (if ?b then _ else _) = _ => destruct b end; [ eauto | ].
    match type of H with context [iter_documents c ?q'] =>
      destruct (iter_documents c q') as [r|e] eqn:E end; simpl in H; [ | discriminate ].
    right. unfold iter_documents in E. destruct (expire c) as [c'|e]; [ eauto | discriminate ].
Qed.

Lemma ensure_then_expire c new touched e :
  ensure_uniques c new = Ok touched -> expire_if touched c = Err e -> False.
Proof.
  intros H1 H2. destruct touched; simpl in H2; [ | discriminate ].
  apply ensure_uniques_l_touched in H1. destruct H1 as [H1 | [c' H1]]; congruence.
Qed.

(* ---------------------------------------------------------------- no unique index: no check *)
Lemma ensure_uniques_l_none : forall is c new t, NoUnique is -> ensure_uniques_l is c new t = Ok t.
Proof.
  induction is as [ | i is IH ]; simpl; intros c new t Hn; [ reflexivity | ].
  rewrite (Hn i (or_introl eq_refl)). simpl. apply IH. intros j Hj. apply Hn. right. exact Hj.
Qed.

Lemma ensure_uniques_none c new : NoUnique (idx c) -> ensure_uniques c new = Ok false.
Proof. unfold ensure_uniques. apply ensure_uniques_l_none. Qed.

(* ---------------------------------------------------------------- store algebra *)
Lemma store_del_notfound k l :
  Forall (fun kd => py_eq (fst kd) k = false) l -> store_del k l = l.
Proof.
  induction 1 as [ | [k' d'] l Hx _ IH ]; simpl; [ reflexivity | ].
  simpl in Hx. rewrite Hx, IH. reflexivity.
Qed.

Lemma store_del_app_end k d l :
  Forall (fun kd => py_eq (fst kd) k = false) l -> py_eq k k = true ->
  store_del k (l ++ [(k, d)]) = l.
Proof.
  intros Hf Hk. induction Hf as [ | [k' d'] l Hx _ IH ]; simpl.
  - rewrite Hk. reflexivity.
  - simpl in Hx. rewrite Hx, IH. reflexivity.
Qed.

Lemma store_set_set k d d' : forall pre post,
  store_nd (pre ++ (k, d) :: post) -> py_eq k k = true ->
  store_set k d (store_set k d' (pre ++ (k, d) :: post)) = pre ++ (k, d) :: post.
Proof.
  induction pre as [ | [k0 d0] pre IH ]; simpl; intros post Hnd Hk.
  - rewrite Hk. simpl. rewrite Hk. reflexivity.
  - destruct Hnd as [Hf Hnd]. apply Forall_app in Hf. destruct Hf as [_ Hf].
    inversion Hf as [ | ? ? Hk0 _ ]; subst. simpl in Hk0.
    rewrite Hk0. simpl. rewrite Hk0. rewrite IH by assumption. reflexivity.
Qed.

(* ---------------------------------------------------------------- insert *)
Lemma insert_doc_fail c d c' e :
  insert_doc c d = (c', Err e) -> AllAlive c -> all_refl (docs c') -> same_vis c c'.
Proof.
  unfold insert_doc. intros H Hn Hr.
  destruct d as [ | | | | | | | fs | ]; try (inv_pair H; apply same_vis_refl).
  set (t := match assoc "_id" fs with
            | Some i => (c, fs, patch i)
            | None => (mkColl (docs c) (idx c) (forced c) (next_oid c + 1) (now c) (odocs c),
                       fs ++ [("_id", VOid (next_oid c))], VOid (next_oid c))
            end) in H.
  assert (Ht : same_vis c (fst (fst t))).
  { subst t. destruct (assoc "_id" fs); simpl; repeat split. }
  destruct t as [[c0 fs1] id]. simpl in Ht.
  assert (Hn0 : AllAlive c0) by eauto using same_vis_alive.
  destruct (negb (id_modelled id)).
  { destruct id; inv_pair H; assumption. }
  destruct (expire c0) as [c1|e1] eqn:E1; [ | inv_pair H; assumption ].
  apply expire_alive in E1; [ | exact Hn0 ]. subst c1.
  destruct (store_get id (docs c0)) eqn:Eg; [ inv_pair H; assumption | ].
  set (data := patch (VDoc fs1)) in *.
  set (c2 := with_docs_w c0 (docs c0 ++ [(id, data)])) in *.
  destruct (ensure_uniques c2 data) as [touched|e0] eqn:Eu.
  - destruct (expire_if touched c2) as [c3|e3] eqn:E3; [ discriminate | ].
    exfalso. eauto using ensure_then_expire.
  - destruct (expire c2) as [c3|e3] eqn:E3; [ | inv_pair H; assumption ].
    inv_pair H. apply expire_char in E3. subst c3.
    apply store_get_none in Eg.
    eapply same_vis_trans; [ exact Ht | ].
    apply ensure_uniques_err in Eu. change (idx c2) with (idx c0) in Eu.
    match goal with |- same_vis c0 ?cc =>
      assert (Hd : docs cc = docs c0 -> same_vis c0 cc)
        by (apply same_vis_docs; [ reflexivity | reflexivity | exact Eu ]) end.
    apply Hd. clear Hd. simpl. simpl in Hr.
    rewrite filter_app in *. rewrite (filter_all_true _ (docs c0)) in * by exact Hn0.
    simpl in *.
    destruct (alive (idx c0) (now c0) (id, data)).
    + destruct (py_eq id id) eqn:Eid.
      * apply store_del_app_end; assumption.
      * exfalso. rewrite store_del_notfound in Hr.
        -- apply Forall_app in Hr. destruct Hr as [_ Hr]. inversion Hr as [ | ? ? Hx _ ]; subst.
           simpl in Hx. congruence.
        -- apply Forall_app. split; [ exact Eg | constructor; [ exact Eid | constructor ] ].
    + rewrite app_nil_r. apply store_del_notfound. exact Eg.
Qed.

Lemma insert_one_fail c d c' e :
  insert_one c d = (c', Err e) -> AllAlive c -> all_refl (docs c') -> same_vis c c'.
Proof.
  unfold insert_one. intros H Hn Hr. destruct (insert_doc c d) as [c0 r0] eqn:E.
  inv_pair H. destruct r0 as [id|e0]; simpl in *; [ discriminate | ].
  eauto using insert_doc_fail.
Qed.

(* ---------------------------------------------------------------- the update loop *)
Lemma update_loop_fail c spec upd e c' : forall todo pre m md,
  docs c = pre ++ todo -> store_nd (docs c) -> all_refl (docs c) ->
  (e = EUnmodelled -> NoUnique (idx c)) ->
  (NoUnique (idx c) \/ NoTTL (idx c)) ->
  update_loop c spec upd false todo m md = (c', Err e) -> same_vis c c'.
Proof.
  induction todo as [ | [k d] todo IH ]; simpl; intros pre m md Hd Hnd Hr Hu Hn H.
  - discriminate.
  - destruct (filter_applies spec d) as [[|]|e0]; [ | | inv_pair H; apply same_vis_refl ].
    2:{ eapply (IH (pre ++ [(k, d)])); eauto. rewrite <- app_assoc. exact Hd. }
    destruct (apply_update spec upd false (now c) d) as [d'|e0]; [ | inv_pair H; apply same_vis_refl ].
    destruct (negb (negb (py_eq d' d))).
    { destruct (negb (value_eqb d' d) && py_in k (odocs c)); [ inv_pair H; apply same_vis_refl | ].
      discriminate. }
    match type of H with (if negb ?s then _ else _) = _ => destruct (negb s) end;
      [ inv_pair H; apply same_vis_refl | ].
    destruct (match d with VDoc fs => assoc "_id" fs | _ => None end);
      [ | inv_pair H; apply same_vis_refl ].
    set (c1 := with_docs_w c (store_set k d' (docs c))) in *.
    destruct (ensure_uniques c1 d') as [touched|e0] eqn:Eu.
    + destruct (expire_if touched c1) as [c2|e2] eqn:E2; [ discriminate | ].
      exfalso. eauto using ensure_then_expire.
    + assert (Hk : py_eq k k = true).
      { rewrite Hd in Hr. apply Forall_app in Hr. destruct Hr as [_ Hr].
        inversion Hr as [ | ? ? Hx _ ]; subst. exact Hx. }
      destruct Hn as [Hnu | Hnt].
      { rewrite (ensure_uniques_none c1 d' Hnu) in Eu. discriminate. }
      (* the rollback restores the store: without TTL index nothing expires in between *)
      assert (Hroll : forall e1,
                (match expire c1 with
                 | Ok c2 => (with_docs c2 (store_set k d (docs c2)), @Err (Z * Z) e1)
                 | Err _ => (c, Err e1)
                 end) = (c', Err e) -> same_vis c c').
      { intros e1 H'. rewrite (expire_id c1 Hnt) in H'. inv_pair H'.
        apply ensure_uniques_err in Eu. change (idx c1) with (idx c) in Eu.
        apply same_vis_docs; [ reflexivity | reflexivity | exact Eu | ]. simpl.
        rewrite Hd. rewrite store_set_set; [ reflexivity | rewrite <- Hd; exact Hnd | exact Hk ]. }
      destruct e0; try (eapply Hroll; exact H).
      (* the uniqueness check left the model: only without unique index, where it cannot *)
      inv_pair H. exfalso.
      rewrite (ensure_uniques_none c1 d' (Hu eq_refl)) in Eu. discriminate.
Qed.

Lemma update_loop_ok_same : forall todo c spec upd multi m md c' m' md',
  update_loop c spec upd multi todo m md = (c', Ok (m', md')) -> m <= m' /\ (m' = m -> c' = c).
Proof.
  induction todo as [ | [k d] todo IH ]; simpl; intros c spec upd multi m md c' m' md' H.
  - inv_pair H. split; [ lia | reflexivity ].
  - destruct (filter_applies spec d) as [[|]|e0]; [ | eauto | discriminate ].
    destruct (apply_update spec upd false (now c) d) as [d'|e0]; [ | discriminate ].
    destruct (negb (negb (py_eq d' d))).
    { destruct (negb (value_eqb d' d) && py_in k (odocs c)); [ discriminate | ].
      destruct multi.
      - apply IH in H. destruct H as [H1 H2]. split; [ lia | intros; lia ].
      - inv_pair H. split; [ lia | intros; lia ]. }
    match type of H with (if negb ?s then _ else _) = _ => destruct (negb s) end; [ discriminate | ].
    destruct (match d with VDoc fs => assoc "_id" fs | _ => None end); [ | discriminate ].
    set (c1 := with_docs_w c (store_set k d' (docs c))) in *.
    destruct (ensure_uniques c1 d') as [touched|e0] eqn:Eu.
    + destruct (expire_if touched c1) as [c2|e0]; [ | discriminate ].
      destruct multi.
      * apply IH in H. destruct H as [H1 H2]. split; [ lia | intros; lia ].
      * inv_pair H. split; [ lia | intros; lia ].
    + destruct e0; try discriminate; destruct (expire c1); discriminate.
Qed.

(* ---------------------------------------------------------------- update / replace *)
Lemma update_fail pre5 c f u upsert c' e :
  update pre5 c f u false upsert = (c', Err e) ->
  store_nd (docs c) -> all_refl (docs c) -> all_refl (docs c') -> AllAlive c ->
  (e = EUnmodelled -> NoUnique (idx c)) ->
  (NoUnique (idx c) \/ NoTTL (idx c)) -> same_vis c c'.
Proof.
  unfold update. intros H Hi Hr Hr' Hn Hu Ht.
  destruct (patch f) as [ | | | | | | | sfs | ]; try (inv_pair H; apply same_vis_refl).
  destruct (patch u) as [ | | | | | | | ufs | ]; try (inv_pair H; apply same_vis_refl).
  destruct (empty_operator pre5 (VDoc ufs)); [ inv_pair H; apply same_vis_refl | ].
  destruct (expire c) as [c1|e1] eqn:E1; [ | inv_pair H; apply same_vis_refl ].
  apply expire_alive in E1; [ | exact Hn ]. subst c1.
  match type of H with (match ?x with Ok _ => _ | Err _ => _ end) = _ => destruct x end;
    [ | inv_pair H; apply same_vis_refl ].
  destruct (update_loop c (VDoc sfs) (VDoc ufs) false (docs c) 0 0) as [c2 r2] eqn:El.
  destruct r2 as [[matched modified]|e0].
  2:{ inv_pair H. eapply (update_loop_fail c _ _ _ _ (docs c) []); eauto. }
  destruct (negb upsert || negb (matched =?? 0)) eqn:Eb; [ discriminate | ].
  apply update_loop_ok_same in El. destruct El as [_ El].
  apply orb_false_iff in Eb. destruct Eb as [_ Eb]. apply negb_false_iff in Eb.
  apply Z.eqb_eq in Eb. specialize (El Eb). subst c2.
  match type of H with (let '(c3, id) := ?t in _) = _ => set (t3 := t) in H end.
  assert (H3 : same_vis c (fst t3)).
  { subst t3. repeat match goal with |- context [match ?x with _ => _ end] => destruct x end;
      simpl; repeat split. }
  destruct t3 as [c3 id]. simpl in H3.
  destruct (expand_dots (set_key "_id" id sfs)) as [expanded|e0]; [ | inv_pair H; assumption ].
  match type of H with (match ?x with Ok _ => _ | Err _ => _ end) = _ => destruct x as [d'|e0] end;
    [ | inv_pair H; assumption ].
  destruct (insert_doc c3 d') as [c4 ir] eqn:E4.
  destruct ir as [new_id|e0]; [ discriminate | ]. inv_pair H.
  eapply same_vis_trans; [ exact H3 | ].
  eapply insert_doc_fail; eauto.
  eapply same_vis_alive; [ exact H3 | exact Hn ].
Qed.

Lemma update_op_fail pre5 c f u upsert c' e :
  update_op pre5 c f u false upsert = (c', Err e) ->
  store_nd (docs c) -> all_refl (docs c) -> all_refl (docs c') -> AllAlive c ->
  (e = EUnmodelled -> NoUnique (idx c)) ->
  (NoUnique (idx c) \/ NoTTL (idx c)) -> same_vis c c'.
Proof.
  unfold update_op. intros H.
  destruct u; try (inv_pair H; intros; apply same_vis_refl).
  destruct (first_key_dollar (VDoc fs)) as [[|]|]; try (inv_pair H; intros; apply same_vis_refl).
  eauto using update_fail.
Qed.

Lemma replace_op_fail pre5 c f u upsert c' e :
  replace_op pre5 c f u upsert = (c', Err e) ->
  store_nd (docs c) -> all_refl (docs c) -> all_refl (docs c') -> AllAlive c ->
  (e = EUnmodelled -> NoUnique (idx c)) ->
  (NoUnique (idx c) \/ NoTTL (idx c)) -> same_vis c c'.
Proof.
  unfold replace_op. intros H.
  destruct u; try (inv_pair H; intros; apply same_vis_refl).
  destruct (first_key_dollar (VDoc fs)) as [[|]|]; try (inv_pair H; intros; apply same_vis_refl);
    eauto using update_fail.
Qed.

(* ---------------------------------------------------------------- delete (one document) *)
Lemma delete_op_fail c f c' e :
  delete_op c f false = (c', Err e) -> AllAlive c -> c' = c.
Proof.
  unfold delete_op. intros H Hn.
  destruct f; try (inv_pair H; reflexivity).
  destruct (find_docs c (VDoc fs) []) as [[c1 l]|e0] eqn:E; [ | inv_pair H; reflexivity ].
  apply find_docs_id in E; [ | exact Hn ]. subst c1.
  destruct (delete_go c l false 0) as [c2 r2] eqn:Ed.
  inv_pair H. destruct r2 as [n|e0]; simpl in *; [ discriminate | ].
  destruct l as [ | d l ]; simpl in Ed; [ discriminate | ].
  repeat dm Ed; inv_pair Ed; reflexivity.
Qed.

(* ---------------------------------------------------------------- find_one_and_* *)
Definition fam_after (k : fam_kind) : bool :=
  match k with FamDelete => false | FamUpdate _ _ a | FamReplace _ _ a => a end.
Definition fam_is_update (k : fam_kind) : bool :=
  match k with FamDelete => false | _ => true end.

Lemma find_and_modify_fail pre5 c f proj sort k c' e :
  find_and_modify pre5 c f proj sort k = (c', Err e) ->
  store_nd (docs c) -> all_refl (docs c) -> all_refl (docs c') -> AllAlive c ->
  (fam_is_update k = true -> NoUnique (idx c) \/ NoTTL (idx c)) ->
  (e = EUnmodelled -> fam_is_update k = true -> NoUnique (idx c)) ->
  fam_after k = false -> same_vis c c'.
Proof.
  unfold find_and_modify. intros H Hi Hr Hr' Hn Hnt Hu Ha.
  destruct f; try (inv_pair H; apply same_vis_refl).
  match type of H with (match ?v with Ok _ => _ | Err _ => _ end) = _ => destruct v end;
    [ | inv_pair H; apply same_vis_refl ].
  match type of H with (if ?b then _ else _) = _ => destruct b end;
    [ inv_pair H; apply same_vis_refl | ].
  destruct (find_one c (VDoc fs) None sort) as [c1 r1] eqn:E1.
  apply find_one_id in E1; [ | exact Hn ]. subst c1.
  destruct r1 as [target|e0]; [ | inv_pair H; apply same_vis_refl ].
  set (upsert := match k with FamDelete => false | FamUpdate _ u _ | FamReplace _ u _ => u end) in H.
  assert (Hgo : forall query,
    (let '(c2, old_r) := match target with
                         | Some _ => find_one c query proj []
                         | None => (c, Ok None)
                         end in
     match old_r with
     | Err e => (c2, Err e)
     | Ok old =>
         let '(c3, wr, query') :=
           match k with
           | FamDelete => let '(c', r) := delete_op c2 query false in (c', r, query)
           | FamUpdate u _ _ | FamReplace u _ _ =>
               let '(c', r) := update pre5 c2 query u false upsert in
               (c', r,
                match r with
                | Ok (VDoc rfs) => match assoc "upserted_id" rfs with
                                   | Some i => if truthy i then VDoc [("_id", i)] else query
                                   | None => query end
                | _ => query
                end)
           end in
         match wr with
         | Err e => (c3, Err e)
         | Ok _ =>
             if match k with FamDelete => false | FamUpdate _ _ a | FamReplace _ _ a => a end then
               match find_one c3 query' proj [] with
               | (c4, Ok r) => (c4, Ok (opt_to_value r))
               | (c4, Err e) => (c4, Err e)
               end
             else (c3, Ok (opt_to_value old))
         end
     end) = (c', Err e) -> same_vis c c').
  { intros query Hq.
    match type of Hq with (match ?t with _ => _ end) = _ => destruct t as [c2 old_r] eqn:E2 end.
    assert (H2 : c2 = c).
    { destruct target; [ eapply find_one_id; eauto | inv_pair E2; reflexivity ]. }
    subst c2.
    destruct old_r as [old|e0]; [ | inv_pair Hq; apply same_vis_refl ].
    match type of Hq with (match ?t with _ => _ end) = _ =>
      destruct t as [[c3 wr] query'] eqn:E3 end.
    destruct wr as [w|e0].
    { unfold fam_after in Ha. rewrite Ha in Hq. discriminate. }
    inv_pair Hq.
    destruct k.
    - destruct (delete_op c query false) as [cx rx] eqn:Ex. inv_pair E3.
      apply delete_op_fail in Ex; [ | exact Hn ]. subst. apply same_vis_refl.
    - destruct (update pre5 c query u false upsert) as [cx rx] eqn:Ex. inv_pair E3.
      eapply update_fail; eauto.
    - destruct (update pre5 c query r false upsert) as [cx rx] eqn:Ex. inv_pair E3.
      eapply update_fail; eauto. }
  destruct target as [t|]; [ | destruct upsert eqn:Eup ].
  - match type of H with (match ?q with Some _ => _ | None => _ end) = _ => destruct q as [query|] end;
      [ | inv_pair H; apply same_vis_refl ].
    eapply Hgo. exact H.
  - eapply Hgo. exact H.
  - discriminate.
Qed.
