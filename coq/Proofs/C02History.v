(* C02 proofs, part 9: the history theorem, relative to the state invariant being kept by
   every operation of the history (hypothesis [reach_inv]) and to the mocked clock being
   changed by OSetClock only (hypothesis [clock_ok]). *)
From Coq Require Import ZArith List String Bool Ascii Lia.
From Verif Require Import Value PyEq BsonOrder Path Filter FilterSpec Update Project Coll
                          HistCheck HistProps ProjectSpec Cursor UpdateLaws.
From Verif.Proofs Require Import C01Values C12Base C02Base C02Store C02Step.
Import ListNotations.
Open Scope Z_scope.
Open Scope string_scope.
Open Scope list_scope.

(* the invariant holds in every state the history reaches from c *)
Definition reach_inv (pre5 : bool) (c : coll) (ops : list op) : Prop :=
  forall ops1 ops2, ops = ops1 ++ ops2 -> Inv (final pre5 c ops1).

(* only OSetClock moves the clock *)
Definition clock_ok (pre5 : bool) (c : coll) (ops : list op) : Prop :=
  forall ops1 o ops2, ops = ops1 ++ o :: ops2 ->
    now (fst (step pre5 (final pre5 c ops1) o))
    = match o with OSetClock t => t | _ => now (final pre5 c ops1) end.

(* the documents and filters an operation can put into the store are Python dicts: no
   duplicate keys in any sub-document (the values of the model are association lists) *)
Definition fam_wf (k : fam_kind) : Prop :=
  match k with
  | FamDelete => True
  | FamUpdate u _ _ => wf_value u = true
  | FamReplace r _ _ => wf_value r = true
  end.
Definition req_wf (r : bulk_req) : Prop :=
  match r with
  | BInsert d => wf_value d = true
  | BUpdate f u _ _ => wf_value f = true /\ wf_value u = true
  | BReplace f r _ => wf_value f = true /\ wf_value r = true
  | BDelete _ _ => True
  end.
Definition op_wf (o : op) : Prop :=
  match o with
  | OInsertOne d => wf_value d = true
  | OInsertMany ds _ => Forall (fun d => wf_value d = true) ds
  | OUpdate f u _ _ => wf_value f = true /\ wf_value u = true
  | OReplace f r _ => wf_value f = true /\ wf_value r = true
  | OFindAndModify f _ _ k => wf_value f = true /\ fam_wf k
  | OBulk rs _ => Forall req_wf rs
  | _ => True
  end.

Lemma reach_inv_here pre5 c ops : reach_inv pre5 c ops -> Inv c.
Proof. intro H. apply (H [] ops). reflexivity. Qed.

Lemma reach_inv_next pre5 c o ops :
  reach_inv pre5 c (o :: ops) -> reach_inv pre5 (fst (step pre5 c o)) ops.
Proof. intros H ops1 ops2 E. apply (H (o :: ops1) ops2). rewrite E. reflexivity. Qed.

Lemma clock_ok_here pre5 c o ops :
  clock_ok pre5 c (o :: ops) ->
  now (fst (step pre5 c o)) = match o with OSetClock t => t | _ => now c end.
Proof. intro H. apply (H [] o ops). reflexivity. Qed.

Lemma clock_ok_next pre5 c o ops :
  clock_ok pre5 c (o :: ops) -> clock_ok pre5 (fst (step pre5 c o)) ops.
Proof. intros H ops1 o' ops2 E. apply (H (o :: ops1) o' ops2). rewrite E. reflexivity. Qed.

Definition p16 (s : store) (o : op) : bool :=
  match o with
  | OUpdate f u _ _ => existsb (fun kd => matched f (snd kd) && negb (fits_all u (snd kd))) s
  | _ => false end.
Definition p32 (s : store) (o : op) : bool :=
  match o with
  | OUpdate f u _ _ => existsb (fun kd => matched f (snd kd) && minmax_cross u (snd kd)) s
  | _ => false end.
Definition p64 (s : store) (o : op) : bool :=
  match o with
  | OUpdate f u _ _ => existsb (fun kd => matched f (snd kd) && addtoset_cross u (snd kd)) s
  | _ => false end.
Definition p128 (s : store) (o : op) : bool :=
  match o with
  | OReplace f r _ =>
      existsb (fun kd => matched f (snd kd) && replace_id_risk (patch f) (patch r) (snd kd)) s
  | _ => false end.
Definition b1 (o : op) : bool :=
  match o with OUpdate _ u _ _ => collide (addressed u) | _ => false end.
Definition b8 (o : op) : bool :=
  match o with OUpdate _ u _ _ => negb (canon_paths u) | _ => false end.

Lemma guard_at (g : value -> bool) (f : value) (s : store) (k d : value) :
  existsb (fun kd => matched f (snd kd) && g (snd kd)) s = false ->
  In (k, d) s -> matched f d = true -> g d = false.
Proof.
  intros H Hin Hm. pose proof (existsb_false_In _ _ H (k, d) Hin) as E. simpl in E.
  rewrite Hm in E. exact E.
Qed.

Lemma trace_sound pre5 : forall ops c i,
  reach_inv pre5 c ops -> clock_ok pre5 c ops -> Forall op_wf ops ->
  existsb b1 ops = false -> existsb b8 ops = false ->
  any_step p16 (docs c) ops (model_obs pre5 c ops) = false ->
  any_step p32 (docs c) ops (model_obs pre5 c ops) = false ->
  any_step p64 (docs c) ops (model_obs pre5 c ops) = false ->
  any_step p128 (docs c) ops (model_obs pre5 c ops) = false ->
  trace_all c02_step (mkCtx (docs c) i (now c)) ops (model_obs pre5 c ops) = true.
Proof.
  induction ops as [|o ops IH]; intros c i Hinv Hclk Hwf H1 H8 H16 H32 H64 H128; [reflexivity|].
  pose proof (reach_inv_here _ _ _ Hinv) as HI.
  pose proof (clock_ok_here _ _ _ _ Hclk) as Hnow.
  inversion Hwf as [|? ? Hwo Hwf']; subst.
  simpl in H1, H8. apply orb_false_iff in H1. destruct H1 as [H1o H1].
  apply orb_false_iff in H8. destruct H8 as [H8o H8].
  cbn [model_obs] in *. destruct (step pre5 c o) as [c' r] eqn:Es. cbn [fst] in *.
  cbn [any_step] in H16, H32, H64, H128.
  apply orb_false_iff in H16. destruct H16 as [H16o H16].
  apply orb_false_iff in H32. destruct H32 as [H32o H32].
  apply orb_false_iff in H64. destruct H64 as [H64o H64].
  apply orb_false_iff in H128. destruct H128 as [H128o H128].
  cbn [trace_all x_now]. apply andb_true_iff. split.
  - destruct o; try (unfold c02_step; destruct r; reflexivity).
    + (* update *)
      eapply c02_step_update; [exact HI | exact (proj2 Hwo) | exact H1o | | | exact Es].
      * simpl in H8o. apply negb_false_iff in H8o. exact H8o.
      * intros k d Hin Hm. simpl in H16o, H32o, H64o. split; [|split].
        -- pose proof (guard_at (fun d => negb (fits_all u d)) _ _ _ _ H16o Hin Hm) as E.
           apply negb_false_iff in E. exact E.
        -- exact (guard_at (minmax_cross u) _ _ _ _ H32o Hin Hm).
        -- exact (guard_at (addtoset_cross u) _ _ _ _ H64o Hin Hm).
    + (* replace *)
      eapply c02_step_replace; [exact HI | exact (proj2 Hwo) | | exact Es].
      intros k d Hin Hm. simpl in H128o.
      exact (guard_at (replace_id_risk (patch f) (patch r0)) _ _ _ _ H128o Hin Hm).
  - rewrite <- Hnow.
    pose proof (reach_inv_next _ _ _ _ Hinv) as Hinv'. rewrite Es in Hinv'.
    pose proof (clock_ok_next _ _ _ _ Hclk) as Hclk'. rewrite Es in Hclk'.
    apply IH; assumption.
Qed.

Lemma reasons_zero ops os :
  c02_reasons ops os = 0 ->
  existsb b1 ops = false /\ existsb b8 ops = false /\
  any_step p16 [] ops os = false /\ any_step p32 [] ops os = false /\
  any_step p64 [] ops os = false /\ any_step p128 [] ops os = false.
Proof.
  unfold c02_reasons. fold b1 b8 p16 p32 p64 p128. intro H.
  destruct (existsb b1 ops); [exfalso|];
  destruct (existsb _ ops) in H; destruct (existsb _ ops) in H;
  destruct (existsb b8 ops); destruct (any_step p16 [] ops os); destruct (any_step p32 [] ops os);
  destruct (any_step p64 [] ops os); destruct (any_step p128 [] ops os);
  try lia; repeat split; reflexivity.
Qed.

Theorem history_sound_partial : forall pre5 ops,
  reach_inv pre5 empty_coll ops -> clock_ok pre5 empty_coll ops -> Forall op_wf ops ->
  c02_reasons ops (model_obs pre5 empty_coll ops) = 0 ->
  c02_ok ops (model_obs pre5 empty_coll ops) = true.
Proof.
  intros pre5 ops Hinv Hclk Hwf Hr.
  destruct (reasons_zero _ _ Hr) as [H1 [H8 [H16 [H32 [H64 H128]]]]].
  unfold c02_ok, ctx0.
  exact (trace_sound pre5 ops empty_coll (VDoc []) Hinv Hclk Hwf H1 H8 H16 H32 H64 H128).
Qed.
