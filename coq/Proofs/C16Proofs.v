(* C16 -- aggregation is read-only and repeatable, $out replaces the target, and the model's
   own runs satisfy the predicate c16_ok evaluated on the observed runs. *)
From Coq Require Import ZArith List String Bool Ascii Lia.
From Verif Require Import Value PyEq BsonOrder Path Update Filter Coll Expr Pipeline PipelineSpec AggState AggStateSpec.
From Verif Require Import C05Values C16Base C16Facet.
Import ListNotations.
Open Scope Z_scope.
Open Scope string_scope.
Open Scope list_scope.

Ltac dmatch :=
  repeat match goal with
         | |- context [match ?x with _ => _ end] => destruct x; try reflexivity; try discriminate
         end.

(* ------------------------------------------------------------------ split_out *)
Lemma split_out_app_out body t : split_out (body ++ [VDoc [("$out", t)]]) = (body, Some t).
Proof. unfold split_out. rewrite rev_unit, rev_involutive. reflexivity. Qed.

Lemma split_out_cases stages :
  split_out stages = (stages, None) \/
  exists body t, stages = body ++ [VDoc [("$out", t)]] /\ split_out stages = (body, Some t).
Proof.
  destruct (rev stages) as [|st r] eqn:E.
  - left. unfold split_out. rewrite E. reflexivity.
  - assert (Hs : stages = rev r ++ [st]).
    { rewrite <- (rev_involutive stages), E. reflexivity. }
    destruct st as [| | | | | | |fs|]; try (left; unfold split_out; rewrite E; reflexivity).
    destruct fs as [|[k t] tl]; try (left; unfold split_out; rewrite E; reflexivity).
    destruct (String.eqb k "$out") eqn:Ek.
    + apply String.eqb_eq in Ek. subst k.
      destruct tl as [|kv tl]; [|left; unfold split_out; rewrite E; reflexivity].
      right. exists (rev r), t.
      split; [exact Hs|]. rewrite Hs. apply split_out_app_out.
    + left. unfold split_out. rewrite E.
      repeat match goal with
             | |- context [match ?x with _ => _ end] => destruct x; try reflexivity
             end.
      rewrite String.eqb_refl in Ek. discriminate Ek.
Qed.

Lemma split_out_None stages : snd (split_out stages) = None -> split_out stages = (stages, None).
Proof.
  intros H. destruct (split_out_cases stages) as [H0|[body [t [_ H1]]]]; [exact H0|].
  rewrite H1 in H. discriminate H.
Qed.

Lemma split_out_Some stages body t :
  split_out stages = (body, Some t) -> stages = body ++ [VDoc [("$out", t)]].
Proof.
  intros H. destruct (split_out_cases stages) as [H0|[body' [t' [Hs H1]]]].
  - rewrite H0 in H. discriminate H.
  - rewrite H1 in H. injection H as <- <-. exact Hs.
Qed.

(* ------------------------------------------------------------------ unfolding agg_world *)
Lemma agg_world_not_array w src p :
  (forall stages, p <> VArr stages) -> agg_world w src p = (w, Err EUnmodelled).
Proof. intros H. destruct p; try reflexivity. exfalso. exact (H xs eq_refl). Qed.

Lemma agg_world_no_out w src stages :
  snd (split_out stages) = None ->
  agg_world w src (VArr stages) = (w, run_pipeline w stages (coll_docs w src)).
Proof. intros H. unfold agg_world. rewrite (split_out_None _ H). reflexivity. Qed.

Lemma agg_world_out w src stages body t :
  split_out stages = (body, Some (VStr t)) ->
  agg_world w src (VArr stages) =
  match run_pipeline w body (coll_docs w src) with
  | Err e => (w, Err e)
  | Ok outdocs => (set_key t (fst (insert_all [] outdocs)) w,
                   match snd (insert_all [] outdocs) with Ok _ => Ok outdocs | Err e => Err e end)
  end.
Proof.
  intros H. unfold agg_world. rewrite H.
  destruct (run_pipeline w body (coll_docs w src)) as [outdocs|e]; [|reflexivity].
  destruct (insert_all [] outdocs) as [stored r]. reflexivity.
Qed.

Lemma agg_world_bad_out w src stages body t :
  split_out stages = (body, Some t) -> (forall s, t <> VStr s) ->
  agg_world w src (VArr stages) = (w, Err EUnmodelled).
Proof.
  intros H Ht. unfold agg_world. rewrite H. destruct t; try reflexivity. exfalso. exact (Ht s eq_refl).
Qed.

(* ------------------------------------------------------------------ 1. read-only *)
Theorem agg_read_only w src stages :
  snd (split_out stages) = None -> fst (agg_world w src (VArr stages)) = w.
Proof. intros H. rewrite (agg_world_no_out _ _ _ H). reflexivity. Qed.

(* a failing body never touches the world, whatever the last stage is *)
Theorem agg_body_fails w src stages e :
  run_pipeline w (fst (split_out stages)) (coll_docs w src) = Err e ->
  fst (agg_world w src (VArr stages)) = w /\ exists e', snd (agg_world w src (VArr stages)) = Err e'.
Proof.
  intros H. unfold agg_world. destruct (split_out stages) as [body [t|]]; simpl in H.
  - destruct t; try (split; [reflexivity|exists EUnmodelled; reflexivity]).
    rewrite H. split; [reflexivity|exists e; reflexivity].
  - rewrite H. split; [reflexivity|exists e; reflexivity].
Qed.

(* the only way the world moves: the pipeline is a list of stages ending in {$out: <string>}
   and the stages before it ran; then exactly the key t is (re)bound *)
Theorem agg_world_moves_only_by_out w src p :
  fst (agg_world w src p) = w \/
  exists body t outdocs,
    p = VArr (body ++ [VDoc [("$out", VStr t)]]) /\
    run_pipeline w body (coll_docs w src) = Ok outdocs /\
    fst (agg_world w src p) = set_key t (fst (insert_all [] outdocs)) w.
Proof.
  destruct p as [| | | | | | | |stages]; try (left; reflexivity).
  destruct (split_out_cases stages) as [H0|[body [t [Hs H1]]]].
  - left. apply agg_read_only. rewrite H0. reflexivity.
  - destruct t as [| | | |t| | | |]; try (left; unfold agg_world; rewrite H1; reflexivity).
    rewrite (agg_world_out _ _ _ _ _ H1).
    destruct (run_pipeline w body (coll_docs w src)) as [outdocs|e] eqn:Er; [|left; reflexivity].
    right. exists body, t, outdocs. rewrite Hs. split; [reflexivity|]. split; [exact Er|reflexivity].
Qed.

Corollary agg_error_without_out_result w src p e :
  snd (agg_world w src p) = Err e ->
  fst (agg_world w src p) = w \/
  exists body t outdocs,
    p = VArr (body ++ [VDoc [("$out", VStr t)]]) /\
    run_pipeline w body (coll_docs w src) = Ok outdocs /\
    exists e', snd (insert_all [] outdocs) = Err e'.
Proof.
  intros He. destruct (agg_world_moves_only_by_out w src p) as [H|[body [t [outdocs [Hp [Hr Hw]]]]]];
    [left; exact H|].
  right. exists body, t, outdocs. split; [exact Hp|]. split; [exact Hr|].
  subst p. rewrite (agg_world_out w src _ body t (split_out_app_out body (VStr t))), Hr in He.
  simpl in He. destruct (snd (insert_all [] outdocs)) as [u|e']; [discriminate He|exists e'; reflexivity].
Qed.

(* ------------------------------------------------------------------ 2. repeatable *)
Theorem agg_repeatable w src stages :
  snd (split_out stages) = None ->
  agg_world (fst (agg_world w src (VArr stages))) src (VArr stages) = agg_world w src (VArr stages).
Proof. intros H. rewrite (agg_read_only _ _ _ H). reflexivity. Qed.

Theorem agg_twice_same w src stages :
  snd (split_out stages) = None ->
  agg_twice w src (VArr stages) =
  ((w, run_pipeline w stages (coll_docs w src)), (w, run_pipeline w stages (coll_docs w src))).
Proof.
  intros H. unfold agg_twice. rewrite (agg_world_no_out _ _ _ H). cbn [fst].
  rewrite (agg_world_no_out _ _ _ H). reflexivity.
Qed.

(* any run that left the world alone is repeatable (non-list pipelines, failing bodies, ...) *)
Theorem agg_repeatable_gen w src p :
  fst (agg_world w src p) = w -> agg_twice w src p = (agg_world w src p, agg_world w src p).
Proof. intros H. unfold agg_twice. rewrite H. reflexivity. Qed.

(* ------------------------------------------------------------------ 3. $out *)
Theorem agg_out_replaces w src stages body t outdocs :
  split_out stages = (body, Some (VStr t)) ->
  run_pipeline w body (coll_docs w src) = Ok outdocs ->
  Forall storable outdocs -> ids_distinct outdocs ->
  agg_world w src (VArr stages) = (set_key t (map patch outdocs) w, Ok outdocs).
Proof.
  intros Hs Hr Hst Hdis. rewrite (agg_world_out _ _ _ _ _ Hs), Hr.
  rewrite (insert_all_ok_nil _ Hst Hdis). reflexivity.
Qed.

Corollary agg_out_target w src stages body t outdocs :
  split_out stages = (body, Some (VStr t)) ->
  run_pipeline w body (coll_docs w src) = Ok outdocs ->
  Forall storable outdocs -> ids_distinct outdocs ->
  coll_docs (fst (agg_world w src (VArr stages))) t = map patch outdocs.
Proof.
  intros Hs Hr Hst Hdis. rewrite (agg_out_replaces _ _ _ _ _ _ Hs Hr Hst Hdis). apply coll_docs_set_same.
Qed.

Corollary agg_out_passes_through w src stages body t outdocs :
  split_out stages = (body, Some (VStr t)) ->
  run_pipeline w body (coll_docs w src) = Ok outdocs ->
  Forall storable outdocs -> ids_distinct outdocs ->
  snd (agg_world w src (VArr stages)) = Ok outdocs.
Proof.
  intros Hs Hr Hst Hdis. rewrite (agg_out_replaces _ _ _ _ _ _ Hs Hr Hst Hdis). reflexivity.
Qed.

(* nothing else moves - this one needs no premise on the output at all *)
Theorem agg_out_others w src stages body t n :
  split_out stages = (body, Some (VStr t)) -> n <> t ->
  coll_docs (fst (agg_world w src (VArr stages))) n = coll_docs w n.
Proof.
  intros Hs Hn. rewrite (agg_world_out _ _ _ _ _ Hs).
  destruct (run_pipeline w body (coll_docs w src)); [|reflexivity].
  simpl. apply coll_docs_set_other. exact Hn.
Qed.

(* and no collection disappears from the catalogue of the model *)
Theorem agg_keys_kept w src p n : In n (map fst w) -> In n (map fst (fst (agg_world w src p))).
Proof.
  intros Hin.
  destruct (agg_world_moves_only_by_out w src p) as [H|[body [t [outdocs [_ [_ H]]]]]]; rewrite H;
    [exact Hin|apply set_key_keys_incl; exact Hin].
Qed.

(* an answer Ok of an aggregation with $out: the answer is the body's output and the target
   holds exactly its stored form (no premise on the ids: Ok says the insert went through) *)
Theorem agg_out_Ok_inv w src stages body t r :
  split_out stages = (body, Some (VStr t)) ->
  snd (agg_world w src (VArr stages)) = Ok r ->
  run_pipeline w body (coll_docs w src) = Ok r /\
  fst (agg_world w src (VArr stages)) = set_key t (map patch r) w /\
  Forall storable r.
Proof.
  intros Hs H. rewrite (agg_world_out _ _ _ _ _ Hs) in *.
  destruct (run_pipeline w body (coll_docs w src)) as [outdocs|e]; [|discriminate H]. simpl in *.
  destruct (insert_all [] outdocs) as [stored [u|e]] eqn:Ei; [|discriminate H]. simpl in *.
  injection H as <-. split; [reflexivity|].
  rewrite (insert_all_Ok_inv _ _ _ _ Ei). split; [reflexivity|].
  exact (insert_all_Ok_storable _ _ _ _ Ei).
Qed.

(* a duplicate _id in the output: BulkWriteError, the target holds the documents before the
   first duplicate *)
Theorem agg_out_duplicate w src stages body t pre d post a :
  split_out stages = (body, Some (VStr t)) ->
  run_pipeline w body (coll_docs w src) = Ok (pre ++ d :: post) ->
  Forall storable pre -> ids_distinct pre ->
  storable d -> In a pre -> clash a d ->
  agg_world w src (VArr stages) = (set_key t (map patch pre) w, Err EBulk).
Proof.
  intros Hs Hr Hst Hdis Hd Ha Hc. rewrite (agg_world_out _ _ _ _ _ Hs), Hr.
  rewrite (insert_all_dup pre d post a Hst Hdis Hd Ha Hc). reflexivity.
Qed.

(* in every case the target ends up holding the stored form of a prefix of the output *)
Theorem agg_out_prefix w src stages body t outdocs :
  split_out stages = (body, Some (VStr t)) ->
  run_pipeline w body (coll_docs w src) = Ok outdocs ->
  exists pre post, outdocs = pre ++ post /\
    fst (agg_world w src (VArr stages)) = set_key t (map patch pre) w /\
    match snd (agg_world w src (VArr stages)) with
    | Ok r => post = [] /\ r = outdocs
    | Err _ => post <> []
    end.
Proof.
  intros Hs Hr. rewrite (agg_world_out _ _ _ _ _ Hs), Hr.
  destruct (insert_all [] outdocs) as [stored r] eqn:Ei.
  destruct (insert_all_prefix _ _ _ _ Ei) as [pre [post [H1 [H2 H3]]]].
  exists pre, post. simpl in *. subst stored. split; [exact H1|]. split; [reflexivity|].
  destruct r; [split; [exact H3|reflexivity]|exact H3].
Qed.

(* ------------------------------------------------------------------ 5. the model satisfies c16_ok *)
Lemma world_eqb_refl w : world_eqb w w = true.
Proof.
  unfold world_eqb. simpl.
  rewrite !(list_eqb_refl value_eqb) by (apply Forall_forall; intros; apply value_eqb_refl).
  reflexivity.
Qed.

Lemma res_same_refl r : res_same r r = true.
Proof.
  destruct r; [|reflexivity]. simpl. apply list_eqb_refl. apply Forall_forall. intros. apply value_eqb_refl.
Qed.

Lemma list_eqb_patch r : list_eqb (fun a b => value_eqb (patch a) b) r (map patch r) = true.
Proof. induction r as [|x r IH]; [reflexivity|]. simpl. rewrite value_eqb_refl, IH. reflexivity. Qed.

(* the $sample clause of c16_ok: the model answers Err EUnmodelled on a lone $sample *)
Lemma sample_clause_model (w db : world) (stages l : list value) (r0 : res (list value)) :
  run_pipeline db stages l = r0 ->
  match stages, r0 with
  | [VDoc [("$sample", VDoc [("size", VInt n)])]], Ok r =>
      sub_bag r (coll_docs w "c")
      && Z.eqb (Z.of_nat (List.length r)) (Z.min (Z.max n 0) (Z.of_nat (List.length (coll_docs w "c"))))
  | _, _ => true
  end = true.
Proof.
  intros Hr.
  destruct stages as [|st [|st2 stages]]; try reflexivity; [|clear Hr; destruct st; try reflexivity; dmatch].
  destruct st as [| | | | | | |fs|]; try reflexivity.
  destruct fs as [|[k v] [|kv fs]]; try reflexivity; [|clear Hr; try reflexivity; dmatch].
  destruct (String.eqb k "$sample") eqn:Ek.
  - apply String.eqb_eq in Ek. subst k.
    assert (Hs : run_pipeline db [VDoc [("$sample", v)]] l = Err EUnmodelled).
    { rewrite run_pipeline_single. destruct v; reflexivity. }
    rewrite Hs in Hr. subst r0. clear Hs. dmatch.
  - clear Hr.
    repeat match goal with
           | |- context [match ?x with _ => _ end] =>
               tryif constr_eq x r0 then fail else (destruct x; try reflexivity)
           end.
    all: try (rewrite String.eqb_refl in Ek; discriminate Ek).
Qed.

Theorem model_c16_ok_gen w src p :
  c16_ok (mkC16 w p (snd (agg_world w src p)) (fst (agg_world w src p))
                (snd (agg_world (fst (agg_world w src p)) src p))
                (fst (agg_world (fst (agg_world w src p)) src p)) true true true) = true.
Proof.
  destruct p as [| | | | | | | |stages]; try reflexivity.
  destruct (split_out_cases stages) as [H0|[body [t [Hs H1]]]].
  - assert (Hn : snd (split_out stages) = None) by (rewrite H0; reflexivity).
    rewrite (agg_world_no_out _ _ _ Hn). cbn [fst snd]. rewrite (agg_world_no_out _ _ _ Hn).
    unfold c16_ok. cbn [q_pipeline fst snd]. rewrite H0.
    cbv beta iota delta [q_pipe_same q_facet_iso q_meta_same q_world q_world1 q_world2 q_res1 q_res2].
    rewrite world_eqb_refl, res_same_refl. cbn [andb].
    destruct (has_stage "$sample" stages); [|reflexivity].
    apply (sample_clause_model w w stages (coll_docs w src)). reflexivity.
  - unfold c16_ok. cbn [q_pipeline]. rewrite H1.
    cbv beta iota delta [q_pipe_same q_facet_iso q_meta_same q_world q_world1 q_world2 q_res1 q_res2].
    cbn [andb].
    destruct t as [| | | |t| | | |]; try reflexivity.
    destruct (snd (agg_world w src (VArr stages))) as [r|e] eqn:Er; [|reflexivity].
    destruct (agg_out_Ok_inv _ _ _ _ _ _ H1 Er) as [_ [Hw _]].
    rewrite Hw, coll_docs_set_same, list_eqb_patch. cbn [andb].
    unfold forallb.
    repeat match goal with
           | |- context [(?n =? t) || _] =>
               destruct (n =? t) eqn:?; cbn [orb];
               [|rewrite (coll_docs_set_other_b t n) by assumption;
                 rewrite (list_eqb_refl value_eqb) by (apply Forall_forall; intros; apply value_eqb_refl)]
           end; reflexivity.
Qed.

Theorem model_c16_ok w src p :
  let '((w1, r1), (w2, r2)) := agg_twice w src p in
  c16_ok (mkC16 w p r1 w1 r2 w2 true true true) = true.
Proof.
  pose proof (model_c16_ok_gen w src p) as H. unfold agg_twice.
  destruct (agg_world w src p) as [w1 r1]. simpl in *.
  destruct (agg_world w1 src p) as [w2 r2]. simpl in *. exact H.
Qed.

(* hence the only bits c16_check can raise on the model's own runs are "outside the model" *)
Theorem model_c16_check w p :
  let '((w1, r1), (w2, r2)) := agg_twice w "c" p in
  c16_check (mkC16 w p r1 w1 r2 w2 true true true) = 0 \/
  c16_check (mkC16 w p r1 w1 r2 w2 true true true) = 8.
Proof.
  pose proof (model_c16_ok w "c" p) as H.
  destruct (agg_twice w "c" p) as [[w1 r1] [w2 r2]] eqn:E.
  unfold c16_check. simpl q_world. simpl q_pipeline. rewrite E, H.
  cbv beta iota delta [q_pipe_same q_world1 q_world2 q_res1 q_res2].
  assert (Hres : forall r : res (list value), res_eqb (list_eqb value_eqb) r r = true).
  { intros [x|e]; simpl; [apply list_eqb_refl; apply Forall_forall; intros; apply value_eqb_refl|].
    destruct e; reflexivity. }
  rewrite !Hres, !world_eqb_refl. cbn [andb].
  match goal with |- context [if negb ?u && negb true then _ else _] => destruct u end; simpl; [right|left]; reflexivity.
Qed.
