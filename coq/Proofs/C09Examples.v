(* C09: the hypotheses of the theorems in Properties/C09.v are satisfiable on non-trivial
   histories. *)
From Coq Require Import ZArith List String Bool Ascii.
From Verif Require Import Value PyEq BsonOrder Path Filter Update Project Coll HistCheck HistProps
  HistGuards.
From Verif.Proofs Require Import C09Base C09Closure C09Step C09Ops C09History.
Import ListNotations.
Open Scope Z_scope.
Open Scope string_scope.
Open Scope list_scope.

(* a TTL index of 10 s on t, a compound TTL index and one with a non-numeric delay (both
   ignored); documents with a date, an array of dates, no date, a string; the clock moves
   forwards and backwards; reads, deletes, bulk inserts/deletes, find_one_and_delete, a unique
   index creation, index drops; updates and a replacement whose images stay alive while the TTL
   index is active, an upsert once no TTL spec is left *)
Definition ops_inside : list op :=
  [ OCreateIndex [("t", VInt 1)] false false (Some (VInt 10)) None None;
    OCreateIndex [("a", VInt 1); ("b", VInt 1)] false false (Some (VInt 1)) None None;
    OCreateIndex [("s", VInt 1)] false false (Some (VStr "soon")) None None;
    OSetClock 100000000;
    OInsertOne (VDoc [("_id", VInt 1); ("t", VDate 95000000 None)]);
    OInsertOne (VDoc [("_id", VInt 2); ("t", VArr [VDate 99000000 None; VDate 97000000 None])]);
    OInsertOne (VDoc [("_id", VInt 3); ("x", VInt 0)]);
    OInsertOne (VDoc [("_id", VInt 4); ("t", VStr "never"); ("a", VDate 0 None); ("b", VDate 0 None);
                      ("s", VDate 0 None)]);
    OFind (VDoc []) None [] 0 0;
    OUpdate (VDoc []) (VDoc [("$set", VDoc [("x", VInt 1)])]) true false;
    OReplace (VDoc [("_id", VInt 3)]) (VDoc [("x", VInt 2)]) false;
    OUpdate (VDoc [("_id", VInt 1)]) (VDoc [("$set", VDoc [("t", VDate 95000001 None)])]) false false;
    OSetClock 106000000;
    OCount (VDoc []) 0 None;
    OSetClock 100000000;
    OFind (VDoc []) None [("_id", -1)] 0 0;
    OInsertMany [VDoc [("_id", VInt 5); ("t", VDate 99500000 None)]; VDoc [("_id", VInt 2)]] false;
    OSetClock 108000000;
    OBulk [BInsert (VDoc [("_id", VInt 6); ("t", VDate 105000000 None)]);
           BDelete (VDoc [("_id", VInt 3)]) false] true;
    OFindAndModify (VDoc [("_id", VInt 4)]) None [] FamDelete;
    OCreateIndex [("u", VInt 1)] true true None None None;
    ODistinct "_id" (VDoc []);
    OSetClock 200000000;
    ODropIndex "u_1";
    OIndexInfo;
    ODropIndex "t_1";
    OInsertOne (VDoc [("_id", VInt 7); ("t", VDate 0 None)]);
    OUpdate (VDoc [("_id", VInt 7)]) (VDoc [("$set", VDoc [("t", VDate 1000 None)])]) false false;
    OReplace (VDoc [("_id", VInt 8)]) (VDoc [("t", VDate 0 None)]) true;
    ODelete (VDoc []) true;
    ODrop ].

Example ops_inside_guard : c09_reasons ops_inside (model_obs false empty_coll ops_inside) = 0.
Proof. vm_compute. reflexivity. Qed.

(* every operation of that history succeeds; the stores after each step show the expiries *)
Example ops_inside_trace :
  map (fun ob : obs => (is_ok (fst (fst ob)), map fst (snd (fst ob))))
      (model_obs false empty_coll ops_inside)
  = [ (true, []); (true, []); (true, []); (true, []);
      (true, [VInt 1]); (true, [VInt 1; VInt 2]); (true, [VInt 1; VInt 2; VInt 3]);
      (true, [VInt 1; VInt 2; VInt 3; VInt 4]);
      (true, [VInt 1; VInt 2; VInt 3; VInt 4]);
      (true, [VInt 1; VInt 2; VInt 3; VInt 4]);
      (true, [VInt 1; VInt 2; VInt 3; VInt 4]);
      (true, [VInt 1; VInt 2; VInt 3; VInt 4]);
      (true, [VInt 1; VInt 2; VInt 3; VInt 4]);
      (true, [VInt 2; VInt 3; VInt 4]);
      (true, [VInt 2; VInt 3; VInt 4]);
      (true, [VInt 2; VInt 3; VInt 4]);
      (true, [VInt 2; VInt 3; VInt 4; VInt 5]);
      (true, [VInt 2; VInt 3; VInt 4; VInt 5]);
      (true, [VInt 4; VInt 5; VInt 6]);
      (true, [VInt 5; VInt 6]);
      (true, [VInt 5; VInt 6]);
      (true, [VInt 5; VInt 6]);
      (true, [VInt 5; VInt 6]);
      (true, []);
      (true, []);
      (true, []);
      (true, [VInt 7]);
      (true, [VInt 7]);
      (true, [VInt 7; VInt 8]);
      (true, []);
      (true, []) ].
Proof. vm_compute. reflexivity. Qed.

(* the stand-alone facts: a state with a 10 s TTL index on t at clock 100 s *)
Definition c_ex : coll :=
  mkColl [ (VInt 1, VDoc [("_id", VInt 1); ("t", VDate 80000000 None)]);
           (VInt 2, VDoc [("_id", VInt 2); ("t", VDate 95000000 None)]);
           (VInt 3, VDoc [("_id", VInt 3)]);
           (VInt 4, VDoc [("_id", VInt 4); ("t", VArr [VDate 99000000 None; VDate 1 None])]) ]
         [ mkIndex "t_1" [("t", VInt 1)] false false (Some (VInt 10)) None ]
         false 1000 100000000 [].

Example expire_ex :
  option_map (fun c' => map fst (docs c'))
             (match expire c_ex with Ok c' => Some c' | Err _ => None end)
  = Some [VInt 2; VInt 3].
Proof. vm_compute. reflexivity. Qed.
