(* C18 proofs, part 1: value-level facts about patch (the model of
   patch_datetime_awareness_in_document), make_aware and the predicates dates_normal,
   dates_naive, dates_aware_utc; closure of dates_normal under the list / dict helpers. *)
From Coq Require Import ZArith List String Bool Ascii Lia.
From Verif Require Import Value PyEq BsonOrder Path Filter Update Project Coll HistCheck HistProps
  DatetimeSpec DatetimeRel.
From Verif.Proofs Require Import C01Values.
From Verif.Proofs Require C14Base.
Import ListNotations.
Open Scope Z_scope.
Open Scope string_scope.
Open Scope list_scope.

(* ---------------------------------------------------------------- tactics *)
Ltac dm H :=
  match type of H with
  | context [bind ?r _] =>
      let E := fresh "E" in destruct r eqn:E; unfold bind in H; try discriminate H
  | context [match ?x with _ => _ end] =>
      let E := fresh "E" in destruct x eqn:E; try discriminate H
  end.
Ltac inv_pair H := inversion H; subst; clear H.

(* ---------------------------------------------------------------- DN *)
Definition DN (v : value) : Prop := dates_normal v = true.
Definition DNF (fs : list (string * value)) : Prop := Forall (fun kv => DN (snd kv)) fs.
Definition DNL (xs : list value) : Prop := Forall DN xs.

Lemma dn_doc_iff fs : DN (VDoc fs) <-> DNF fs.
Proof.
  unfold DN, DNF. simpl. induction fs as [ | [k x] fs IH ].
  - split; [ constructor | reflexivity ].
  - rewrite andb_true_iff, IH. split.
    + intros [Hx Hf]. constructor; assumption.
    + intros H. inversion H; subst. split; assumption.
Qed.

Lemma dn_arr_iff xs : DN (VArr xs) <-> DNL xs.
Proof.
  unfold DN, DNL. simpl. induction xs as [ | x xs IH ].
  - split; [ constructor | reflexivity ].
  - rewrite andb_true_iff, IH. split.
    + intros [Hx Hf]. constructor; assumption.
    + intros H. inversion H; subst. split; assumption.
Qed.

Lemma dn_doc fs : DNF fs -> DN (VDoc fs).
Proof. apply dn_doc_iff. Qed.
Lemma dn_arr xs : DNL xs -> DN (VArr xs).
Proof. apply dn_arr_iff. Qed.
Lemma dn_doc_inv fs : DN (VDoc fs) -> DNF fs.
Proof. apply dn_doc_iff. Qed.
Lemma dn_arr_inv xs : DN (VArr xs) -> DNL xs.
Proof. apply dn_arr_iff. Qed.

Lemma dn_null : DN VNull. Proof. reflexivity. Qed.
Lemma dn_int z : DN (VInt z). Proof. reflexivity. Qed.
Lemma dn_dbl z : DN (VDbl z). Proof. reflexivity. Qed.
Lemma dn_oid z : DN (VOid z). Proof. reflexivity. Qed.
Lemma dn_str s : DN (VStr s). Proof. reflexivity. Qed.
Lemma dn_bool b : DN (VBool b). Proof. reflexivity. Qed.
Lemma dnf_nil : DNF []. Proof. constructor. Qed.
Lemma dnl_nil : DNL []. Proof. constructor. Qed.
Lemma dn_empty_doc : DN (VDoc []). Proof. reflexivity. Qed.

(* ---------------------------------------------------------------- floor1000 *)
Lemma floor1000_mod us : (floor1000 us) mod 1000 = 0.
Proof. unfold floor1000. apply Z.mod_mul. lia. Qed.

Lemma floor1000_idem us : floor1000 (floor1000 us) = floor1000 us.
Proof. unfold floor1000. rewrite Z.div_mul by lia. reflexivity. Qed.

Lemma floor1000_fix us : us mod 1000 = 0 -> floor1000 us = us.
Proof.
  unfold floor1000. intros H. pose proof (Z.div_mod us 1000 ltac:(lia)) as E. lia.
Qed.

Lemma dn_date_floor us : DN (VDate (floor1000 us) None).
Proof. unfold DN. simpl. rewrite floor1000_mod. reflexivity. Qed.

Lemma patch_date us tz : patch (VDate us tz) = VDate (floor1000 (date_key us tz)) None.
Proof. destruct tz; reflexivity. Qed.

(* ---------------------------------------------------------------- patch on containers *)
Lemma patch_doc fs : patch (VDoc fs) = VDoc (map (fun kv => (fst kv, patch (snd kv))) fs).
Proof.
  simpl. f_equal. induction fs as [ | [k x] fs IH ]; [ reflexivity | ].
  simpl. f_equal. exact IH.
Qed.
Lemma patch_arr xs : patch (VArr xs) = VArr (map patch xs).
Proof. reflexivity. Qed.

(* ---------------------------------------------------------------- 1. patch_normal *)
Theorem patch_normal : forall v, dates_normal (patch v) = true.
Proof.
  induction v as [ | b | z | e | s | us tz | n | fs IH | xs IH ] using value_ind2;
    try reflexivity.
  - rewrite patch_date. apply dn_date_floor.
  - rewrite patch_doc. apply dn_doc. unfold DNF.
    induction IH as [ | [k x] fs' Hx _ IHfs ]; simpl; constructor; assumption.
  - rewrite patch_arr. apply dn_arr. unfold DNL.
    induction IH as [ | x xs' Hx _ IHxs ]; simpl; constructor; assumption.
Qed.

Lemma patch_DN v : DN (patch v).
Proof. apply patch_normal. Qed.

(* ---------------------------------------------------------------- 4. patch fixes normal values *)
Theorem patch_fixes_normal : forall v, dates_normal v = true -> patch v = v.
Proof.
  induction v as [ | b | z | e | s | us tz | n | fs IH | xs IH ] using value_ind2;
    intros H; try reflexivity.
  - destruct tz as [m|]; simpl in H; [ discriminate | ].
    simpl. rewrite floor1000_fix; [ reflexivity | ]. apply Z.eqb_eq. exact H.
  - apply dn_doc_inv in H. rewrite patch_doc. f_equal. unfold DNF in H.
    induction IH as [ | [k x] fs' Hx _ IHfs ]; [ reflexivity | ].
    inversion H as [ | ? ? Hk Hl ]; subst. simpl in *. rewrite Hx by exact Hk.
    f_equal. apply IHfs. exact Hl.
  - apply dn_arr_inv in H. rewrite patch_arr. f_equal. unfold DNL in H.
    induction IH as [ | x xs' Hx _ IHxs ]; [ reflexivity | ].
    inversion H as [ | ? ? Hk Hl ]; subst. simpl. rewrite Hx by exact Hk.
    f_equal. apply IHxs. exact Hl.
Qed.

(* ---------------------------------------------------------------- 2. idempotence *)
Theorem patch_idem v : patch (patch v) = patch v.
Proof. apply patch_fixes_normal. apply patch_normal. Qed.

(* ---------------------------------------------------------------- 3. same millisecond *)
Lemma floor1000_same a b : a / 1000 = b / 1000 -> floor1000 a = floor1000 b.
Proof. unfold floor1000. intros ->. reflexivity. Qed.

Theorem patch_same_ms a b : same_ms a b = true -> patch a = patch b.
Proof.
  destruct a as [ | | | | | x tx | | | ]; try discriminate.
  destruct b as [ | | | | | y ty | | | ]; try discriminate.
  unfold same_ms. intros H. apply Z.eqb_eq in H.
  rewrite !patch_date. f_equal. apply floor1000_same. exact H.
Qed.

(* the converse: datetimes normalised to the same stored value denote the same millisecond *)
Lemma floor1000_inj a b : floor1000 a = floor1000 b -> a / 1000 = b / 1000.
Proof. unfold floor1000. lia. Qed.

Theorem patch_same_ms_conv x tx y ty :
  patch (VDate x tx) = patch (VDate y ty) -> same_ms (VDate x tx) (VDate y ty) = true.
Proof.
  rewrite !patch_date. intros H. inversion H as [E]. unfold same_ms.
  apply Z.eqb_eq. apply floor1000_inj. exact E.
Qed.

(* ---------------------------------------------------------------- 7. same_ms_value *)
Theorem same_ms_value_patch : forall f g, same_ms_value f g = true -> patch f = patch g.
Proof.
  induction f as [ | b | z | e | s | us tz | n | fs IH | xs IH ] using value_ind2;
    intros g H;
    try (match type of H with same_ms_value ?a ?b = true =>
           assert (Hs : same_ms_value a b = value_eqb a b) by (destruct b; reflexivity) end;
         rewrite Hs in H; apply C14Base.value_eqb_eq in H; rewrite <- H; reflexivity).
  - destruct g; try discriminate H. apply patch_same_ms. exact H.
  - destruct g as [ | | | | | | | gs | ]; try discriminate H.
    rewrite !patch_doc. f_equal. simpl in H. revert gs H.
    induction IH as [ | [k x] fs' Hx _ IHfs ]; intros gs H.
    + destruct gs; [ reflexivity | discriminate ].
    + destruct gs as [ | [k' y] gs ]; [ discriminate | ].
      apply andb_true_iff in H. destruct H as [H Hgo].
      apply andb_true_iff in H. destruct H as [Hk Hxy].
      apply String.eqb_eq in Hk. subst k'. simpl in *.
      rewrite (Hx y Hxy). f_equal. apply IHfs. exact Hgo.
  - destruct g as [ | | | | | | | | ys ]; try discriminate H.
    rewrite !patch_arr. f_equal. simpl in H. revert ys H.
    induction IH as [ | x xs' Hx _ IHxs ]; intros ys H.
    + destruct ys; [ reflexivity | discriminate ].
    + destruct ys as [ | y ys ]; [ discriminate | ].
      apply andb_true_iff in H. destruct H as [Hxy Hgo]. simpl.
      rewrite (Hx y Hxy). f_equal. apply IHxs. exact Hgo.
Qed.

Lemma same_ms_value_refl : forall v, same_ms_value v v = true.
Proof.
  induction v as [ | b | z | e | s | us tz | n | fs IH | xs IH ] using value_ind2;
    try (apply C14Base.value_eqb_refl).
  - simpl. apply Z.eqb_refl.
  - simpl. induction IH as [ | [k x] fs' Hx _ IHfs ]; [ reflexivity | ].
    simpl in Hx. rewrite String.eqb_refl, Hx. simpl. exact IHfs.
  - simpl. induction IH as [ | x xs' Hx _ IHxs ]; [ reflexivity | ].
    rewrite Hx. simpl. exact IHxs.
Qed.

Theorem query_consistent f g d :
  same_ms_value f g = true -> filter_applies (patch f) d = filter_applies (patch g) d.
Proof. intros H. rewrite (same_ms_value_patch f g H). reflexivity. Qed.

Lemma same_ms_value_is_doc f g : same_ms_value f g = true -> is_doc f = is_doc g.
Proof.
  destruct f, g; simpl; intros H; try reflexivity; try discriminate H.
Qed.

(* the whole read operations only see the patched filter *)
Theorem find_consistent c f g proj sort skip limit :
  same_ms_value f g = true ->
  find_op c f proj sort skip limit = find_op c g proj sort skip limit.
Proof.
  intros H. unfold find_op, find_docs.
  pose proof (same_ms_value_patch f g H) as Hp.
  pose proof (same_ms_value_is_doc f g H) as Hd.
  destruct f, g; simpl in Hd; try discriminate Hd; try reflexivity.
  rewrite Hp. reflexivity.
Qed.

Theorem count_consistent c f g skip limit :
  same_ms_value f g = true -> count_op c f skip limit = count_op c g skip limit.
Proof.
  intros H. unfold count_op.
  pose proof (same_ms_value_patch f g H) as Hp.
  pose proof (same_ms_value_is_doc f g H) as Hd.
  destruct f, g; simpl in Hd; try discriminate Hd; try reflexivity.
  rewrite Hp. reflexivity.
Qed.

(* ---------------------------------------------------------------- 6. make_aware *)
Theorem make_aware_utc : forall v, dates_normal v = true -> dates_aware_utc (make_aware v) = true.
Proof.
  induction v as [ | b | z | e | s | us tz | n | fs IH | xs IH ] using value_ind2;
    intros H; try reflexivity.
  - apply dn_doc_inv in H. unfold DNF in H. simpl.
    induction IH as [ | [k x] fs' Hx _ IHfs ]; [ reflexivity | ].
    inversion H as [ | ? ? Hk Hl ]; subst. simpl in *.
    rewrite (Hx Hk). simpl. apply IHfs. exact Hl.
  - apply dn_arr_inv in H. unfold DNL in H. simpl.
    induction IH as [ | x xs' Hx _ IHxs ]; [ reflexivity | ].
    inversion H as [ | ? ? Hk Hl ]; subst. simpl.
    rewrite (Hx Hk). simpl. apply IHxs. exact Hl.
Qed.

(* make_aware only attaches the zone: stripping it again (patch) gives the stored value back *)
Theorem patch_make_aware : forall v, dates_normal v = true -> patch (make_aware v) = v.
Proof.
  induction v as [ | b | z | e | s | us tz | n | fs IH | xs IH ] using value_ind2;
    intros H; try reflexivity.
  - destruct tz as [m|]; simpl in H; [ discriminate | ].
    simpl. rewrite Z.sub_0_r. rewrite floor1000_fix; [ reflexivity | ]. apply Z.eqb_eq. exact H.
  - apply dn_doc_inv in H. unfold DNF in H. simpl. f_equal.
    induction IH as [ | [k x] fs' Hx _ IHfs ]; [ reflexivity | ].
    inversion H as [ | ? ? Hk Hl ]; subst. simpl in *.
    rewrite (Hx Hk). f_equal. apply IHfs. exact Hl.
  - apply dn_arr_inv in H. unfold DNL in H. simpl. f_equal.
    induction IH as [ | x xs' Hx _ IHxs ]; [ reflexivity | ].
    inversion H as [ | ? ? Hk Hl ]; subst. simpl.
    rewrite (Hx Hk). f_equal. apply IHxs. exact Hl.
Qed.

(* ---------------------------------------------------------------- normal => naive *)
Theorem normal_naive : forall v, dates_normal v = true -> dates_naive v = true.
Proof.
  induction v as [ | b | z | e | s | us tz | n | fs IH | xs IH ] using value_ind2;
    intros H; try reflexivity.
  - destruct tz; [ discriminate H | reflexivity ].
  - apply dn_doc_inv in H. unfold DNF in H. simpl.
    induction IH as [ | [k x] fs' Hx _ IHfs ]; [ reflexivity | ].
    inversion H as [ | ? ? Hk Hl ]; subst. simpl in *.
    rewrite (Hx Hk). simpl. apply IHfs. exact Hl.
  - apply dn_arr_inv in H. unfold DNL in H. simpl.
    induction IH as [ | x xs' Hx _ IHxs ]; [ reflexivity | ].
    inversion H as [ | ? ? Hk Hl ]; subst. simpl.
    rewrite (Hx Hk). simpl. apply IHxs. exact Hl.
Qed.

(* ---------------------------------------------------------------- closure: dict helpers *)
Lemma dnf_assoc k fs x : DNF fs -> assoc k fs = Some x -> DN x.
Proof.
  unfold DNF. induction 1 as [ | [k' y] fs Hy _ IH ]; simpl; [ discriminate | ].
  destruct (k =? k'); [ intros E; inversion E; subst; exact Hy | exact IH ].
Qed.

Lemma dnf_set_key k x fs : DNF fs -> DN x -> DNF (set_key k x fs).
Proof.
  unfold DNF. intros H Hx. induction H as [ | [k' y] fs Hy Hf IH ]; simpl.
  - constructor; [ exact Hx | constructor ].
  - destruct (k =? k'); constructor; assumption.
Qed.

Lemma dnf_del_key k fs : DNF fs -> DNF (del_key k fs).
Proof.
  unfold DNF. induction 1 as [ | [k' y] fs Hy Hf IH ]; simpl; [ constructor | ].
  destruct (k =? k'); [ assumption | constructor; assumption ].
Qed.

Lemma dnf_app a b : DNF a -> DNF b -> DNF (a ++ b).
Proof. unfold DNF. intros Ha Hb. apply Forall_app. split; assumption. Qed.

Lemma dnf_filter (p : string * value -> bool) fs : DNF fs -> DNF (List.filter p fs).
Proof.
  unfold DNF. induction 1 as [ | x l Hx _ IH ]; simpl; [ constructor | ].
  destruct (p x); [ constructor; assumption | assumption ].
Qed.

Lemma dn_assoc_doc k fs x : DN (VDoc fs) -> assoc k fs = Some x -> DN x.
Proof. intros H. apply dnf_assoc. apply dn_doc_inv. exact H. Qed.

(* ---------------------------------------------------------------- closure: list helpers *)
Lemma dnl_app a b : DNL a -> DNL b -> DNL (a ++ b).
Proof. unfold DNL. intros Ha Hb. apply Forall_app. split; assumption. Qed.

Lemma dnl_app_inv a b : DNL (a ++ b) -> DNL a /\ DNL b.
Proof. unfold DNL. apply Forall_app. Qed.

Lemma dnl_one x : DN x -> DNL [x].
Proof. intros H. constructor; [ exact H | constructor ]. Qed.

Lemma dnl_filter (p : value -> bool) xs : DNL xs -> DNL (List.filter p xs).
Proof.
  unfold DNL. induction 1 as [ | x l Hx _ IH ]; simpl; [ constructor | ].
  destruct (p x); [ constructor; assumption | assumption ].
Qed.

Lemma dnl_firstn n xs : DNL xs -> DNL (firstn n xs).
Proof.
  unfold DNL. intros H. revert n. induction H as [ | x l Hx _ IH ]; intros [ | n ]; simpl;
    try constructor; auto.
Qed.

Lemma dnl_skipn n xs : DNL xs -> DNL (skipn n xs).
Proof.
  unfold DNL. intros H. revert n. induction H as [ | x l Hx Hl IH ]; intros [ | n ]; simpl;
    try constructor; auto.
Qed.

Lemma dnl_rev xs : DNL xs -> DNL (rev xs).
Proof. unfold DNL. apply Forall_rev. Qed.

Lemma dnl_repeat_null n : DNL (repeat VNull n).
Proof. induction n; simpl; constructor; [ reflexivity | assumption ]. Qed.

Lemma dnl_pad_to n xs : DNL xs -> DNL (pad_to n xs).
Proof. intros H. unfold pad_to. apply dnl_app; [ exact H | apply dnl_repeat_null ]. Qed.

Lemma dnl_set_nth n x xs : DNL xs -> DN x -> DNL (set_nth n x xs).
Proof.
  unfold DNL. intros H Hx. revert n. induction H as [ | y l Hy Hl IH ]; intros [ | n ]; simpl;
    try constructor; auto.
Qed.

Lemma dnl_nth_error n xs x : DNL xs -> nth_error xs n = Some x -> DN x.
Proof.
  unfold DNL. intros H. revert n. induction H as [ | y l Hy Hl IH ]; intros [ | n ]; simpl;
    try discriminate.
  - intros E. inversion E; subst. exact Hy.
  - apply IH.
Qed.

Lemma dnl_nth_z xs i x : DNL xs -> nth_z xs i = Some x -> DN x.
Proof.
  unfold nth_z. intros H. destruct (Z.ltb i 0); [ discriminate | ]. apply dnl_nth_error. exact H.
Qed.

Lemma dnl_removelast xs : DNL xs -> DNL (removelast xs).
Proof.
  unfold DNL. induction 1 as [ | y l Hy Hl IH ]; simpl; [ constructor | ].
  destruct l; [ constructor | constructor; assumption ].
Qed.

Lemma dnl_tl xs : DNL xs -> DNL (tl xs).
Proof. unfold DNL. destruct 1; simpl; [ constructor | assumption ]. Qed.

Lemma dnl_slice_py xs a b : DNL xs -> DNL (slice_py xs a b).
Proof. intros H. unfold slice_py. apply dnl_firstn. apply dnl_skipn. exact H. Qed.

Lemma dnl_In xs x : DNL xs -> In x xs -> DN x.
Proof. unfold DNL. intros H Hin. rewrite Forall_forall in H. apply H. exact Hin. Qed.

Lemma dnl_flat_map {A} (f : A -> list value) l :
  (forall a, In a l -> DNL (f a)) -> DNL (flat_map f l).
Proof.
  induction l as [ | a l IH ]; simpl; intros H; [ constructor | ].
  apply dnl_app; [ apply H; left; reflexivity | apply IH; intros b Hb; apply H; right; exact Hb ].
Qed.

(* ---------------------------------------------------------------- sorting keeps the elements *)
Lemma insert_by_Forall {A} (P : A -> Prop) lt x : forall l r,
  insert_by lt x l = Ok r -> P x -> Forall P l -> Forall P r.
Proof.
  induction l as [ | y l IH ]; simpl; intros r H Hx Hl.
  - inv_pair H. constructor; [ exact Hx | constructor ].
  - destruct (lt y x) as [[|]|e]; simpl in H; try discriminate.
    + destruct (insert_by lt x l) as [r0|e] eqn:E; simpl in H; [ | discriminate ].
      inv_pair H. inversion Hl; subst. constructor; [ assumption | eapply IH; eauto ].
    + inv_pair H. constructor; assumption.
Qed.

Lemma sort_by_Forall {A} (P : A -> Prop) lt : forall l r,
  sort_by lt l = Ok r -> Forall P l -> Forall P r.
Proof.
  induction l as [ | x l IH ]; simpl; intros r H Hl.
  - inv_pair H. constructor.
  - destruct (sort_by lt l) as [s|e] eqn:E; simpl in H; [ | discriminate ].
    inversion Hl; subst. eapply insert_by_Forall; eauto.
Qed.

Lemma py_sorted_Forall {A} (P : A -> Prop) lt rv l r :
  py_sorted lt rv l = Ok r -> Forall P l -> Forall P r.
Proof.
  unfold py_sorted. destruct rv; intros H Hl.
  - destruct (sort_by lt (rev l)) as [s|e] eqn:E; simpl in H; [ | discriminate ].
    inv_pair H. apply Forall_rev. eapply sort_by_Forall; [ exact E | apply Forall_rev; exact Hl ].
  - eapply sort_by_Forall; eauto.
Qed.

(* ---------------------------------------------------------------- paths *)
Lemma get_by_dot_dn : forall parts d x, DN d -> get_by_dot parts d = Some x -> DN x.
Proof.
  induction parts as [ | p rest IH ]; simpl; intros d x Hd H.
  - inv_pair H. exact Hd.
  - destruct d; try discriminate.
    + destruct (assoc p fs) as [v|] eqn:E; [ | discriminate ].
      eapply IH; [ | exact H ]. eapply dn_assoc_doc; eauto.
    + destruct (as_index p) as [i|]; [ | discriminate ].
      destruct (nth_z xs i) as [v|] eqn:E; [ | discriminate ].
      eapply IH; [ | exact H ]. eapply dnl_nth_z; [ apply dn_arr_inv; exact Hd | exact E ].
Qed.

Definition DNO (o : lookup) : Prop := match o with Some v => DN v | None => True end.

Lemma candidates_dn : forall parts d, DN d -> Forall DNO (candidates parts d).
Proof.
  induction parts as [ | p rest IH ]; intros d Hd.
  - simpl. constructor; [ exact Hd | constructor ].
  - cbn [candidates].
    assert (Hmain : Forall DNO
      match d with
      | VDoc fs =>
          match rest with
          | [] => [assoc p fs]
          | _ :: _ => candidates rest match assoc p fs with Some v => v | None => VDoc [] end
          end
      | VArr xs =>
          match as_index p with
          | Some i => match nth_z xs i with Some sub => candidates rest sub | None => [] end
          | None =>
              flat_map (fun sub => match sub with
                                   | VDoc fs => match assoc p fs with
                                                | Some v => candidates rest v
                                                | None => [None] end
                                   | _ => [] end) xs
          end
      | _ => []
      end).
    { destruct d; try constructor.
      - assert (Ha : forall v, assoc p fs = Some v -> DN v) by (intros v; eapply dn_assoc_doc; eauto).
        destruct rest.
        + constructor; [ | constructor ]. destruct (assoc p fs) eqn:E; simpl; auto.
        + apply IH. destruct (assoc p fs) eqn:E; [ auto | reflexivity ].
      - apply dn_arr_inv in Hd.
        destruct (as_index p) as [i|].
        + destruct (nth_z xs i) eqn:E; [ | constructor ]. apply IH. eapply dnl_nth_z; eauto.
        + unfold DNL in Hd. induction Hd as [ | y l Hy Hl IHl ]; simpl; [ constructor | ].
          apply Forall_app. split; [ | exact IHl ].
          destruct y; try constructor.
          destruct (assoc p fs) eqn:E.
          * apply IH. eapply dn_assoc_doc; eauto.
          * constructor; [ exact I | constructor ]. }
    destruct rest; [ destruct p | ]; try exact Hmain.
    constructor; [ exact Hd | constructor ].
Qed.
