(* C02 proofs, part 10: well-formedness (duplicate-free keys in every sub-document) is kept
   by every update / replacement and by the construction of the upsert seed. *)
From Coq Require Import ZArith List String Bool Ascii Lia.
From Verif Require Import Value PyEq BsonOrder Path Filter FilterSpec Update Project Coll
                          HistCheck HistProps ProjectSpec Cursor UpdateLaws.
From Verif.Proofs Require Import C01Values C12Base C02Base C02Frame C02Local C02Ops C02Store C02Step.
From Verif.Proofs Require C02Replace.
Import ListNotations.
Open Scope Z_scope.
Open Scope string_scope.
Open Scope list_scope.

Notation WF v := (wf_value v = true).

Lemma wf_empty_doc : WF (VDoc []).
Proof. reflexivity. Qed.

Lemma wf_doc_vals fs : WF (VDoc fs) -> Forall (fun kv => WF (snd kv)) fs.
Proof. intro H. apply wf_doc_iff in H. exact (proj2 H). Qed.

Lemma wf_doc_tail k v fs : WF (VDoc ((k, v) :: fs)) -> WF v /\ WF (VDoc fs).
Proof.
  intro H. apply wf_doc_iff in H. destruct H as [Hnd Hall]. simpl in Hnd.
  inversion Hnd; subst. inversion Hall; subst. split; [assumption|].
  apply wf_doc_iff. split; assumption.
Qed.

Lemma NoDup_app_end {A} (l : list A) (k : A) : NoDup l -> ~ In k l -> NoDup (l ++ [k]).
Proof.
  induction l as [|x l IH]; intros Hnd Hk; simpl.
  - constructor; [intros []|constructor].
  - inversion Hnd; subst. constructor.
    + intro Hin. apply in_app_or in Hin. destruct Hin as [Hin|[<-|[]]]; [contradiction|].
      apply Hk. left. reflexivity.
    + apply IH; [assumption|]. intro Hin. apply Hk. right. exact Hin.
Qed.

Lemma wf_doc_app_end fs k v :
  WF (VDoc fs) -> WF v -> ~ In k (map fst fs) -> WF (VDoc (fs ++ [(k, v)])).
Proof.
  intros H Hv Hk. apply wf_doc_iff in H. destruct H as [Hnd Hall]. apply wf_doc_iff. split.
  - rewrite map_app. simpl. apply NoDup_app_end; assumption.
  - apply Forall_app. split; [exact Hall|]. constructor; [exact Hv|constructor].
Qed.

(* ---------------------------------------------------------------- replacement branch *)
Lemma apply_update_key_nodollar spec upd wi now k v d :
  starts_dollar k = false ->
  apply_update_key spec upd wi now true k v d =
  if existsb (fun kv => starts_dollar (fst kv)) upd then Err EValue else
  let id := C02Replace.rep_id spec d in
  let merged := C02Replace.rep_merged upd (C02Replace.rep_base id) in
  match id with
  | Some i =>
      match assoc "_id" merged with
      | Some now_id => if py_eq now_id i then Ok (VDoc merged, true) else Err EOpFail
      | None => Err EKey
      end
  | None => Ok (VDoc merged, true)
  end.
Proof.
  intro H. unfold apply_update_key, updater_of.
  repeat match goal with |- context [k =? ?s] => rewrite (C02Replace.sd_neq k s H eq_refl) end.
  reflexivity.
Qed.

Lemma rep_id_wf spec d i :
  WF spec -> WF d -> C02Replace.rep_id spec d = Some i -> WF i.
Proof.
  unfold C02Replace.rep_id. intros Hs Hd H.
  destruct d as [| | | | | | |dfs|]; try discriminate.
  destruct (assoc "_id" dfs) as [j|] eqn:Ea; [|discriminate].
  destruct (is_null j); [discriminate|].
  inversion H; subst. eapply wf_doc_assoc; eassumption.
Qed.

Lemma rep_base_wf spec d : WF spec -> WF d -> WF (VDoc (C02Replace.rep_base (C02Replace.rep_id spec d))).
Proof.
  intros Hs Hd. unfold C02Replace.rep_base.
  destruct (C02Replace.rep_id spec d) as [i|] eqn:E; [|reflexivity].
  apply wf_doc_iff. split; [simpl; constructor; [intros []|constructor]|].
  constructor; [|constructor]. simpl. exact (rep_id_wf spec d i Hs Hd E).
Qed.

Lemma rep_merged_wf : forall upd base,
  Forall (fun kv => WF (snd kv)) upd -> WF (VDoc base) -> WF (VDoc (C02Replace.rep_merged upd base)).
Proof.
  unfold C02Replace.rep_merged.
  induction upd as [|[k v] upd IH]; intros base Hu Hb; [exact Hb|].
  inversion Hu; subst. simpl. apply IH; [assumption|]. apply wf_set_key; assumption.
Qed.

(* ---------------------------------------------------------------- apply_update *)
Theorem apply_update_wf spec u wi now d d' :
  WF spec -> WF u -> WF d -> apply_update spec u wi now d = Ok d' -> WF d'.
Proof.
  intros Hs Hu Hd H.
  destruct u as [| | | | | | |ufs|]; try discriminate.
  destruct ufs as [|[k0 v0] rest].
  - simpl in H. inversion H; subst. clear H.
    destruct d as [| | | | | | |dfs|]; try reflexivity.
    destruct (assoc "_id" dfs) as [i|] eqn:Ea; [|reflexivity].
    destruct (is_null i); [reflexivity|].
    apply wf_doc_iff. split; [simpl; constructor; [intros []|constructor]|].
    constructor; [|constructor]. simpl. eapply wf_doc_assoc; eassumption.
  - destruct (starts_dollar k0) eqn:Ek.
    + eapply chain_wf; [|exact Hd]. eapply apply_update_chain; [|exact Hu|exact Hd|exact H].
      simpl. rewrite Ek. reflexivity.
    + unfold apply_update in H. cbn [apply_update_keys] in H.
      rewrite (apply_update_key_nodollar _ _ _ _ _ _ _ Ek) in H.
      destruct (existsb _ ((k0, v0) :: rest)); [discriminate|]. cbv zeta in H.
      pose proof (rep_merged_wf ((k0, v0) :: rest) _ (wf_doc_vals _ Hu) (rep_base_wf spec d Hs Hd)) as Hm.
      destruct (C02Replace.rep_id spec d) as [i|].
      * destruct (assoc "_id" _) as [nid|]; [|discriminate].
        destruct (py_eq nid i); [|discriminate].
        simpl in H. inversion H; subst. exact Hm.
      * simpl in H. inversion H; subst. exact Hm.
Qed.

(* ---------------------------------------------------------------- the upsert seed *)
Lemma expand_set_wf : forall parts v e r,
  WF v -> WF (VDoc e) -> expand_set parts v e = Ok r -> WF (VDoc r).
Proof.
  induction parts as [|p rest IH]; intros v e r Hv He H.
  - simpl in H. inversion H; subst. exact He.
  - destruct rest as [|q rest].
    + simpl in H. inversion H; subst. apply wf_set_key; assumption.
    + remember (q :: rest) as rest' eqn:Er.
      assert (Hx : expand_set (p :: rest') v e =
                   match assoc p e with
                   | None => let! sub := expand_set rest' v [] in Ok (set_key p (VDoc sub) e)
                   | Some (VDoc sub) => let! sub' := expand_set rest' v sub in Ok (set_key p (VDoc sub') e)
                   | Some _ => Err EWrite
                   end) by (subst rest'; reflexivity).
      rewrite Hx in H. clear Hx.
      destruct (assoc p e) as [x|] eqn:Ea.
      * destruct x as [| | | | | | |sub|]; try discriminate.
        destruct (expand_set rest' v sub) as [sub'|er] eqn:Es; simpl in H; [|discriminate].
        inversion H; subst r. apply wf_set_key; [exact He|].
        eapply IH; [exact Hv| |exact Es]. eapply wf_doc_assoc; eassumption.
      * destruct (expand_set rest' v []) as [sub'|er] eqn:Es; simpl in H; [|discriminate].
        inversion H; subst r. apply wf_set_key; [exact He|].
        eapply IH; [exact Hv| |exact Es]. reflexivity.
Qed.

Lemma expand_dots_go_wf : forall fs e paths r,
  Forall (fun kv => WF (snd kv)) fs -> WF (VDoc e) -> expand_dots_go fs e paths = Ok r -> WF (VDoc r).
Proof.
  induction fs as [|[k v] fs IH]; intros e paths r Hf He H; simpl in H.
  - inversion H; subst. exact He.
  - inversion Hf; subst. destruct (mem_str k paths); [discriminate|].
    destruct (expand_set (split_dots k) v e) as [e'|er] eqn:Es; simpl in H; [|discriminate].
    eapply IH; [assumption| |exact H]. eapply expand_set_wf; [|exact He|exact Es]. assumption.
Qed.

Lemma expand_dots_wf fs r : WF (VDoc fs) -> expand_dots fs = Ok r -> WF (VDoc r).
Proof.
  intros Hf H. unfold expand_dots in H.
  eapply (expand_dots_go_wf fs [] []); [apply wf_doc_vals; exact Hf|reflexivity|exact H].
Qed.

(* _discard_operators *)
Definition dgo : list (string * value) -> list (string * value) -> value * bool :=
  fix go (fs : list (string * value)) (acc : list (string * value)) : value * bool :=
    match fs with
    | [] => (VDoc acc, match acc with [] => true | _ => false end)
    | (k, x) :: fs' =>
        if k =? "$eq" then (x, false)
        else if starts_dollar k then go fs' acc
        else let '(x', disc) := discard_ops x in
             go fs' (if disc then acc else acc ++ [(k, x')])
    end.

Lemma discard_ops_doc fs : fs <> [] -> discard_ops (VDoc fs) = dgo fs [].
Proof. destruct fs; [congruence|reflexivity]. Qed.

Lemma dgo_wf : forall fs acc,
  Forall (fun kv => WF (snd kv) -> WF (fst (discard_ops (snd kv)))) fs ->
  Forall (fun kv => WF (snd kv)) fs -> NoDup (map fst fs) ->
  WF (VDoc acc) -> (forall k, In k (map fst acc) -> ~ In k (map fst fs)) ->
  WF (fst (dgo fs acc)).
Proof.
  induction fs as [|[k x] fs IH]; intros acc HI Hf Hnd Ha Hdis; simpl.
  - exact Ha.
  - inversion HI as [|? ? HIx HI']; subst. inversion Hf as [|? ? Hx Hf']; subst.
    simpl in Hnd. inversion Hnd as [|? ? Hk Hnd']; subst. simpl in HIx, Hx.
    destruct (k =? "$eq"); [exact Hx|].
    assert (Hdis' : forall k0, In k0 (map fst acc) -> ~ In k0 (map fst fs)).
    { intros k0 H0 H1. apply (Hdis k0 H0). right. exact H1. }
    destruct (starts_dollar k); [apply IH; assumption|].
    specialize (HIx Hx). destruct (discard_ops x) as [x' disc]. simpl in HIx.
    destruct disc; [apply IH; assumption|].
    apply IH; try assumption.
    + apply wf_doc_app_end; [exact Ha|exact HIx|]. intro Hin. apply (Hdis k Hin). left. reflexivity.
    + intros k0 H0 H1. rewrite map_app in H0. apply in_app_or in H0. destruct H0 as [H0|[<-|[]]].
      * exact (Hdis' k0 H0 H1).
      * exact (Hk H1).
Qed.

Lemma discard_ops_wf : forall v, WF v -> WF (fst (discard_ops v)).
Proof.
  induction v as [|b|z|e|s|us tz|n|fs IH|xs IH] using value_ind2; intro H; try exact H.
  destruct fs as [|kv fs]; [exact H|].
  rewrite discard_ops_doc by discriminate.
  apply wf_doc_iff in H. destruct H as [Hnd Hall].
  apply dgo_wf; try assumption; [reflexivity|intros k []].
Qed.

(* ---------------------------------------------------------------- normalisation *)
Lemma wf_patch_doc_id fs n :
  WF (VDoc fs) -> assoc "_id" fs = None -> WF (patch (VDoc (fs ++ [("_id", VOid n)]))).
Proof.
  intros H Ha. apply wf_patch. apply wf_doc_app_end; [exact H|reflexivity|].
  intro Hin. apply in_map_iff in Hin. destruct Hin as [[k v] [Hk Hin]]. simpl in Hk. subst k.
  apply wf_doc_iff in H. destruct H as [Hnd _].
  rewrite (in_assoc _ _ _ Hnd Hin) in Ha. discriminate.
Qed.
