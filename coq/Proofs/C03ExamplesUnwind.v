(* C03 -- $unwind with includeArrayIndex: the corner cases probed before the proof of
   stage_unwind was widened (model and specification never disagree where the specification
   decides), and the hypotheses of the pipeline theorems on pipelines that use the option *)
From Coq Require Import ZArith List String Bool Ascii.
From Verif Require Import Value PyEq Path Update Filter Coll Expr Pipeline PipelineSpec PipelineGuard.
From Verif Require Import C03Stages C03StageUnwind C03Pipeline.
Import ListNotations.
Open Scope Z_scope.
Open Scope string_scope.

Definition uv (docs : list value) (o : value) :=
  let p := VArr [VDoc [("$unwind", o)]] in
  (aggregate [] docs p, spec_aggregate [] docs p,
   agrees (spec_aggregate [] docs p) (aggregate [] docs p), c03_reasons [] docs p).
Definition uv2 (docs : list value) (o : value) :=
  let p := VArr [VDoc [("$unwind", o)]] in
  (spec_aggregate [] docs p, agrees (spec_aggregate [] docs p) (aggregate [] docs p)).
Definition U (path idx : string) : value := VDoc [("path", VStr path); ("includeArrayIndex", VStr idx)].
Definition UP (path idx : string) (b : bool) : value :=
  VDoc [("path", VStr path); ("includeArrayIndex", VStr idx); ("preserveNullAndEmptyArrays", VBool b)].

Definition u1 := VDoc [("_id", VInt 1); ("a", VArr [VInt 10; VInt 20]); ("i", VStr "old")].
Definition u2 := VDoc [("_id", VInt 2); ("a", VDoc [("b", VArr [VInt 1; VInt 2]); ("c", VInt 0)]);
                       ("s", VDoc [("x", VInt 1)])].
Definition u_null := VDoc [("_id", VInt 3); ("a", VNull)].
Definition u_miss := VDoc [("_id", VInt 4)].
Definition u_empty := VDoc [("_id", VInt 5); ("a", VArr [])].
Definition u_scalar := VDoc [("_id", VInt 6); ("a", VInt 7)].

(* the index name is the unwound field: the library overwrites the element with its index;
   the specification does not decide (the name is a prefix of the path) *)
Example unwind_idx_same_field :
  uv [u1] (U "$a" "a")
  = (Ok [VDoc [("_id", VInt 1); ("a", VInt 0); ("i", VStr "old")];
         VDoc [("_id", VInt 1); ("a", VInt 1); ("i", VStr "old")]], PUndef, None, 0).
Proof. vm_compute. reflexivity. Qed.

(* the index name is "_id", or a field the document already has: overwritten, on both sides *)
Example unwind_idx_id :
  uv [u1] (U "$a" "_id")
  = (Ok [VDoc [("_id", VInt 0); ("a", VInt 10); ("i", VStr "old")];
         VDoc [("_id", VInt 1); ("a", VInt 20); ("i", VStr "old")]],
     PV (mkStream [VDoc [("_id", VInt 0); ("a", VInt 10); ("i", VStr "old")];
                   VDoc [("_id", VInt 1); ("a", VInt 20); ("i", VStr "old")]] true []), Some true, 0).
Proof. vm_compute. reflexivity. Qed.

Example unwind_idx_existing :
  uv [u1] (U "$a" "i")
  = (Ok [VDoc [("_id", VInt 1); ("a", VInt 10); ("i", VInt 0)];
         VDoc [("_id", VInt 1); ("a", VInt 20); ("i", VInt 1)]],
     PV (mkStream [VDoc [("_id", VInt 1); ("a", VInt 10); ("i", VInt 0)];
                   VDoc [("_id", VInt 1); ("a", VInt 20); ("i", VInt 1)]] true []), Some true, 0).
Proof. vm_compute. reflexivity. Qed.

(* a name that is a prefix of the path ("a" vs "$a.b") or below it ("a.b.c" vs "$a.b"):
   the library replaces the whole sub-document / raises KeyError; not decided *)
Example unwind_idx_prefix_of_path :
  uv [u2] (U "$a.b" "a")
  = (Ok [VDoc [("_id", VInt 2); ("a", VInt 0); ("s", VDoc [("x", VInt 1)])];
         VDoc [("_id", VInt 2); ("a", VInt 1); ("s", VDoc [("x", VInt 1)])]], PUndef, None, 0).
Proof. vm_compute. reflexivity. Qed.

Example unwind_idx_below_path :
  uv [u2] (U "$a.b" "a.b.c") = (Err EKey, PUndef, None, 0).
Proof. vm_compute. reflexivity. Qed.

(* dotted names: a sibling of the path, a new field of another sub-document, an existing one *)
Example unwind_idx_sibling :
  uv [u2] (U "$a.b" "a.k")
  = (Ok [VDoc [("_id", VInt 2); ("a", VDoc [("b", VInt 1); ("c", VInt 0); ("k", VInt 0)]); ("s", VDoc [("x", VInt 1)])];
         VDoc [("_id", VInt 2); ("a", VDoc [("b", VInt 2); ("c", VInt 0); ("k", VInt 1)]); ("s", VDoc [("x", VInt 1)])]],
     PV (mkStream
        [VDoc [("_id", VInt 2); ("a", VDoc [("b", VInt 1); ("c", VInt 0); ("k", VInt 0)]); ("s", VDoc [("x", VInt 1)])];
         VDoc [("_id", VInt 2); ("a", VDoc [("b", VInt 2); ("c", VInt 0); ("k", VInt 1)]); ("s", VDoc [("x", VInt 1)])]]
        true []), Some true, 0).
Proof. vm_compute. reflexivity. Qed.

Example unwind_idx_other_subdoc :
  uv [u2] (U "$a.b" "s.x")
  = (Ok [VDoc [("_id", VInt 2); ("a", VDoc [("b", VInt 1); ("c", VInt 0)]); ("s", VDoc [("x", VInt 0)])];
         VDoc [("_id", VInt 2); ("a", VDoc [("b", VInt 2); ("c", VInt 0)]); ("s", VDoc [("x", VInt 1)])]],
     PV (mkStream
        [VDoc [("_id", VInt 2); ("a", VDoc [("b", VInt 1); ("c", VInt 0)]); ("s", VDoc [("x", VInt 0)])];
         VDoc [("_id", VInt 2); ("a", VDoc [("b", VInt 2); ("c", VInt 0)]); ("s", VDoc [("x", VInt 1)])]]
        true []), Some true, 0).
Proof. vm_compute. reflexivity. Qed.

(* the parent of a dotted index name is missing or not a sub-document: KeyError; not decided *)
Example unwind_idx_parent_missing :
  uv [u2] (U "$a.b" "q.y") = (Err EKey, PUndef, None, 0)
  /\ uv [u2] (U "$a.b" "s.x.y") = (Err EKey, PUndef, None, 0).
Proof. vm_compute. split; reflexivity. Qed.

(* "$x", "" and names with an empty component are not decided by the specification *)
Example unwind_idx_odd_names :
  uv2 [u2] (U "$a.b" "$x") = (PUndef, None)
  /\ uv2 [u2] (U "$a.b" "") = (PUndef, None)
  /\ uv2 [u2] (U "$a.b" "s.") = (PUndef, None)
  /\ uv2 [u2] (U "$a.b" ".s") = (PUndef, None).
Proof. vm_compute. repeat split; reflexivity. Qed.

(* null / missing / empty array / scalar / array, without preserveNullAndEmptyArrays: the
   first three vanish, a scalar gets the index null *)
Example unwind_idx_no_preserve :
  uv [u_null; u_miss; u_empty; u_scalar; u1] (UP "$a" "k" false)
  = (Ok [VDoc [("_id", VInt 6); ("a", VInt 7); ("k", VNull)];
         VDoc [("_id", VInt 1); ("a", VInt 10); ("i", VStr "old"); ("k", VInt 0)];
         VDoc [("_id", VInt 1); ("a", VInt 20); ("i", VStr "old"); ("k", VInt 1)]],
     PV (mkStream
        [VDoc [("_id", VInt 6); ("a", VInt 7); ("k", VNull)];
         VDoc [("_id", VInt 1); ("a", VInt 10); ("i", VStr "old"); ("k", VInt 0)];
         VDoc [("_id", VInt 1); ("a", VInt 20); ("i", VStr "old"); ("k", VInt 1)]] true []), Some true, 0).
Proof. vm_compute. reflexivity. Qed.

(* with preserveNullAndEmptyArrays the library keeps the null / missing / empty-array
   documents WITHOUT an index field (a server adds the index null): the specification leaves
   these undecided; scalars and arrays are decided and agree *)
Example unwind_idx_preserve :
  uv [u_null] (UP "$a" "k" true) = (Ok [u_null], PUndef, None, 0)
  /\ uv [u_miss] (UP "$a" "k" true) = (Ok [u_miss], PUndef, None, 0)
  /\ uv [u_empty] (UP "$a" "k" true) = (Ok [VDoc [("_id", VInt 5)]], PUndef, None, 0)
  /\ snd (uv [u_scalar; u1] (UP "$a" "k" true)) = 0
  /\ snd (uv2 [u_scalar; u1] (UP "$a" "k" true)) = Some true.
Proof. vm_compute. repeat split; reflexivity. Qed.

(* an includeArrayIndex that is not a string: ignored when Python reads it as false, outside
   the model otherwise; never decided *)
Example unwind_idx_non_string :
  uv [u1] (VDoc [("path", VStr "$a"); ("includeArrayIndex", VInt 1)]) = (Err EUnmodelled, PUndef, None, 0)
  /\ uv2 [u1] (VDoc [("path", VStr "$a"); ("includeArrayIndex", VInt 0)]) = (PUndef, None)
  /\ uv2 [u1] (VDoc [("path", VStr "$a"); ("includeArrayIndex", VNull)]) = (PUndef, None)
  /\ uv2 [u1] (VDoc [("path", VStr "$a"); ("includeArrayIndex", VDoc [])]) = (PUndef, None).
Proof. vm_compute. repeat split; reflexivity. Qed.

(* ---------- the pipeline theorems on pipelines with includeArrayIndex *)
Definition exu_docs : list value :=
  [VDoc [("_id", VInt 1); ("g", VStr "a"); ("tags", VArr [VStr "x"; VStr "y"]); ("m", VDoc [("n", VInt 2)])];
   VDoc [("_id", VInt 2); ("g", VStr "b"); ("tags", VArr [VStr "x"]); ("m", VDoc [("n", VInt 3)])];
   VDoc [("_id", VInt 3); ("g", VStr "a"); ("tags", VArr []); ("m", VDoc [("n", VInt 5)])];
   VDoc [("_id", VInt 4); ("g", VStr "c"); ("tags", VStr "z"); ("m", VDoc [("n", VInt 1)])]].

(* $match, $unwind with a dotted index name, $sort on the index, $facet whose sub-pipeline
   unwinds again with a plain index name *)
Definition exu_pipe : value :=
  VArr [VDoc [("$match", VDoc [("m.n", VDoc [("$gte", VInt 1)])])];
        VDoc [("$unwind", VDoc [("path", VStr "$tags"); ("includeArrayIndex", VStr "m.pos")])];
        VDoc [("$sort", VDoc [("m.pos", VInt (-1)); ("_id", VInt 1)])];
        VDoc [("$facet", VDoc [("top", VArr [VDoc [("$limit", VInt 2)]]);
                               ("again", VArr [VDoc [("$unwind", VDoc [("path", VStr "$tags");
                                                                       ("includeArrayIndex", VStr "j")])];
                                               VDoc [("$count", VStr "k")]])])]].

Example exu_hypotheses :
  c03_covered exu_pipe = true /\
  c03_reasons [] exu_docs exu_pipe = 0 /\
  aggregate [] exu_docs exu_pipe
    = Ok [VDoc [("top", VArr [VDoc [("_id", VInt 1); ("g", VStr "a"); ("tags", VStr "y");
                                    ("m", VDoc [("n", VInt 2); ("pos", VInt 1)])];
                              VDoc [("_id", VInt 1); ("g", VStr "a"); ("tags", VStr "x");
                                    ("m", VDoc [("n", VInt 2); ("pos", VInt 0)])]]);
                ("again", VArr [VDoc [("k", VInt 4)]])]] /\
  agrees (spec_aggregate [] exu_docs exu_pipe) (aggregate [] exu_docs exu_pipe) = Some true.
Proof. vm_compute. repeat split; reflexivity. Qed.

Example exu_applies :
  rel (spec_aggregate [] exu_docs exu_pipe) (aggregate [] exu_docs exu_pipe).
Proof. apply pipeline_partial_rel; vm_compute; reflexivity. Qed.

(* the stage lemma on its own *)
Example exu_stage :
  rel (spec_stage [] "$unwind" (U "$tags" "m.pos") (mkStream exu_docs true []))
      (run_stage [] "$unwind" (U "$tags" "m.pos") exu_docs).
Proof. apply stage_unwind. vm_compute. reflexivity. Qed.
