(* C10 (first half): the premises of the entry-point theorems hold on a concrete history. *)
From Coq Require Import ZArith List String Bool.
From Verif Require Import Value PyEq Filter Update Coll HistCheck HistProps HistGuards.
From Verif Require Import C14Base C14Ops C10Entry.
Import ListNotations.
Open Scope Z_scope.
Open Scope string_scope.
Open Scope list_scope.

(* a concrete history: a TTL index, five inserts/upserts, then the clock moves so that the
   lazy TTL pass of the scan removes a document that would have matched (c1 <> c).  The
   premises of every theorem above hold, and all entry points report 2. *)
Definition c10_entry_ops : list op :=
  [OCreateIndex [("t", VInt 1)] false false (Some (VInt 1)) None None;
   OInsertOne (VDoc [("_id", VInt 1); ("t", VDate 5000000 None); ("g", VStr "a")]);
   OInsertOne (VDoc [("_id", VInt 2); ("x", VInt 0); ("g", VStr "a")]);
   OInsertOne (VDoc [("x", VInt 5); ("g", VStr "b")]);
   OInsertOne (VDoc [("_id", VStr "s"); ("x", VInt 7); ("g", VStr "a")]);
   OUpdate (VDoc [("g", VStr "zz")]) (VDoc [("$set", VDoc [("x", VInt 0)])]) false true;
   OSetClock 100000000].
Definition c10_entry_c : coll := final false empty_coll c10_entry_ops.
Definition c10_entry_fs : list (string * value) := [("g", VStr "a")].
Definition c10_entry_ufs : list (string * value) := [("$inc", VDoc [("x", VInt 1)])].

Lemma entry_premises_satisfiable :
  exists c1 m,
    iter_documents c10_entry_c (patch (VDoc c10_entry_fs)) = Ok (c1, m)
    /\ self_keyed (docs c1) /\ docs_only m
    /\ List.length (docs c10_entry_c) = 5%nat /\ List.length (docs c1) = 4%nat
    /\ map fst m = [VInt 2; VStr "s"]
    /\ Forall (fun kd => exists i, doc_id (snd kd) = Some i /\ is_arr i = false) m
    /\ forallb hashable_top (ids_of m) = true
    /\ first_key_dollar (VDoc c10_entry_ufs) = Some true
    /\ empty_operator false (patch (VDoc c10_entry_ufs)) = false
    /\ no_unique c10_entry_c
    /\ Forall (applies_cleanly (patch (VDoc c10_entry_fs)) (patch (VDoc c10_entry_ufs))
                               (now c10_entry_c) (odocs c10_entry_c)) m.
Proof.
  destruct (iter_documents c10_entry_c (patch (VDoc c10_entry_fs))) as [[c1 m]|e] eqn:E;
    [|vm_compute in E; discriminate].
  exists c1, m. split; [reflexivity|].
  vm_compute in E. injection E as <- <-.
  assert (HS : self_keyed [(VInt 2, VDoc [("_id", VInt 2); ("x", VInt 0); ("g", VStr "a")]);
                           (VOid 1000, VDoc [("x", VInt 5); ("g", VStr "b"); ("_id", VOid 1000)]);
                           (VStr "s", VDoc [("_id", VStr "s"); ("x", VInt 7); ("g", VStr "a")]);
                           (VOid 1001, VDoc [("g", VStr "zz"); ("_id", VOid 1001); ("x", VInt 0)])])
    by (apply self_keyedb_sound; vm_compute; reflexivity).
  split; [exact HS|].
  split; [repeat constructor|].
  split; [vm_compute; reflexivity|]. split; [reflexivity|]. split; [reflexivity|].
  split; [repeat constructor; eexists; split; reflexivity|].
  split; [vm_compute; reflexivity|]. split; [reflexivity|]. split; [vm_compute; reflexivity|].
  split; [vm_compute; repeat constructor|].
  repeat constructor; unfold applies_cleanly; eexists; (split; [vm_compute; reflexivity|]);
    vm_compute; do 2 eexists; repeat split; reflexivity.
Qed.

Lemma entry_points_on_example :
  snd (count_op c10_entry_c (VDoc c10_entry_fs) 0 None) = Ok (VInt 2)
  /\ snd (delete_op c10_entry_c (VDoc c10_entry_fs) true) = Ok (VDoc [("deleted", VInt 2)])
  /\ snd (delete_op c10_entry_c (VDoc c10_entry_fs) false) = Ok (VDoc [("deleted", VInt 1)])
  /\ snd (distinct_op c10_entry_c "_id" (VDoc c10_entry_fs))
     = Ok (VDoc [("$set", VArr [VInt 2; VStr "s"])])
  /\ snd (update_op false c10_entry_c (VDoc c10_entry_fs) (VDoc c10_entry_ufs) true false)
     = Ok (VDoc [("matched", VInt 2); ("modified", VInt 2); ("upserted_id", VNull)]).
Proof. vm_compute. repeat split; reflexivity. Qed.
