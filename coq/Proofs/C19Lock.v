(* C19: a closed, good state set containing the initial state over-approximates the
   reachable states, so every reachable state -- after any number of steps of any
   schedule -- is good.  The closure of a concrete set is established by kernel
   computation (vm_compute), the lifting to all schedules is this ordinary induction. *)
From Coq Require Import List Arith NArith PArith Bool MSets.MSetPositive Morphisms.
From Verif.Gen Require Import LockProg.
From Verif Require Import Lock.
Import ListNotations.
Open Scope N_scope.

Inductive reach (n : nat) : st -> Prop :=
| reach_init : reach n (init n)
| reach_step : forall s s', reach n s -> In (Next s') (succs n s) -> reach n s'.

Lemma leq_eq : forall x y : list N,
  (fix leq (x y : list N) : bool :=
     match x, y with
     | [], [] => true
     | u :: x', v :: y' => (u =? v) && leq x' y'
     | _, _ => false
     end) x y = true -> x = y.
Proof.
  induction x as [|u x IH]; intros [|v y] H; try discriminate; [reflexivity|].
  apply andb_true_iff in H. destruct H as [Huv Hxy].
  apply N.eqb_eq in Huv. subst v. f_equal. apply IH. exact Hxy.
Qed.

Lemma st_eqb_eq : forall a b, st_eqb a b = true -> a = b.
Proof.
  intros [ta la ca] [tb lb cb] H. unfold st_eqb in H. cbn [th lk ct] in H.
  apply andb_true_iff in H. destruct H as [H Hc].
  apply andb_true_iff in H. destruct H as [Ht Hl].
  apply leq_eq in Ht. apply leq_eq in Hl. apply leq_eq in Hc. subst. reflexivity.
Qed.

Section Closed.
Variable n : nat.
Variable S : PositiveSet.t.
Hypothesis Hclosed : closed n S = true.

Let body (p : positive) : bool :=
  let s := dec n p in
  good n s &&
  forallb (fun o => match o with
                    | Next s' => PositiveSet.mem (enc s') S && st_eqb (dec n (enc s')) s'
                    | _ => true
                    end) (succs n s).

Lemma closed_parts :
  PositiveSet.mem (enc (init n)) S = true /\ dec n (enc (init n)) = init n /\
  (forall p, PositiveSet.mem p S = true -> body p = true).
Proof.
  unfold closed in Hclosed.
  apply andb_true_iff in Hclosed. destruct Hclosed as [H Hall].
  apply andb_true_iff in H. destruct H as [Hmem Hrt].
  split; [exact Hmem|]. split; [apply st_eqb_eq; exact Hrt|].
  intros p Hp.
  apply PositiveSet.for_all_spec in Hall.
  - apply Hall. apply PositiveSet.mem_spec. exact Hp.
  - intros x y Hxy. rewrite Hxy. reflexivity.
Qed.

Lemma reach_in_set : forall s, reach n s ->
  exists p, PositiveSet.mem p S = true /\ dec n p = s.
Proof.
  destruct closed_parts as [Hmem [Hrt Hbody]].
  intros s Hr. induction Hr as [|s s' Hr IH Hin].
  - exists (enc (init n)). split; assumption.
  - destruct IH as [p [Hp Hdec]].
    specialize (Hbody p Hp). unfold body in Hbody.
    apply andb_true_iff in Hbody. destruct Hbody as [_ Hsucc].
    rewrite Hdec in Hsucc.
    rewrite forallb_forall in Hsucc. specialize (Hsucc (Next s') Hin).
    apply andb_true_iff in Hsucc. destruct Hsucc as [Hm Hr'].
    exists (enc s'). split; [exact Hm|]. apply st_eqb_eq. exact Hr'.
Qed.

Theorem closed_reach_good : forall s, reach n s -> good n s = true.
Proof.
  intros s Hr. destruct (reach_in_set s Hr) as [p [Hp Hdec]].
  destruct closed_parts as [_ [_ Hbody]].
  specialize (Hbody p Hp). unfold body in Hbody.
  apply andb_true_iff in Hbody. destruct Hbody as [Hg _]. rewrite Hdec in Hg. exact Hg.
Qed.
End Closed.

(* what [good] gives, spelled out *)
Lemma good_mutex : forall n s, good n s = true ->
  count_if writer_inside (th s) <= 1 /\
  (count_if writer_inside (th s) = 0 \/ count_if reader_inside (th s) = 0).
Proof.
  intros n s H. unfold good in H.
  apply andb_true_iff in H. destruct H as [H _].
  apply andb_true_iff in H. destruct H as [H _].
  unfold mutex_ok in H. apply andb_true_iff in H. destruct H as [Hw Hx].
  split; [apply N.leb_le; exact Hw|].
  apply orb_true_iff in Hx. destruct Hx as [Hx|Hx]; apply N.eqb_eq in Hx; auto.
Qed.

Lemma good_no_error : forall n s, good n s = true -> ~ In Error (succs n s).
Proof.
  intros n s H Hin. unfold good in H.
  apply andb_true_iff in H. destruct H as [H _].
  apply andb_true_iff in H. destruct H as [_ H].
  unfold no_error in H. rewrite forallb_forall in H. specialize (H Error Hin). discriminate.
Qed.

Lemma good_not_stuck : forall n s, good n s = true -> not_stuck n s = true.
Proof.
  intros n s H. unfold good in H. apply andb_true_iff in H. destruct H as [_ H]. exact H.
Qed.

(* the concrete sets: 2 and 3 threads (4 threads: Proofs/C19Four.v) *)
Lemma closed_2 : closed 2 (reach_set 2) = true.
Proof. vm_compute. reflexivity. Qed.
Lemma closed_3 : closed 3 (reach_set 3) = true.
Proof. vm_compute. reflexivity. Qed.
Lemma share_2 : readers_share 2 (reach_set 2) = true.
Proof. vm_compute. reflexivity. Qed.

Theorem rw_good_2 : forall s, reach 2 s -> good 2 s = true.
Proof. exact (closed_reach_good 2 (reach_set 2) closed_2). Qed.
Theorem rw_good_3 : forall s, reach 3 s -> good 3 s = true.
Proof. exact (closed_reach_good 3 (reach_set 3) closed_3). Qed.

(* two readers inside together is reachable: exhibit it from the computed set.  Every member
   of reach_set is reachable is not needed for the safety theorems; for this liveness-style
   witness we give an explicit schedule instead. *)
Fixpoint run_schedule (n : nat) (s : st) (sched : list (nat * nat)) : option st :=
  match sched with
  | [] => Some s
  | (i, k) :: rest =>
      match nth k (thread_steps i s) Blocked with
      | Next s' => run_schedule n s' rest
      | _ => None
      end
  end.

Lemma thread_steps_in_succs : forall n i s o, (i < n)%nat -> In o (thread_steps i s) -> In o (succs n s).
Proof.
  intros n i s o Hi Ho. unfold succs. apply in_flat_map. exists i. split; [|exact Ho].
  apply in_seq. split; [apply le_0_n|]. simpl. exact Hi.
Qed.

Lemma run_schedule_reach : forall n sched s s',
  reach n s -> forallb (fun ik => Nat.ltb (fst ik) n) sched = true ->
  run_schedule n s sched = Some s' -> reach n s'.
Proof.
  intros n sched. induction sched as [|[i k] rest IH]; intros s s' Hr Hlt Hrun.
  - simpl in Hrun. inversion Hrun. subst. exact Hr.
  - simpl in Hrun. simpl in Hlt. apply andb_true_iff in Hlt. destruct Hlt as [Hi Hrest].
    destruct (nth k (thread_steps i s) Blocked) as [s1| |] eqn:Hn; try discriminate.
    apply (IH s1 s'); [|exact Hrest|exact Hrun].
    apply (reach_step n s s1 Hr).
    apply (thread_steps_in_succs n i); [apply Nat.ltb_lt; exact Hi|].
    destruct (Nat.lt_ge_cases k (List.length (thread_steps i s))) as [Hk|Hk].
    + rewrite <- Hn. apply nth_In. exact Hk.
    + rewrite nth_overflow in Hn by exact Hk. discriminate.
Qed.

(* both threads start a reader section (choice 0) and run their acquire code to the end *)
Definition share_schedule : list (nat * nat) :=
  [(0, 0)%nat] ++ repeat (0, 0)%nat (List.length reader_acquire) ++
  [(1, 0)%nat] ++ repeat (1, 0)%nat (List.length reader_acquire).

Theorem rw_readers_share : exists s, reach 2 s /\ two_readers s = true.
Proof.
  destruct (run_schedule 2 (init 2) share_schedule) as [s|] eqn:Hrun.
  - exists s. split.
    + apply (run_schedule_reach 2 share_schedule (init 2) s (reach_init 2)); [|exact Hrun].
      vm_compute. reflexivity.
    + revert Hrun. vm_compute. intros Hrun. inversion Hrun. reflexivity.
  - revert Hrun. vm_compute. discriminate.
Qed.
