(* C13 proofs: upsert inserts exactly one document iff nothing matches (partial: see
   Properties/C13.v for what is and is not covered). *)
From Coq Require Import ZArith List String Bool Ascii Lia.
From Verif Require Import Value PyEq BsonOrder Path Filter Update Project Coll HistCheck HistProps
  HistGuards.
From Verif.Proofs Require Import C01Values C15Proofs.
Import ListNotations.
Open Scope Z_scope.
Open Scope string_scope.
Open Scope list_scope.

(* ---------------------------------------------------------------- no TTL index: no expiry *)
Definition noTTL (c : coll) : Prop := forall i, In i (idx c) -> ittl i = None.

Lemma expire_fold l :
  (forall i, In i l -> ittl i = None) ->
  forall c, fold_left (fun acc i => let! c' := acc in expire_index i c') l (Ok c) = Ok c.
Proof.
  induction l as [|a l IH]; intros H c; [reflexivity|].
  cbn [fold_left bind].
  assert (Ha : expire_index a c = Ok c)
    by (unfold expire_index; rewrite (H a (or_introl eq_refl)); reflexivity).
  rewrite Ha. apply IH. intros i Hi. apply H. right. exact Hi.
Qed.

Lemma expire_noTTL c : noTTL c -> expire c = Ok c.
Proof. intros H. unfold expire. apply expire_fold. exact H. Qed.

Lemma expire_if_noTTL b c : noTTL c -> expire_if b c = Ok c.
Proof. intros H. destruct b; [apply expire_noTTL; exact H|reflexivity]. Qed.

(* ---------------------------------------------------------------- small list facts *)
Lemma assoc_app_none {A} k (l : list (string * A)) x :
  assoc k l = None -> assoc k (l ++ [(k, x)]) = Some x.
Proof.
  induction l as [|[k' v] l IH]; simpl; intros H.
  - rewrite String.eqb_refl. reflexivity.
  - destruct (String.eqb k k'); [discriminate|]. apply IH. exact H.
Qed.

Lemma assoc_patch k fs :
  assoc k ((fix go (fs : list (string * value)) :=
              match fs with [] => [] | (k, x) :: fs' => (k, patch x) :: go fs' end) fs)
  = option_map patch (assoc k fs).
Proof.
  induction fs as [|[k' v] fs IH]; [reflexivity|].
  simpl. destruct (String.eqb k k'); [reflexivity|exact IH].
Qed.

Lemma doc_id_patch fs : doc_id (patch (VDoc fs)) = option_map patch (assoc "_id" fs).
Proof. unfold doc_id. cbn [patch]. apply assoc_patch. Qed.

Lemma store_set_keys k d l :
  existsb (fun kd => py_eq (fst kd) k) l = true ->
  map fst (store_set k d l) = map fst l.
Proof.
  induction l as [|[k' d'] l IH]; simpl; intros H; [discriminate|].
  destruct (py_eq k' k) eqn:E; simpl; [reflexivity|].
  f_equal. apply IH. exact H.
Qed.

Lemma store_get_null l :
  existsb (fun kd : value * value => is_null (fst kd)) l = true -> store_get VNull l <> None.
Proof.
  induction l as [|[k d] l IH]; simpl; intros H; [discriminate|].
  destruct k; simpl in *; try (apply IH; exact H). discriminate.
Qed.

(* ---------------------------------------------------------------- insert_doc *)
Lemma insert_doc_ok c d c' id :
  noTTL c -> insert_doc c d = (c', Ok id) ->
  exists fs1 i0, docs c' = docs c ++ [(id, patch (VDoc fs1))] /\ assoc "_id" fs1 = Some i0 /\
              id = patch i0 /\ store_get id (docs c) = None /\ idx c' = idx c.
Proof.
  intros HT H.
  destruct (is_doc d) eqn:Hd; [|rewrite insert_doc_nondoc in H by exact Hd; discriminate].
  destruct d; try discriminate Hd. clear Hd.
  unfold insert_doc in H.
  destruct (assoc "_id" fs) as [i|] eqn:Hid; cbv beta iota zeta in H.
  - destruct (negb (id_modelled (patch i))); [destruct (patch i); discriminate|].
    rewrite (expire_noTTL c HT) in H.
    destruct (store_get (patch i) (docs c)) eqn:Hget; [discriminate|].
    destruct (ensure_uniques _ _) as [touched|e] in H.
    + rewrite expire_if_noTTL in H by exact HT.
      inversion H; subst. exists fs, i. cbn [docs with_docs with_docs_w idx]. auto.
    + destruct (expire _) in H; discriminate.
  - set (c0 := mkColl (docs c) (idx c) (forced c) (next_oid c + 1) (now c) (odocs c)) in *.
    assert (HT0 : noTTL c0) by exact HT.
    cbn [id_modelled negb] in H.
    rewrite (expire_noTTL c0 HT0) in H.
    destruct (store_get (VOid (next_oid c)) (docs c0)) eqn:Hget; [discriminate|].
    destruct (ensure_uniques _ _) as [touched|e] in H.
    + rewrite expire_if_noTTL in H by exact HT0.
      inversion H; subst. exists (fs ++ [("_id", VOid (next_oid c))]), (VOid (next_oid c)).
      cbn [docs with_docs with_docs_w idx c0]. repeat split; auto. apply assoc_app_none. exact Hid.
    + destruct (expire _) in H; discriminate.
Qed.

(* ---------------------------------------------------------------- update_loop *)
Definition key_present (k : value) (l : list (value * value)) : Prop :=
  existsb (fun kd => py_eq (fst kd) k) l = true.

Lemma key_present_keys k l l' : map fst l = map fst l' -> key_present k l -> key_present k l'.
Proof.
  unfold key_present. intros He.
  rewrite <- (existsb_map fst (fun k' => py_eq k' k) l), <- (existsb_map fst (fun k' => py_eq k' k) l').
  rewrite He. auto.
Qed.

Lemma scan_nil_loop spec upd multi : forall todo c m md,
  scan spec todo = Ok [] -> update_loop c spec upd multi todo m md = (c, Ok (m, md)).
Proof.
  induction todo as [|[k d] todo IH]; intros c m md Hs; [reflexivity|].
  cbn [scan] in Hs. cbn [update_loop].
  destruct (filter_applies spec d) as [b|e]; [|discriminate].
  cbn [bind] in Hs. destruct (scan spec todo) as [r|e] eqn:Hr; [|discriminate].
  cbn [bind] in Hs. destruct b; [discriminate|].
  apply IH. inversion Hs; subst. reflexivity.
Qed.

Lemma update_loop_inv spec upd multi : forall todo c m md c' m' md',
  noTTL c ->
  (forall k d, In (k, d) todo -> key_present k (docs c)) ->
  update_loop c spec upd multi todo m md = (c', Ok (m', md')) ->
  map fst (docs c') = map fst (docs c) /\ idx c' = idx c /\ m <= m' /\
  (forall r, scan spec todo = Ok r -> r <> [] -> m < m').
Proof.
  induction todo as [|[k d] todo IH]; intros c m md c' m' md' HT Hk H.
  - cbn [update_loop] in H. inversion H; subst. repeat split; try lia.
    intros r Hr Hne. cbn [scan] in Hr. inversion Hr; subst. congruence.
  - assert (Hk' : forall k0 d0, In (k0, d0) todo -> key_present k0 (docs c))
      by (intros k0 d0 Hi; apply (Hk k0 d0); right; exact Hi).
    cbn [update_loop] in H. cbn [scan].
    destruct (filter_applies spec d) as [[|]|e]; [| |discriminate].
    2:{ destruct (IH c m md c' m' md' HT Hk' H) as (H1 & H2 & H3 & H4).
        repeat split; auto. intros r Hr Hne. cbn [bind] in Hr.
        destruct (scan spec todo) as [r'|e]; [|discriminate]. cbn [bind] in Hr.
        inversion Hr; subst. apply (H4 r eq_refl Hne). }
    (* the document matches: matched grows *)
    assert (Hfin : forall c1, noTTL c1 -> map fst (docs c1) = map fst (docs c) -> idx c1 = idx c ->
              forall mdx,
              (if multi then update_loop c1 spec upd multi todo (m + 1) mdx
               else (c1, Ok (m + 1, mdx))) = (c', Ok (m', md')) ->
              map fst (docs c') = map fst (docs c) /\ idx c' = idx c /\ m <= m' /\
              (forall r, (let! r0 := scan spec todo in Ok ((k, d) :: r0)) = Ok r -> r <> [] -> m < m')).
    { intros c1 HT1 Hm1 Hi1 mdx H1. destruct multi.
      - destruct (IH c1 (m + 1) mdx c' m' md' HT1) as (A & B & C & D); auto.
        { intros k0 d0 Hi. eapply key_present_keys; [symmetry; exact Hm1|]. eapply Hk'. exact Hi. }
        repeat split; try congruence; try lia.
      - inversion H1; subst. repeat split; auto; lia. }
    destruct (apply_update spec upd false (now c) d) as [d'|e]; [|discriminate].
    cbv zeta in H.
    destruct (negb (negb (py_eq d' d))) eqn:Hch.
    + destruct (negb (value_eqb d' d) && py_in k (odocs c)); [discriminate|].
      apply (Hfin c HT eq_refl eq_refl md H).
    + destruct (negb _) in H; [discriminate|].
      destruct (match d with VDoc fs => assoc "_id" fs | _ => None end); [|discriminate].
      set (c1 := with_docs_w c (store_set k d' (docs c))) in *.
      assert (HT1 : noTTL c1) by exact HT.
      assert (Hm1 : map fst (docs c1) = map fst (docs c)).
      { unfold c1. cbn [docs with_docs with_docs_w]. apply store_set_keys.
        apply (Hk k d). left. reflexivity. }
      destruct (ensure_uniques c1 d') as [touched|e].
      * rewrite (expire_if_noTTL touched c1 HT1) in H.
        apply (Hfin c1 HT1 Hm1 eq_refl (md + 1) H).
      * destruct e; try discriminate; destruct (expire c1); discriminate.
Qed.

(* ---------------------------------------------------------------- update with upsert *)
Definition keys_self_eq (l : list (value * value)) : Prop :=
  forallb (fun kd => py_eq (fst kd) (fst kd)) l = true.

Lemma keys_self_present l : keys_self_eq l -> forall k d, In (k, d) l -> key_present k l.
Proof.
  unfold keys_self_eq, key_present. intros H k d Hi.
  apply existsb_exists. exists (k, d). split; [exact Hi|].
  rewrite forallb_forall in H. apply (H (k, d) Hi).
Qed.

Inductive upsert_outcome (c c' : coll) (f : value) (v : value) : Prop :=
| UpsInserted (id i0 : value) (fs1 : list (string * value)) :
    scan (patch f) (docs c) = Ok [] ->
    docs c' = docs c ++ [(id, patch (VDoc fs1))] ->
    assoc "_id" fs1 = Some i0 -> id = patch i0 ->
    store_get id (docs c) = None ->
    v = update_result 1 0 (Some id) ->
    upsert_outcome c c' f v
| UpsMatched (r : list (value * value)) (m md : Z) :
    scan (patch f) (docs c) = Ok r -> r <> [] ->
    List.length (docs c') = List.length (docs c) ->
    v = update_result m md None ->
    upsert_outcome c c' f v
| UpsScanErr (e : err) :
    scan (patch f) (docs c) = Err e ->
    upsert_outcome c c' f v.

Lemma update_upsert pre5 c f u multi c' v :
  noTTL c -> keys_self_eq (docs c) ->
  update pre5 c f u multi true = (c', Ok v) ->
  upsert_outcome c c' f v.
Proof.
  intros HT HK H. unfold update in H.
  destruct (patch f) as [| | | | | | |sfs|] eqn:Hpf; try discriminate.
  destruct (patch u) as [| | | | | | |ufs|] eqn:Hpu; try discriminate.
  destruct (empty_operator pre5 (VDoc ufs)); [discriminate|].
  rewrite (expire_noTTL c HT) in H.
  destruct (match docs c with [] => filter_applies (VDoc sfs) (VDoc []) | _ => Ok true end);
    [|discriminate].
  destruct (update_loop c (VDoc sfs) (VDoc ufs) multi (docs c) 0 0) as [c2 r] eqn:Hloop.
  destruct r as [[matched modified]|e]; [|discriminate].
  destruct (scan (VDoc sfs) (docs c)) as [ms|e] eqn:Hscan; [|eapply UpsScanErr; rewrite Hpf; exact Hscan].
  destruct ms as [|x ms].
  - (* nothing matches *)
    rewrite (scan_nil_loop _ _ _ _ _ _ _ Hscan) in Hloop. inversion Hloop; subst.
    cbn [negb orb Z.eqb] in H.
    match type of H with
    | (let '(c3, id) := ?sel in _) = _ => destruct sel as [c3 id0] eqn:Hsel
    end.
    assert (HT3 : noTTL c3 /\ docs c3 = docs c2).
    { destruct (match assoc "_id" sfs with Some i => if is_null i then None else Some i | None => None end);
        [inversion Hsel; subst; auto|].
      destruct (match assoc "_id" ufs with Some i => if is_null i then None else Some i | None => None end);
        inversion Hsel; subst; auto. }
    destruct HT3 as [HT3 Hd3].
    destruct (expand_dots _) as [expanded|e]; [|discriminate].
    destruct (apply_update _ _ _ _ _) as [d'|e]; [|discriminate].
    destruct (insert_doc c3 d') as [c4 ir] eqn:Hins.
    destruct ir as [new_id|e]; [|discriminate].
    inversion H; subst.
    destruct (insert_doc_ok _ _ _ _ HT3 Hins) as (fs1 & i0 & Hdocs & Hid & Hpi & Hget & _).
    eapply UpsInserted with (id := new_id) (i0 := i0) (fs1 := fs1); try reflexivity.
    + rewrite Hpf; exact Hscan.
    + cbn [docs]. rewrite Hdocs, Hd3. reflexivity.
    + exact Hid.
    + exact Hpi.
    + rewrite <- Hd3. exact Hget.
  - (* something matches *)
    destruct (update_loop_inv _ _ _ _ _ _ _ _ _ _ HT (keys_self_present _ HK) Hloop)
      as (Hkeys & _ & _ & Hlt).
    assert (Hm : 0 < matched) by (apply (Hlt _ Hscan); discriminate).
    assert (Hz : Z.eqb matched 0 = false) by (apply Z.eqb_neq; lia).
    rewrite Hz in H. cbn [negb orb] in H. inversion H; subst.
    eapply UpsMatched; [rewrite Hpf; exact Hscan|discriminate| |reflexivity].
    rewrite <- (map_length fst (docs c')), Hkeys, map_length. reflexivity.
Qed.

(* ---------------------------------------------------------------- the weakened predicate *)
(* c13_upsert_ok without its last two conjuncts (where the upserted _id comes from; the new
   document matches an equality-only filter): both relate the seed construction and the update
   operators with the result, and both are false on the model in corner cases, see
   Refuted/C13.v *)
Definition c13w_upsert_ok (x : ctx) (f : value) (r : res value) (after : store) : bool :=
  let before := x_store x in
  match r with
  | Err _ => true
  | Ok v =>
      match any_match f before with
      | None => true
      | Some true =>
          Nat.eqb (List.length after) (List.length before)
          && opt_value_eqb (get_field "upserted_id" v) (Some VNull)
      | Some false =>
          Nat.eqb (List.length after) (S (List.length before))
          && store_eqb before (firstn (List.length before) after)
          && opt_value_eqb (get_field "matched" v) (Some (VInt 0))
          && match last after (VNull, VNull), get_field "upserted_id" v with
             | (k, d), Some uid =>
                 negb (is_null uid) && opt_value_eqb (doc_id d) (Some uid)
             | _, None => false
             end
      end
  end.

Definition c13w_step (x : ctx) (o : op) (ob : obs) : bool :=
  let '(r, after, _) := ob in
  match o with
  | OUpdate f u _ true => c13w_upsert_ok x f r after
  | OReplace f u true => c13w_upsert_ok x f r after
  | _ => true
  end.

Definition c13w_ok (ops : list op) (os : list obs) : bool := trace_all c13w_step ctx0 ops os.

(* it is a weakening *)
Lemma c13_upsert_weaken x f u b r after :
  c13_upsert_ok x f u b r after = true -> c13w_upsert_ok x f r after = true.
Proof.
  unfold c13_upsert_ok, c13w_upsert_ok.
  destruct r as [v|e]; [|auto].
  destruct (any_match f (x_store x)) as [[|]|]; auto.
  destruct (last after (VNull, VNull)) as [k d].
  destruct (get_field "upserted_id" v) as [uid|]; auto.
  intros H.
  repeat match goal with
         | H : _ && _ = true |- _ => apply andb_prop in H; destruct H
         end.
  repeat (apply andb_true_intro; split); assumption.
Qed.

Lemma trace_all_weaken (p q : ctx -> op -> obs -> bool) :
  (forall x o ob, p x o ob = true -> q x o ob = true) ->
  forall ops os x, trace_all p x ops os = true -> trace_all q x ops os = true.
Proof.
  intros Hpq. induction ops as [|o ops IH]; intros [|[[r s] i] os] x H; simpl in *; auto.
  apply andb_prop in H. destruct H as [H1 H2].
  rewrite (Hpq _ _ _ H1). simpl. apply IH. exact H2.
Qed.

Lemma c13_ok_weaken ops os : c13_ok ops os = true -> c13w_ok ops os = true.
Proof.
  apply trace_all_weaken. intros x o [[r s] i]. unfold c13_step, c13w_step.
  destruct o; auto.
  - destruct upsert; auto. apply c13_upsert_weaken.
  - destruct upsert; auto. apply c13_upsert_weaken.
Qed.

(* ---------------------------------------------------------------- the guard, step by step *)
Definition has_ttl (info : value) : bool :=
  match info with
  | VDoc fs => existsb (fun ni => match get_field "expireAfterSeconds" (snd ni) with
                                  | Some _ => true | None => false end) fs
  | _ => false end.

Definition c13_step_reasons (o : op) (r : res value) (before after : list (value * value))
           (info : value) : Z :=
  if match o with OUpdate _ _ _ true | OReplace _ _ true => true | _ => false end then
    (if has_ttl info then 1 else 0)
    + (if forallb (fun kd => py_eq (fst kd) (fst kd)) before then 0 else 2)
    + (if existsb (fun kd => is_null (fst kd)) after
          && negb (existsb (fun kd => is_null (fst kd)) before) then 4 else 0)
    + (if match o with OUpdate _ u _ true => c13_id_subfield u | _ => false end then 32 else 0)
    + (if match o with OUpdate f _ _ true => c13_null_id_filter f | _ => false end then 64 else 0)
  else 0.

Fixpoint c13_go (ops : list op) (os : list obs) (before : list (value * value)) (info : value)
  : Z :=
  match ops, os with
  | o :: ops', (r, after, info') :: os' =>
      Z.lor (c13_step_reasons o r before after info) (c13_go ops' os' after info')
  | _, _ => 0
  end.

Lemma c13_reasons_go ops os : c13_reasons ops os = c13_go ops os [] (VDoc []).
Proof. reflexivity. Qed.

Lemma reasons_zero (a b c d e : bool) :
  (if a then 1 else 0) + (if b then 0 else 2) + (if c then 4 else 0)
  + (if d then 32 else 0) + (if e then 64 else 0) = 0 ->
  a = false /\ b = true /\ c = false /\ d = false /\ e = false.
Proof. destruct a, b, c, d, e; intros; repeat split; lia. Qed.

Lemma drop_bits (a b c d e : bool) :
  (if a then 1 else 0) + (if b then 0 else 2) + (if c then 4 else 0)
  + (if d then 32 else 0) + (if e then 64 else 0) = 0 ->
  (if a then 1 else 0) + (if b then 0 else 2) + (if c then 4 else 0) + 0 + 0 = 0.
Proof. destruct a, b, c, d, e; lia. Qed.

Definition info_of (c : coll) : value :=
  match index_information c with (_, Ok v) => v | _ => VNull end.

Lemma index_doc_ttl i : get_field "expireAfterSeconds" (index_doc i) = None -> ittl i = None.
Proof.
  unfold index_doc. destruct (ittl i) as [t|]; [|reflexivity].
  destruct (isparse i), (iunique i); simpl; discriminate.
Qed.

Lemma info_noTTL c : has_ttl (info_of c) = false -> noTTL c.
Proof.
  unfold info_of, index_information, noTTL. destruct (is_created c) eqn:Hc.
  - cbn [has_ttl existsb snd]. intros H i Hi.
    apply orb_false_iff in H. destruct H as [_ H].
    rewrite existsb_map in H.
    pose proof (existsb_false_In _ _ H i Hi) as Hf. cbn [snd] in Hf.
    apply index_doc_ttl. destruct (get_field "expireAfterSeconds" (index_doc i)); [discriminate|reflexivity].
  - intros _ i Hi. unfold is_created in Hc.
    destruct (docs c); [|discriminate]. destruct (idx c); [destruct Hi|discriminate].
Qed.

(* ---------------------------------------------------------------- one upsert step *)
Lemma length_app1 {A} (l : list A) x : List.length (l ++ [x]) = S (List.length l).
Proof. rewrite app_length. simpl. lia. Qed.

Lemma firstn_app1 {A} (l : list A) x : firstn (List.length l) (l ++ [x]) = l.
Proof.
  rewrite firstn_app, firstn_all, Nat.sub_diag. simpl. apply app_nil_r.
Qed.

Lemma upsert_pred c c' f v info now :
  upsert_outcome c c' f v ->
  existsb (fun kd : value * value => is_null (fst kd)) (docs c')
    && negb (existsb (fun kd : value * value => is_null (fst kd)) (docs c)) = false ->
  c13w_upsert_ok (mkCtx (docs c) info now) f (Ok v) (docs c') = true.
Proof.
  intros Hout Hnull. unfold c13w_upsert_ok, any_match. cbn [x_store].
  destruct Hout as [id i0 fs1 Hscan Hdocs Hid Hpi Hget Hv | r m md Hscan Hne Hlen Hv | e Hscan];
    rewrite Hscan; [| |reflexivity].
  - subst v. rewrite Hdocs in *.
    rewrite length_app1, firstn_app1, Nat.eqb_refl, store_eqb_refl, last_last.
    assert (Hn : is_null id = false).
    { destruct (is_null id) eqn:Hn; [|reflexivity]. exfalso.
      rewrite existsb_app in Hnull. cbn [existsb fst] in Hnull. rewrite Hn in Hnull.
      destruct (existsb (fun kd : value * value => is_null (fst kd)) (docs c)) eqn:Hb.
      - destruct id; try discriminate Hn. exact (store_get_null _ Hb Hget).
      - discriminate Hnull. }
    unfold update_result in *. simpl get_field in *.
    rewrite Hn. cbn [negb andb opt_value_eqb value_eqb Z.eqb].
    rewrite doc_id_patch, Hid. cbn [option_map opt_value_eqb]. rewrite <- Hpi, ?Hn. cbn [negb andb].
    apply value_eqb_refl.
  - subst v. destruct r as [|x r]; [congruence|].
    rewrite Hlen, Nat.eqb_refl. reflexivity.
Qed.

Lemma c13w_step_model pre5 c o now info' :
  c13_step_reasons o (snd (step pre5 c o)) (docs c) (docs (fst (step pre5 c o))) (info_of c) = 0 ->
  c13w_step (mkCtx (docs c) (info_of c) now) o
            (snd (step pre5 c o), docs (fst (step pre5 c o)), info') = true.
Proof.
  intros H.
  assert (Hup : forall f u multi,
            c13_step_reasons (OReplace f u true) (snd (update pre5 c f u multi true)) (docs c)
                             (docs (fst (update pre5 c f u multi true))) (info_of c) = 0 ->
            c13w_upsert_ok (mkCtx (docs c) (info_of c) now) f
                           (snd (update pre5 c f u multi true))
                           (docs (fst (update pre5 c f u multi true))) = true).
  { intros f u multi Hr. unfold c13_step_reasons in Hr.
    apply (reasons_zero _ _ _ false false) in Hr.
    destruct Hr as (Httl & Hself & Hnull & _ & _).
    destruct (update pre5 c f u multi true) as [c' [v|e]] eqn:Hu; [|reflexivity].
    cbn [fst snd] in *.
    apply upsert_pred; auto.
    apply (update_upsert pre5 c f u multi c' v); auto.
    apply info_noTTL. exact Httl. }
  destruct o; try reflexivity.
  - (* update *)
    destruct upsert; [|reflexivity].
    cbn [c13w_step step] in *. unfold update_op in *.
    destruct u; try reflexivity.
    destruct (first_key_dollar (VDoc fs)) as [[|]|]; try reflexivity.
    apply Hup. exact (drop_bits _ _ _ _ _ H).
  - (* replace *)
    destruct upsert; [|reflexivity].
    cbn [c13w_step step] in *. unfold replace_op in *.
    destruct r; try reflexivity.
    destruct (first_key_dollar (VDoc fs)) as [[|]|]; try reflexivity; apply Hup; exact H.
Qed.

(* ---------------------------------------------------------------- the history *)
Lemma c13w_trace pre5 : forall ops c now,
  c13_go ops (model_obs pre5 c ops) (docs c) (info_of c) = 0 ->
  trace_all c13w_step (mkCtx (docs c) (info_of c) now) ops (model_obs pre5 c ops) = true.
Proof.
  induction ops as [|o ops IH]; intros c now H; [reflexivity|].
  rewrite model_obs_cons in *. cbn [c13_go trace_all] in *.
  apply Z.lor_eq_0_iff in H. destruct H as [H1 H2].
  rewrite (c13w_step_model pre5 c o now _ H1). cbn [andb].
  apply (IH (fst (step pre5 c o))). exact H2.
Qed.

Lemma c13_history_partial pre5 ops :
  c13_reasons ops (model_obs pre5 empty_coll ops) = 0 ->
  c13w_ok ops (model_obs pre5 empty_coll ops) = true.
Proof.
  intros H. rewrite c13_reasons_go in H. unfold c13w_ok.
  exact (c13w_trace pre5 ops empty_coll 0 H).
Qed.
