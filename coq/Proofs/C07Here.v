(* C07 proofs, part 3: the instance for the flags read off the current source
   (Gen/CopySites.v).  This is the only place that looks at the values of the cp_* constants:
   a source change that flips a flag breaks this file (and C07_here), nothing else. *)
From Coq Require Import ZArith List String Bool.
From Verif Require Import Value Coll Heap.
From Verif Require Import C07Base C07Proofs.
Import ListNotations.
Open Scope Z_scope.

Lemma all_copy_here : all_copy here = true.
Proof. vm_compute. reflexivity. Qed.

Theorem no_aliasing_here :
  forall pre5 (hs : list (hop * ids)),
  Forall (fun ha => Forall (fun x => x < 0) (snd ha)) hs ->
  run_keys_wf pre5 empty_coll hs = true ->
  Forall2 (fun ha out => apart_after (h_own (ho_state out)) (snd ha) (ho_result_ids out) = true)
          hs (snd (hrun here pre5 h_init hs)).
Proof. exact (no_aliasing here all_copy_here). Qed.
