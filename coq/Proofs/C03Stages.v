(* C03 part B -- model and specification agree, stage by stage, inside the guard:
   $match (through C01), $sort (through C11), $skip, $limit, $count *)
From Coq Require Import ZArith List String Bool Ascii Lia Permutation.
From Verif Require Import Value PyEq BsonOrder Path Update Filter FilterSpec FilterGuard Coll Cursor
     Expr ExprSpec Pipeline PipelineSpec PipelineGuard.
From Verif Require Import C01Proofs C11Keys C11Radix.
From Verif Require Import C03Base C03Laws.
Import ListNotations.
Open Scope Z_scope.
Open Scope string_scope.
Open Scope list_scope.

(* the outcome of the specification and of the model are compatible, the streams being
   ordered, without set-valued fields, and holding exactly the model's documents *)
Definition rel (p : pres) (m : res (list value)) : Prop :=
  match p, m with
  | PUndef, _ => True
  | _, Err EUnmodelled => True
  | PErr, Err _ => True
  | PV s, Ok l => s_docs s = l /\ s_ord s = true /\ s_sets s = []
  | _, _ => False
  end.

Lemma rel_undef m : rel PUndef m.
Proof. exact I. Qed.
Lemma rel_unmodelled p : rel p (Err EUnmodelled).
Proof. destruct p; exact I. Qed.
Lemma rel_err e : rel PErr (Err e).
Proof. destruct e; exact I. Qed.
Lemma rel_ok l : rel (PV (mkStream l true [])) (Ok l).
Proof. simpl. repeat split. Qed.

Lemma lor_zero a b : Z.lor a b = 0 -> a = 0 /\ b = 0.
Proof. apply Z.lor_eq_0_iff. Qed.

Lemma zb_zero b bit : bit <> 0 -> zb b bit = 0 -> b = false.
Proof. intros Hb H. destruct b; [contradiction|reflexivity]. Qed.

(* ------------------------------------------------------------ $match *)
Lemma patch_doc_is_doc fs : exists gs, patch (VDoc fs) = VDoc gs.
Proof. eexists. reflexivity. Qed.

Lemma match_docs_spec fs l :
  existsb (filter_finding (VDoc fs)) l = false ->
  match all_opt (map (spec_match_doc (patch (VDoc fs))) (map patch l)) with
  | Some bs => match_docs (patch (VDoc fs)) l = Ok (map fst (List.filter snd (combine l bs)))
  | None => True
  end.
Proof.
  induction l as [|d l IH]; intros Hg; [reflexivity|].
  cbn [existsb] in Hg. apply orb_false_iff in Hg. destruct Hg as [Hd Hl].
  specialize (IH Hl). cbn [map all_opt].
  unfold spec_match_doc at 1. cbv zeta.
  destruct (FilterGuard.decided (parse_filter (patch (VDoc fs))) (patch d)) eqn:Hdec; [|exact I].
  destruct (all_opt (map (spec_match_doc (patch (VDoc fs))) (map patch l))) as [bs|]; [|exact I].
  cbn [match_docs].
  assert (HG : G01 (parse_filter (patch (VDoc fs))) (patch d) = true).
  { unfold filter_finding in Hd. rewrite Hdec in Hd. rewrite andb_true_r in Hd.
    apply negb_false_iff in Hd. unfold G01. exact Hd. }
  destruct (patch_doc_is_doc fs) as [gs Hgs].
  assert (Hfa : filter_applies (patch (VDoc fs)) (patch d)
                = Ok (spec_matches (parse_filter (patch (VDoc fs))) (patch d))).
  { rewrite Hgs in *. unfold filter_applies. apply filter_match_correct. exact HG. }
  rewrite Hfa, IH. cbn [bind combine List.filter snd].
  destruct (spec_matches (parse_filter (patch (VDoc fs))) (patch d)); reflexivity.
Qed.

Lemma stage_match db o l :
  stage_reasons db "$match" o l = 0 ->
  rel (spec_stage db "$match" o (mkStream l true [])) (run_stage db "$match" o l).
Proof.
  intros Hg. rewrite run_stage_match.
  assert (Hs : spec_stage db "$match" o (mkStream l true []) = spec_match o (mkStream l true []))
    by (destruct o; reflexivity).
  rewrite Hs. clear Hs.
  assert (Hg' : Z.lor (zb (existsb (filter_finding o) l) 1)
          (zb (match o with VDoc _ => false | _ => match l with [] => true | _ => false end end) 32) = 0)
    by exact Hg.
  apply lor_zero in Hg'. destruct Hg' as [H1 H32].
  apply zb_zero in H1; [|discriminate]. apply zb_zero in H32; [|discriminate].
  destruct o as [| | | | |us tz| |fs|]; try (destruct l as [|d l]; [discriminate|];
    cbn [spec_match match_docs patch filter_applies bind]; exact I).
  { destruct l as [|d l]; [discriminate|]. destruct tz; exact I. }
  pose proof (match_docs_spec fs l H1) as HM.
  unfold spec_match. cbn [s_docs s_ord s_sets].
  destruct (all_opt (map (spec_match_doc (patch (VDoc fs))) (map patch l))) as [bs|]; [|exact I].
  rewrite HM. simpl. repeat split.
Qed.

(* ------------------------------------------------------------ $sort *)
Lemma sort_spec_of_dirs fs spec : sort_spec_of fs = Some spec -> fs = sort_dirs spec.
Proof.
  unfold sort_spec_of. revert spec. induction fs as [|[k v] fs IH]; intros spec H; cbn [map all_opt] in H.
  - inversion H; reflexivity.
  - cbn [fst snd] in H.
    destruct v as [| |z| | | | | |]; try discriminate.
    assert (Hz : (z = 1 \/ z = -1) \/ (match z with 1 => None | -1 => None | _ => Some tt end = Some tt)).
    { destruct z as [|p|p]; try (right; reflexivity); destruct p; try (right; reflexivity);
        left; [left|right]; reflexivity. }
    destruct Hz as [[Hz|Hz]|Hz]; subst.
    + destruct (all_opt _) as [r|] eqn:Hr; [|discriminate]. inversion H; subst.
      unfold sort_dirs. cbn [map fst snd]. f_equal. apply IH. reflexivity.
    + destruct (all_opt _) as [r|] eqn:Hr; [|discriminate]. inversion H; subst.
      unfold sort_dirs. cbn [map fst snd]. f_equal. apply IH. reflexivity.
    + exfalso. destruct z as [|p|p]; try discriminate; destruct p; discriminate.
Qed.

Lemma spec_sort_no_dollar spec l L :
  spec_sort spec l = Some L ->
  forallb (fun kz => negb (Filter.starts_dollar (fst kz))) spec = true.
Proof.
  unfold spec_sort. destruct (existsb _ spec) eqn:He; [discriminate|]. intros _.
  apply forallb_forall. intros kz Hin. apply negb_true_iff.
  destruct (Filter.starts_dollar (fst kz)) eqn:Hd; [|reflexivity].
  assert (Ht : existsb (fun kd : string * Z => (fst kd =? "$natural") || Filter.starts_dollar (fst kd)) spec = true).
  { apply existsb_exists. exists kz. split; [exact Hin|]. rewrite Hd. apply orb_true_r. }
  rewrite Ht in He. discriminate.
Qed.

Definition sort_covered (o : value) : bool :=
  match o with
  | VDoc fs => forallb (fun kv => path_modelled (split_dots (fst kv))) fs
  | _ => true
  end.

Lemma stage_sort db o l :
  sort_covered o = true ->
  stage_reasons db "$sort" o l = 0 ->
  rel (spec_stage db "$sort" o (mkStream l true [])) (run_stage db "$sort" o l).
Proof.
  intros Hc Hg.
  assert (Hs : spec_stage db "$sort" o (mkStream l true []) = spec_sort_stage o (mkStream l true []))
    by (destruct o; reflexivity).
  rewrite Hs. clear Hs.
  destruct o as [| | | | | | |fs|]; try (cbn; exact I).
  rewrite run_stage_sort.
  destruct fs as [|kv fs]; [discriminate Hg|].
  assert (Hg' : zb (existsb (fun kv => ends_empty (split_dots (fst kv))) (kv :: fs)) 128 = 0) by exact Hg.
  apply zb_zero in Hg'; [|discriminate].
  unfold spec_sort_stage. cbn [s_docs s_ord s_sets].
  destruct (sort_spec_of (kv :: fs)) as [spec|] eqn:Hspec; [|exact I].
  assert (Hnm : existsb (fun k => mem_str k []) (map fst (kv :: fs)) = false).
  { clear. induction (map fst (kv :: fs)) as [|x xs IH]; [reflexivity|]. simpl. exact IH. }
  rewrite Hnm.
  destruct (spec_sort spec l) as [L|] eqn:HL; [|exact I].
  apply sort_spec_of_dirs in Hspec. rewrite Hspec.
  rewrite (sort_agrees_with_find spec l (spec_sort_no_dollar _ _ _ HL)).
  assert (Hok : c11_spec_ok spec = true).
  { unfold c11_spec_ok. apply forallb_forall. intros kz Hin. unfold c11_key_ok.
    assert (Hin' : In (fst kz, VInt (snd kz)) (kv :: fs)).
    { rewrite Hspec. unfold sort_dirs. apply in_map_iff. exists kz. split; [reflexivity|exact Hin]. }
    unfold sort_covered in Hc. rewrite forallb_forall in Hc. specialize (Hc _ Hin'). cbn [fst] in Hc.
    rewrite Hc. cbn [andb]. apply negb_true_iff.
    destruct (ends_empty (split_dots (fst kz))) eqn:He; [|reflexivity].
    assert (Ht : existsb (fun kv0 : string * value => ends_empty (split_dots (fst kv0))) (kv :: fs) = true).
    { apply existsb_exists. exists (fst kz, VInt (snd kz)). split; [exact Hin'|exact He]. }
    rewrite Ht in Hg'. discriminate. }
  rewrite (sort_radix _ _ _ HL Hok). simpl. repeat split.
Qed.

(* ------------------------------------------------------------ $skip / $limit / $count *)
Lemma stage_skip db o l :
  rel (spec_stage db "$skip" o (mkStream l true [])) (run_stage db "$skip" o l).
Proof.
  assert (Hs : spec_stage db "$skip" o (mkStream l true []) = spec_skip o (mkStream l true []))
    by (destruct o; reflexivity).
  rewrite Hs. clear Hs.
  destruct o as [| |n| | | | | |]; try exact I.
  unfold spec_skip. cbn [s_docs s_ord s_sets negb andb].
  destruct (Z.ltb_spec n 0) as [Hn|Hn].
  - change (run_stage db "$skip" (VInt n) l)
      with (if n <?? 0 then Err EOpFail else Ok (py_slice l (Some n) None)).
    destruct (Z.ltb_spec n 0); [exact I|lia].
  - rewrite run_stage_skip by exact Hn. simpl. repeat split.
Qed.

Lemma stage_limit db o l :
  rel (spec_stage db "$limit" o (mkStream l true [])) (run_stage db "$limit" o l).
Proof.
  assert (Hs : spec_stage db "$limit" o (mkStream l true []) = spec_limit o (mkStream l true []))
    by (destruct o; reflexivity).
  rewrite Hs. clear Hs.
  destruct o as [| |n| | | | | |]; try exact I.
  unfold spec_limit. cbn [s_docs s_ord s_sets negb andb].
  destruct (Z.leb_spec n 0) as [Hn|Hn].
  - change (run_stage db "$limit" (VInt n) l)
      with (if Z.leb n 0 then Err EOpFail else Ok (py_slice l None (Some n))).
    destruct (Z.leb_spec n 0); [exact I|lia].
  - rewrite run_stage_limit by exact Hn. simpl. repeat split.
Qed.

Lemma stage_count db o l :
  rel (spec_stage db "$count" o (mkStream l true [])) (run_stage db "$count" o l).
Proof.
  assert (Hs : spec_stage db "$count" o (mkStream l true []) = spec_count o (mkStream l true []))
    by (destruct o; reflexivity).
  rewrite Hs. clear Hs. rewrite run_stage_count.
  destruct o as [| | | |name| | | |]; try exact I.
  unfold spec_count, count_stage. cbn [s_docs].
  destruct (name =? ""); [exact I|]. cbn [orb].
  destruct (starts_dollar name); [exact I|]. cbn [orb].
  destruct (1 <?? Z.of_nat (List.length (split_dots name))); [exact I|].
  destruct l; simpl; repeat split.
Qed.
