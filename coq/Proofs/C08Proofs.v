(* C08 proofs, part 3: from the observed index information to the model's indexes, the
   per-step lemma, and the theorem over histories. *)
From Coq Require Import ZArith List String Bool Ascii Lia.
From Verif Require Import Value PyEq BsonOrder Path Filter FilterSpec Update Project Coll HistCheck
  HistProps HistGuards.
From Verif.Proofs Require Import C01Values C08Store C08Fail.
Import ListNotations.
Open Scope Z_scope.
Open Scope string_scope.
Open Scope list_scope.

(* the index information the trace shows for a state *)
Definition info (c : coll) : value :=
  match index_information c with (_, Ok v) => v | _ => VNull end.

Lemma get_field_ttl i : get_field "expireAfterSeconds" (index_doc i) = ittl i.
Proof.
  destruct i as [nm key u s t p]. unfold index_doc, get_field. simpl.
  destruct s, u, t, p; reflexivity.
Qed.

Lemma idx_flag_unique i : idx_flag "unique" (index_doc i) = iunique i.
Proof.
  destruct i as [nm key u s t p]. unfold idx_flag, index_doc, get_field. simpl.
  destruct s, u, t, p; reflexivity.
Qed.

Lemma info_any_false p c :
  c08_info_any p (info c) = false -> forall i, In i (idx c) -> p (index_doc i) = false.
Proof.
  unfold info, index_information. destruct (is_created c) eqn:Ec.
  - simpl. intros H i Hi. apply orb_false_iff in H. destruct H as [_ H].
    rewrite existsb_map in H.
    rewrite <- Bool.not_true_iff_false in H. rewrite existsb_exists in H.
    destruct (p (index_doc i)) eqn:Ep; [ | reflexivity ].
    exfalso. apply H. exists i. split; [ exact Hi | exact Ep ].
  - unfold is_created in Ec. intros _ i Hi.
    destruct (docs c); destruct (idx c); try discriminate. destruct Hi.
Qed.

Lemma has_ttl_false c : c08_has_ttl (info c) = false -> NoTTL (idx c).
Proof.
  intros H i Hi. pose proof (info_any_false _ c H i Hi) as Hp. cbv beta in Hp.
  rewrite get_field_ttl in Hp. destruct (ittl i); [ discriminate | reflexivity ].
Qed.

Lemma has_unique_false c : c08_has_unique (info c) = false -> NoUnique (idx c).
Proof.
  intros H i Hi. pose proof (info_any_false _ c H i Hi) as Hp. cbv beta in Hp.
  rewrite idx_flag_unique in Hp. exact Hp.
Qed.

Lemma idx_keys_index_doc i : idx_keys (index_doc i) = map fst (ikey i).
Proof.
  destruct i as [nm key u s t p]. unfold idx_keys, index_doc, get_field. simpl.
  induction key as [ | [f d] key IH ]; simpl; [ reflexivity | rewrite IH; reflexivity ].
Qed.

Lemma doc_expired_index_doc n i d : c08_doc_expired n (index_doc i) d = expired_by i n d.
Proof.
  unfold c08_doc_expired, expired_by. rewrite get_field_ttl, idx_keys_index_doc.
  destruct (ittl i) as [sv|]; [ | reflexivity ].
  destruct (ikey i) as [ | [field dir] [ | kd2 rest ] ]; simpl;
    destruct (ttl_seconds sv) as [[secs|]|e]; reflexivity.
Qed.

Lemma any_expired_false x c :
  x_store x = docs c -> x_idx x = info c -> x_now x = now c ->
  c08_any_expired x = false -> AllAlive c.
Proof.
  unfold c08_any_expired. intros Hs Hx Hn H kd Hkd. rewrite Hs, Hx, Hn in H.
  unfold alive. apply forallb_forall. intros i Hi.
  pose proof (info_any_false _ c H i Hi) as Hp. cbv beta in Hp.
  rewrite <- Bool.not_true_iff_false in Hp. rewrite existsb_exists in Hp.
  rewrite <- doc_expired_index_doc.
  destruct (c08_doc_expired (now c) (index_doc i) (snd kd)) eqn:Ed; [ | reflexivity ].
  exfalso. apply Hp. exists kd. split; assumption.
Qed.

Lemma same_vis_info c c' : same_vis c c' -> info c' = info c.
Proof.
  intros (H1 & H2 & H3 & _). unfold info, index_information.
  rewrite H2, H3. destruct (is_created c); reflexivity.
Qed.

Lemma err_eqb_dup e : err_eqb e EDup = false <-> e <> EDup.
Proof. destruct e; simpl; split; intros; congruence. Qed.

(* ---------------------------------------------------------------- one step *)
Lemma step_fail pre5 c o c' e x s i :
  step pre5 c o = (c', Err e) -> single_doc_write o = true ->
  store_nd (docs c) -> all_refl (docs c) -> all_refl (docs c') ->
  x_store x = docs c -> x_idx x = info c -> x_now x = now c ->
  c08_ttl_step x o (Err e, s, i) = false ->
  c08_norollback_step x o (Err e, s, i) = false ->
  c08_after_step x o (Err e, s, i) = false ->
  same_vis c c'.
Proof.
  intros Hs Hsw Hi Hr Hr' Hxs Hx Hxn Ht Hu Ha.
  unfold c08_ttl_step in Ht. rewrite Hsw, Hx in Ht. simpl in Ht.
  assert (Hal : AllAlive c).
  { apply andb_false_iff in Ht. destruct Ht as [Ht | Ht].
    - apply NoTTL_alive. apply has_ttl_false. exact Ht.
    - apply orb_false_iff in Ht. destruct Ht as [Ht _]. eapply any_expired_false; eauto. }
  assert (Hnt : c08_update_kind o = true -> NoUnique (idx c) \/ NoTTL (idx c)).
  { intros Hk. rewrite Hk in Ht. simpl in Ht.
    apply andb_false_iff in Ht. destruct Ht as [Ht | Ht].
    - right. apply has_ttl_false. exact Ht.
    - apply orb_false_iff in Ht. destruct Ht as [_ Ht]. left. apply has_unique_false. exact Ht. }
  clear Ht.
  assert (Hu' : c08_update_kind o = true -> e = EUnmodelled -> NoUnique (idx c)).
  { intros Hk He. subst e. unfold c08_norollback_step in Hu. rewrite Hk, Hx in Hu.
    simpl in Hu. apply has_unique_false. exact Hu. }
  clear Hu.
  destruct o; simpl in Hsw; try discriminate; simpl in Hs.
  - eauto using insert_one_fail.
  - destruct multi; [ discriminate | ]. eapply update_op_fail; eauto.
  - eapply replace_op_fail; eauto.
  - apply (find_and_modify_fail pre5 c f proj sort k c' e Hs Hi Hr Hr' Hal).
    + intros Hk. apply Hnt. destruct k; simpl in *; congruence.
    + intros He Hk. apply Hu'; [ | exact He ]. destruct k; simpl in *; congruence.
    + unfold c08_after_step in Ha. destruct k as [ | u up a | r up a ]; simpl; try reflexivity;
        destruct a; simpl in Ha; congruence.
Qed.

(* ---------------------------------------------------------------- histories *)
Lemma bad_key_false_refl l :
  existsb (fun kd : value * value => negb (py_eq (fst kd) (fst kd))) l = false -> all_refl l.
Proof.
  unfold all_refl. induction l as [ | kd l IH ]; simpl; intros H; [ constructor | ].
  apply orb_false_iff in H. destruct H as [H1 H2]. apply negb_false_iff in H1.
  constructor; [ exact H1 | exact (IH H2) ].
Qed.

Lemma model_obs_cons pre5 c o ops :
  model_obs pre5 c (o :: ops) =
  let '(c', r) := step pre5 c o in (r, docs c', info c') :: model_obs pre5 c' ops.
Proof. reflexivity. Qed.

Lemma c08_history_gen pre5 : forall ops c x,
  Inv (x_now x) c -> all_refl (docs c) -> x_store x = docs c -> x_idx x = info c ->
  c08_trace_any c08_ttl_step x ops (model_obs pre5 c ops) = false ->
  c08_trace_any c08_norollback_step x ops (model_obs pre5 c ops) = false ->
  c08_trace_any c08_after_step x ops (model_obs pre5 c ops) = false ->
  c08_bad_key (model_obs pre5 c ops) = false ->
  trace_all c08_step x ops (model_obs pre5 c ops) = true.
Proof.
  induction ops as [ | o ops IH ]; intros c x Hi Hr Hs Hx Ht Hu Ha Hb; [ reflexivity | ].
  rewrite model_obs_cons in *. destruct (step pre5 c o) as [c' r] eqn:Es.
  unfold c08_bad_key in Hb. cbn [existsb] in Hb. fold (c08_bad_key (model_obs pre5 c' ops)) in Hb.
  cbn [c08_trace_any] in Ht, Hu, Ha. cbn [trace_all].
  apply orb_false_iff in Ht. destruct Ht as [Ht Ht'].
  apply orb_false_iff in Hu. destruct Hu as [Hu Hu'].
  apply orb_false_iff in Ha. destruct Ha as [Ha Ha'].
  apply orb_false_iff in Hb. destruct Hb as [Hb Hb'].
  apply bad_key_false_refl in Hb.
  apply andb_true_intro. split.
  - destruct r as [v|e]; [ reflexivity | ].
    unfold c08_step. destruct (single_doc_write o) eqn:Esw; [ | reflexivity ].
    assert (Hv : same_vis c c').
    { eapply (step_fail pre5 c o c' e x); eauto; [ exact (proj1 Hi) | symmetry; exact (proj2 Hi) ]. }
    rewrite Hs, Hx, (same_vis_info _ _ Hv). destruct Hv as (Hv & _). rewrite Hv.
    rewrite store_eqb_refl, value_eqb_refl. reflexivity.
  - apply IH; try assumption; try reflexivity.
    apply (step_nd (x_now x) pre5 c o c' r Es Hi).
Qed.

(* the reason mask as a sum of independent bits *)
Lemma reasons_bits ops os :
  c08_reasons ops os = 0 \/ c08_reasons ops os = 1 ->
  c08_trace_any c08_ttl_step ctx0 ops os = false /\
  c08_trace_any c08_norollback_step ctx0 ops os = false /\
  c08_trace_any c08_after_step ctx0 ops os = false /\
  c08_bad_key os = false.
Proof.
  unfold c08_reasons.
  match goal with |- context [if ?b then 1 else 0] => destruct b end;
  destruct (c08_trace_any c08_ttl_step ctx0 ops os);
  destruct (c08_trace_any c08_norollback_step ctx0 ops os);
  destruct (c08_trace_any c08_after_step ctx0 ops os);
  destruct (c08_bad_key os); intros [H|H]; try discriminate H; repeat split.
Qed.

(* bit 1 (a find_one_and_* with a projection somewhere in the history) is not needed: in the
   model the image returned with return_document=BEFORE is projected before the write, and a
   failing return_document=AFTER is bit 8 *)
Lemma c08_history_proj_correct : forall (pre5 : bool) (ops : list op),
  c08_reasons ops (model_obs pre5 empty_coll ops) = 0 \/
  c08_reasons ops (model_obs pre5 empty_coll ops) = 1 ->
  c08_ok ops (model_obs pre5 empty_coll ops) = true.
Proof.
  intros pre5 ops H. apply reasons_bits in H. destruct H as (H2 & H3 & H4 & H5).
  unfold c08_ok. apply c08_history_gen; try assumption; try reflexivity.
  - exact Inv_empty.
  - constructor.
Qed.

Lemma c08_history_correct : forall (pre5 : bool) (ops : list op),
  c08_reasons ops (model_obs pre5 empty_coll ops) = 0 ->
  c08_ok ops (model_obs pre5 empty_coll ops) = true.
Proof. intros pre5 ops H. apply c08_history_proj_correct. left. exact H. Qed.
