(* C14: single-document operations act on exactly one, well-defined document. *)
From Coq Require Import ZArith List String Bool.
From Verif Require Import Value PyEq Filter Update Coll HistCheck HistProps HistGuards C14Step.
Import ListNotations.
Open Scope Z_scope.
Open Scope string_scope.

Theorem C14_history : forall (pre5 : bool) (ops : list op),
  c14_reasons ops (model_obs pre5 empty_coll ops) = 0 ->
  c14_ok ops (model_obs pre5 empty_coll ops) = true.
Proof. exact C14_history_proof. Qed.
Print Assumptions C14_history.

(* the guard is satisfiable on a history exercising every branch of the predicate *)
Definition c14_example : list op :=
  [OInsertOne (VDoc [("_id", VInt 1); ("x", VInt 5); ("g", VStr "a")]);
   OInsertOne (VDoc [("x", VInt 3); ("g", VStr "a")]);
   OInsertOne (VDoc [("_id", VDoc [("k", VInt 1); ("j", VStr "s")]); ("x", VInt 9); ("g", VStr "b")]);
   OCreateIndex [("x", VInt 1)] true false None None None;
   OUpdate (VDoc [("g", VStr "a")]) (VDoc [("$set", VDoc [("y", VInt 1)])]) false false;
   OUpdate (VDoc [("g", VStr "zz")]) (VDoc [("$inc", VDoc [("x", VInt 100)])]) false true;
   OReplace (VDoc [("x", VDoc [("$gt", VInt 4)])]) (VDoc [("x", VInt 6); ("g", VStr "c")]) false;
   OUpdate (VDoc [("g", VStr "b")]) (VDoc [("$set", VDoc [("x", VInt 3)])]) false false;
   OFindAndModify (VDoc [("x", VDoc [("$gte", VInt 0)])]) None [("x", -1)]
     (FamUpdate (VDoc [("$set", VDoc [("top", VBool true)])]) false true);
   OFindAndModify (VDoc [("g", VStr "nope")]) None []
     (FamReplace (VDoc [("g", VStr "new"); ("x", VInt 77)]) true false);
   OFindAndModify (VDoc []) (Some (VDoc [("x", VInt 1)])) [("x", 1)] FamDelete;
   ODelete (VDoc [("g", VStr "b")]) false;
   ODelete (VDoc [("g", VStr "none")]) false;
   OFindAndModify (VDoc [("g", VStr "none")]) None [] FamDelete].
Example C14_guard_satisfiable :
  c14_reasons c14_example (model_obs false empty_coll c14_example) = 0
  /\ forallb (fun ob : obs => match fst (fst ob) with Ok _ => true | Err EDup => true | Err _ => false end)
       (model_obs false empty_coll c14_example) = true
  /\ map (fun ob : obs => List.length (snd (fst ob))) (model_obs false empty_coll c14_example)
     = [1; 2; 3; 3; 3; 4; 4; 4; 4; 5; 4; 3; 3; 3]%nat.
Proof. vm_compute. repeat split; reflexivity. Qed.
Print Assumptions C14_guard_satisfiable.
