(* C18: datetimes are stored as naive UTC milliseconds on every path and queried
   consistently.  Property statements only; the proofs are in Proofs/C18*.v
   (Values: patch / make_aware; Update: every update operator preserves normality;
   Project: so does the projection; Store: the state invariant; History: the traces),
   examples showing that the hypotheses are satisfiable and the conclusions not vacuous in
   Proofs/C18Examples.v.  No guard was needed: no counterexample was found and the history
   theorems hold for every history, including the steps on which the model answers
   EUnmodelled. *)
From Coq Require Import ZArith List String Bool.
From Verif Require Import Value PyEq BsonOrder Path Filter Update Project Coll HistCheck HistProps
  DatetimeSpec DatetimeRel.
From Verif.Proofs Require Import C18Values C18Update C18Project C18Store C18History.
Import ListNotations.
Open Scope Z_scope.

Example C18_patch_example :
  patch (VArr [VDate 1577880000123456 (Some 330); VDate 999 None]) =
  VArr [VDate 1577860200123000 None; VDate 0 None].
Proof. vm_compute. reflexivity. Qed.

(* 1. patch_datetime_awareness_in_document leaves only naive datetimes that are a whole number
   of milliseconds, at every nesting depth of sub-documents and arrays. *)
Theorem C18_patch_normal : forall v, dates_normal (patch v) = true.
Proof. exact patch_normal. Qed.
Print Assumptions C18_patch_normal.

(* 2. normalising twice is normalising once. *)
Theorem C18_patch_idem : forall v, patch (patch v) = patch v.
Proof. exact patch_idem. Qed.
Print Assumptions C18_patch_idem.

(* 3. two datetimes denoting the same millisecond - whatever their utc offsets and their
   microseconds - are normalised to the same stored value ... *)
Theorem C18_patch_same_ms : forall a b, same_ms a b = true -> patch a = patch b.
Proof. exact patch_same_ms. Qed.
Print Assumptions C18_patch_same_ms.

(* ... and only those are. *)
Theorem C18_patch_same_ms_conv : forall x tx y ty,
  patch (VDate x tx) = patch (VDate y ty) -> same_ms (VDate x tx) (VDate y ty) = true.
Proof. exact patch_same_ms_conv. Qed.
Print Assumptions C18_patch_same_ms_conv.

(* 4. a value with normal datetimes only is not changed. *)
Theorem C18_patch_fixes_normal : forall v, dates_normal v = true -> patch v = v.
Proof. exact patch_fixes_normal. Qed.
Print Assumptions C18_patch_fixes_normal.

(* 5. After every operation of ANY history (no guard) every stored document has only normal
   datetimes, and the documents returned by find / find_one_and_* / distinct to a
   tz_aware=False client carry naive datetimes only. *)
Theorem C18_history : forall (pre5 : bool) (ops : list op),
  c18_ok false ops (model_obs pre5 empty_coll ops) = true.
Proof. exact history. Qed.
Print Assumptions C18_history.

(* the same for a tz_aware=True client, which sees the returned documents through
   make_datetime_timezone_aware_in_document (model_obs_aware, Spec/DatetimeRel.v): every
   returned datetime is UTC-aware *)
Theorem C18_history_aware : forall (pre5 : bool) (ops : list op),
  c18_ok true ops (model_obs_aware pre5 empty_coll ops) = true.
Proof. exact history_aware. Qed.
Print Assumptions C18_history_aware.

(* the ingredients of 5, usable from any state: the invariant "every stored document has only
   normal datetimes" (C18Store.Inv) is preserved by every step, and from a state satisfying it
   the operations returning documents return normal ones *)
Theorem C18_step_inv : forall pre5 c o c' r,
  step pre5 c o = (c', r) -> C18Store.Inv c -> C18Store.Inv c'.
Proof. exact step_inv. Qed.
Print Assumptions C18_step_inv.

Theorem C18_step_returns_normal : forall pre5 c o c' v,
  step pre5 c o = (c', Ok v) -> C18Store.Inv c -> returns_documents o = true ->
  dates_normal v = true.
Proof. exact step_res. Qed.
Print Assumptions C18_step_returns_normal.

(* the update operators: a normal document updated with a normal filter / update document
   (what Collection._update passes after patching both) stays normal *)
Theorem C18_apply_update_normal : forall spec update was_insert now doc r,
  dates_normal spec = true -> dates_normal update = true -> dates_normal doc = true ->
  apply_update spec update was_insert now doc = Ok r -> dates_normal r = true.
Proof. exact apply_update_dn. Qed.
Print Assumptions C18_apply_update_normal.

(* a stored document is a fixpoint of the normalisation: writing it back stores it unchanged *)
Theorem C18_stored_patch_fix : forall pre5 ops kd,
  In kd (docs (final pre5 empty_coll ops)) -> patch (snd kd) = snd kd.
Proof. exact stored_patch_fix. Qed.
Print Assumptions C18_stored_patch_fix.

(* 6. reads on a tz_aware client return UTC-aware datetimes at every depth, and nothing else
   changes: normalising the returned value gives the stored value back. *)
Theorem C18_make_aware : forall v,
  dates_normal v = true -> dates_aware_utc (make_aware v) = true.
Proof. exact make_aware_utc. Qed.
Print Assumptions C18_make_aware.

Theorem C18_patch_make_aware : forall v, dates_normal v = true -> patch (make_aware v) = v.
Proof. exact patch_make_aware. Qed.
Print Assumptions C18_patch_make_aware.

(* 7. two filters that are the same up to replacing datetimes by datetimes of the same
   millisecond (same_ms_value, Spec/DatetimeRel.v) are normalised to the same filter ... *)
Theorem C18_same_ms_value_patch : forall f g, same_ms_value f g = true -> patch f = patch g.
Proof. exact same_ms_value_patch. Qed.
Print Assumptions C18_same_ms_value_patch.

(* ... hence match the same documents ... *)
Theorem C18_query_consistent : forall f g d,
  same_ms_value f g = true -> filter_applies (patch f) d = filter_applies (patch g) d.
Proof. exact query_consistent. Qed.
Print Assumptions C18_query_consistent.

(* ... and the operations of the collection cannot tell them apart: same outcome, same state *)
Theorem C18_find_consistent : forall c f g proj sort skip limit,
  same_ms_value f g = true ->
  find_op c f proj sort skip limit = find_op c g proj sort skip limit.
Proof. exact find_consistent. Qed.
Print Assumptions C18_find_consistent.

Theorem C18_count_consistent : forall c f g skip limit,
  same_ms_value f g = true -> count_op c f skip limit = count_op c g skip limit.
Proof. exact count_consistent. Qed.
Print Assumptions C18_count_consistent.

Theorem C18_delete_consistent : forall c f g multi,
  same_ms_value f g = true -> delete_op c f multi = delete_op c g multi.
Proof. exact delete_consistent. Qed.
Print Assumptions C18_delete_consistent.

Theorem C18_update_consistent : forall pre5 c f g u w multi upsert,
  same_ms_value f g = true -> same_ms_value u w = true ->
  update pre5 c f u multi upsert = update pre5 c g w multi upsert.
Proof. exact update_consistent. Qed.
Print Assumptions C18_update_consistent.
