(* C18 -- placeholder until the datetime theorems are integrated *)
From Coq Require Import ZArith List String Bool.
From Verif Require Import Value Update DatetimeSpec.
Import ListNotations.
Open Scope Z_scope.
Example C18_patch_example :
  patch (VArr [VDate 1577880000123456 (Some 330); VDate 999 None]) =
  VArr [VDate 1577860200123000 None; VDate 0 None].
Proof. vm_compute. reflexivity. Qed.
