(* C08: a failed write leaves no trace.  Property statements only; the proofs are in
   Proofs/C08*.v, the refuted unguarded statements in Refuted/C08.v, examples showing that the
   hypotheses are satisfiable in Proofs/C08Examples.v. *)
From Coq Require Import ZArith List String Bool Ascii.
From Verif Require Import Value PyEq BsonOrder Path Filter Update Project Coll HistCheck HistProps
  HistGuards.
From Verif.Proofs Require Import C08Store C08Fail C08Proofs C08Many.
Import ListNotations.
Open Scope Z_scope.
Open Scope string_scope.
Open Scope list_scope.

(* On every history inside the guard, whenever a single-document write of the model raises
   (insert_one, replace_one, non-multi update, any find_one_and_ operation), the store and the index
   information are exactly what they were before the call.
   The guard (c08_reasons in Spec/HistGuards.v) excludes: 1 a find_one_and_xxx with a projection
   anywhere in the history; 2 a failing single-document write while a TTL index exists and (a
   stored document is expired at the current clock, or the write is of the update kind and a
   unique index exists); 4 an update-kind write on which the MODEL answers EUnmodelled while a
   unique index exists (never set on a trace of the library; the former meaning of this bit,
   "fails with an error other than DuplicateKeyError while a unique index exists", is gone:
   the library now rolls back on every exception of the unique check, and that is proved
   here); 8 a failing find_one_and_update|replace with return_document=AFTER; 16 a stored _id
   that is not a Python value.  Bits 2 to 16 each have a checked counterexample in
   Refuted/C08.v. *)
Theorem C08_history : forall (pre5 : bool) (ops : list op),
  c08_reasons ops (model_obs pre5 empty_coll ops) = 0 ->
  c08_ok ops (model_obs pre5 empty_coll ops) = true.
Proof. exact c08_history_correct. Qed.
Print Assumptions C08_history.

(* Bit 1 of the guard is not needed once bit 8 is there (in the model the image returned with
   return_document=BEFORE is projected before the write): the same conclusion on histories
   that contain find_one_and_xxx operations with a projection. *)
Theorem C08_history_any_projection : forall (pre5 : bool) (ops : list op),
  c08_reasons ops (model_obs pre5 empty_coll ops) = 0 \/
  c08_reasons ops (model_obs pre5 empty_coll ops) = 1 ->
  c08_ok ops (model_obs pre5 empty_coll ops) = true.
Proof. exact c08_history_proj_correct. Qed.
Print Assumptions C08_history_any_projection.

(* The batch part.  In every state, insert_many(ds, ordered=True) on a non-empty list of
   documents leaves the state obtained by inserting the documents one at a time and stopping at
   the first one Collection._insert rejects (insert_until_fail, Proofs/C08Many.v). *)
Theorem C08_insert_many_ordered_seq : forall (c : coll) (ds : list value),
  ds <> [] -> forallb is_doc ds = true ->
  fst (insert_many c ds true) = insert_until_fail c ds.
Proof. exact insert_many_seq. Qed.
Print Assumptions C08_insert_many_ordered_seq.

(* ... and without TTL index the store afterwards is the store before plus exactly the entries
   of the longest prefix of ds that is accepted one document after the other
   (accepted_prefix / stored_entry / accepts, Proofs/C08Many.v): the rejected document leaves
   no trace and nothing after it is tried.  (The last hypothesis excludes the non-Python _id
   values of guard bit 16.) *)
Theorem C08_insert_many_ordered : forall (c : coll) (ds : list value),
  (forall i, In i (idx c) -> ittl i = None) ->
  ds <> [] -> forallb is_doc ds = true ->
  Forall (fun kd => py_eq (fst kd) (fst kd) = true) (docs (fst (insert_many c ds true))) ->
  docs (fst (insert_many c ds true)) = docs c ++ accepted_prefix c ds.
Proof. exact insert_many_ordered_store. Qed.
Print Assumptions C08_insert_many_ordered.
