(* C12 -- placeholder until the projection theorem is integrated *)
From Coq Require Import ZArith List String Bool.
From Verif Require Import Value ProjectSpec.
Import ListNotations.
Open Scope Z_scope.
Open Scope string_scope.
Example C12_spec_nontrivial :
  project_spec (VDoc [("_id", VInt 1); ("a", VDoc [("b", VInt 2); ("c", VInt 3)]); ("d", VInt 4)])
               (VDoc [("a.b", VInt 1)])
  = Some (VDoc [("_id", VInt 1); ("a", VDoc [("b", VInt 2)])]).
Proof. vm_compute. reflexivity. Qed.
