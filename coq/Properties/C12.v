(* C12: a projection returns exactly the requested part of each document, nothing else.
   Property statements only; the proofs are in Proofs/C12*.v. *)
From Coq Require Import ZArith List String Bool.
From Verif Require Import Value PyEq BsonOrder Path Filter Update Project Coll ProjectSpec.
From Verif.Proofs Require Import C12Proofs.
Import ListNotations.
Open Scope Z_scope.
Open Scope string_scope.
Open Scope list_scope.

Example C12_spec_nontrivial :
  project_spec (VDoc [("_id", VInt 1); ("a", VDoc [("b", VInt 2); ("c", VInt 3)]); ("d", VInt 4)])
               (VDoc [("a.b", VInt 1)])
  = Some (VDoc [("_id", VInt 1); ("a", VDoc [("b", VInt 2)])]).
Proof. vm_compute. reflexivity. Qed.

(* 1. Whenever the specification decides what the projection of d by p is (project_spec) and
   (d, p) is inside the guard (no nested path over a scalar / non-document array element, no
   $slice [skip, limit] window reaching before the start of the array), _copy_only_fields
   succeeds and returns the specified document, up to the order of the top-level keys.
   d and p are Python dicts: duplicate-free keys (for p this is a real hypothesis of the
   statement, see Refuted/C12.v). *)
Theorem C12_projection : forall d p s,
  project_spec d p = Some s -> c12_reasons d p = 0 ->
  wf_value d = true -> wf_value p = true ->
  exists out, copy_only_fields d (Some p) = Ok out /\ doc_eq_top s out = true.
Proof. exact c12_projection. Qed.
Print Assumptions C12_projection.

(* 2. A projection never changes which documents are returned, nor their order: the i-th
   result is the projection of the i-th document. *)
Theorem C12_same_documents : forall proj l outs,
  project_all proj l = Ok outs ->
  List.length outs = List.length l /\
  forall i d o, nth_error l i = Some d -> nth_error outs i = Some o ->
                copy_only_fields d proj = Ok o.
Proof. exact c12_same_documents. Qed.
Print Assumptions C12_same_documents.

(* 3. Nothing is invented: for an inclusion / exclusion without operator fields, every
   top-level field of the result is a field of d with the same key, and with the same value
   unless a nested path of the specification descends into it. *)
Theorem C12_nothing_invented : forall dfs p ps s outfs,
  project_spec (VDoc dfs) p = Some s -> c12_reasons (VDoc dfs) p = 0 ->
  wf_value (VDoc dfs) = true -> wf_value p = true ->
  read_spec p = Some ps -> ps_ops ps = [] ->
  copy_only_fields (VDoc dfs) (Some p) = Ok (VDoc outfs) ->
  forall k v, assoc k outfs = Some v ->
    exists v', assoc k dfs = Some v' /\
               (below k (ps_paths ps) = [] \/ names_whole (below k (ps_paths ps)) = true -> v' = v).
Proof. exact c12_nothing_invented. Qed.
Print Assumptions C12_nothing_invented.

(* ---- the hypotheses are satisfiable on non-trivial inputs ---- *)
Definition c12_d : value :=
  VDoc [("_id", VInt 1); ("a", VDoc [("b", VInt 2); ("c", VInt 3)]); ("d", VInt 4);
        ("e", VArr [VInt 1; VInt 2; VInt 3; VInt 4]);
        ("f", VArr [VDoc [("x", VInt 1); ("y", VInt 2)]; VDoc [("y", VInt 5)]])].
(* inclusion with nested paths through a sub-document and an array, and a $slice window *)
Definition c12_p_incl : value :=
  VDoc [("a.b", VInt 1); ("f.y", VBool true); ("e", VDoc [("$slice", VArr [VInt (-3); VInt 2])])].
(* exclusion with nested paths, _id suppressed *)
Definition c12_p_excl : value :=
  VDoc [("a.b", VInt 0); ("f.y", VBool false); ("_id", VInt 0)].
(* inclusion with $elemMatch *)
Definition c12_p_em : value :=
  VDoc [("d", VInt 1); ("f", VDoc [("$elemMatch", VDoc [("y", VInt 5)])])].

Example C12_projection_hyps_incl :
  project_spec c12_d c12_p_incl
  = Some (VDoc [("_id", VInt 1); ("a", VDoc [("b", VInt 2)]); ("e", VArr [VInt 2; VInt 3]);
                ("f", VArr [VDoc [("y", VInt 2)]; VDoc [("y", VInt 5)]])]) /\
  c12_reasons c12_d c12_p_incl = 0 /\ wf_value c12_d = true /\ wf_value c12_p_incl = true /\
  copy_only_fields c12_d (Some c12_p_incl)
  = Ok (VDoc [("a", VDoc [("b", VInt 2)]);
              ("f", VArr [VDoc [("y", VInt 2)]; VDoc [("y", VInt 5)]]);
              ("_id", VInt 1); ("e", VArr [VInt 2; VInt 3])]).
Proof. vm_compute. repeat split; reflexivity. Qed.

Example C12_projection_hyps_excl :
  project_spec c12_d c12_p_excl
  = Some (VDoc [("a", VDoc [("c", VInt 3)]); ("d", VInt 4);
                ("e", VArr [VInt 1; VInt 2; VInt 3; VInt 4]);
                ("f", VArr [VDoc [("x", VInt 1)]; VDoc []])]) /\
  c12_reasons c12_d c12_p_excl = 0 /\ wf_value c12_p_excl = true /\
  (exists ps, read_spec c12_p_excl = Some ps /\ ps_ops ps = []).
Proof. vm_compute. repeat split; try reflexivity. eexists. split; reflexivity. Qed.

Example C12_projection_hyps_elem_match :
  project_spec c12_d c12_p_em
  = Some (VDoc [("_id", VInt 1); ("d", VInt 4); ("f", VArr [VDoc [("y", VInt 5)]])]) /\
  c12_reasons c12_d c12_p_em = 0 /\ wf_value c12_p_em = true.
Proof. vm_compute. repeat split; reflexivity. Qed.

Example C12_same_documents_hyps :
  project_all (Some (VDoc [("d", VInt 1); ("_id", VInt 0)])) [c12_d; VDoc [("d", VInt 9)]; VDoc []]
  = Ok [VDoc [("d", VInt 4)]; VDoc [("d", VInt 9)]; VDoc []].
Proof. vm_compute. reflexivity. Qed.
