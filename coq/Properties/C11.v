(* C11 -- property theorems (placeholder until the radix-sort theorem is integrated). *)
From Coq Require Import ZArith List String Bool.
From Verif Require Import Value Cursor.
Import ListNotations.
Open Scope Z_scope.

(* the window computed by _compute_results is the contiguous slice "skip, then at most
   |limit|" of the sequence, for non-negative skips *)
Theorem C11_compute_results_slice : forall (A : Type) (k : cursor) (l : list A),
  0 <= k_skip k -> k_empty k = false ->
  compute_results k l =
  match k_limit k with
  | Some n => if Z.eqb n 0 then skipn (Z.to_nat (k_skip k)) l
              else firstn (Z.to_nat (Z.abs n)) (skipn (Z.to_nat (k_skip k)) l)
  | None => skipn (Z.to_nat (k_skip k)) l
  end.
Proof.
  intros A k l Hs He. unfold compute_results. rewrite He.
  destruct (Z.ltb_spec (k_skip k) 0) as [H|H]; [exfalso; apply (Z.lt_irrefl 0); apply Z.le_lt_trans with (k_skip k); assumption|].
  reflexivity.
Qed.
Print Assumptions C11_compute_results_slice.
