(* C11 -- property theorems: natural order, sort, skip and limit. *)
From Coq Require Import ZArith List String Bool Permutation.
From Verif Require Import Value Coll Cursor.
From Verif Require Import C11Keys C11Radix C11Cursor C11Full.
Import ListNotations.
Open Scope Z_scope.

(* the window computed by _compute_results is the contiguous slice "skip, then at most
   |limit|" of the sequence, for non-negative skips *)
Theorem C11_compute_results_slice : forall (A : Type) (k : cursor) (l : list A),
  0 <= k_skip k -> k_empty k = false ->
  compute_results k l =
  match k_limit k with
  | Some n => if Z.eqb n 0 then skipn (Z.to_nat (k_skip k)) l
              else firstn (Z.to_nat (Z.abs n)) (skipn (Z.to_nat (k_skip k)) l)
  | None => skipn (Z.to_nat (k_skip k)) l
  end.
Proof.
  intros A k l Hs He. unfold compute_results. rewrite He.
  destruct (Z.ltb_spec (k_skip k) 0) as [H|H]; [exfalso; apply (Z.lt_irrefl 0); apply Z.le_lt_trans with (k_skip k); assumption|].
  reflexivity.
Qed.
Print Assumptions C11_compute_results_slice.

(* 1. what spec_sort means: when it decides, its answer is a permutation of the input,
   consecutive documents are in order, and - on the documents tagged with their natural
   position (index_list l 0) - any two documents appear in key order, ties in natural order *)
Theorem C11_spec_sort_is_sorted_stable_permutation : forall spec l L,
  spec_sort spec l = Some L ->
  Permutation l L /\
  (forall p a b, nth_error L p = Some a -> nth_error L (S p) = Some b ->
                 lex_cmp spec a b = Some Lt \/ lex_cmp spec a b = Some Eq) /\
  exists il, Permutation (index_list l O) il /\ map snd il = L /\
    forall p q i a j b, (p < q)%nat ->
      nth_error il p = Some (i, a) -> nth_error il q = Some (j, b) ->
      lex_cmp spec a b = Some Lt \/ (lex_cmp spec a b = Some Eq /\ (i < j)%nat).
Proof. exact spec_sort_meaning. Qed.
Print Assumptions C11_spec_sort_is_sorted_stable_permutation.

(* ... and there is only one such arrangement *)
Theorem C11_sorted_stable_unique : forall spec l il1 il2,
  Permutation (index_list l O) il1 -> Permutation (index_list l O) il2 ->
  (forall p q i a j b, (p < q)%nat ->
      nth_error il1 p = Some (i, a) -> nth_error il1 q = Some (j, b) ->
      lex_cmp spec a b = Some Lt \/ (lex_cmp spec a b = Some Eq /\ (i < j)%nat)) ->
  (forall p q i a j b, (p < q)%nat ->
      nth_error il2 p = Some (i, a) -> nth_error il2 q = Some (j, b) ->
      lex_cmp spec a b = Some Lt \/ (lex_cmp spec a b = Some Eq /\ (i < j)%nat)) ->
  il1 = il2.
Proof. exact ordered_stable_unique. Qed.
Print Assumptions C11_sorted_stable_unique.

(* 2. successive stable sorts from the last key to the first = the specified arrangement.
   c11_spec_ok: every sort key is inside the model (path_modelled) and does not end with an
   empty component ("" , "a."): see Refuted/C11.v *)
Theorem C11_sort_radix : forall spec l L,
  spec_sort spec l = Some L -> c11_spec_ok spec = true -> sort_docs spec l = Ok L.
Proof. exact sort_radix. Qed.
Print Assumptions C11_sort_radix.

(* 3. find(filter, sort, skip, limit) followed by cursor calls in any order, then list().
   c11_docs_ok: no stored document is the empty document; c11_meths_ok: no sort([]) call *)
Theorem C11_cursor : forall docs f sort0 skip0 limit0 ms L,
  cursor_spec docs f sort0 skip0 limit0 ms = Some L ->
  c11_docs_ok docs = true -> c11_meths_ok ms = true ->
  c11_spec_ok (final_sort sort0 ms) = true ->
  cursor_run docs f sort0 skip0 limit0 ms = Ok L.
Proof. exact cursor_correct. Qed.
Print Assumptions C11_cursor.

(* 4. count_documents(filter, skip=, limit=) *)
Theorem C11_count : forall docs f skip limit n,
  count_spec docs f skip limit = Some n ->
  (limit = None \/ exists l, limit = Some l /\ 0 < l) ->
  c11_docs_ok docs = true ->
  count_run docs f skip limit = Ok (VInt n).
Proof. exact count_correct. Qed.
Print Assumptions C11_count.

(* 5. the same program with its intermediate evaluations (cursor[0]) taken into account: an
   evaluation runs the query under the sort in force at that point and may raise.
   cursor_run_full is what the per-run correspondence compares with the library;
   cursor_spec_full decides a program only when every evaluated prefix is decided.
   c11_peeks_ok: the sort keys in force at every evaluation are inside the model. *)
Theorem C11_cursor_full : forall docs f sort0 skip0 limit0 ms L,
  cursor_spec_full docs f sort0 skip0 limit0 ms = Some L ->
  c11_docs_ok docs = true -> c11_meths_ok ms = true ->
  c11_spec_ok (final_sort sort0 ms) = true -> c11_peeks_ok sort0 ms = true ->
  cursor_run_full docs f sort0 skip0 limit0 ms = Ok L.
Proof. exact cursor_full_correct. Qed.
Print Assumptions C11_cursor_full.

(* whenever the program with evaluations returns, it returns the specified answer (no premise
   on the evaluated prefixes) *)
Theorem C11_cursor_full_partial : forall docs f sort0 skip0 limit0 ms L L',
  cursor_spec_full docs f sort0 skip0 limit0 ms = Some L ->
  c11_docs_ok docs = true -> c11_meths_ok ms = true ->
  c11_spec_ok (final_sort sort0 ms) = true ->
  cursor_run_full docs f sort0 skip0 limit0 ms = Ok L' -> L' = L.
Proof. exact cursor_full_partial. Qed.
Print Assumptions C11_cursor_full_partial.

(* the program with evaluations, when it runs through, is the program without them; without
   evaluations the two specifications coincide *)
Theorem C11_full_is_run : forall docs f sort0 skip0 limit0 ms L,
  cursor_run_full docs f sort0 skip0 limit0 ms = Ok L -> cursor_run docs f sort0 skip0 limit0 ms = Ok L.
Proof. exact cursor_run_full_ok. Qed.
Print Assumptions C11_full_is_run.

Theorem C11_spec_full_no_peek : forall docs f sort0 skip0 limit0 ms,
  existsb (fun m => match m with MPeek => true | _ => false end) ms = false ->
  cursor_spec_full docs f sort0 skip0 limit0 ms = cursor_spec docs f sort0 skip0 limit0 ms.
Proof. exact cursor_spec_full_no_peek. Qed.
Print Assumptions C11_spec_full_no_peek.
