(* C10.  Second half (C10_history): the reported counts equal the observable change.
   First half (C10_find_is_scan ... C10_entry_points_agree): every filter-taking entry point
   selects through the one scan  iter_documents c (patch f) = Ok (c1, m). *)
From Coq Require Import ZArith List String Bool.
From Verif Require Import Value PyEq Filter Update Coll HistCheck HistProps HistGuards C14Base C14Ops C10Proofs C10Entry C10Examples.
Import ListNotations.
Open Scope Z_scope.
Open Scope string_scope.
Open Scope list_scope.

Theorem C10_history : forall (pre5 : bool) (ops : list op),
  c10_reasons ops (model_obs pre5 empty_coll ops) = 0 ->
  c10_ok ops (model_obs pre5 empty_coll ops) = true.
Proof. exact C10_history_proof. Qed.
Print Assumptions C10_history.

(* the guard is satisfiable on a history with every counted operation, including updates
   whose result is == to the original but not identical (1 -> 1.0, reordered keys): the model
   then leaves the stored document untouched and reports modified = 0 *)
Definition c10_example : list op :=
  [OInsertOne (VDoc [("_id", VInt 1); ("x", VInt 1); ("g", VStr "a")]);
   OInsertMany [VDoc [("x", VInt 2); ("g", VStr "a")]; VDoc [("_id", VStr "s"); ("x", VInt 3); ("g", VStr "b")]] true;
   OInsertMany [VDoc [("_id", VInt 7)]; VDoc [("_id", VInt 1)]; VDoc [("_id", VInt 8)]] false;
   OUpdate (VDoc [("g", VStr "a")]) (VDoc [("$inc", VDoc [("x", VInt 10)])]) true false;
   OUpdate (VDoc [("_id", VStr "s")]) (VDoc [("$set", VDoc [("x", VDbl 24)])]) false false;
   OUpdate (VDoc []) (VDoc [("$set", VDoc [("g", VStr "a")])]) true false;
   OReplace (VDoc [("_id", VStr "s")]) (VDoc [("g", VStr "a"); ("x", VInt 3)]) false;
   OUpdate (VDoc [("g", VStr "zz")]) (VDoc [("$set", VDoc [("x", VInt 0)])]) true true;
   ODelete (VDoc [("x", VDoc [("$gte", VInt 3)])]) true;
   ODelete (VDoc []) false;
   ODelete (VDoc [("nope", VInt 1)]) true].
Example C10_guard_satisfiable :
  c10_reasons c10_example (model_obs false empty_coll c10_example) = 0
  /\ forallb (fun ob : obs => match fst (fst ob) with Ok _ => true | Err _ => false end)
       (model_obs false empty_coll c10_example) = true
  /\ map (fun ob : obs => List.length (snd (fst ob))) (model_obs false empty_coll c10_example)
     = [1; 3; 5; 5; 5; 5; 5; 6; 3; 2; 2]%nat
  /\ map (fun ob : obs => get_field "modified" (match fst (fst ob) with Ok v => v | Err _ => VNull end))
         (model_obs false empty_coll c10_example)
     = [None; None; None; Some (VInt 2); Some (VInt 0); Some (VInt 3); Some (VInt 0); Some (VInt 0);
        None; None; None].
Proof. vm_compute. repeat split; reflexivity. Qed.
Print Assumptions C10_guard_satisfiable.

(* ------------------------------------------------------------------------------------------
   First half: one match relation.  Throughout, c is any state, VDoc fs any filter document,
   and the premise  iter_documents c (patch (VDoc fs)) = Ok (c1, m)  says that the scan
   succeeds: c1 is the state after the lazy TTL pass, m the matching (key, document) pairs of
   docs c1 in natural order -  m = matching f (docs c1) = filter (is_match f) (docs c1).
   Premises used below (all defined in Proofs/C10Entry.v):
     docs_only m      every matched entry holds a document (find/distinct copy documents);
     self_keyed s     looking a stored document up by its own _id finds its own entry
                      (delete goes through the _id of the found document);
     no_unique c, applies_cleanly ...   only for the total form of update_many.
   Refuted/C10.v has a checked counterexample for each premise. *)

Theorem C10_scan_is_filter : forall c f c1 m,
  iter_documents c f = Ok (c1, m) ->
  expire c = Ok c1 /\ m = matching f (docs c1).
Proof. exact scan_is_filter. Qed.
Print Assumptions C10_scan_is_filter.

(* 1. find: the documents of m, in order; with sort / skip / limit: the sorted window of m *)
Theorem C10_find_is_scan : forall c fs c1 m,
  iter_documents c (patch (VDoc fs)) = Ok (c1, m) -> docs_only m ->
  find_op c (VDoc fs) None [] 0 0 = (c1, Ok (VArr (map snd m))).
Proof. exact find_is_scan. Qed.
Print Assumptions C10_find_is_scan.

Theorem C10_find_window_is_scan : forall c fs proj sort skip limit c1 m,
  iter_documents c (patch (VDoc fs)) = Ok (c1, m) ->
  find_op c (VDoc fs) proj sort skip limit =
    match sort_docs sort (map snd m) with
    | Err e => (c, Err e)
    | Ok s => match project_all proj s with
              | Err e => (c1, Err e)
              | Ok l => (c1, Ok (VArr (cursor_slice skip limit l)))
              end
    end.
Proof. exact find_is_scan_gen. Qed.
Print Assumptions C10_find_window_is_scan.

Theorem C10_find_one_is_scan : forall c fs c1 m,
  iter_documents c (patch (VDoc fs)) = Ok (c1, m) -> docs_only m ->
  find_one c (VDoc fs) None [] = (c1, Ok (hd_error (map snd m))).
Proof. exact find_one_is_scan. Qed.
Print Assumptions C10_find_one_is_scan.

(* 2. count *)
Theorem C10_count_is_scan : forall c fs c1 m,
  iter_documents c (patch (VDoc fs)) = Ok (c1, m) ->
  count_op c (VDoc fs) 0 None = (c1, Ok (VInt (Z.of_nat (List.length m)))).
Proof. exact count_is_scan. Qed.
Print Assumptions C10_count_is_scan.

Theorem C10_count_window_is_scan : forall c fs skip l c1 m,
  iter_documents c (patch (VDoc fs)) = Ok (c1, m) -> 0 < l ->
  count_op c (VDoc fs) skip (Some l)
  = (c1, Ok (VInt (Z.min (Z.max (Z.of_nat (List.length m) - skip) 0) l))).
Proof. exact count_limit_is_scan. Qed.
Print Assumptions C10_count_window_is_scan.

(* 3. delete_many removes exactly the entries of m (order of the rest kept) and reports
      length m; delete_one removes exactly the first entry of m *)
Theorem C10_delete_many_is_scan : forall c fs c1 m,
  iter_documents c (patch (VDoc fs)) = Ok (c1, m) -> self_keyed (docs c1) ->
  exists c2, delete_op c (VDoc fs) true
             = (c2, Ok (VDoc [("deleted", VInt (Z.of_nat (List.length m)))]))
             /\ docs c2 = unmatched (patch (VDoc fs)) (docs c1)
             /\ idx c2 = idx c1 /\ now c2 = now c1 /\ next_oid c2 = next_oid c1.
Proof. exact delete_many_is_scan. Qed.
Print Assumptions C10_delete_many_is_scan.

Theorem C10_delete_one_is_scan : forall c fs c1 m,
  iter_documents c (patch (VDoc fs)) = Ok (c1, m) -> self_keyed (docs c1) ->
  match m with
  | [] => delete_op c (VDoc fs) false = (c1, Ok (VDoc [("deleted", VInt 0)]))
  | (k, d) :: _ =>
      exists pre post c2,
        docs c1 = pre ++ (k, d) :: post /\ Forall (ffalse (patch (VDoc fs))) pre
        /\ delete_op c (VDoc fs) false = (c2, Ok (VDoc [("deleted", VInt 1)]))
        /\ docs c2 = pre ++ post
        /\ idx c2 = idx c1 /\ now c2 = now c1 /\ next_oid c2 = next_oid c1
  end.
Proof. exact delete_one_is_scan. Qed.
Print Assumptions C10_delete_one_is_scan.

(* 4. update: whenever update_many succeeds it reports matched = length m (no premise on the
      state); update_one reports min 1 (length m) and touches the first entry of m *)
Theorem C10_update_many_matched : forall c1 m pre5 c fs u c' v,
  iter_documents c (patch (VDoc fs)) = Ok (c1, m) ->
  update_op pre5 c (VDoc fs) u true false = (c', Ok v) ->
  get_field "matched" v = Some (VInt (Z.of_nat (List.length m))).
Proof. exact update_many_matched. Qed.
Print Assumptions C10_update_many_matched.

Theorem C10_update_one_matched : forall c1 m pre5 c fs u c' v,
  iter_documents c (patch (VDoc fs)) = Ok (c1, m) ->
  update_op pre5 c (VDoc fs) u false false = (c', Ok v) ->
  get_field "matched" v = Some (VInt (Z.min 1 (Z.of_nat (List.length m)))) /\
  match m with
  | [] => c' = c1 /\ get_field "modified" v = Some (VInt 0)
  | (k, d) :: _ =>
      exists md', get_field "modified" v = Some (VInt md') /\
                  touched_first c1 c' (patch (VDoc fs)) (patch u) k d 0 md'
  end.
Proof. exact update_one_matched. Qed.
Print Assumptions C10_update_one_matched.

(* the total form: no unique index, and the update applies cleanly to every matched document *)
Theorem C10_update_many_total : forall pre5 c fs ufs c1 m,
  iter_documents c (patch (VDoc fs)) = Ok (c1, m) ->
  first_key_dollar (VDoc ufs) = Some true ->
  empty_operator pre5 (patch (VDoc ufs)) = false ->
  no_unique c ->
  Forall (applies_cleanly (patch (VDoc fs)) (patch (VDoc ufs)) (now c) (odocs c)) m ->
  exists c' md,
    update_op pre5 c (VDoc fs) (VDoc ufs) true false
    = (c', Ok (update_result (Z.of_nat (List.length m)) md None)).
Proof. exact update_many_total. Qed.
Print Assumptions C10_update_many_total.

(* 5. distinct("_id") is the set of the _ids of m *)
Theorem C10_distinct_is_scan : forall c fs c1 m,
  iter_documents c (patch (VDoc fs)) = Ok (c1, m) ->
  Forall (fun kd => exists i, doc_id (snd kd) = Some i /\ is_arr i = false) m ->
  forallb hashable_top (ids_of m) = true ->
  distinct_op c "_id" (VDoc fs) = (c1, Ok (VDoc [("$set", VArr (dedup (ids_of m)))])).
Proof. exact distinct_is_scan. Qed.
Print Assumptions C10_distinct_is_scan.

Theorem C10_distinct_is_scan_gen : forall c fs c1 m,
  iter_documents c (patch (VDoc fs)) = Ok (c1, m) -> docs_only m ->
  distinct_op c "_id" (VDoc fs)
  = if existsb (fun v => negb (hashable_top v)) (id_vals m)
    then (c1, Err EType)
    else (c1, Ok (VDoc [("$set", VArr (dedup (id_vals m)))])).
Proof. exact distinct_is_scan_gen. Qed.
Print Assumptions C10_distinct_is_scan_gen.

(* pairwise different ids are all kept: the set has length m elements *)
Theorem C10_dedup_distinct_keys : forall l, knd l -> dedup l = l.
Proof. exact dedup_knd. Qed.
Print Assumptions C10_dedup_distinct_keys.

(* 6. the corollary.  Without any premise on the state: whatever succeeds reports length m *)
Theorem C10_entry_points_agree_cond : forall pre5 c fs c1 m,
  iter_documents c (patch (VDoc fs)) = Ok (c1, m) ->
  let f := VDoc fs in
  let n := Z.of_nat (List.length m) in
  count_op c f 0 None = (c1, Ok (VInt n))
  /\ (forall c' v, find_op c f None [] 0 0 = (c', Ok v) -> c' = c1 /\ v = VArr (map snd m))
  /\ (forall c' v, delete_op c f true = (c', Ok v) -> v = VDoc [("deleted", VInt n)])
  /\ (forall u c' v, update_op pre5 c f u true false = (c', Ok v) ->
                     get_field "matched" v = Some (VInt n))
  /\ (forall c' v, delete_op c f false = (c', Ok v) -> v = VDoc [("deleted", VInt (Z.min 1 n))])
  /\ (forall u c' v, update_op pre5 c f u false false = (c', Ok v) ->
                     get_field "matched" v = Some (VInt (Z.min 1 n))).
Proof. exact entry_points_agree_cond. Qed.
Print Assumptions C10_entry_points_agree_cond.

(* on a self-keyed store the reads and the deletes also succeed *)
Theorem C10_entry_points_agree : forall pre5 c fs c1 m,
  iter_documents c (patch (VDoc fs)) = Ok (c1, m) ->
  self_keyed (docs c1) ->
  let f := VDoc fs in
  let n := Z.of_nat (List.length m) in
  count_op c f 0 None = (c1, Ok (VInt n))
  /\ (exists l, find_op c f None [] 0 0 = (c1, Ok (VArr l)) /\ Z.of_nat (List.length l) = n)
  /\ (exists c2, delete_op c f true = (c2, Ok (VDoc [("deleted", VInt n)])))
  /\ (forall u c' v, update_op pre5 c f u true false = (c', Ok v) ->
                     get_field "matched" v = Some (VInt n))
  /\ (exists t, find_one c f None [] = (c1, Ok t) /\ (t <> None <-> m <> []))
  /\ (exists c2 k, delete_op c f false = (c2, Ok (VDoc [("deleted", VInt k)]))
                   /\ (k = 1 <-> m <> []) /\ (k = 0 <-> m = []))
  /\ (forall u c' v, update_op pre5 c f u false false = (c', Ok v) ->
        exists k, get_field "matched" v = Some (VInt k)
                  /\ (k = 1 <-> m <> []) /\ (k = 0 <-> m = [])).
Proof. exact entry_points_agree. Qed.
Print Assumptions C10_entry_points_agree.

(* the premises are decidable / satisfiable *)
Theorem C10_self_keyed_check : forall s, self_keyedb s = true -> self_keyed s.
Proof. exact self_keyedb_sound. Qed.
Print Assumptions C10_self_keyed_check.

Theorem C10_self_keyed_simple : forall s,
  knd (skeys s) ->
  Forall (fun kd => doc_id (snd kd) = Some (fst kd) /\ py_eq (fst kd) (fst kd) = true) s ->
  self_keyed s.
Proof. exact self_keyed_simple. Qed.
Print Assumptions C10_self_keyed_simple.

(* a concrete history (c10_entry_ops, Proofs/C10Examples.v): a TTL index, five inserts/upserts,
   then the clock moves so that the lazy TTL pass of the scan removes a document that would
   have matched (c1 <> c).  The premises of every theorem above hold, and all entry points
   report 2. *)
Example C10_entry_premises_satisfiable :
  exists c1 m,
    iter_documents c10_entry_c (patch (VDoc c10_entry_fs)) = Ok (c1, m)
    /\ self_keyed (docs c1) /\ docs_only m
    /\ List.length (docs c10_entry_c) = 5%nat /\ List.length (docs c1) = 4%nat
    /\ map fst m = [VInt 2; VStr "s"]
    /\ Forall (fun kd => exists i, doc_id (snd kd) = Some i /\ is_arr i = false) m
    /\ forallb hashable_top (ids_of m) = true
    /\ first_key_dollar (VDoc c10_entry_ufs) = Some true
    /\ empty_operator false (patch (VDoc c10_entry_ufs)) = false
    /\ no_unique c10_entry_c
    /\ Forall (applies_cleanly (patch (VDoc c10_entry_fs)) (patch (VDoc c10_entry_ufs))
                               (now c10_entry_c) (odocs c10_entry_c)) m.
Proof. exact entry_premises_satisfiable. Qed.
Print Assumptions C10_entry_premises_satisfiable.

Example C10_entry_points_on_example :
  snd (count_op c10_entry_c (VDoc c10_entry_fs) 0 None) = Ok (VInt 2)
  /\ snd (delete_op c10_entry_c (VDoc c10_entry_fs) true) = Ok (VDoc [("deleted", VInt 2)])
  /\ snd (delete_op c10_entry_c (VDoc c10_entry_fs) false) = Ok (VDoc [("deleted", VInt 1)])
  /\ snd (distinct_op c10_entry_c "_id" (VDoc c10_entry_fs))
     = Ok (VDoc [("$set", VArr [VInt 2; VStr "s"])])
  /\ snd (update_op false c10_entry_c (VDoc c10_entry_fs) (VDoc c10_entry_ufs) true false)
     = Ok (VDoc [("matched", VInt 2); ("modified", VInt 2); ("upserted_id", VNull)]).
Proof. exact entry_points_on_example. Qed.
Print Assumptions C10_entry_points_on_example.
