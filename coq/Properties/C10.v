(* C10 (second half): the reported counts equal the observable change. *)
From Coq Require Import ZArith List String Bool.
From Verif Require Import Value PyEq Filter Update Coll HistCheck HistProps HistGuards C10Proofs.
Import ListNotations.
Open Scope Z_scope.
Open Scope string_scope.

Theorem C10_history : forall (pre5 : bool) (ops : list op),
  c10_reasons ops (model_obs pre5 empty_coll ops) = 0 ->
  c10_ok ops (model_obs pre5 empty_coll ops) = true.
Proof. exact C10_history_proof. Qed.
Print Assumptions C10_history.

(* the guard is satisfiable on a history with every counted operation, including updates
   whose result is == to the original but not identical (1 -> 1.0, reordered keys): the model
   then leaves the stored document untouched and reports modified = 0 *)
Definition c10_example : list op :=
  [OInsertOne (VDoc [("_id", VInt 1); ("x", VInt 1); ("g", VStr "a")]);
   OInsertMany [VDoc [("x", VInt 2); ("g", VStr "a")]; VDoc [("_id", VStr "s"); ("x", VInt 3); ("g", VStr "b")]] true;
   OInsertMany [VDoc [("_id", VInt 7)]; VDoc [("_id", VInt 1)]; VDoc [("_id", VInt 8)]] false;
   OUpdate (VDoc [("g", VStr "a")]) (VDoc [("$inc", VDoc [("x", VInt 10)])]) true false;
   OUpdate (VDoc [("_id", VStr "s")]) (VDoc [("$set", VDoc [("x", VDbl 24)])]) false false;
   OUpdate (VDoc []) (VDoc [("$set", VDoc [("g", VStr "a")])]) true false;
   OReplace (VDoc [("_id", VStr "s")]) (VDoc [("g", VStr "a"); ("x", VInt 3)]) false;
   OUpdate (VDoc [("g", VStr "zz")]) (VDoc [("$set", VDoc [("x", VInt 0)])]) true true;
   ODelete (VDoc [("x", VDoc [("$gte", VInt 3)])]) true;
   ODelete (VDoc []) false;
   ODelete (VDoc [("nope", VInt 1)]) true].
Example C10_guard_satisfiable :
  c10_reasons c10_example (model_obs false empty_coll c10_example) = 0
  /\ forallb (fun ob : obs => match fst (fst ob) with Ok _ => true | Err _ => false end)
       (model_obs false empty_coll c10_example) = true
  /\ map (fun ob : obs => List.length (snd (fst ob))) (model_obs false empty_coll c10_example)
     = [1; 3; 5; 5; 5; 5; 5; 6; 3; 2; 2]%nat
  /\ map (fun ob : obs => get_field "modified" (match fst (fst ob) with Ok v => v | Err _ => VNull end))
         (model_obs false empty_coll c10_example)
     = [None; None; None; Some (VInt 2); Some (VInt 0); Some (VInt 3); Some (VInt 0); Some (VInt 0);
        None; None; None].
Proof. vm_compute. repeat split; reflexivity. Qed.
Print Assumptions C10_guard_satisfiable.
