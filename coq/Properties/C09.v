(* C09: TTL indexes hide and remove exactly the documents whose date has expired.  Property
   statements only; the proofs are in Proofs/C09*.v, the refuted unguarded statement in
   Refuted/C09.v, examples showing that the hypotheses are satisfiable in
   Proofs/C09Examples.v. *)
From Coq Require Import ZArith List String Bool Ascii.
From Verif Require Import Value PyEq BsonOrder Path Filter Update Project Coll HistCheck HistProps
  HistGuards.
From Verif.Proofs Require Import C09Base C09Closure C09Step C09Ops C09History.
Import ListNotations.
Open Scope Z_scope.
Open Scope string_scope.
Open Scope list_scope.

(* Vocabulary (Proofs/C09Base.v):
   active_spec i = Some (f, n): index i is a TTL index the implementation acts on: its
     expireAfterSeconds converts to the integer n (ttl_seconds) and its key is the single field f;
   fld f d: the top-level field f of document d;
   exp_idx I t d = true: some index of I makes d expired at clock t, i.e. meets_expiry on its
     field holds; survives I t d: no index of I does;
   sub l' l: l' is l with some entries removed (same order). *)

(* What _remove_expired_documents does: it keeps, in order, exactly the documents that no
   active single-field TTL index makes meets_expiry true of, and touches nothing else. *)
Theorem C09_expire_exact : forall c c',
  expire c = Ok c' ->
  docs c' = List.filter (fun kd => negb (exp_idx (idx c) (now c) (snd kd))) (docs c)
  /\ sub (docs c') (docs c)
  /\ (forall kd, In kd (docs c') <->
                 In kd (docs c) /\
                 forall i f n, In i (idx c) -> active_spec i = Some (f, n) ->
                               meets_expiry (fld f (snd kd)) n (now c) = false)
  /\ idx c' = idx c /\ now c' = now c /\ forced c' = forced c /\ next_oid c' = next_oid c
  /\ odocs c' = odocs c.
Proof. exact expire_exact. Qed.
Print Assumptions C09_expire_exact.

(* A document is kept by expire when every index is harmless for it (index_never): no
   expireAfterSeconds; an expireAfterSeconds that is not a number (ttl_seconds = Ok None); a
   compound (or empty) key; or a single field whose value can never expire at this clock
   (value_never): missing, not a date (an aware date included), an array whose naive dates all
   lie in the future, a date in the future. *)
Theorem C09_never_expires : forall c c' kd,
  expire c = Ok c' -> In kd (docs c) ->
  (forall i, In i (idx c) -> index_never (now c) i (snd kd)) ->
  In kd (docs c').
Proof. exact never_expires. Qed.
Print Assumptions C09_never_expires.

(* expire never adds documents and is idempotent at a fixed clock; and no operation other
   than an insert / update / replace / upserting find-and-modify / bulk_write (writes_none,
   Proofs/C09Ops.v: reads, deletes, index operations, clock moves in either direction) ever
   brings a document back: the store afterwards is a sub-list of the store before. *)
Theorem C09_gone_for_good :
  (forall c c', expire c = Ok c' -> sub (docs c') (docs c))
  /\ (forall c c', expire c = Ok c' -> expire c' = Ok c')
  /\ (forall pre5 c o, writes_none o = true -> sub (docs (fst (step pre5 c o))) (docs c)).
Proof. exact gone_for_good. Qed.
Print Assumptions C09_gone_for_good.

(* On every history inside the guard the model's trace satisfies the three clauses of C09.
   The guard (c09_reasons in Spec/HistGuards.v) excludes: 1 an index created under the name
   "_id_"; 2 while a TTL spec is active: an update_* / replace_one that upserts or would give some stored
   document an expired image, a find_one_and_update|replace, a bulk_write with an
   update/replace request; 4 an insert of an already
   expired document; 8 a bulk_write with a delete request reporting write errors while a TTL spec is active
   (conservative, no counterexample).  Bits 1, 2, 4 have checked counterexamples in
   Refuted/C09.v. *)
Theorem C09_history : forall (pre5 : bool) (ops : list op),
  c09_reasons ops (model_obs pre5 empty_coll ops) = 0 ->
  c09_ok ops (model_obs pre5 empty_coll ops) = true.
Proof. exact c09_history_correct. Qed.
Print Assumptions C09_history.
