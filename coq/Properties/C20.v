(* C20 -- property theorems only, over the tables regenerated from the source on every run
   (Gen/Tables.v): turning a None handler into a no-op, deleting a name from a table, or
   dropping an option guard changes the generated file and breaks one of these. *)
From Coq Require Import List String Bool ZArith.
From Verif Require Import Value Filter Vocab C20Proofs.
From Verif.Gen Require Import Tables.
Import ListNotations.
Open Scope string_scope.

Theorem C20_no_silent : forall (p : position) (name : string),
  starts_dollar name = true -> dispatch p name <> NotAnOperator.
Proof. exact no_silent. Qed.
Print Assumptions C20_no_silent.

Theorem C20_routed_expression_operators : forall name r,
  find_row name expr_chain = Some r ->
  dispatch PExpr name = Handled \/ dispatch PExpr name = RaisesNotImplemented.
Proof. exact routed_handled_or_raises. Qed.
Print Assumptions C20_routed_expression_operators.

Theorem C20_options_guarded : options_ok = true.
Proof. exact options_guarded. Qed.
Print Assumptions C20_options_guarded.

Theorem C20_unimplemented_stages_raise :
  forallb (fun n => negb (mem_str n stage_implemented)) stage_not_implemented = true.
Proof. exact stage_tables_disjoint. Qed.
Print Assumptions C20_unimplemented_stages_raise.
