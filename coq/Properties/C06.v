(* C06: unique indexes hold in every reachable state, across every write path.  Property
   statement only; the proofs are in Proofs/C06*.v, the refuted unguarded statements in
   Refuted/C06.v, an example showing that the hypotheses are satisfiable in
   Proofs/C06Examples.v. *)
From Coq Require Import ZArith List String Bool Ascii.
From Verif Require Import Value PyEq BsonOrder Path Filter Update Project Coll HistCheck HistProps
  HistGuards.
From Verif.Proofs Require Import C06Base C06Inv C06Ops C06Proofs.
Import ListNotations.
Open Scope Z_scope.
Open Scope string_scope.
Open Scope list_scope.

(* On every history inside the guard, after every operation of the model (insert_one,
   insert_many, update_one/many with or without upsert, replace_one, find_one_and_*, bulk_write,
   delete, reads with their lazy TTL expiry, create_index, drop_index(es), drop): for every
   unique index listed by index_information, the documents it covers (sparse: some indexed
   field present; partial: matching the filter expression) have pairwise different index keys
   under BSON equality, and a failed unique create_index leaves index_information unchanged.
   The guard (c06_reasons in Spec/HistGuards.v) excludes, per stored document and indexed path
   of a unique index: 1 an array-valued or multi-candidate path (F-MULTIKEY); 2, 4 a dotted
   path dead-ending in a scalar / in an array; 8 an explicit null under a sparse index; and,
   added by this proof with a checked counterexample each in Refuted/C06.v: 16 a non-numeric
   path component stepping through a (one-element) array of sub-documents; 32 an indexed path
   with an empty last component; 64 an indexed value that is a sub-document with a '$' field
   name at its top level (or, model-only, with a repeated field name inside; or containing an
   aware datetime); 128 a unique index together with a store key (_id) that has a repeated
   field name (model-only, not a Python dict); 256 a step answering EUnmodelled. *)
Theorem C06_history : forall (pre5 : bool) (ops : list op),
  c06_reasons ops (model_obs pre5 empty_coll ops) = 0 ->
  c06_ok ops (model_obs pre5 empty_coll ops) = true.
Proof. exact C06_history_proof. Qed.
Print Assumptions C06_history.
