(* C03 -- placeholder until the pipeline theorems are integrated *)
From Coq Require Import ZArith List String Bool.
From Verif Require Import Value Expr Pipeline PipelineSpec.
Import ListNotations.
Open Scope Z_scope.
Open Scope string_scope.
Example C03_pipeline_example :
  aggregate [] [VDoc [("_id", VInt 1); ("g", VStr "a"); ("n", VInt 2)];
                VDoc [("_id", VInt 2); ("g", VStr "b"); ("n", VInt 3)];
                VDoc [("_id", VInt 3); ("g", VStr "a"); ("n", VInt 5)]]
            (VArr [VDoc [("$match", VDoc [("n", VDoc [("$gt", VInt 2)])])];
                   VDoc [("$group", VDoc [("_id", VStr "$g"); ("t", VDoc [("$sum", VStr "$n")])])]])
  = Ok [VDoc [("t", VInt 5); ("_id", VStr "a")]; VDoc [("t", VInt 3); ("_id", VStr "b")]].
Proof. vm_compute. reflexivity. Qed.
Print Assumptions C03_pipeline_example.
