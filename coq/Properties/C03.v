(* C03 -- property theorems: a pipeline is the composition of its stages, each acting as
   MongoDB defines it.
   Part A: composition and conservation laws of the pipeline model (no guard).
   Part B: the guarded equivalence with the specification (Spec/PipelineSpec.v). *)
From Coq Require Import ZArith List String Bool Ascii Permutation.
From Verif Require Import Value PyEq Path Update Filter Coll Expr Pipeline PipelineSpec PipelineGuard.
From Verif Require Import C03Base C03Laws C03Indep C03IndepProject C03Unwind C03Group C03Stages C03StageUnwind C03Pipeline.
From Verif Require Import C03StageProject C03StageProject2 C03StageGroup C03GroupSort C03StageGroup2 C03Pipeline2.
Import ListNotations.
Open Scope Z_scope.
Open Scope string_scope.
Open Scope list_scope.

(* ------------------------------------------------------------------ part A *)

(* 1. running p1 ++ p2 is running p2 on the result of p1 (for pipelines, for the operators
   of one stage document, and for aggregate) *)
Theorem C03_composition : forall db p1 p2 docs,
  run_pipeline db (p1 ++ p2) docs =
    match run_pipeline db p1 docs with Ok mid => run_pipeline db p2 mid | Err e => Err e end
  /\ (forall a b, run_ops db (a ++ b) docs =
        match run_ops db a docs with Ok mid => run_ops db b mid | Err e => Err e end)
  /\ aggregate db docs (VArr (p1 ++ p2)) =
    match aggregate db docs (VArr p1) with Ok mid => aggregate db mid (VArr p2) | Err e => Err e end.
Proof. exact composition_law. Qed.
Print Assumptions C03_composition.

(* 2. $match keeps, in order, exactly the documents the filter accepts (every call of the
   matcher answered, so the boolean is decided) *)
Theorem C03_match_sublist : forall spec l r,
  match_docs spec l = Ok r ->
  Forall (fun d => exists b, filter_applies spec (patch d) = Ok b) l /\
  r = List.filter (fun d => match filter_applies spec (patch d) with Ok true => true | _ => false end) l.
Proof. exact match_sublist. Qed.
Print Assumptions C03_match_sublist.

(* 3. $sort permutes; with integer directions it is the function find().sort() uses *)
Theorem C03_sort_permutation : forall spec l r, agg_sort spec l = Ok r -> Permutation l r.
Proof. exact agg_sort_perm. Qed.
Print Assumptions C03_sort_permutation.

Theorem C03_sort_agrees_with_find : forall (spec : list (string * Z)) l,
  forallb (fun kz => negb (Filter.starts_dollar (fst kz))) spec = true ->
  agg_sort (map (fun kz => (fst kz, VInt (snd kz))) spec) l = sort_docs spec l.
Proof. exact sort_agrees_with_find. Qed.
Print Assumptions C03_sort_agrees_with_find.

(* 4. $skip, $limit, $count *)
Theorem C03_skip_limit_count : forall db l,
  (forall n, 0 <= n -> run_stage db "$skip" (VInt n) l = Ok (skipn (Z.to_nat n) l)) /\
  (forall n, 0 < n -> run_stage db "$limit" (VInt n) l = Ok (firstn (Z.to_nat n) l)) /\
  (forall name r, run_stage db "$count" (VStr name) l = Ok r ->
     r = match l with [] => [] | _ => [VDoc [(name, VInt (Z.of_nat (List.length l)))]] end) /\
  (forall name, name <> "" -> Expr.starts_dollar name = false -> List.length (split_dots name) = 1%nat ->
     run_stage db "$count" (VStr name) l =
     Ok (match l with [] => [] | _ => [VDoc [(name, VInt (Z.of_nat (List.length l)))]] end)).
Proof. exact skip_limit_count. Qed.
Print Assumptions C03_skip_limit_count.

(* 5. $unwind: on a path through sub-documents, an array of k elements yields k documents,
   the i-th being the input with the path set to the i-th element and every other top-level
   field unchanged; a missing / null / empty-array path yields none *)
Theorem C03_unwind_counts : forall parts d xs,
  parts <> [] -> plain_get parts d = Some (Some (VArr xs)) ->
  exists r, unwind_doc parts false None d = Ok r /\
    List.length r = List.length xs /\
    forall i x, nth_error xs i = Some x ->
      exists d', nth_error r i = Some d' /\
        set_by_dot parts x d = Some d' /\
        get_by_dot parts d' = Some x /\
        forall q qs, Some q <> hd_error parts -> get_by_dot (q :: qs) d' = get_by_dot (q :: qs) d.
Proof. exact unwind_counts_doc. Qed.
Print Assumptions C03_unwind_counts.

Theorem C03_unwind_none : forall parts ip d,
  get_by_dot parts d = None \/ get_by_dot parts d = Some VNull \/ get_by_dot parts d = Some (VArr []) ->
  unwind_doc parts false ip d = Ok [].
Proof. exact unwind_doc_none. Qed.
Print Assumptions C03_unwind_none.

Theorem C03_unwind_stage : forall db path l,
  path_modelled (split_dots path) = true ->
  Forall (fun d => (exists xs, plain_get (split_dots path) d = Some (Some (VArr xs))) \/
                   get_by_dot (split_dots path) d = None \/ get_by_dot (split_dots path) d = Some VNull) l ->
  run_stage db "$unwind" (VStr (String "$"%char path)) l
    = Ok (flat_map (fun d => match get_by_dot (split_dots path) d with
                             | Some (VArr xs) => map (fun x => plain_set (split_dots path) (Some x) d) xs
                             | _ => [] end) l) /\
  List.length (flat_map (fun d => match get_by_dot (split_dots path) d with
                             | Some (VArr xs) => map (fun x => plain_set (split_dots path) (Some x) d) xs
                             | _ => [] end) l)
  = fold_right (fun d n => (match get_by_dot (split_dots path) d with
                            | Some (VArr xs) => List.length xs | _ => O end + n)%nat) O l.
Proof. exact unwind_counts. Qed.
Print Assumptions C03_unwind_stage.

(* 6. $group: the groups are a partition of the input (their concatenation is a permutation
   of it, the sizes add up), every group is non-empty, carries the key of its first document,
   the keys of its other documents are == to it, adjacent groups have keys that are not ==;
   one output document per group, holding the group key under _id *)
Theorem C03_group_partition : forall db fields e l r,
  assoc "_id" fields = Some e ->
  run_stage db "$group" (VDoc fields) l = Ok r ->
  exists gs, groups_of e l = Ok gs /\
    Permutation (List.concat (map snd gs)) l /\
    fold_right (fun g n => (List.length g + n)%nat) O (map snd gs) = List.length l /\
    (is_null e = false -> Forall (group_good e) gs /\ adj_distinct gs) /\
    Forall2 (fun kg out => exists fs, accumulate_group fields [] (snd kg) = Ok fs /\
                                      out = VDoc (set_key "_id" (fst kg) fs) /\
                                      get_by_dot ["_id"] out = Some (fst kg)) gs r.
Proof. exact group_partition. Qed.
Print Assumptions C03_group_partition.

Theorem C03_group_sum_one : forall db e f l r,
  f <> "_id" ->
  run_stage db "$group" (VDoc [("_id", e); (f, VDoc [("$sum", VInt 1)])]) l = Ok r ->
  exists gs, groups_of e l = Ok gs /\
    r = map (fun kg => VDoc [(f, VInt (Z.of_nat (List.length (snd kg)))); ("_id", fst kg)]) gs /\
    Permutation (List.concat (map snd gs)) l /\
    fold_right (fun g n => (List.length g + n)%nat) O (map snd gs) = List.length l.
Proof. exact group_sum_one. Qed.
Print Assumptions C03_group_sum_one.

(* 7. $addFields / $set, $replaceRoot, $project, $lookup rewrite each document independently *)
Theorem C03_independent : forall db o l1 l2,
  (forall r1 r2, add_fields o l1 = Ok r1 -> add_fields o l2 = Ok r2 -> add_fields o (l1 ++ l2) = Ok (r1 ++ r2)) /\
  (forall r, add_fields o (l1 ++ l2) = Ok r ->
     exists r1 r2, add_fields o l1 = Ok r1 /\ add_fields o l2 = Ok r2 /\ r = r1 ++ r2) /\
  (forall r, add_fields o l1 = Ok r -> List.length r = List.length l1) /\
  replace_root o (l1 ++ l2) =
    match replace_root o l1 with
    | Ok r1 => match replace_root o l2 with Ok r2 => Ok (r1 ++ r2) | Err e => Err e end
    | Err e => Err e end /\
  (forall r, replace_root o l1 = Ok r -> List.length r = List.length l1) /\
  (forall r1 r2, project_stage o l1 = Ok r1 -> project_stage o l2 = Ok r2 ->
     project_stage o (l1 ++ l2) = Ok (r1 ++ r2)) /\
  (forall r, project_stage o l1 = Ok r -> List.length r = List.length l1) /\
  lookup_stage db o (l1 ++ l2) =
    match lookup_stage db o l1 with
    | Ok r1 => match lookup_stage db o l2 with Ok r2 => Ok (r1 ++ r2) | Err e => Err e end
    | Err e => Err e end /\
  (forall r, lookup_stage db o l1 = Ok r -> List.length r = List.length l1).
Proof. exact independent_law. Qed.
Print Assumptions C03_independent.

(* 8. $lookup attaches under `as` exactly the foreign documents (in their order) on which the
   equality filter {foreignField: local value} holds; every other field is untouched *)
Theorem C03_lookup_exact : forall db o l r,
  lookup_stage db o l = Ok r ->
  exists ofs from lf ff asn,
    o = VDoc ofs /\ assoc "from" ofs = Some (VStr from) /\ assoc "localField" ofs = Some (VStr lf) /\
    assoc "foreignField" ofs = Some (VStr ff) /\ assoc "as" ofs = Some (VStr asn) /\
    Forall2 (fun d d' =>
      exists fs, d = VDoc fs /\
        let q := patch (VDoc [(ff, lookup_query lf d)]) in
        let joined := List.filter (matches_ok q) (foreign_of db from) in
        Forall (fun f => exists b, filter_applies q (patch f) = Ok b) (foreign_of db from) /\
        d' = VDoc (set_key asn (VArr joined) fs) /\
        assoc asn (set_key asn (VArr joined) fs) = Some (VArr joined) /\
        forall k, k <> asn -> assoc k (set_key asn (VArr joined) fs) = assoc k fs) l r.
Proof. exact lookup_exact. Qed.
Print Assumptions C03_lookup_exact.

(* 9. $facet runs every sub-pipeline on the stage's own input *)
Theorem C03_facet_same_input : forall db subs l,
  run_stage db "$facet" (VDoc subs) l =
  let! outs := facet_outs db subs l in
  Ok [VDoc (fold_left (fun acc kv => set_key (fst kv) (snd kv) acc) outs [])].
Proof. exact facet_same_input. Qed.
Print Assumptions C03_facet_same_input.

Theorem C03_facet_fields : forall db subs l r,
  run_stage db "$facet" (VDoc subs) l = Ok r ->
  NoDup (map fst subs) ->
  exists fs, r = [VDoc fs] /\
    List.length fs = List.length subs /\
    forall t stages, In (t, VArr stages) subs ->
      exists out, run_pipeline db stages l = Ok out /\ assoc t fs = Some (VArr out).
Proof. exact facet_fields. Qed.
Print Assumptions C03_facet_fields.

(* ------------------------------------------------------------------ part B *)

(* The guarded equivalence with the specification, for the pipelines whose operators (also
   inside the sub-pipelines of $facet, recursively) are $match, $sort, $skip, $limit, $count,
   $unwind (any option document, includeArrayIndex with plain or dotted index names too:
   C03_stage_unwind below), $addFields / $set, $replaceRoot (the expressions through
   C04_expression_env), $lookup in the localField / foreignField form (the equality filter
   through C01) and $facet (c03_covered, Proofs/C03Pipeline.v; the $sort key paths are inside
   the model).

   The full statement is
     C03_pipeline : forall db docs p, c03_reasons db docs p = 0 ->
       aggregate db docs p <> Err EUnmodelled ->
       agrees (spec_aggregate db docs p) (aggregate db docs p) <> Some false
   What is missing: $group with keys that are arrays (the order of the library's sort on
   arrays has not been related to the equality of the specification), $project with dotted names,
   and every stage downstream of a $project or a $group (there
   the specification and the library differ by the order of the top-level keys, and after
   $group the stream is unordered, so the stage lemmas have to be stated up to that equivalence
   on their INPUT as well: the specification's stages would have to be shown invariant under
   it).  $project and $group are covered as the LAST stage of a pipeline:
   C03_pipeline_partial2, C03_pipeline_group_null and C03_pipeline_group_partial below.

   First form: whenever the specification decides and the model is not outside its scope,
   both fail, or both succeed with the same documents in the same order (rel, in
   Proofs/C03Stages.v: the stream is ordered, has no set-valued field, holds exactly the
   model's documents) *)
Theorem C03_pipeline_partial_rel : forall db docs p,
  c03_covered p = true -> c03_reasons db docs p = 0 ->
  match spec_aggregate db docs p, aggregate db docs p with
  | PUndef, _ => True
  | _, Err EUnmodelled => True
  | PErr, Err _ => True
  | PV s, Ok l => s_docs s = l /\ s_ord s = true /\ s_sets s = []
  | _, _ => False
  end.
Proof. exact pipeline_partial_rel. Qed.
Print Assumptions C03_pipeline_partial_rel.

(* Second form, with the comparison `agrees` of the specification (it is reflexive on
   well-formed documents only: no repeated key) *)
Theorem C03_pipeline_partial : forall db docs p,
  c03_covered p = true -> c03_reasons db docs p = 0 ->
  aggregate db docs p <> Err EUnmodelled ->
  (forall l, aggregate db docs p = Ok l -> Forall (fun d => wf_value d = true) l) ->
  agrees (spec_aggregate db docs p) (aggregate db docs p) <> Some false.
Proof. exact pipeline_partial. Qed.
Print Assumptions C03_pipeline_partial.

(* one stage: specification and model related on related streams *)
Theorem C03_stage_ok : forall db o op l,
  covered o op = true -> pipe_reasons db o op l = 0 ->
  rel (spec_stage db op o (mkStream l true [])) (run_stage db op o l).
Proof. exact stage_ok_all. Qed.
Print Assumptions C03_stage_ok.

(* $unwind, whatever its option document (no covered-class hypothesis): with includeArrayIndex
   the specification decides the index names whose dotted components are plain (not empty, no
   "$" first) and that are neither a prefix of the path nor below it, on documents in which the
   parent of the index name is an existing sub-document (and, under
   preserveNullAndEmptyArrays, the path holds a non-empty array or a scalar); there the
   library writes the same index (null for a scalar) into the same place, after the element *)
Theorem C03_stage_unwind : forall db o l,
  stage_reasons db "$unwind" o l = 0 ->
  rel (spec_stage db "$unwind" o (mkStream l true [])) (run_stage db "$unwind" o l).
Proof. exact stage_unwind. Qed.
Print Assumptions C03_stage_unwind.

(* ------------------------------------------------------------------ part B, continued *)

(* A covered pipeline followed by one last $project whose field names are plain top-level
   names, not repeated, _id being given by a flag if at all (project_covered2,
   Proofs/C03StageProject2.v): inclusion or exclusion flags, or inclusion flags and computed
   fields (the expressions through C04_expression_env).  The specification and the library
   answer the same documents in the same order, each with the same fields; the order of the
   fields differs (the specification puts _id first, the library leaves it where the input
   document has it), so the documents are related by a permutation of their top-level fields.
   The intermediate documents must have no repeated key (Python dicts). *)
Theorem C03_pipeline_partial2_rel : forall db docs pre o,
  c03_covered (VArr pre) = true -> project_covered2 o = true ->
  c03_reasons db docs (VArr (pre ++ [VDoc [("$project", o)]])) = 0 ->
  (forall mid, aggregate db docs (VArr pre) = Ok mid -> Forall (fun d => wf_value d = true) mid) ->
  match spec_aggregate db docs (VArr (pre ++ [VDoc [("$project", o)]])),
        aggregate db docs (VArr (pre ++ [VDoc [("$project", o)]])) with
  | PUndef, _ => True
  | _, Err EUnmodelled => True
  | PErr, Err _ => True
  | PV s, Ok l =>
      Forall2 (fun a b => exists fs gs, a = VDoc fs /\ b = VDoc gs /\ Permutation fs gs) (s_docs s) l
      /\ s_ord s = true /\ s_sets s = []
  | _, _ => False
  end.
Proof. exact pipeline_project2_rel. Qed.
Print Assumptions C03_pipeline_partial2_rel.

(* the same with the comparison `agrees` of the specification *)
Theorem C03_pipeline_partial2 : forall db docs pre o,
  c03_covered (VArr pre) = true -> project_covered2 o = true ->
  c03_reasons db docs (VArr (pre ++ [VDoc [("$project", o)]])) = 0 ->
  (forall mid, aggregate db docs (VArr pre) = Ok mid -> Forall (fun d => wf_value d = true) mid) ->
  (forall l, aggregate db docs (VArr (pre ++ [VDoc [("$project", o)]])) = Ok l ->
             Forall (fun d => wf_value d = true) l) ->
  agrees (spec_aggregate db docs (VArr (pre ++ [VDoc [("$project", o)]])))
         (aggregate db docs (VArr (pre ++ [VDoc [("$project", o)]]))) <> Some false.
Proof. exact pipeline_project2_agrees. Qed.
Print Assumptions C03_pipeline_partial2.

(* flags only (project_covered, Proofs/C03StageProject.v): the answer of the library is a
   filter of the fields of the intermediate documents, so it is well-formed when they are *)
Theorem C03_pipeline_partial2_flags : forall db docs pre o,
  c03_covered (VArr pre) = true -> project_covered o = true ->
  c03_reasons db docs (VArr (pre ++ [VDoc [("$project", o)]])) = 0 ->
  (forall mid, aggregate db docs (VArr pre) = Ok mid -> Forall (fun d => wf_value d = true) mid) ->
  agrees (spec_aggregate db docs (VArr (pre ++ [VDoc [("$project", o)]])))
         (aggregate db docs (VArr (pre ++ [VDoc [("$project", o)]]))) <> Some false.
Proof. exact pipeline_project_agrees. Qed.
Print Assumptions C03_pipeline_partial2_flags.

(* the $project stage on its own, on documents without repeated top-level key *)
Theorem C03_stage_project : forall db o l,
  project_covered2 o = true -> stage_reasons db "$project" o l = 0 -> Forall top_nodup l ->
  rel_perm (spec_stage db "$project" o (mkStream l true [])) (run_stage db "$project" o l).
Proof. exact stage_project2. Qed.
Print Assumptions C03_stage_project.

(* A covered pipeline followed by one last $group whose key is the constant null (one group
   holding the whole input; no field name repeated: group_null_covered,
   Proofs/C03StageGroup.v), with the accumulators $sum, $avg, $min, $max, $first, $last,
   $push, $addToSet: the specification and the library answer one document with the same
   fields and the same values (the $addToSet arrays are even the same lists), _id first in the
   specification and last in the library. *)
Theorem C03_pipeline_group_null : forall db docs pre o,
  c03_covered (VArr pre) = true -> group_null_covered o = true ->
  c03_reasons db docs (VArr (pre ++ [VDoc [("$group", o)]])) = 0 ->
  (forall l, aggregate db docs (VArr (pre ++ [VDoc [("$group", o)]])) = Ok l ->
             Forall (fun d => wf_value d = true) l) ->
  agrees (spec_aggregate db docs (VArr (pre ++ [VDoc [("$group", o)]])))
         (aggregate db docs (VArr (pre ++ [VDoc [("$group", o)]]))) <> Some false.
Proof. exact pipeline_group_null_agrees. Qed.
Print Assumptions C03_pipeline_group_null.

Theorem C03_stage_group_null : forall db o l,
  group_null_covered o = true -> stage_reasons db "$group" o l = 0 ->
  match spec_stage db "$group" o (mkStream l true []), run_stage db "$group" o l with
  | PUndef, _ => True
  | _, Err EUnmodelled => True
  | PErr, Err _ => True
  | PV s, Ok l' =>
      s_ord s = true /\
      Forall2 (fun a b => exists fs gs, a = VDoc fs /\ b = VDoc gs /\ Permutation fs gs) (s_docs s) l' /\
      Forall (fun d => forall fs, d = VDoc fs ->
                forall kv, In kv fs -> mem_str (fst kv) (s_sets s) = true -> is_arr (snd kv) = true) (s_docs s)
  | _, _ => False
  end.
Proof. exact stage_group_null. Qed.
Print Assumptions C03_stage_group_null.

(* $group with any key expression whose values, on the documents that reach the stage, are
   scalars (null - also for a missing value -, numbers, strings, naive dates: scalar_key,
   Proofs/C03GroupSort.v); no field name repeated (group_covered).  The library sorts the
   (key, document) pairs with a stable sort and cuts the result into runs of equal keys; the
   specification collects the classes of equal keys in the order of first occurrence.  Both
   give one group per class, with the documents of the class in input order under the key of
   the first of them: *)
Theorem C03_groups_are_classes : forall e l keyed,
  is_null e = false -> mapM (key_fn e) l = Ok keyed ->
  Forall (fun p => scalar_key (fst p) = true) keyed ->
  exists gs, groups_of e l = Ok gs /\ Permutation gs (classes keyed []).
Proof. exact groups_of_classes. Qed.
Print Assumptions C03_groups_are_classes.

(* ... so that the answers agree as bags (as lists when there is at most one group), the
   $addToSet fields as sets.  Partial: the hypothesis on the key values (scalar_keys) is what
   is missing for the full $group statement (array keys); the full statement would be
     forall db docs pre o, c03_covered (VArr pre) = true -> group_covered o = true ->
       c03_reasons db docs (VArr (pre ++ [VDoc [("$group", o)]])) = 0 -> (output well-formed) ->
       agrees ... <> Some false *)
Theorem C03_pipeline_group_partial : forall db docs pre o,
  c03_covered (VArr pre) = true -> group_covered o = true ->
  c03_reasons db docs (VArr (pre ++ [VDoc [("$group", o)]])) = 0 ->
  (forall mid fs ide, aggregate db docs (VArr pre) = Ok mid -> o = VDoc fs -> assoc "_id" fs = Some ide ->
     Forall (fun d => match eval [] d true ide with
                      | EV k => scalar_key k = true
                      | _ => True end) mid) ->
  (forall l, aggregate db docs (VArr (pre ++ [VDoc [("$group", o)]])) = Ok l ->
             Forall (fun d => wf_value d = true) l) ->
  agrees (spec_aggregate db docs (VArr (pre ++ [VDoc [("$group", o)]])))
         (aggregate db docs (VArr (pre ++ [VDoc [("$group", o)]]))) <> Some false.
Proof. exact pipeline_group_partial. Qed.
Print Assumptions C03_pipeline_group_partial.

Theorem C03_stage_group_partial : forall db o l,
  group_covered o = true -> stage_reasons db "$group" o l = 0 ->
  (forall fs ide, o = VDoc fs -> assoc "_id" fs = Some ide -> scalar_keys ide l) ->
  match spec_stage db "$group" o (mkStream l true []), run_stage db "$group" o l with
  | PUndef, _ => True
  | _, Err EUnmodelled => True
  | PErr, Err _ => True
  | PV s, Ok l' => Forall (fun d => wf_value d = true) l' -> stream_agrees s l' = true
  | _, _ => False
  end.
Proof. exact stage_group_scalar. Qed.
Print Assumptions C03_stage_group_partial.
