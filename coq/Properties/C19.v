(* C19 -- property theorems only.  The lock protocol of mongomock/thread.py (instruction
   lists regenerated from the source into Gen/LockProg.v on every run), for EVERY schedule of
   2, 3 and 4 threads each running an unbounded sequence of reader/writer sections, at the
   granularity of lock operations; a section may end by an exception. *)
From Coq Require Import List NArith Bool.
From Verif.Gen Require Import LockProg.
From Verif Require Import Lock C19Lock C19Four.
Import ListNotations.
Open Scope N_scope.

(* in every reachable state: writers exclude each other and all readers, no lock is
   released unheld / by a non-owner, and some thread in the middle of a section can move
   (hence, sections being loop-free, every interleaving runs to completion: no deadlock) *)
Theorem C19_rw_2 : forall s, reach 2 s -> good 2 s = true.
Proof. exact rw_good_2. Qed.
Print Assumptions C19_rw_2.

Theorem C19_rw_3 : forall s, reach 3 s -> good 3 s = true.
Proof. exact rw_good_3. Qed.
Print Assumptions C19_rw_3.

Theorem C19_rw_4 : forall s, reach 4 s -> good 4 s = true.
Proof. exact rw_good_4. Qed.
Print Assumptions C19_rw_4.

(* what [good] means *)
Theorem C19_good_mutex : forall n s, good n s = true ->
  count_if writer_inside (th s) <= 1 /\
  (count_if writer_inside (th s) = 0 \/ count_if reader_inside (th s) = 0).
Proof. exact good_mutex. Qed.
Print Assumptions C19_good_mutex.

Theorem C19_good_no_error : forall n s, good n s = true -> ~ In Error (succs n s).
Proof. exact good_no_error. Qed.
Print Assumptions C19_good_no_error.

Theorem C19_good_not_stuck : forall n s, good n s = true -> not_stuck n s = true.
Proof. exact good_not_stuck. Qed.
Print Assumptions C19_good_not_stuck.

(* concurrent readers are admitted together *)
Theorem C19_readers_share : exists s, reach 2 s /\ two_readers s = true.
Proof. exact rw_readers_share. Qed.
Print Assumptions C19_readers_share.

(* the lock is released when the guarded operation raises: the context managers release in
   a finally clause (read from the source by the translator); with release_on_raise = false
   the model has an extra transition that skips the release code and the theorems above fail *)
Theorem C19_release_on_raise : release_on_raise = true.
Proof. reflexivity. Qed.
Print Assumptions C19_release_on_raise.
