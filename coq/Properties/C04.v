(* C04 -- Aggregation expressions evaluate to the value MongoDB defines.
   Model: Model/Expr.v (eval, obs_add_field, obs_expr); specification: Spec/ExprSpec.v (seval,
   spec_add_field, spec_expr); guard: Spec/ExprGuard.v (c04_reasons = 0).
   The main theorems cover the whole expression language of the model (every operator, any depth,
   any document): inside the guard, and unless the model leaves the library's answer open
   (Err EUnmodelled), the $addFields observation and the {$expr: e} observation are the ones
   the specification gives wherever it decides.  They follow from Proofs/C04Proofs.expr_agree:
   for every environment of bound names, reasons vars doc e = 0 -> R (seval (lift vars) doc e)
   (eval vars doc true e), with R s m: equal values / both missing / both an error (plain
   equality of values; bson_eq in the statement below is its reflexive weakening).
   Guard bits 256 .. 8192 were added by the proof; their counterexamples are in Refuted/C04.v,
   examples of bits 1 .. 128 and a worked agreement in Proofs/C04Examples.v.
   Vocabulary of the corollaries (Proofs/C04Corollaries.v), all about a model result r:
   - nullish_m r : r = EV VNull \/ r = EMiss          (null or missing)
   - number_m r  : r = EV v with v a number (int, double or bool as Python sees it)
   - no_error r  : r is a value or missing (not an exception)
   - cmp_of k    : the comparison of "$gt" / "$gte" / "$lt" / "$lte". *)
From Coq Require Import ZArith List String Bool Ascii.
From Verif Require Import Value PyEq BsonOrder Path Update Cursor Expr ExprSpec ExprGuard.
From Verif Require Import C04Base C04Proofs C04Corollaries C04Examples.
Import ListNotations.
Open Scope Z_scope.
Open Scope string_scope.
Open Scope list_scope.

(* the hypotheses are satisfiable on a non-trivial expression *)
Example C04_hypotheses_satisfiable :
  c04_reasons ex_big ex_doc = 0 /\ obs_add_field "x" ex_big ex_doc <> Err EUnmodelled /\
  obs_expr ex_big ex_doc <> Err EUnmodelled.
Proof. vm_compute. repeat split; discriminate. Qed.

(* 1. computed fields *)
Theorem C04_expression : forall e doc,
  c04_reasons e doc = 0 ->
  obs_add_field "x" e doc <> Err EUnmodelled ->
  match spec_add_field "x" e doc with
  | OVal v => exists v', obs_add_field "x" e doc = Ok v' /\ bson_eq v v' = true
  | OErr => exists er, obs_add_field "x" e doc = Err er
  | OUndef => True
  end.
Proof. exact expression. Qed.
Print Assumptions C04_expression.

(* 2. {$expr: e} in query filters *)
Theorem C04_expr_filter : forall e doc,
  c04_reasons e doc = 0 ->
  obs_expr e doc <> Err EUnmodelled ->
  match spec_expr e doc with
  | OVal b => obs_expr e doc = Ok b
  | OErr => exists er, obs_expr e doc = Err er
  | OUndef => True
  end.
Proof. exact expr_filter. Qed.
Print Assumptions C04_expr_filter.

(* the statement both follow from: any environment of bound names, plain equality of the results *)
Theorem C04_expression_env : forall doc e vars,
  reasons vars doc e = 0 -> R (seval (lift vars) doc e) (eval vars doc true e).
Proof. exact expr_agree. Qed.
Print Assumptions C04_expression_env.

(* 3. the sentences of the property, on the model (no guard) *)
(* null propagates through arithmetic *)
Theorem C04_null_propagates_abs : forall vars doc e,
  nullish_m (eval vars doc true e) -> eval vars doc true (VDoc [("$abs", e)]) = EV VNull.
Proof. exact null_abs. Qed.
Print Assumptions C04_null_propagates_abs.

Theorem C04_null_propagates : forall vars doc k pre x post,
  k = "$add" \/ k = "$multiply" ->
  Forall (fun p => number_m (eval vars doc true p)) pre ->
  nullish_m (eval vars doc true x) ->
  Forall (fun q => no_error (eval vars doc true q)) post ->
  eval vars doc true (VDoc [(k, VArr (pre ++ x :: post))]) = EV VNull.
Proof. exact null_addmul. Qed.
Print Assumptions C04_null_propagates.

Theorem C04_null_propagates_subtract : forall vars doc a b,
  no_error (eval vars doc true a) -> no_error (eval vars doc true b) ->
  nullish_m (eval vars doc true a) \/ nullish_m (eval vars doc true b) ->
  eval vars doc true (VDoc [("$subtract", VArr [a; b])]) = EV VNull.
Proof. exact null_subtract. Qed.
Print Assumptions C04_null_propagates_subtract.

(* a missing field is omitted from computed fields, a present one is set *)
Theorem C04_missing_omitted : forall f e doc fs, doc = VDoc fs ->
  eval [] doc true e = EMiss -> obs_add_field f e doc = Ok doc.
Proof. exact missing_omitted. Qed.
Print Assumptions C04_missing_omitted.

Theorem C04_present_set : forall f e fs v,
  eval [] (VDoc fs) true e = EV v -> obs_add_field f e (VDoc fs) = Ok (VDoc (set_key f v fs)).
Proof. exact present_set. Qed.
Print Assumptions C04_present_set.

(* a missing field is false in conditions *)
Theorem C04_missing_false_in_conditions :
  to_bool EMiss = Ok false /\
  (forall vars doc c t f, eval vars doc true c = EMiss ->
     eval vars doc true (VDoc [("$cond", VArr [c; t; f])]) = eval vars doc true f) /\
  (forall vars doc c t f, eval vars doc true c = EMiss ->
     eval vars doc true (VDoc [("$cond", VDoc [("if", c); ("then", t); ("else", f)])]) = eval vars doc true f) /\
  (forall vars doc c, eval vars doc true c = EMiss ->
     eval vars doc true (VDoc [("$not", VArr [c])]) = EV (VBool true)) /\
  (forall vars doc xs c,
     Forall (fun x => exists b, to_bool (eval vars doc true x) = Ok b) xs ->
     In c xs -> eval vars doc true c = EMiss ->
     eval vars doc true (VDoc [("$and", VArr xs)]) = EV (VBool false)) /\
  (forall vars doc c, eval vars doc true c = EMiss ->
     eval vars doc true (VDoc [("$or", VArr [c])]) = EV (VBool false)) /\
  (forall vars doc c t d, eval vars doc true c = EMiss ->
     eval vars doc true (VDoc [("$switch", VDoc [("branches", VArr [VDoc [("case", c); ("then", t)]]); ("default", d)])])
     = eval vars doc true d).
Proof.
  exact (conj missing_false (conj cond_missing (conj cond_doc_missing (conj not_missing
        (conj and_missing (conj or_missing_only switch_missing)))))).
Qed.
Print Assumptions C04_missing_false_in_conditions.

(* $ifNull replaces null and missing *)
Theorem C04_ifnull :
  (forall vars doc a b v, eval vars doc true a = EV v -> v <> VNull ->
     eval vars doc true (VDoc [("$ifNull", VArr [a; b])]) = EV v) /\
  (forall vars doc a b, nullish_m (eval vars doc true a) ->
     eval vars doc true (VDoc [("$ifNull", VArr [a; b])]) = eval vars doc true b).
Proof. exact (conj ifnull_value ifnull_fallback). Qed.
Print Assumptions C04_ifnull.

(* find({$expr: e}) returns exactly the documents on which e is truthy *)
Theorem C04_expr_truthy :
  (forall e doc, obs_expr e doc = Ok true <-> exists v, eval [] doc true e = EV v /\ mongo_bool v = true) /\
  (forall v, mongo_bool v = false <-> v = VBool false \/ v = VNull \/ v = VInt 0 \/ v = VDbl 0).
Proof. exact (conj expr_truthy mongo_bool_false). Qed.
Print Assumptions C04_expr_truthy.

Theorem C04_literal : forall vars doc ign v, eval vars doc ign (VDoc [("$literal", v)]) = EV v.
Proof. exact literal_value. Qed.
Print Assumptions C04_literal.

Theorem C04_root :
  (forall vars doc ign, var_lookup "ROOT" (lift vars) = None -> eval vars doc ign (VStr "$$ROOT") = EV doc) /\
  (forall vars doc ign, var_lookup "CURRENT" (lift vars) = None -> eval vars doc ign (VStr "$$CURRENT") = EV doc) /\
  (forall doc ign, eval [] doc ign (VStr "$$ROOT") = EV doc /\ eval [] doc ign (VStr "$$CURRENT") = EV doc).
Proof. exact (conj root_value (conj current_value root_value_top)). Qed.
Print Assumptions C04_root.

(* comparisons use the cross-type BSON order; a missing operand is below every present one *)
Theorem C04_comparison_bson_order :
  (forall vars doc k a b x y, In k ["$gt"; "$gte"; "$lt"; "$lte"] ->
     eval vars doc true a = EV x -> eval vars doc true b = EV y ->
     eval vars doc true (VDoc [(k, VArr [a; b])]) =
     match bson_compare (cmp_of k) x y true with Ok r => EV (VBool r) | Err er => EE er end) /\
  (forall op x y c, spec_cmp3 x y = Some c -> bson_compare op x y true = Ok (op_holds op c)) /\
  (forall vars doc k a b, In k ["$gt"; "$gte"; "$lt"; "$lte"] ->
     no_error (eval vars doc true a) -> no_error (eval vars doc true b) ->
     eval vars doc true a = EMiss \/ eval vars doc true b = EMiss ->
     eval vars doc true (VDoc [(k, VArr [a; b])]) =
     EV (VBool (op_holds (cmp_of k)
                  (Bool.compare (match eval vars doc true a with EV _ => true | _ => false end)
                                (match eval vars doc true b with EV _ => true | _ => false end))))).
Proof. exact (conj comparison_present (conj comparison_bson_order comparison_missing)). Qed.
Print Assumptions C04_comparison_bson_order.
