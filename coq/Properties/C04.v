(* C04 -- placeholder until the expression theorems are integrated *)
From Coq Require Import ZArith List String Bool.
From Verif Require Import Value Expr ExprSpec ExprGuard.
Import ListNotations.
Open Scope Z_scope.
Open Scope string_scope.
Example C04_eval_example :
  eval [] (VDoc [("a", VInt 2); ("l", VArr [VDoc [("x", VInt 1)]; VDoc []; VDoc [("x", VInt 5)]])]) true
       (VDoc [("$add", VArr [VStr "$a"; VDoc [("$size", VStr "$l.x")]; VInt 1])])
  = EV (VInt 5).
Proof. vm_compute. reflexivity. Qed.
Print Assumptions C04_eval_example.
