(* C16 -- Aggregation is read-only, leaves its arguments alone, and is repeatable.
   Model: Model/AggState.v (world, agg_world, agg_twice, split_out, insert_all) over
   Model/Pipeline.v (run_pipeline, run_stage); predicate on observed runs: Spec/AggStateSpec.v
   (c16_ok, c16_check).
   The model is a pure function world -> world * answer: the pipeline value is an input that is
   never returned, so "the caller's pipeline object is unmodified" is the observed boolean
   q_pipe_same of c16_case and is not a statement about the model; index and catalog information
   is not part of `world` (observed boolean q_meta_same).
   Vocabulary (Proofs/C16Base.v, C16Facet.v, C16Proofs.v):
   - out_id d        : the _id field of an output document (None when d is not a document or has none);
   - storable d      : d is a document carrying an _id the model supports as a key
                       (exists i, out_id d = Some i /\ id_modelled i = true);
   - no_clash a b    : the _id of b, as stored, is not == (py_eq) to the stored _id of a, for a
                       before b in the output (forall i j, out_id a = Some i -> out_id b = Some j ->
                       py_eq (patch j) (patch i) = false);
   - ids_distinct l  : ForallOrdPairs no_clash l  (pairwise different _ids after patch);
   - clash a b       : the negation on documents with _ids (py_eq (patch j) (patch i) = true);
   - patch           : what an insert stores of a document (datetimes truncated, Model/Update.v).
   storable_all_b / ids_distinct_b_iff (C16Base.v) decide the two premises by computation.
   Nothing is guarded: no theorem below is restricted by a reasons function, and
   C16_model_satisfies_spec needs no premise on the world, the source name or the pipeline
   (not even the absence of $sample, which the model answers Err EUnmodelled).
   Refuted/C16.v keeps the checked examples showing that each premise that IS stated is needed. *)
From Coq Require Import ZArith List String Bool.
From Verif Require Import Value PyEq Update Coll Expr Pipeline AggState AggStateSpec.
From Verif Require Import C16Base C16Facet C16Proofs.
Import ListNotations.
Open Scope Z_scope.
Open Scope string_scope.
Open Scope list_scope.

Example C16_out_example :
  agg_world [("c", [VDoc [("_id", VInt 1); ("n", VInt 2)]; VDoc [("_id", VInt 2); ("n", VInt 5)]]);
             ("t", [VDoc [("_id", VInt 9)]])] "c"
            (VArr [VDoc [("$match", VDoc [("n", VDoc [("$gt", VInt 3)])])]; VDoc [("$out", VStr "t")]])
  = ([("c", [VDoc [("_id", VInt 1); ("n", VInt 2)]; VDoc [("_id", VInt 2); ("n", VInt 5)]]);
      ("t", [VDoc [("_id", VInt 2); ("n", VInt 5)]])],
     Ok [VDoc [("_id", VInt 2); ("n", VInt 5)]]).
Proof. vm_compute. reflexivity. Qed.
Print Assumptions C16_out_example.

(* ---------------------------------------------------------------- 1. read-only *)
(* without a final $out no collection of the database changes, whatever the stages do *)
Theorem C16_read_only : forall (w : world) (src : string) (stages : list value),
  snd (split_out stages) = None -> fst (agg_world w src (VArr stages)) = w.
Proof. exact agg_read_only. Qed.
Print Assumptions C16_read_only.

(* a failing body never touches the world, with or without $out *)
Theorem C16_failing_body_read_only : forall (w : world) (src : string) (stages : list value) (e : err),
  run_pipeline w (fst (split_out stages)) (coll_docs w src) = Err e ->
  fst (agg_world w src (VArr stages)) = w /\ exists e', snd (agg_world w src (VArr stages)) = Err e'.
Proof. exact agg_body_fails. Qed.
Print Assumptions C16_failing_body_read_only.

(* the strongest version: for ANY pipeline value, the world is unchanged unless the pipeline is
   a list of stages ending in {$out: <string t>} whose body ran; then only the key t is rebound *)
Theorem C16_world_moves_only_by_out : forall (w : world) (src : string) (p : value),
  fst (agg_world w src p) = w \/
  exists body t outdocs,
    p = VArr (body ++ [VDoc [("$out", VStr t)]]) /\
    run_pipeline w body (coll_docs w src) = Ok outdocs /\
    fst (agg_world w src p) = set_key t (fst (insert_all [] outdocs)) w.
Proof. exact agg_world_moves_only_by_out. Qed.
Print Assumptions C16_world_moves_only_by_out.

(* ---------------------------------------------------------------- 2. repeatable *)
Theorem C16_repeatable : forall (w : world) (src : string) (stages : list value),
  snd (split_out stages) = None ->
  agg_world (fst (agg_world w src (VArr stages))) src (VArr stages) = agg_world w src (VArr stages).
Proof. exact agg_repeatable. Qed.
Print Assumptions C16_repeatable.

Theorem C16_repeatable_twice : forall (w : world) (src : string) (stages : list value),
  snd (split_out stages) = None ->
  agg_twice w src (VArr stages) =
  ((w, run_pipeline w stages (coll_docs w src)), (w, run_pipeline w stages (coll_docs w src))).
Proof. exact agg_twice_same. Qed.
Print Assumptions C16_repeatable_twice.

(* any run that left the world alone (not a list, failing body, ...) is repeatable *)
Theorem C16_repeatable_gen : forall (w : world) (src : string) (p : value),
  fst (agg_world w src p) = w -> agg_twice w src p = (agg_world w src p, agg_world w src p).
Proof. exact agg_repeatable_gen. Qed.
Print Assumptions C16_repeatable_gen.

(* ---------------------------------------------------------------- 3. $out *)
Theorem C16_out_replaces : forall (w : world) (src : string) (stages body : list value) (t : string)
                                  (outdocs : list value),
  split_out stages = (body, Some (VStr t)) ->
  run_pipeline w body (coll_docs w src) = Ok outdocs ->
  Forall storable outdocs -> ids_distinct outdocs ->
  agg_world w src (VArr stages) = (set_key t (map patch outdocs) w, Ok outdocs).
Proof. exact agg_out_replaces. Qed.
Print Assumptions C16_out_replaces.

(* the target holds exactly the (stored form of the) output *)
Theorem C16_out_target : forall (w : world) (src : string) (stages body : list value) (t : string)
                                (outdocs : list value),
  split_out stages = (body, Some (VStr t)) ->
  run_pipeline w body (coll_docs w src) = Ok outdocs ->
  Forall storable outdocs -> ids_distinct outdocs ->
  coll_docs (fst (agg_world w src (VArr stages))) t = map patch outdocs.
Proof. exact agg_out_target. Qed.
Print Assumptions C16_out_target.

(* the output is passed through as the answer *)
Theorem C16_out_passes_through : forall (w : world) (src : string) (stages body : list value) (t : string)
                                        (outdocs : list value),
  split_out stages = (body, Some (VStr t)) ->
  run_pipeline w body (coll_docs w src) = Ok outdocs ->
  Forall storable outdocs -> ids_distinct outdocs ->
  snd (agg_world w src (VArr stages)) = Ok outdocs.
Proof. exact agg_out_passes_through. Qed.
Print Assumptions C16_out_passes_through.

(* nothing else moves (no premise on the output, holds on failure too) and no collection is lost *)
Theorem C16_out_others : forall (w : world) (src : string) (stages body : list value) (t n : string),
  split_out stages = (body, Some (VStr t)) -> n <> t ->
  coll_docs (fst (agg_world w src (VArr stages))) n = coll_docs w n.
Proof. exact agg_out_others. Qed.
Print Assumptions C16_out_others.

Theorem C16_keys_kept : forall (w : world) (src : string) (p : value) (n : string),
  In n (map fst w) -> In n (map fst (fst (agg_world w src p))).
Proof. exact agg_keys_kept. Qed.
Print Assumptions C16_keys_kept.

(* conversely, an answer Ok of a pipeline with $out is the body's output, and the target holds it *)
Theorem C16_out_Ok_inv : forall (w : world) (src : string) (stages body : list value) (t : string)
                                (r : list value),
  split_out stages = (body, Some (VStr t)) ->
  snd (agg_world w src (VArr stages)) = Ok r ->
  run_pipeline w body (coll_docs w src) = Ok r /\
  fst (agg_world w src (VArr stages)) = set_key t (map patch r) w /\
  Forall storable r.
Proof. exact agg_out_Ok_inv. Qed.
Print Assumptions C16_out_Ok_inv.

(* a duplicate _id in the output: BulkWriteError, the target is left holding exactly the
   documents before the first duplicate *)
Theorem C16_out_duplicate : forall (w : world) (src : string) (stages body : list value) (t : string)
                                   (pre : list value) (d : value) (post : list value) (a : value),
  split_out stages = (body, Some (VStr t)) ->
  run_pipeline w body (coll_docs w src) = Ok (pre ++ d :: post) ->
  Forall storable pre -> ids_distinct pre ->
  storable d -> In a pre -> clash a d ->
  agg_world w src (VArr stages) = (set_key t (map patch pre) w, Err EBulk).
Proof. exact agg_out_duplicate. Qed.
Print Assumptions C16_out_duplicate.

(* in every case the target ends up holding the stored form of a prefix of the output: the whole
   of it exactly when the answer is Ok *)
Theorem C16_out_prefix : forall (w : world) (src : string) (stages body : list value) (t : string)
                                (outdocs : list value),
  split_out stages = (body, Some (VStr t)) ->
  run_pipeline w body (coll_docs w src) = Ok outdocs ->
  exists pre post, outdocs = pre ++ post /\
    fst (agg_world w src (VArr stages)) = set_key t (map patch pre) w /\
    match snd (agg_world w src (VArr stages)) with
    | Ok r => post = [] /\ r = outdocs
    | Err _ => post <> []
    end.
Proof. exact agg_out_prefix. Qed.
Print Assumptions C16_out_prefix.

(* ---------------------------------------------------------------- 4. $facet *)
(* the stage is exactly: run every sub-pipeline with run_pipeline on the stage's own input l *)
Theorem C16_facet_eq : forall (db : dbmap) (subs : list (string * value)) (l : list value),
  run_stage db "$facet" (VDoc subs) l =
  (let! outs := mapM (fun tp => match snd tp with
                                | VArr stages => let! r := run_pipeline db stages l in Ok (fst tp, VArr r)
                                | _ => Err EUnmodelled
                                end) subs in
   Ok [VDoc (fold_left (fun acc kv => set_key (fst kv) (snd kv) acc) outs [])]).
Proof. exact run_stage_facet. Qed.
Print Assumptions C16_facet_eq.

(* pairwise different titles: one field per title, in order, each the answer of its own stages on l
   (sub-pipelines need not be single-operator stage documents) *)
Theorem C16_facet_isolated : forall (db : dbmap) (subs : list (string * value)) (l : list value)
                                    (fields : list (string * value)),
  NoDup (map fst subs) ->
  run_stage db "$facet" (VDoc subs) l = Ok [VDoc fields] ->
  Forall2 (fun sub fld => fst fld = fst sub /\
                          exists stages r, snd sub = VArr stages /\
                                           run_pipeline db stages l = Ok r /\ snd fld = VArr r)
          subs fields.
Proof. exact facet_isolated. Qed.
Print Assumptions C16_facet_isolated.

Theorem C16_facet_field : forall (db : dbmap) (subs : list (string * value)) (l : list value)
                                 (fields : list (string * value)) (t : string) (stages : list value),
  NoDup (map fst subs) ->
  run_stage db "$facet" (VDoc subs) l = Ok [VDoc fields] ->
  In (t, VArr stages) subs ->
  exists r, run_pipeline db stages l = Ok r /\ assoc t fields = Some (VArr r).
Proof. exact facet_field. Qed.
Print Assumptions C16_facet_field.

(* the stage answers as soon as every branch does *)
Theorem C16_facet_runs : forall (db : dbmap) (subs : list (string * value)) (l : list value),
  NoDup (map fst subs) ->
  (forall t p, In (t, p) subs -> exists stages r, p = VArr stages /\ run_pipeline db stages l = Ok r) ->
  exists fields, run_stage db "$facet" (VDoc subs) l = Ok [VDoc fields].
Proof. exact facet_runs. Qed.
Print Assumptions C16_facet_runs.

(* independence from the siblings: permuting or removing the other branches changes no field *)
Theorem C16_facet_siblings : forall (db : dbmap) (subs subs2 : list (string * value)) (l : list value)
                                    (fields : list (string * value)),
  NoDup (map fst subs) -> NoDup (map fst subs2) -> incl subs2 subs ->
  run_stage db "$facet" (VDoc subs) l = Ok [VDoc fields] ->
  exists fields2, run_stage db "$facet" (VDoc subs2) l = Ok [VDoc fields2] /\
                  forall t, In t (map fst subs2) -> assoc t fields2 = assoc t fields.
Proof. exact facet_siblings. Qed.
Print Assumptions C16_facet_siblings.

(* what the harness observes as q_facet_iso: a pipeline ending in a $facet returns in every field
   the answer of the pipeline with the $facet replaced by that sub-pipeline alone *)
Theorem C16_facet_last : forall (db : dbmap) (pre : list value) (subs : list (string * value))
                                (l : list value) (fields : list (string * value)) (t : string)
                                (stages : list value),
  NoDup (map fst subs) ->
  run_pipeline db (pre ++ [VDoc [("$facet", VDoc subs)]]) l = Ok [VDoc fields] ->
  In (t, VArr stages) subs ->
  exists r, run_pipeline db (pre ++ stages) l = Ok r /\ assoc t fields = Some (VArr r).
Proof. exact facet_last. Qed.
Print Assumptions C16_facet_last.

(* ---------------------------------------------------------------- 5. the model satisfies c16_ok *)
(* for every world, source collection and pipeline value: no premise at all *)
Theorem C16_model_satisfies_spec : forall (w : world) (src : string) (p : value),
  let '((w1, r1), (w2, r2)) := agg_twice w src p in
  c16_ok (mkC16 w p r1 w1 r2 w2 true true true) = true.
Proof. exact model_c16_ok. Qed.
Print Assumptions C16_model_satisfies_spec.

(* so the check evaluated on the model's own runs raises at most the bit "outside the model" *)
Theorem C16_model_check : forall (w : world) (p : value),
  let '((w1, r1), (w2, r2)) := agg_twice w "c" p in
  c16_check (mkC16 w p r1 w1 r2 w2 true true true) = 0 \/
  c16_check (mkC16 w p r1 w1 r2 w2 true true true) = 8.
Proof. exact model_c16_check. Qed.
Print Assumptions C16_model_check.
