(* C16 -- placeholder until the aggregation-state theorems are integrated *)
From Coq Require Import ZArith List String Bool.
From Verif Require Import Value Expr Pipeline AggState AggStateSpec.
Import ListNotations.
Open Scope Z_scope.
Open Scope string_scope.
Example C16_out_example :
  agg_world [("c", [VDoc [("_id", VInt 1); ("n", VInt 2)]; VDoc [("_id", VInt 2); ("n", VInt 5)]]);
             ("t", [VDoc [("_id", VInt 9)]])] "c"
            (VArr [VDoc [("$match", VDoc [("n", VDoc [("$gt", VInt 3)])])]; VDoc [("$out", VStr "t")]])
  = ([("c", [VDoc [("_id", VInt 1); ("n", VInt 2)]; VDoc [("_id", VInt 2); ("n", VInt 5)]]);
      ("t", [VDoc [("_id", VInt 2); ("n", VInt 5)]])],
     Ok [VDoc [("_id", VInt 2); ("n", VInt 5)]]).
Proof. vm_compute. reflexivity. Qed.
Print Assumptions C16_out_example.
