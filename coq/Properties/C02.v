(* C02 -- update operators and replacements transform documents exactly as specified.
   Specification: Spec/UpdateLaws.v.  Proofs: Proofs/C02*.v.  Counterexamples excluded by the
   guard bits 8, 16, 32, 64, 128 of c02_reasons: Refuted/C02.v, Refuted/C02OpLaw.v. *)
From Coq Require Import ZArith List String Bool.
From Verif Require Import Value PyEq Path Filter Update Coll HistCheck HistProps ProjectSpec
                          UpdateLaws.
From Verif.Proofs Require Import C02Base C02Walk C02FrameThm C02OpLawD C02OpLaw C02Replace
                                 C02Store C02Step C02History C02Full.
Import ListNotations.
Open Scope Z_scope.
Open Scope string_scope.

Example C02_set_creates_and_pads :
  apply_update (VDoc []) (VDoc [("$set", VDoc [("a.b.2", VInt 7)])]) false 0 (VDoc [("_id", VInt 1)])
  = Ok (VDoc [("_id", VInt 1); ("a", VDoc [("b", VDoc [("2", VInt 7)])])]).
Proof. vm_compute. reflexivity. Qed.

(* ---- 1. the path walk of $set --------------------------------------------------------- *)
(* the value set is found again at the path (parent_ok: the values along the path are
   sub-documents or missing) *)
Theorem C02_set_get : forall parts now d v d',
  parts <> [] -> parent_ok parts d = true ->
  walk USet now parts d v = Ok d' -> get_by_dot parts d' = Some v.
Proof. exact set_get. Qed.
Print Assumptions C02_set_get.

(* a missing first component is created at the end of the document, bound to nested singleton
   documents down to the value *)
Theorem C02_set_creates : forall p rest now fs v,
  assoc p fs = None ->
  walk USet now (p :: rest) (VDoc fs) v = Ok (VDoc (fs ++ [(p, nest rest v)])).
Proof. exact set_creates. Qed.
Print Assumptions C02_set_creates.

(* setting index i >= len(xs) pads the array with nulls *)
Theorem C02_set_pads : forall now xs (i : nat) v,
  (List.length xs <= i)%nat ->
  apply_updater USet now (VArr xs) (string_of_nat i) v
  = Ok (VArr (xs ++ repeat VNull (i - List.length xs) ++ [v])).
Proof. exact set_pads. Qed.
Print Assumptions C02_set_pads.

(* every path that neither extends nor is extended by the path set keeps its value *)
Theorem C02_set_frame_path : forall parts now d v d',
  parent_ok parts d = true -> walk USet now parts d v = Ok d' ->
  forall q, is_prefix_of q parts = false -> is_prefix_of parts q = false ->
  get_by_dot q d' = get_by_dot q d.
Proof. exact set_frame_path. Qed.
Print Assumptions C02_set_frame_path.

(* ---- 2. the frame: every field the specification does not address is left untouched ----- *)
Theorem C02_frame : forall spec u wi now d d',
  first_key_dollar u = Some true ->
  wf_value u = true -> wf_value d = true ->
  collide (addressed u) = false ->
  canon_paths u = true ->
  fits_all u d = true ->
  apply_update spec u wi now d = Ok d' ->
  frame_ok u d d' = true.
Proof. exact frame_sound. Qed.
Print Assumptions C02_frame.

(* ---- 3. the operator laws: one operator on one field ------------------------------------ *)
(* general form; addtoset_risk / aware_risk: Proofs/C02OpLawD.v (Python == against BSON
   equality between the operand and the old array; an aware datetime in the old array) *)
Theorem C02_op_law_general : forall spec op p arg now d d' b,
  patch arg = arg ->
  wf_value d = true ->
  ((op =? "$min") || (op =? "$max")) && minmax_cross_field p arg d = false ->
  (op =? "$addToSet") && addtoset_risk p arg d = false ->
  ((op =? "$pull") || (op =? "$pullAll")) && aware_risk p d = false ->
  apply_update spec (VDoc [(op, VDoc [(p, arg)])]) false now d = Ok d' ->
  op_law op p arg now d d' = Some b -> b = true.
Proof. exact op_law_sound. Qed.
Print Assumptions C02_op_law_general.

(* on stored (normalised) documents *)
Theorem C02_op_law : forall spec op p arg now d d' b,
  patch arg = arg -> patch d = d -> wf_value d = true ->
  ((op =? "$min") || (op =? "$max")) && minmax_cross_field p arg d = false ->
  (op =? "$addToSet") && addtoset_eq_risk p arg d = false ->
  apply_update spec (VDoc [(op, VDoc [(p, arg)])]) false now d = Ok d' ->
  op_law op p arg now d d' = Some b -> b = true.
Proof. exact op_law_sound_patched. Qed.
Print Assumptions C02_op_law.

(* ---- 4. replacements -------------------------------------------------------------------- *)
(* STATEMENT CHANGED with the repair of the library (the _id of a replacement is taken from the
   document being replaced, a null _id counting as absent): a replacement without an _id on a
   document whose _id is null used to be refused (KeyError) and is now accepted, yielding a
   document WITHOUT an _id, so the law is stated for results that carry an _id in that case
   (counterexample without the premise: replace_law_null_id in Proofs/C02Replace.v; the
   collection never stores such a result, so C02_replace_step below is unchanged). *)
Theorem C02_replace : forall spec r now d d',
  patch r = r -> wf_value r = true ->
  (exists rfs, r = VDoc rfs /\ rfs <> [] /\
               forallb (fun kv => negb (starts_dollar (fst kv))) rfs = true) ->
  replace_id_risk spec r d = false ->
  (doc_id d = Some VNull -> doc_id d' <> None) ->
  apply_update spec r false now d = Ok d' -> replace_law r d d' = true.
Proof. exact replace_law_sound. Qed.
Print Assumptions C02_replace.

(* ---- 5. histories ----------------------------------------------------------------------- *)
(* one update step of the collection, from a state satisfying the invariant Inv
   (Proofs/C02Step.v: store keys pairwise different and reflexive under Python ==, no TTL
   index, stored documents well-formed and normalised) *)
Theorem C02_update_step : forall pre5 c f u multi upsert c' r i i',
  Inv c -> wf_value u = true ->
  collide (addressed u) = false -> canon_paths u = true ->
  (forall k d, In (k, d) (docs c) -> matched f d = true ->
               fits_all u d = true /\ minmax_cross u d = false /\ addtoset_cross u d = false) ->
  step pre5 c (OUpdate f u multi upsert) = (c', r) ->
  c02_step (mkCtx (docs c) i (now c)) (OUpdate f u multi upsert) (r, docs c', i') = true.
Proof. exact c02_step_update. Qed.
Print Assumptions C02_update_step.

Theorem C02_replace_step : forall pre5 c f r upsert c' rr i i',
  Inv c -> wf_value r = true ->
  (forall k d, In (k, d) (docs c) -> matched f d = true ->
               replace_id_risk (patch f) (patch r) d = false) ->
  step pre5 c (OReplace f r upsert) = (c', rr) ->
  c02_step (mkCtx (docs c) i (now c)) (OReplace f r upsert) (rr, docs c', i') = true.
Proof. exact c02_step_replace. Qed.
Print Assumptions C02_replace_step.

(* the history theorem, relative to the invariant being kept along the history (reach_inv)
   and to the clock being moved by OSetClock only (clock_ok) *)
Theorem C02_history_partial : forall pre5 ops,
  reach_inv pre5 empty_coll ops -> clock_ok pre5 empty_coll ops -> Forall op_wf ops ->
  c02_reasons ops (model_obs pre5 empty_coll ops) = 0 ->
  c02_ok ops (model_obs pre5 empty_coll ops) = true.
Proof. exact history_sound_partial. Qed.
Print Assumptions C02_history_partial.

(* the two premises hold of every history of well-formed arguments that creates no TTL index
   (guard bit 4).  op_wf (Proofs/C02History.v): every document / filter an operation can put
   into the store (inserted documents, update and replacement documents, filters of update,
   replace, find_one_and_* and bulk requests) has no repeated key in any sub-document, i.e. is
   a Python dict; Refuted/C02.v shows the theorem false on the model without that. *)
Theorem C02_reach_inv : forall pre5 ops,
  Forall op_wf ops -> existsb ttl_create ops = false -> reach_inv pre5 empty_coll ops.
Proof. exact reach_inv_all. Qed.
Print Assumptions C02_reach_inv.

Theorem C02_clock_ok : forall pre5 ops,
  Forall op_wf ops -> existsb ttl_create ops = false -> clock_ok pre5 empty_coll ops.
Proof. exact clock_ok_all. Qed.
Print Assumptions C02_clock_ok.

(* the history theorem *)
Theorem C02_history : forall pre5 ops,
  Forall op_wf ops ->
  c02_reasons ops (model_obs pre5 empty_coll ops) = 0 ->
  c02_ok ops (model_obs pre5 empty_coll ops) = true.
Proof. exact history_sound. Qed.
Print Assumptions C02_history.
