(* C02 -- placeholder until the update-law theorems are integrated *)
From Coq Require Import ZArith List String Bool.
From Verif Require Import Value Update UpdateLaws.
Import ListNotations.
Open Scope Z_scope.
Open Scope string_scope.
Example C02_set_creates_and_pads :
  apply_update (VDoc []) (VDoc [("$set", VDoc [("a.b.2", VInt 7)])]) false 0 (VDoc [("_id", VInt 1)])
  = Ok (VDoc [("_id", VInt 1); ("a", VDoc [("b", VDoc [("2", VInt 7)])])]).
Proof. vm_compute. reflexivity. Qed.
