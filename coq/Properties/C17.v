(* C17 -- placeholder until the refinement theorem is integrated *)
From Coq Require Import ZArith List String Bool.
From Verif Require Import Value Catalog.
Import ListNotations.
Open Scope string_scope.
Example C17_reads_never_create :
  wrun [[]] [(0%nat, KRead "d" "c"); (0%nat, KListCollections "d"); (0%nat, KListDatabases)]
  = [Ok (VArr []); Ok (names_value []); Ok (names_value [])].
Proof. vm_compute. reflexivity. Qed.
