(* C17 -- Databases, collections and indexes appear, persist, move, vanish as in MongoDB.
   Model: Model/Catalog.v (kstep / wstep / wrun); specification: spec_step / spec_run on the
   abstract catalog; abstraction abs_server.
   Vocabulary (Proofs/C17Base.v, C17Spec.v, C17Model.v, C17Proofs.v):
   - wf_s s     : no key occurs twice in the server store nor in any of its database stores, and
                  every collection store holding documents or indexes is marked created (insert
                  and create_index do that; Refuted/C17.v (3) shows the clause is needed);
   - wf_a a     : no key occurs twice in the abstract catalog;
   - acat_equiv : equal as finite maps (same a_get everywhere, same non-empty databases);
   No guard is left: c17_reasons is constantly 0, and the former hypotheses c17_guard (no
   drop_index / drop_indexes, no rename onto the same name with drop_target=True) and
   c17_self_rename are gone - the library now keeps a collection created by create_index and
   refuses a rename onto the same name (Refuted/C17.v (1), (2): the former divergences hold now).
   - coll_view s db c : Some (ids, index names) if the collection exists in the server store s
                  (cs_created), None otherwise. *)
From Coq Require Import ZArith List String Bool.
From Verif Require Import Value Catalog C17Base C17Spec C17Model C17Proofs.
Import ListNotations.
Open Scope string_scope.

Example C17_reads_never_create_example :
  wrun [[]] [(0%nat, KRead "d" "c"); (0%nat, KListCollections "d"); (0%nat, KListDatabases)]
  = [Ok (VArr []); Ok (names_value []); Ok (names_value [])].
Proof. vm_compute. reflexivity. Qed.

(* 1. one step of the model refines one step of the specification *)
Theorem C17_refinement : forall (s : sstore) (o : cop),
  wf_s s = true ->
  let '(s', r) := kstep s o in
  let '(a', r') := spec_step (abs_server s) o in
  wf_s s' = true /\ wf_a a' = true /\ acat_equiv (abs_server s') a' /\ out_eqb r r' = true.
Proof. exact refinement. Qed.
Print Assumptions C17_refinement.

(* the specification does not distinguish catalogs that are equal as finite maps *)
Theorem C17_spec_respects_equiv : forall (a b : acat) (o : cop),
  wf_a a = true -> wf_a b = true -> acat_equiv a b ->
  wf_a (fst (spec_step a o)) = true /\ wf_a (fst (spec_step b o)) = true /\
  acat_equiv (fst (spec_step a o)) (fst (spec_step b o)) /\
  out_eqb (snd (spec_step a o)) (snd (spec_step b o)) = true.
Proof. exact spec_step_respects. Qed.
Print Assumptions C17_spec_respects_equiv.

(* 2. whole histories, any number of servers *)
Theorem C17_history : forall (n : nat) (ops : list (nat * cop)),
  list_eqb out_eqb (wrun (repeat [] n) ops) (spec_run (repeat [] n) ops) = true.
Proof. exact history. Qed.
Print Assumptions C17_history.

(* 3. corollaries about the model *)
Theorem C17_reads_never_create : forall (n : nat) (ops : list (nat * cop)),
  Forall (fun so : nat * cop => is_read (snd so) = true /\ (fst so < n)%nat) ops ->
  wrun (repeat [] n) ops = map (fun so => empty_answer (snd so)) ops.
Proof. exact reads_never_create. Qed.
Print Assumptions C17_reads_never_create.

Theorem C17_create_existing_fails : forall (s : sstore) (db c : string),
  cs_created (get_coll (get_db s db) c) = true -> is_system c = false ->
  kstep s (KCreateCollection db c) = (s, Err ECrash).
Proof. exact create_existing_fails. Qed.
Print Assumptions C17_create_existing_fails.

Theorem C17_rename_moves : forall (s : sstore) (db c n : string) (dt : bool),
  wf_s s = true -> valid_name n = true ->
  cs_created (get_coll (get_db s db) c) = true ->
  cs_created (get_coll (get_db s db) n) = false ->
  let s' := fst (kstep s (KRename db c n dt)) in
  snd (kstep s (KRename db c n dt)) = Ok VNull /\
  wf_s s' = true /\
  coll_view s' db n = Some (cs_docs (get_coll (get_db s db) c), cs_idx (get_coll (get_db s db) c)) /\
  coll_view s' db c = None /\
  forall db' c', (db' = db /\ (c' = c \/ c' = n)) \/ coll_view s' db' c' = coll_view s db' c'.
Proof. exact rename_moves. Qed.
Print Assumptions C17_rename_moves.

Theorem C17_rename_guards : forall (s : sstore) (db c n : string) (dt : bool),
  wf_s s = true ->
  cs_created (get_coll (get_db s db) c) = false \/
  (cs_created (get_coll (get_db s db) n) = true /\ dt = false) \/
  c = n ->
  let s' := fst (kstep s (KRename db c n dt)) in
  (exists e, snd (kstep s (KRename db c n dt)) = Err e) /\
  wf_s s' = true /\
  (forall db' c', coll_view s' db' c' = coll_view s db' c') /\
  acat_equiv (abs_server s') (abs_server s).
Proof. exact rename_guards. Qed.
Print Assumptions C17_rename_guards.

Theorem C17_drop_then_reuse : forall (s : sstore) (db c : string) (id : Z),
  wf_s s = true ->
  let s1 := fst (kstep s (KDropCollection db c)) in
  coll_view s1 db c = None /\
  snd (kstep s1 (KInsert db c id)) = Ok VNull /\
  coll_view (fst (kstep s1 (KInsert db c id))) db c = Some ([id], []).
Proof. exact drop_then_reuse. Qed.
Print Assumptions C17_drop_then_reuse.

(* an existing collection survives the loss of all its indexes, even if it holds no documents
   and exists through create_index only *)
Theorem C17_drop_indexes_keeps : forall (s : sstore) (db c : string),
  wf_s s = true -> cs_created (get_coll (get_db s db) c) = true ->
  let s' := fst (kstep s (KDropIndexes db c)) in
  snd (kstep s (KDropIndexes db c)) = Ok VNull /\
  wf_s s' = true /\
  coll_view s' db c = Some (cs_docs (get_coll (get_db s db) c), []) /\
  forall db' c', (db' = db /\ c' = c) \/ coll_view s' db' c' = coll_view s db' c'.
Proof. exact drop_indexes_keeps. Qed.
Print Assumptions C17_drop_indexes_keeps.

Theorem C17_create_index_creates : forall (s : sstore) (db c f : string),
  wf_s s = true ->
  let s' := fst (kstep s (KCreateIndex db c f)) in
  wf_s s' = true /\ cs_created (get_coll (get_db s' db) c) = true.
Proof. exact create_index_creates. Qed.
Print Assumptions C17_create_index_creates.

Theorem C17_independent_clients_isolated : forall (w : world) (i : nat) (o : cop) (j : nat),
  j <> i -> nth_error (fst (wstep w i o)) j = nth_error w j.
Proof. exact independent_clients_isolated. Qed.
Print Assumptions C17_independent_clients_isolated.

(* clients of the same server work on one store: an operation sees, and leaves, exactly the
   server's store; its effect depends on nothing else in the world *)
Theorem C17_shared_store : forall (w : world) (i : nat) (o : cop) (s : sstore),
  nth_error w i = Some s ->
  snd (wstep w i o) = snd (kstep s o) /\
  nth_error (fst (wstep w i o)) i = Some (fst (kstep s o)).
Proof. exact shared_store. Qed.
Print Assumptions C17_shared_store.

Theorem C17_shared_store_local : forall (w w' : world) (i : nat) (o : cop),
  nth_error w i = nth_error w' i ->
  snd (wstep w i o) = snd (wstep w' i o) /\
  nth_error (fst (wstep w i o)) i = nth_error (fst (wstep w' i o)) i.
Proof. exact shared_store_local. Qed.
Print Assumptions C17_shared_store_local.
