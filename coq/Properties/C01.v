(* C01 -- property theorems only.  Each is closed by [exact <lemma>] and followed by
   Print Assumptions, so that a statement cannot be weakened without this file changing. *)
From Coq Require Import ZArith List String Bool.
From Verif Require Import Value PyEq BsonOrder Path Filter FilterSpec FilterGuard.
From Verif Require Import C01Proofs.

(* The candidate loop of _Filterer.apply in closed form (positive and negative operators). *)
Theorem C01_loop_positive :
  forall (test : lookup -> bool) (C : list lookup) (pos : bool),
    loop_result test false pos C =
      (existsb test C || (negb pos && negb (some_present C))).
Proof. exact loop_positive. Qed.
Print Assumptions C01_loop_positive.

Theorem C01_loop_negative :
  forall (test : lookup -> bool) (C : list lookup) (pos : bool),
    loop_result test true pos C =
      (forallb test C && (some_present C || negb pos || last_test_true test C)).
Proof. exact loop_negative. Qed.
Print Assumptions C01_loop_negative.
