(* C01: the query matcher implements MongoDB's matching rules inside the guard G01.
   Property statements only; the proofs are in Proofs/. *)
From Coq Require Import ZArith List String Bool Ascii.
From Verif Require Import Value PyEq BsonOrder Path Filter FilterSpec FilterGuard.
From Verif.Proofs Require Import C01Values C01Paths C01Loop C01Proofs.
Import ListNotations.
Open Scope Z_scope.
Open Scope string_scope.
Open Scope list_scope.

(* Main theorem: for every filter AST and every document inside the guard, the model of
   mongomock's matcher returns (without raising) exactly what the specification says. *)
Theorem C01_filter_match : forall (f : filter) (d : value),
  G01 f d = true -> matches f d = Ok (spec_matches f d).
Proof. exact filter_match_correct. Qed.
Print Assumptions C01_filter_match.

(* The candidate loop of apply() in closed form.  [field_loop test neg] is the inner loop of
   eval_field (see C01_eval_field_ops_loop below), [loop_clause pos] what apply() makes of its
   outcome; neg / pos are is_checking_negative_match / is_checking_positive_match. *)
Theorem C01_loop_positive :
  forall (test : lookup -> res bool) (t : lookup -> bool) (pos : bool) (C : list lookup),
  (forall c, In c C -> test c = Ok (t c)) ->
  loop_clause pos (field_loop test false C false false) =
  Ok (existsb t C || (negb pos && negb (some_present C))).
Proof. exact loop_positive_correct. Qed.
Print Assumptions C01_loop_positive.

Theorem C01_loop_negative :
  forall (test : lookup -> res bool) (t : lookup -> bool) (pos : bool) (C : list lookup),
  (forall c, In c C -> test c = Ok (t c)) ->
  loop_clause pos (field_loop test true C false false) =
  Ok (forallb t C && (negb pos || match C with [] => false | _ => true end)).
Proof. exact loop_negative_correct. Qed.
Print Assumptions C01_loop_negative.

(* field_loop / loop_clause are the loop of the evaluator *)
Theorem C01_eval_field_ops_loop : forall (key : string) (os : fops) (d : value),
  eval_field key (SOps os) d =
  let parts := split_dots key in
  if negb (path_modelled parts) then Err EUnmodelled else
  let C := candidates parts d in
  if is_exists_false (SOps os) && match C with [] => true | _ => false end then Ok true else
  let! pre := eval_all_pre os (fops_len os) C in
  match pre with
  | Some b => Ok b
  | None =>
      loop_clause (fops_has_pos os)
        (field_loop (sops_test os key d) (fops_has_neg os) C false false)
  end.
Proof. exact eval_field_SOps. Qed.
Print Assumptions C01_eval_field_ops_loop.

Theorem C01_eval_field_literal_loop : forall (key : string) (sv : value) (d : value),
  eval_field key (SVal sv) d =
  let parts := split_dots key in
  if negb (path_modelled parts) then Err EUnmodelled else
  loop_clause (search_pos (SVal sv))
    (field_loop (sval_test sv) (search_neg (SVal sv)) (candidates parts d) false false).
Proof. exact eval_field_SVal. Qed.
Print Assumptions C01_eval_field_literal_loop.

(* iter_key_candidates vs the specification's path resolution: the same resolved values
   (they differ by Missing entries at dead ends only), and equal without a dead end *)
Theorem C01_candidates_resolved : forall (parts : list string) (d : value),
  ends_empty parts = false ->
  somes (candidates parts d) = somes (path_values parts d).
Proof. exact somes_candidates. Qed.
Print Assumptions C01_candidates_resolved.

Theorem C01_candidates_no_dead_end : forall (parts : list string) (d : value),
  ends_empty parts = false -> dead_end parts d = 0 ->
  candidates parts d = path_values parts d.
Proof. exact candidates_no_dead_end. Qed.
Print Assumptions C01_candidates_no_dead_end.

(* Python == and BSON equality agree (in both argument orders) under eq_compat *)
Theorem C01_py_eq_bson_eq : forall (x v : value),
  eq_compat x v = true -> py_eq x v = bson_eq x v /\ py_eq v x = bson_eq x v.
Proof. exact eq_compat_agree. Qed.
Print Assumptions C01_py_eq_bson_eq.

(* The guard is satisfiable on a non-trivial input:
   {$or: [{"a.b": {$gt: 1}}, {c: 5}], "a.0.b": {$ne: 7}}
   on {a: [{b: 0}, {b: 3}], c: 1} *)
Definition c01_example_filter : value :=
  VDoc [("$or", VArr [VDoc [("a.b", VDoc [("$gt", VInt 1)])]; VDoc [("c", VInt 5)]]);
        ("a.0.b", VDoc [("$ne", VInt 7)])].
Definition c01_example_doc : value :=
  VDoc [("a", VArr [VDoc [("b", VInt 0)]; VDoc [("b", VInt 3)]]); ("c", VInt 1)].

Example C01_guard_satisfiable :
  G01 (parse_filter c01_example_filter) c01_example_doc = true /\
  matches (parse_filter c01_example_filter) c01_example_doc = Ok true.
Proof. vm_compute. split; reflexivity. Qed.
Print Assumptions C01_guard_satisfiable.
