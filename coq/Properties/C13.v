(* C13: an upsert inserts exactly one well-formed document iff nothing matches.
   Property statements only; the proofs are in Proofs/C13Proofs.v and Proofs/C13Id.v.

   The full target

     Theorem C13_history : forall (pre5 : bool) (ops : list op),
       c13_reasons ops (model_obs pre5 empty_coll ops) = 0 ->
       c13_undecided ops = false ->          (* the syntactic screen of Spec/HistPropCheck.v *)
       c13_ok ops (model_obs pre5 empty_coll ops) = true.

   is proved for all of c13_ok EXCEPT its last conjunct.  c13_upsert_ok says, of an
   update/replace with upsert=true that succeeds:
     (1) when `scan` finds a match in the store before the operation: the number of documents
         is unchanged and upserted_id is None;
     (2) when it finds none: exactly one document is appended to the otherwise unchanged
         store, matched is 0, upserted_id is non-null and is the _id of the new document;
     (3) the upserted _id is the filter's _id, else the update's, else a fresh ObjectId;
     (4) (update_one/update_many only) an equality-only filter the update does not overwrite
         is matched by the upserted document.
   C13_history_partial proves (1)-(2) (c13w_ok) from the guard alone; C13_history_id_partial
   proves (1)-(3) (c13i_ok, Proofs/C13Id.v) from the guard, the syntactic screen and
   well-formed arguments (op_wf, Proofs/C02History.v: no repeated key in any sub-document of
   the filters and update documents: Python dicts; the hypothesis is used by the proof, no
   counterexample without it is known).  C13_history_flat_partial proves ALL of c13_ok, (1)-(4),
   under one more screen, c13_flat (Proofs/C13Match.v): the equality-only filters of
   update_one/update_many upserts have dot-free keys.  What is still missing for the full
   target is (4) for equality-only filters with dotted keys ("a.b": 1): the value that
   expand_dots / discard_ops / the chain of update operators / normalisation leave at a
   nested path, and the matcher's candidates along that path (for a dot-free key these are an
   assoc lookup; the matcher side - a literal or {$eq: v} against the value itself - is
   proved for any document, Proofs/C13Match.v matches_eq_fields).  No counterexample is known.
   Without the screen (3) and (4) are false on the model (Refuted/C13.v part B); inside the
   screen two further classes were found and are now bits of c13_reasons (part C):
     32 = the update addresses a path strictly below _id ({$set: {"_id.x": 1}}): (3) fails;
     64 = the filter binds _id to None ({_id: None, a: 1}): a fresh ObjectId replaces it, the
          upserted document does not match the filter: (4) fails.
   The older bits are 1, 2, 4 (Spec/HistGuards.v, Refuted/C13.v part A); 8 was removed when the
   library was repaired to key the store by, and return, the normalised _id; 16 is used by
   c13_check for the screen. *)
From Coq Require Import ZArith List String Bool Ascii.
From Verif Require Import Value PyEq BsonOrder Path Filter Update Project Coll HistCheck HistProps
  HistGuards HistPropCheck.
From Verif.Proofs Require Import C13Proofs C13Id C13Match C13Examples.
From Verif.Proofs Require C02History.
Import ListNotations.
Open Scope Z_scope.
Open Scope string_scope.
Open Scope list_scope.

Theorem C13_history_partial : forall (pre5 : bool) (ops : list op),
  c13_reasons ops (model_obs pre5 empty_coll ops) = 0 ->
  c13w_ok ops (model_obs pre5 empty_coll ops) = true.
Proof. exact c13_history_partial. Qed.
Print Assumptions C13_history_partial.

(* c13w_ok is implied by c13_ok on every trace (it is a weakening, nothing else) *)
Theorem C13_weakening : forall (ops : list op) (os : list obs),
  c13_ok ops os = true -> c13w_ok ops os = true.
Proof. exact c13_ok_weaken. Qed.
Print Assumptions C13_weakening.

(* clauses (1)-(3): the guard, the syntactic screen, well-formed arguments *)
Theorem C13_history_id_partial : forall (pre5 : bool) (ops : list op),
  Forall C02History.op_wf ops ->
  c13_reasons ops (model_obs pre5 empty_coll ops) = 0 ->
  c13_undecided ops = false ->
  c13i_ok ops (model_obs pre5 empty_coll ops) = true.
Proof. exact c13_history_id. Qed.
Print Assumptions C13_history_id_partial.

(* c13i_ok lies between c13_ok and c13w_ok: c13_ok without its last conjunct *)
Theorem C13_weakening_id : forall (ops : list op) (os : list obs),
  c13_ok ops os = true -> c13i_ok ops os = true.
Proof. exact c13_ok_weaken_i. Qed.
Print Assumptions C13_weakening_id.

Theorem C13_weakening_id_w : forall (ops : list op) (os : list obs),
  c13i_ok ops os = true -> c13w_ok ops os = true.
Proof. exact c13i_ok_weaken. Qed.
Print Assumptions C13_weakening_id_w.

(* the key step: in a state without TTL index, an upsert that matches nothing and succeeds
   reports as upserted_id the filter's non-null _id, and a fresh ObjectId when the filter has
   none *)
Theorem C13_upsert_id : forall pre5 c f u multi c' v,
  noTTL c -> wf_value f = true -> wf_value u = true ->
  c13_writes_id u = false -> c13_odd_filter f = false ->
  (first_key_dollar u = Some true -> c13_id_subfield u = false) ->
  scan (patch f) (docs c) = Ok [] ->
  update pre5 c f u multi true = (c', Ok v) ->
  exists id, v = update_result 1 0 (Some id) /\ id_src_ok f id.
Proof. exact update_upsert_id. Qed.
Print Assumptions C13_upsert_id.

(* all four clauses: the guard, the syntactic screen, well-formed arguments, and dot-free keys
   in the equality-only filters of update upserts.
   The full statement (not proved) is the same without the premise c13_flat ops = true. *)
Theorem C13_history_flat_partial : forall (pre5 : bool) (ops : list op),
  Forall C02History.op_wf ops ->
  c13_reasons ops (model_obs pre5 empty_coll ops) = 0 ->
  c13_undecided ops = false ->
  c13_flat ops = true ->
  c13_ok ops (model_obs pre5 empty_coll ops) = true.
Proof. exact c13_history_flat. Qed.
Print Assumptions C13_history_flat_partial.

(* the key step of clause (4): in a state without TTL index, an operator-update upsert that
   matches nothing and succeeds stores (as the last document) one that its own dot-free
   equality-only filter matches, provided the update writes no path overlapping the filter's *)
Theorem C13_upsert_matches_filter : forall pre5 c ffs u multi c' v kl d,
  noTTL c -> wf_value (VDoc ffs) = true -> wf_value u = true ->
  c13_writes_id u = false -> c13_odd_filter (VDoc ffs) = false ->
  c13_id_subfield u = false -> c13_null_id_filter (VDoc ffs) = false ->
  first_key_dollar u = Some true ->
  scan (patch (VDoc ffs)) (docs c) = Ok [] ->
  update pre5 c (VDoc ffs) u multi true = (c', Ok v) ->
  equality_only (VDoc ffs) = true -> c13_flat_filter (VDoc ffs) = true ->
  existsb (fun p => existsb (fun q => paths_overlap p (fst q)) ffs) (update_paths u) = false ->
  last (docs c') (VNull, VNull) = (kl, d) ->
  match filter_applies (patch (VDoc ffs)) d with Ok b => b | Err _ => true end = true.
Proof. exact upsert_last_clause. Qed.
Print Assumptions C13_upsert_matches_filter.

(* the matcher side of clause (4), for any document: a filter made of dot-free equality
   fields is matched (or raises) by a document holding each field's literal *)
Theorem C13_equality_fields_match : forall dfs sfs,
  (forall k x, In (k, x) sfs ->
     starts_dollar k = false /\ k <> "" /\ split_dots k = [k] /\ eq_leaf x = true /\
     wf_value (lit x) = true /\ assoc k dfs = Some (lit x)) ->
  ok_or_err (matches (parse_filter (VDoc sfs)) (VDoc dfs)).
Proof. exact matches_eq_fields. Qed.
Print Assumptions C13_equality_fields_match.

(* the premises of C13_history_flat_partial hold on a non-trivial history (c13_ex_ops3,
   Proofs/C13Examples.v): ten operations, six upserts, equality-only filters with literals,
   {$eq: v}, null and array literals *)
Example C13_flat_premises_satisfiable :
  Forall C02History.op_wf c13_ex_ops3 /\
  c13_reasons c13_ex_ops3 (model_obs false empty_coll c13_ex_ops3) = 0 /\
  c13_undecided c13_ex_ops3 = false /\
  c13_flat c13_ex_ops3 = true /\
  modelled false empty_coll c13_ex_ops3 = true /\
  c13_ok c13_ex_ops3 (model_obs false empty_coll c13_ex_ops3) = true /\
  map (fun ob => List.length (snd (fst ob))) (model_obs false empty_coll c13_ex_ops3)
  = [1; 1; 2; 3; 4; 4; 5; 6; 6; 6]%nat.
Proof. exact c13_ex_history3. Qed.
Print Assumptions C13_flat_premises_satisfiable.
