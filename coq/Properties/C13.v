(* C13: an upsert inserts exactly one well-formed document iff nothing matches.
   Property statements only; the proofs are in Proofs/C13Proofs.v and Proofs/C13Id.v.

   The full target

     Theorem C13_history : forall (pre5 : bool) (ops : list op),
       c13_reasons ops (model_obs pre5 empty_coll ops) = 0 ->
       c13_undecided ops = false ->          (* the syntactic screen of Spec/HistPropCheck.v *)
       c13_ok ops (model_obs pre5 empty_coll ops) = true.

   is proved for all of c13_ok EXCEPT its last conjunct.  c13_upsert_ok says, of an
   update/replace with upsert=true that succeeds:
     (1) when `scan` finds a match in the store before the operation: the number of documents
         is unchanged and upserted_id is None;
     (2) when it finds none: exactly one document is appended to the otherwise unchanged
         store, matched is 0, upserted_id is non-null and is the _id of the new document;
     (3) the upserted _id is the filter's _id, else the update's, else a fresh ObjectId;
     (4) (update_one/update_many only) an equality-only filter the update does not overwrite
         is matched by the upserted document.
   C13_history_partial proves (1)-(2) (c13w_ok) from the guard alone; C13_history_id_partial
   proves (1)-(3) (c13i_ok, Proofs/C13Id.v) from the guard, the syntactic screen and
   well-formed arguments (op_wf, Proofs/C02History.v: no repeated key in any sub-document of
   the filters and update documents: Python dicts; the hypothesis is used by the proof, no
   counterexample without it is known).  C13_history_flat_partial proves ALL of c13_ok, (1)-(4),
   under one more screen, c13_flat (Proofs/C13Match.v): the equality-only filters of
   update_one/update_many upserts have dot-free keys.  (4) for equality-only filters with DOTTED keys was missing here at first; it is now proved too:
   see the UPDATE comment and C13_history_args_partial at the end of this file.
   Without the screen (3) and (4) are false on the model (Refuted/C13.v part B); inside the
   screen two further classes were found and are now bits of c13_reasons (part C):
     32 = the update addresses a path strictly below _id ({$set: {"_id.x": 1}}): (3) fails;
     64 = the filter binds _id to None ({_id: None, a: 1}): a fresh ObjectId replaces it, the
          upserted document does not match the filter: (4) fails.
   The older bits are 1, 2, 4 (Spec/HistGuards.v, Refuted/C13.v part A); 8 was removed when the
   library was repaired to key the store by, and return, the normalised _id; 16 is used by
   c13_check for the screen. *)
From Coq Require Import ZArith List String Bool Ascii.
From Verif Require Import Value PyEq BsonOrder Path Filter Update Project Coll HistCheck HistProps
  HistGuards HistPropCheck.
From Verif.Proofs Require Import C13Proofs C13Id C13Match C13Examples.
From Verif.Proofs Require C02History.
Import ListNotations.
Open Scope Z_scope.
Open Scope string_scope.
Open Scope list_scope.

Theorem C13_history_partial : forall (pre5 : bool) (ops : list op),
  c13_reasons ops (model_obs pre5 empty_coll ops) = 0 ->
  c13w_ok ops (model_obs pre5 empty_coll ops) = true.
Proof. exact c13_history_partial. Qed.
Print Assumptions C13_history_partial.

(* c13w_ok is implied by c13_ok on every trace (it is a weakening, nothing else) *)
Theorem C13_weakening : forall (ops : list op) (os : list obs),
  c13_ok ops os = true -> c13w_ok ops os = true.
Proof. exact c13_ok_weaken. Qed.
Print Assumptions C13_weakening.

(* clauses (1)-(3): the guard, the syntactic screen, well-formed arguments *)
Theorem C13_history_id_partial : forall (pre5 : bool) (ops : list op),
  Forall C02History.op_wf ops ->
  c13_reasons ops (model_obs pre5 empty_coll ops) = 0 ->
  c13_undecided ops = false ->
  c13i_ok ops (model_obs pre5 empty_coll ops) = true.
Proof. exact c13_history_id. Qed.
Print Assumptions C13_history_id_partial.

(* c13i_ok lies between c13_ok and c13w_ok: c13_ok without its last conjunct *)
Theorem C13_weakening_id : forall (ops : list op) (os : list obs),
  c13_ok ops os = true -> c13i_ok ops os = true.
Proof. exact c13_ok_weaken_i. Qed.
Print Assumptions C13_weakening_id.

Theorem C13_weakening_id_w : forall (ops : list op) (os : list obs),
  c13i_ok ops os = true -> c13w_ok ops os = true.
Proof. exact c13i_ok_weaken. Qed.
Print Assumptions C13_weakening_id_w.

(* the key step: in a state without TTL index, an upsert that matches nothing and succeeds
   reports as upserted_id the filter's non-null _id, and a fresh ObjectId when the filter has
   none *)
Theorem C13_upsert_id : forall pre5 c f u multi c' v,
  noTTL c -> wf_value f = true -> wf_value u = true ->
  c13_writes_id u = false -> c13_odd_filter f = false ->
  (first_key_dollar u = Some true -> c13_id_subfield u = false) ->
  scan (patch f) (docs c) = Ok [] ->
  update pre5 c f u multi true = (c', Ok v) ->
  exists id, v = update_result 1 0 (Some id) /\ id_src_ok f id.
Proof. exact update_upsert_id. Qed.
Print Assumptions C13_upsert_id.

(* all four clauses: the guard, the syntactic screen, well-formed arguments, and dot-free keys
   in the equality-only filters of update upserts.
   The full statement (not proved) is the same without the premise c13_flat ops = true. *)
Theorem C13_history_flat_partial : forall (pre5 : bool) (ops : list op),
  Forall C02History.op_wf ops ->
  c13_reasons ops (model_obs pre5 empty_coll ops) = 0 ->
  c13_undecided ops = false ->
  c13_flat ops = true ->
  c13_ok ops (model_obs pre5 empty_coll ops) = true.
Proof. exact c13_history_flat. Qed.
Print Assumptions C13_history_flat_partial.

(* the key step of clause (4): in a state without TTL index, an operator-update upsert that
   matches nothing and succeeds stores (as the last document) one that its own dot-free
   equality-only filter matches, provided the update writes no path overlapping the filter's *)
Theorem C13_upsert_matches_filter : forall pre5 c ffs u multi c' v kl d,
  noTTL c -> wf_value (VDoc ffs) = true -> wf_value u = true ->
  c13_writes_id u = false -> c13_odd_filter (VDoc ffs) = false ->
  c13_id_subfield u = false -> c13_null_id_filter (VDoc ffs) = false ->
  first_key_dollar u = Some true ->
  scan (patch (VDoc ffs)) (docs c) = Ok [] ->
  update pre5 c (VDoc ffs) u multi true = (c', Ok v) ->
  equality_only (VDoc ffs) = true -> c13_flat_filter (VDoc ffs) = true ->
  existsb (fun p => existsb (fun q => paths_overlap p (fst q)) ffs) (update_paths u) = false ->
  last (docs c') (VNull, VNull) = (kl, d) ->
  match filter_applies (patch (VDoc ffs)) d with Ok b => b | Err _ => true end = true.
Proof. exact upsert_last_clause. Qed.
Print Assumptions C13_upsert_matches_filter.

(* the matcher side of clause (4), for any document: a filter made of dot-free equality
   fields is matched (or raises) by a document holding each field's literal *)
Theorem C13_equality_fields_match : forall dfs sfs,
  (forall k x, In (k, x) sfs ->
     starts_dollar k = false /\ k <> "" /\ split_dots k = [k] /\ eq_leaf x = true /\
     wf_value (lit x) = true /\ assoc k dfs = Some (lit x)) ->
  ok_or_err (matches (parse_filter (VDoc sfs)) (VDoc dfs)).
Proof. exact matches_eq_fields. Qed.
Print Assumptions C13_equality_fields_match.

(* the premises of C13_history_flat_partial hold on a non-trivial history (c13_ex_ops3,
   Proofs/C13Examples.v): ten operations, six upserts, equality-only filters with literals,
   {$eq: v}, null and array literals *)
Example C13_flat_premises_satisfiable :
  Forall C02History.op_wf c13_ex_ops3 /\
  c13_reasons c13_ex_ops3 (model_obs false empty_coll c13_ex_ops3) = 0 /\
  c13_undecided c13_ex_ops3 = false /\
  c13_flat c13_ex_ops3 = true /\
  modelled false empty_coll c13_ex_ops3 = true /\
  c13_ok c13_ex_ops3 (model_obs false empty_coll c13_ex_ops3) = true /\
  map (fun ob => List.length (snd (fst ob))) (model_obs false empty_coll c13_ex_ops3)
  = [1; 1; 2; 3; 4; 4; 5; 6; 6; 6]%nat.
Proof. exact c13_ex_history3. Qed.
Print Assumptions C13_flat_premises_satisfiable.

(* ------------------------------------------------------------------------------------------
   UPDATE (Proofs/C13Dotted.v): clause (4) for DOTTED filter keys.  This supersedes the
   paragraph "What is still missing" of the header: (4) is now proved for every equality-only
   filter inside the screen c13_undecided - keys such as "a.b": 1, "a.b.c": {$eq: 1}, several
   keys below one head ({"a.b": 1, "a.c": 2}), numeric components ("a.0"), null / array / date
   literals - and for every operator update whose paths overlap no filter key (the only case
   in which c13_upsert_ok demands the clause), including updates that write below the same
   head ({$set: {"a.c": 5}} next to the filter key "a.b").  The value at a key's path is
   followed with `dget` (descent through sub-documents): expand_dots puts the operand there
   (no key is a prefix of another) and every path of its result is comparable with a filter
   key, so the documents along the path have no '$' key and discard_ops turns the operand into
   its literal; the update is a chain of local rewrites along paths not comparable with the
   key, which keep the value (C13_update_frame); insert_doc appends at most _id and normalises;
   the matcher then has the single candidate Some literal (C13_equality_fields_match_dotted).
   No counterexample was found among the probes (Proofs/C13DottedExamples.v), no guard bit was
   added, and no further screen is needed: c13_dotted_ok is the constant true (it is kept for
   the shape of the statement), so C13_history_wf_partial is the full target C13_history with
   the one extra premise of C13_history_id_partial, well-formed arguments (op_wf), and
   C13_history_args_partial weakens that premise to a decidable screen on the operations,
   c13_wf_args: the filter and the update / replacement document of every UPSERT have no
   repeated key in any sub-document (true of every Python dict).  That premise cannot be
   dropped from clause (4): Refuted/C13.v part D (a filter literal holding a sub-document with
   a repeated key is not == to itself, so the upserted document does not match; model-only
   artefact, no guard bit added).  So C13_history as stated in the header is false on the
   model, and C13_history_args_partial is its repaired form. *)
From Verif.Proofs Require Import C13Dotted C13DottedExamples.

Theorem C13_history_dotted_partial : forall (pre5 : bool) (ops : list op),
  Forall C02History.op_wf ops ->
  c13_reasons ops (model_obs pre5 empty_coll ops) = 0 ->
  c13_undecided ops = false ->
  c13_dotted_ok ops = true ->
  c13_ok ops (model_obs pre5 empty_coll ops) = true.
Proof. exact c13_history_dotted. Qed.
Print Assumptions C13_history_dotted_partial.

(* the new screen is implied by the old one (it is vacuous) *)
Theorem C13_flat_implies_dotted : forall ops, c13_flat ops = true -> c13_dotted_ok ops = true.
Proof. exact c13_flat_dotted. Qed.
Print Assumptions C13_flat_implies_dotted.

(* all four clauses from the guard, the syntactic screen and well-formed arguments.
   The full statement C13_history (not proved) is the same without the premise
   Forall C02History.op_wf ops. *)
Theorem C13_history_wf_partial : forall (pre5 : bool) (ops : list op),
  Forall C02History.op_wf ops ->
  c13_reasons ops (model_obs pre5 empty_coll ops) = 0 ->
  c13_undecided ops = false ->
  c13_ok ops (model_obs pre5 empty_coll ops) = true.
Proof. exact c13_history_wf. Qed.
Print Assumptions C13_history_wf_partial.

(* the same from a decidable premise on the operations instead of op_wf: the arguments of the
   upserts are well-formed (c13_wf_args, Proofs/C13Dotted.v).  This is the full target
   C13_history plus that one premise, which cannot be dropped (Refuted/C13.v part D). *)
Theorem C13_history_args_partial : forall (pre5 : bool) (ops : list op),
  c13_reasons ops (model_obs pre5 empty_coll ops) = 0 ->
  c13_undecided ops = false ->
  c13_wf_args ops = true ->
  c13_ok ops (model_obs pre5 empty_coll ops) = true.
Proof. exact c13_history_args. Qed.
Print Assumptions C13_history_args_partial.

Theorem C13_op_wf_implies_args : forall ops,
  Forall C02History.op_wf ops -> c13_wf_args ops = true.
Proof. exact op_wf_args. Qed.
Print Assumptions C13_op_wf_implies_args.

(* the key step of clause (4) without the premise c13_flat_filter: in a state without TTL
   index, an operator-update upsert that matches nothing and succeeds stores (as the last
   document) one that its own equality-only filter matches, provided the update writes no
   path overlapping the filter's *)
Theorem C13_upsert_matches_filter_dotted : forall pre5 c ffs u multi c' v kl d,
  noTTL c -> wf_value (VDoc ffs) = true -> wf_value u = true ->
  c13_writes_id u = false -> c13_odd_filter (VDoc ffs) = false ->
  c13_id_subfield u = false -> c13_null_id_filter (VDoc ffs) = false ->
  first_key_dollar u = Some true ->
  scan (patch (VDoc ffs)) (docs c) = Ok [] ->
  update pre5 c (VDoc ffs) u multi true = (c', Ok v) ->
  equality_only (VDoc ffs) = true ->
  existsb (fun p => existsb (fun q => paths_overlap p (fst q)) ffs) (update_paths u) = false ->
  last (docs c') (VNull, VNull) = (kl, d) ->
  match filter_applies (patch (VDoc ffs)) d with Ok b => b | Err _ => true end = true.
Proof. exact upsert_last_clause_d. Qed.
Print Assumptions C13_upsert_matches_filter_dotted.

(* the frame of an operator update: the value found at a path by descending through
   sub-documents (dget) is kept when no path the update addresses is a prefix of, equal to, or
   an extension of that path (cmp) *)
Theorem C13_update_frame : forall spec u wi now d d' q v,
  first_key_dollar u = Some true -> wf_value u = true -> wf_value d = true ->
  apply_update spec u wi now d = Ok d' ->
  (forall p, In p (UpdateLaws.addressed u) -> cmp p q = false) ->
  dget q d = Some v -> dget q d' = Some v.
Proof. exact apply_update_frame. Qed.
Print Assumptions C13_update_frame.

(* the matcher side for any key: a filter made of equality fields is matched (or raises) by a
   document in which each field's literal is the single candidate along the field's path; and
   that is the case when the path descends through sub-documents to the literal *)
Theorem C13_equality_fields_match_dotted : forall d sfs,
  (forall k x, In (k, x) sfs ->
     starts_dollar k = false /\ k <> "" /\ eq_leaf x = true /\
     wf_value (lit x) = true /\ candidates (split_dots k) d = [Some (lit x)]) ->
  ok_or_err (matches (parse_filter (VDoc sfs)) d).
Proof. exact matches_eq_fields_c. Qed.
Print Assumptions C13_equality_fields_match_dotted.

Theorem C13_candidates_dotted : forall q fs v,
  q <> [] -> (forall p, In p q -> p <> "") -> dget q (VDoc fs) = Some v ->
  candidates q (VDoc fs) = [Some v].
Proof. exact cand_dget. Qed.
Print Assumptions C13_candidates_dotted.

(* the premises hold on a non-trivial history outside c13_flat (c13_ex_ops4,
   Proofs/C13DottedExamples.v): ten operations, eight upserts, dotted equality-only filters
   with shared heads, {$eq: v}, null, array and date literals, a numeric component, updates
   writing sibling paths *)
Example C13_dotted_premises_satisfiable :
  Forall C02History.op_wf c13_ex_ops4 /\
  c13_reasons c13_ex_ops4 (model_obs false empty_coll c13_ex_ops4) = 0 /\
  c13_undecided c13_ex_ops4 = false /\
  c13_dotted_ok c13_ex_ops4 = true /\
  c13_wf_args c13_ex_ops4 = true /\
  c13_flat c13_ex_ops4 = false /\
  modelled false empty_coll c13_ex_ops4 = true /\
  c13_ok c13_ex_ops4 (model_obs false empty_coll c13_ex_ops4) = true /\
  map (fun ob => List.length (snd (fst ob))) (model_obs false empty_coll c13_ex_ops4)
  = [1; 1; 2; 3; 3; 4; 5; 6; 7; 7]%nat.
Proof. exact c13_ex_history4. Qed.
Print Assumptions C13_dotted_premises_satisfiable.
