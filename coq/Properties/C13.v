(* C13: an upsert inserts exactly one well-formed document iff nothing matches.
   Property statements only; the proofs are in Proofs/C13Proofs.v.

   The full target

     Theorem C13_history : forall (pre5 : bool) (ops : list op),
       c13_reasons ops (model_obs pre5 empty_coll ops) = 0 ->
       c13_ok ops (model_obs pre5 empty_coll ops) = true.

   is NOT a theorem: Refuted/C13.v (part B) has histories inside the guard on which c13_ok is
   false.  What is proved is the statement for c13w_ok, the predicate c13_ok with the last two
   conjuncts of c13_upsert_ok removed (c13w_upsert_ok in Proofs/C13Proofs.v):
     - kept: an update/replace with upsert=true that succeeds leaves the number of documents
       unchanged and reports upserted_id None when `scan` finds a match in the store before the
       operation; and when it finds none, appends exactly one document to the otherwise
       unchanged store, reports matched 0 and a non-null upserted_id which is the _id of the
       new (last) document;
     - removed: the upserted _id is the filter's, else the update's, else a fresh ObjectId
       (false: Refuted A4, B1, B3, B4); the new document matches an equality-only filter the
       update does not overwrite (false: Refuted B5-B6).
   c13_reasons has three bits (Spec/HistGuards.v, Refuted/C13.v part A); a fourth one (8: the
   upserted _id is a datetime the normalisation changes) became unnecessary when the library
   was repaired to key the store by, and return, the normalised _id, and was removed. *)
From Coq Require Import ZArith List String Bool Ascii.
From Verif Require Import Value PyEq BsonOrder Path Filter Update Project Coll HistCheck HistProps
  HistGuards.
From Verif.Proofs Require Import C13Proofs.
Import ListNotations.
Open Scope Z_scope.
Open Scope string_scope.
Open Scope list_scope.

Theorem C13_history_partial : forall (pre5 : bool) (ops : list op),
  c13_reasons ops (model_obs pre5 empty_coll ops) = 0 ->
  c13w_ok ops (model_obs pre5 empty_coll ops) = true.
Proof. exact c13_history_partial. Qed.
Print Assumptions C13_history_partial.

(* c13w_ok is implied by c13_ok on every trace (it is a weakening, nothing else) *)
Theorem C13_weakening : forall (ops : list op) (os : list obs),
  c13_ok ops os = true -> c13w_ok ops os = true.
Proof. exact c13_ok_weaken. Qed.
Print Assumptions C13_weakening.
