(* C07 -- the database stores values, not references: no aliasing in, out, or inside.
   Ownership model: Model/Heap.v; run and invariant: Proofs/C07Proofs.v (hrun, run_keys_wf);
   counterexamples (each flag, and the premise run_keys_wf): Refuted/C07.v.

   run_keys_wf pre5 empty_coll hs: every store key the value-level model (Coll.step) meets
   before a collection operation of hs is a well-formed value (no dict with a repeated key,
   which every Python value is).  It cannot be dropped: Refuted/C07.v, nonwf_keys_alias. *)
From Coq Require Import ZArith List String Bool.
From Verif Require Import Value Coll Heap.
From Verif.Gen Require Import CopySites.
From Verif Require Import C07Base C07Proofs C07Here.
Import ListNotations.
Open Scope Z_scope.
Open Scope string_scope.

(* 1. with every copying flag on, after every step of every run from the empty database the
      stored documents share nothing with one another, with the argument objects (negative
      identities) or with the returned object *)
Theorem C07_no_aliasing : forall fl, all_copy fl = true ->
  forall pre5 (hs : list (hop * ids)),
  Forall (fun ha => Forall (fun x => x < 0) (snd ha)) hs ->
  run_keys_wf pre5 empty_coll hs = true ->
  Forall2 (fun ha out => apart_after (h_own (ho_state out)) (snd ha) (ho_result_ids out) = true)
          hs (snd (hrun fl pre5 h_init hs)).
Proof. exact no_aliasing. Qed.
Print Assumptions C07_no_aliasing.

(* the state invariant behind it *)
Theorem C07_state_invariant : forall fl, all_copy fl = true ->
  forall pre5 (hs : list (hop * ids)),
  Forall (fun ha => Forall (fun x => x < 0) (snd ha)) hs ->
  run_keys_wf pre5 empty_coll hs = true ->
  Forall (fun out =>
            h_next (ho_state out) > 0
            /\ Forall (fun ks => Forall (fun x => 0 < x < h_next (ho_state out)) (snd ks))
                      (h_own (ho_state out))
            /\ pairwise_apart (map snd (h_own (ho_state out))) = true)
         (snd (hrun fl pre5 h_init hs)).
Proof. exact state_invariant. Qed.
Print Assumptions C07_state_invariant.

(* 2. the instance for the flags read off the current source *)
Example C07_sites_copy_here : all_copy here = true.
Proof. exact all_copy_here. Qed.
Print Assumptions C07_sites_copy_here.

Theorem C07_here :
  forall pre5 (hs : list (hop * ids)),
  Forall (fun ha => Forall (fun x => x < 0) (snd ha)) hs ->
  run_keys_wf pre5 empty_coll hs = true ->
  Forall2 (fun ha out => apart_after (h_own (ho_state out)) (snd ha) (ho_result_ids out) = true)
          hs (snd (hrun here pre5 h_init hs)).
Proof. exact no_aliasing_here. Qed.
Print Assumptions C07_here.

(* 3. the ownership layer never changes the value-level behaviour, whatever the flags *)
Theorem C07_values_unchanged : forall fl pre5 s,
  (forall o args,
     h_coll (ho_state (hstep fl pre5 s (HColl o) args)) = fst (step pre5 (h_coll s) o)
     /\ ho_result (hstep fl pre5 s (HColl o) args) = snd (step pre5 (h_coll s) o))
  /\ (forall p args,
        h_coll (ho_state (hstep fl pre5 s (HAggregate p) args)) = h_coll s
        /\ h_own (ho_state (hstep fl pre5 s (HAggregate p) args)) = h_own s).
Proof. exact values_unchanged. Qed.
Print Assumptions C07_values_unchanged.

(* 4. the ownership table follows the store - same keys, same order - after every collection
      step from ANY state and for any flags: no premise is needed, not even on the state
      before (restore rebuilds the table along the new store) *)
Theorem C07_store_tracks : forall fl pre5 s o args,
  map fst (h_own (ho_state (hstep fl pre5 s (HColl o) args)))
  = map fst (docs (h_coll (ho_state (hstep fl pre5 s (HColl o) args)))).
Proof. exact store_tracks. Qed.
Print Assumptions C07_store_tracks.

Theorem C07_store_tracks_run : forall fl pre5 hs,
  Forall (fun out => map fst (h_own (ho_state out)) = map fst (docs (h_coll (ho_state out))))
         (snd (hrun fl pre5 h_init hs)).
Proof. exact store_tracks_run. Qed.
Print Assumptions C07_store_tracks_run.
