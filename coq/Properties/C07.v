(* C07 -- placeholder until the ownership theorems are integrated *)
From Coq Require Import ZArith List String Bool.
From Verif Require Import Value Coll Heap.
From Verif.Gen Require Import CopySites.
Import ListNotations.
Open Scope Z_scope.
Open Scope string_scope.
Example C07_sites_copy_here : all_copy here = true.
Proof. vm_compute. reflexivity. Qed.
Print Assumptions C07_sites_copy_here.
