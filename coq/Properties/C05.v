(* C05: _id is a primary key (unique, generated when absent, immutable) along every history
   of the collection state machine, inside the guard c05_reasons = 0 (Spec/HistGuards.v).
   Property statements only; the proofs are in Proofs/C05*.v; the histories that made the
   guard necessary are in Refuted/C05.v. *)
From Coq Require Import ZArith List String Bool Ascii.
From Verif Require Import Value PyEq BsonOrder Path Filter Update Project Coll HistCheck HistProps
  HistGuards.
From Verif.Proofs Require Import C05Values C05Store C05Ops C05Proofs.
Import ListNotations.
Open Scope Z_scope.
Open Scope string_scope.
Open Scope list_scope.

(* The unguarded statement
     forall pre5 ops, c05_ok ops (model_obs pre5 empty_coll ops) = true
   is FALSE (Refuted/C05.v).  The guard c05_reasons (Spec/HistGuards.v) excludes: 2 an _id
   that is not a well-formed value; 4 F-ID-RETYPE; 8 F-ID-BOOL-NUM; 16 a TTL index.  (Bit 1 is
   gone: after the repair of the library the class "store key not stable under patch" is no
   longer assumed - see C05_keys_normalised below - and the predicate now compares inserted_id
   with the normalised _id, which is what a successful insert_one reports.  The whole bit 32
   is gone as well.)  Inside the guard it holds: after every operation of the model's
   own trace the store keys are pairwise BSON-different and every document carries the _id it
   is stored under; insert_one generates a fresh _id / rejects a present one with
   DuplicateKeyError leaving the store untouched; update, replace and find_one_and_update/
   replace keep every key and _id in place and add at most one document; a lookup {_id: v}
   returns exactly the documents stored under v. *)
Theorem C05_history : forall (pre5 : bool) (ops : list op),
  c05_reasons ops (model_obs pre5 empty_coll ops) = 0 ->
  c05_ok ops (model_obs pre5 empty_coll ops) = true.
Proof. exact c05_history_guarded. Qed.
Print Assumptions C05_history.

(* What the model guarantees for ALL ids, with no observational guard (only: the history
   creates no TTL index): the store keys stay pairwise different under Python ==, and every
   stored document has an _id linked to the key it is stored under by a chain of Python ==
   (k == k0, the _id started as patch k0 and was only ever rewritten by ==-equal values).
   "_id is immutable" holds in the library exactly up to Python ==; the bits 4, 8 of the
   guard above are the ways == differs from BSON equality. *)
Theorem C05_state_invariant : forall (pre5 : bool) (ops : list op),
  forallb ttl_free ops = true ->
  let s := docs (final pre5 empty_coll ops) in
  (forall l1 kd1 l2 kd2 l3, s = l1 ++ kd1 :: l2 ++ kd2 :: l3 -> py_eq (fst kd1) (fst kd2) = false) /\
  (forall k d, In (k, d) s ->
     is_arr k = false /\
     exists i k0, doc_id d = Some i /\ (k0 = k \/ py_eq k k0 = true) /\
                  (i = patch k0 \/ py_eq (patch k0) i = true)).
Proof. exact state_invariant. Qed.
Print Assumptions C05_state_invariant.

(* Every store key is a value the datetime normalisation leaves alone and lies inside the
   model's store keys (no array, no aware datetime, through sub-documents): the fact that
   replaces the former guard bits "store key not stable under patch" (1) and 32. *)
Theorem C05_keys_normalised : forall (pre5 : bool) (ops : list op),
  forallb ttl_free ops = true ->
  forall k d, In (k, d) (docs (final pre5 empty_coll ops)) ->
    patch k = k /\ id_modelled k = true.
Proof. exact keys_normalised. Qed.
Print Assumptions C05_keys_normalised.

(* The hypothesis is satisfiable on a history exercising every clause of the predicate. *)
Definition c05_demo : list op :=
  [ OInsertOne (VDoc [("_id", VInt 1); ("x", VInt 0)]);
    OInsertOne (VDoc [("x", VInt 5)]);                                   (* generated _id *)
    OInsertOne (VDoc [("_id", VDbl 8); ("x", VInt 9)]);                  (* 1.0: duplicate *)
    OInsertOne (VDoc [("_id", VDoc [("a", VInt 1); ("b", VStr "s")])]);  (* sub-document _id *)
    OInsertOne (VDoc [("_id", VArr [VInt 1])]);                          (* rejected *)
    OInsertOne (VDoc [("_id", VDate 5000 None); ("x", VInt 20)]);        (* datetime _id *)
    OInsertOne (VDoc [("_id", VDate 5001 None); ("x", VInt 21)]);        (* same millisecond: duplicate *)
    OInsertOne (VDoc [("_id", VDate 5000 (Some 0)); ("x", VInt 22)]);    (* same instant, aware: duplicate *)
    OInsertOne (VDoc [("_id", VDate 7001 None); ("x", VInt 23)]);        (* sub-millisecond: stored and reported as 7000 *)
    OInsertOne (VDoc [("_id", VDate 8000 (Some 60)); ("x", VInt 24)]);   (* aware: stored and reported as the naive instant *)
    OCreateIndex [("x", VInt 1)] true true None None None;  (* unique, sparse *)
    OInsertOne (VDoc [("_id", VInt 7); ("x", VInt 5)]);                  (* unique index: rolled back *)
    OInsertMany [VDoc [("_id", VStr "a")]; VDoc [("_id", VStr "a")]; VDoc [("y", VInt 1)]] false;
    OUpdate (VDoc [("_id", VInt 1)]) (VDoc [("$set", VDoc [("x", VInt 2); ("_id", VInt 1)])]) false false;
    OUpdate (VDoc [("_id", VInt 1)]) (VDoc [("$set", VDoc [("_id", VInt 2)])]) false false;  (* WriteError *)
    OUpdate (VDoc []) (VDoc [("$inc", VDoc [("n", VInt 1)])]) true false;
    OUpdate (VDoc [("_id", VInt 40)]) (VDoc [("$set", VDoc [("x", VInt 41)])]) false true;  (* upsert *)
    OReplace (VDoc [("_id", VInt 1)]) (VDoc [("x", VInt 3)]) false;
    OReplace (VDoc [("x", VInt 77)]) (VDoc [("x", VInt 78)]) true;       (* upsert, generated _id *)
    OFindAndModify (VDoc [("x", VInt 3)]) None [] (FamUpdate (VDoc [("$set", VDoc [("x", VInt 4)])]) false true);
    OFindAndModify (VDoc [("x", VInt 4)]) None [] (FamReplace (VDoc [("x", VInt 6)]) false false);
    OFind (VDoc [("_id", VInt 1)]) None [] 0 0;
    OFind (VDoc [("_id", VDbl 8)]) None [] 0 0;
    OFind (VDoc [("_id", VOid 1000)]) None [] 0 0;
    OFind (VDoc [("_id", VStr "zz")]) None [] 0 0;
    OBulk [BInsert (VDoc [("_id", VInt 50)]); BUpdate (VDoc [("_id", VInt 50)]) (VDoc [("$set", VDoc [("x", VInt 51)])]) false false;
           BDelete (VDoc [("_id", VStr "a")]) false] true;
    OFindAndModify (VDoc [("_id", VInt 40)]) None [] FamDelete;
    ODelete (VDoc []) false;
    OCount (VDoc []) 0 None;
    ODrop;
    OInsertOne (VDoc [("z", VInt 1)]) ].

Example C05_history_demo :
  c05_reasons c05_demo (model_obs false empty_coll c05_demo) = 0 /\
  modelled false empty_coll c05_demo = true /\
  c05_ok c05_demo (model_obs false empty_coll c05_demo) = true /\
  List.length (List.filter (fun ob => is_ok (fst (fst ob))) (model_obs false empty_coll c05_demo)) = 25%nat.
Proof. vm_compute. repeat split; reflexivity. Qed.
