(* C15: bulk_write is equivalent to issuing its operations one at a time.
   Property statements only; the proofs are in Proofs/C15Proofs.v. *)
From Coq Require Import ZArith List String Bool Ascii.
From Verif Require Import Value PyEq BsonOrder Path Filter Update Project Coll HistCheck HistProps
  HistGuards.
From Verif.Proofs Require Import C15Proofs.
Import ListNotations.
Open Scope Z_scope.
Open Scope string_scope.
Open Scope list_scope.

(* The collection state after a bulk of valid requests is the state reached by issuing the
   requests one at a time through the single-operation steps (req_step), stopping at the first
   WriteError when ordered, skipping failures when unordered, and stopping at the first
   non-write error in both cases. *)
Theorem C15_bulk_state : forall pre5 c rs ordered,
  rs <> [] -> (forall r, In r rs -> bulk_valid r = Ok tt) ->
  let '(c1, _) := bulk_write pre5 c rs ordered in
  let '(c2, outs, aborted) := seq_run pre5 c rs ordered [] in
  c1 = c2.
Proof. exact bulk_state. Qed.
Print Assumptions C15_bulk_state.

(* When no request raised a non-write error, bulk_write returns the result document whose
   counters are the sums of the individual results, and whose write errors are indexed by the
   positions of the failed requests. *)
Theorem C15_bulk_counts : forall pre5 c rs ordered c2 outs,
  rs <> [] -> (forall r, In r rs -> bulk_valid r = Ok tt) ->
  seq_run pre5 c rs ordered [] = (c2, outs, false) ->
  exists a,
    bulk_write pre5 c rs ordered = (c2, Ok (bulk_result a)) /\
    b_inserted a =
      count_ok_kind (fun q => match q with BInsert _ => true | _ => false end) rs outs /\
    b_matched a =
      sum_field "matched" (List.filter (fun x => negb (is_upsert_result x)) outs) /\
    b_modified a = sum_field "modified" outs /\
    b_removed a = sum_field "deleted" outs /\
    b_upserted_n a = Z.of_nat (List.length (List.filter is_upsert_result outs)) /\
    b_upserted a =
      flat_map (fun x => match x with
                         | Ok w => match get_field "upserted_id" w with
                                   | Some u => if is_null u then [] else [u]
                                   | None => [] end
                         | Err _ => [] end) outs /\
    flat_map (fun e => match get_field "index" e with Some (VInt z) => [z] | _ => [] end)
             (b_errors a) = error_indexes outs.
Proof. exact bulk_counts. Qed.
Print Assumptions C15_bulk_counts.

(* On every history of the model inside the guard (every bulk request passes the
   registration-time validation: c15_reasons bit 1, see Refuted/C15.v), the history predicate
   holds.  Without the guard the statement is false. *)
Theorem C15_history : forall (pre5 : bool) (ops : list op),
  c15_reasons ops (model_obs pre5 empty_coll ops) = 0 ->
  c15_ok pre5 ops (model_obs pre5 empty_coll ops) = true.
Proof. exact c15_history. Qed.
Print Assumptions C15_history.
