(* Two equalities: Python's == (what the code computes) and BSON equality (what the
   properties speak about).  Definitions only. *)
From Coq Require Import ZArith List String Bool.
From Verif Require Import Value.
Import ListNotations.
Open Scope Z_scope.

(* numeric view used by Python for bool/int/float comparisons, scaled by 8 *)
Definition num8 (v : value) : option Z :=
  match v with
  | VBool b => Some (if b then 8 else 0)
  | VInt z => Some (8 * z)
  | VDbl e => Some e
  | _ => None
  end.

(* instant of a datetime in microseconds; only meaningful between two aware or two naive ones *)
Definition date_key (us : Z) (tz : option Z) : Z :=
  match tz with None => us | Some m => us - m * 60000000 end.

(* Python ==  :  True == 1 == 1.0, dict equality ignores key order, naive != aware *)
Fixpoint py_eq (a b : value) {struct a} : bool :=
  match a, b with
  | VNull, VNull => true
  | VStr x, VStr y => String.eqb x y
  | VOid x, VOid y => Z.eqb x y
  | VDate x tx, VDate y ty =>
      match tx, ty with
      | None, None => Z.eqb x y
      | Some _, Some _ => Z.eqb (date_key x tx) (date_key y ty)
      | _, _ => false
      end
  | VDoc fs, VDoc gs =>
      Nat.eqb (List.length fs) (List.length gs) &&
      (fix go (fs : list (string * value)) : bool :=
         match fs with
         | [] => true
         | (k, v) :: fs' =>
             match assoc k gs with
             | Some w => py_eq v w
             | None => false
             end && go fs'
         end) fs
  | VArr xs, VArr ys =>
      (fix go (xs ys : list value) : bool :=
         match xs, ys with
         | [], [] => true
         | x :: xs', y :: ys' => py_eq x y && go xs' ys'
         | _, _ => false
         end) xs ys
  | _, _ =>
      match num8 a, num8 b with
      | Some x, Some y => Z.eqb x y
      | _, _ => false
      end
  end.

(* x in list  (Python membership: identity or ==) *)
Definition py_in (x : value) (l : list value) : bool := existsb (fun y => py_eq y x) l.

(* NOTHING-aware equality: NOTHING == anything is False *)
Definition py_eq_lookup (a : lookup) (b : value) : bool :=
  match a with Some v => py_eq v b | None => false end.

(* BSON equality: bool is not a number, int and double compare numerically,
   documents are ordered, dates compare by instant *)
Fixpoint bson_eq (a b : value) {struct a} : bool :=
  match a, b with
  | VNull, VNull => true
  | VBool x, VBool y => Bool.eqb x y
  | VInt x, VInt y => Z.eqb x y
  | VInt x, VDbl y => Z.eqb (8 * x) y
  | VDbl x, VInt y => Z.eqb x (8 * y)
  | VDbl x, VDbl y => Z.eqb x y
  | VStr x, VStr y => String.eqb x y
  | VOid x, VOid y => Z.eqb x y
  | VDate x tx, VDate y ty => Z.eqb (date_key x tx) (date_key y ty)
  | VDoc fs, VDoc gs =>
      (fix go (fs gs : list (string * value)) : bool :=
         match fs, gs with
         | [], [] => true
         | (k, v) :: fs', (k', v') :: gs' => String.eqb k k' && bson_eq v v' && go fs' gs'
         | _, _ => false
         end) fs gs
  | VArr xs, VArr ys =>
      (fix go (xs ys : list value) : bool :=
         match xs, ys with
         | [], [] => true
         | x :: xs', y :: ys' => bson_eq x y && go xs' ys'
         | _, _ => false
         end) xs ys
  | _, _ => false
  end.

(* The places where the two equalities can differ: a bool somewhere, or a sub-document
   (key order).  A value is "plain" when it contains neither; on plain values (and naive
   dates) py_eq and bson_eq coincide. *)
Fixpoint plain (v : value) : bool :=
  match v with
  | VBool _ => false
  | VDoc _ => false
  | VDate _ (Some _) => false
  | VArr xs =>
      (fix go (xs : list value) : bool :=
         match xs with [] => true | x :: xs' => plain x && go xs' end) xs
  | _ => true
  end.

(* no bool anywhere (sub-documents allowed) *)
Fixpoint no_bool (v : value) : bool :=
  match v with
  | VBool _ => false
  | VDate _ (Some _) => false
  | VDoc fs =>
      (fix go (fs : list (string * value)) : bool :=
         match fs with [] => true | (_, v) :: fs' => no_bool v && go fs' end) fs
  | VArr xs =>
      (fix go (xs : list value) : bool :=
         match xs with [] => true | x :: xs' => no_bool x && go xs' end) xs
  | _ => true
  end.
