(* Dotted paths: key.split('.'), int(part), iter_key_candidates, get_value_by_dot.
   Definitions only. *)
From Coq Require Import ZArith List String Bool Ascii.
From Verif Require Import Value.
Import ListNotations.
Open Scope Z_scope.

(* s.split('.') *)
Fixpoint split_dots_aux (s : string) (cur : string) : list string :=
  match s with
  | EmptyString => [cur]
  | String c s' =>
      if Ascii.eqb c "."%char then cur :: split_dots_aux s' EmptyString
      else split_dots_aux s' (cur ++ String c EmptyString)%string
  end.
Definition split_dots (s : string) : list string := split_dots_aux s EmptyString.

Fixpoint join_dots (l : list string) : string :=
  match l with
  | [] => EmptyString
  | [x] => x
  | x :: l' => (x ++ "." ++ join_dots l')%string
  end.

Definition is_digit (c : ascii) : bool :=
  let n := nat_of_ascii c in (Nat.leb 48 n && Nat.leb n 57)%bool.

Fixpoint all_digits (s : string) : bool :=
  match s with EmptyString => true | String c s' => is_digit c && all_digits s' end.

Fixpoint digits_val (s : string) (acc : Z) : Z :=
  match s with
  | EmptyString => acc
  | String c s' => digits_val s' (10 * acc + Z.of_nat (nat_of_ascii c - 48))
  end.

(* int(part) for a non-empty string of ASCII decimal digits; anything else is "not an
   integer" in the model (Python's int also accepts signs, blanks and underscores: such
   parts are outside the model, see path_modelled) *)
Definition as_index (s : string) : option Z :=
  match s with
  | EmptyString => None
  | _ => if all_digits s then Some (digits_val s 0) else None
  end.

(* parts for which Python's int() and the model's as_index may disagree: not plain digits,
   yet made only of characters int() tolerates (digits, sign, underscore, blanks) *)
Definition int_tolerated (c : ascii) : bool :=
  is_digit c || Ascii.eqb c "-"%char || Ascii.eqb c "+"%char || Ascii.eqb c " "%char
  || Ascii.eqb c "_"%char || Nat.leb (nat_of_ascii c) 13.
Fixpoint all_tolerated (s : string) : bool :=
  match s with EmptyString => true | String c s' => int_tolerated c && all_tolerated s' end.
Definition part_modelled (s : string) : bool :=
  match s with
  | EmptyString => true
  | _ => all_digits s || negb (all_tolerated s)
  end.
Definition path_modelled (parts : list string) : bool := forallb part_modelled parts.

Definition nth_z {A} (l : list A) (i : Z) : option A :=
  if i <? 0 then None else nth_error l (Z.to_nat i).

(* filtering.iter_key_candidates on the split key.  [] and [""] both stand for the
   empty key string.  None = the NOTHING sentinel. *)
Fixpoint candidates (parts : list string) (doc : value) {struct parts} : list lookup :=
  match parts with
  | [] => [Some doc]
  | p :: rest =>
      match rest, p with
      | [], EmptyString => [Some doc]          (* key == '' *)
      | _, _ =>
      match doc with
      | VArr xs =>
          match as_index p with
          | None =>
              flat_map (fun sub =>
                match sub with
                | VDoc fs =>
                    match assoc p fs with
                    | Some v => candidates rest v
                    | None => [None]
                    end
                | _ => []
                end) xs
          | Some i =>
              match nth_z xs i with
              | None => []                      (* dead end *)
              | Some sub => candidates rest sub
              end
          end
      | VDoc fs =>
          match rest with
          | [] => [assoc p fs]
          | _ => candidates rest (match assoc p fs with Some v => v | None => VDoc [] end)
          end
      | _ => []                                 (* None or a scalar *)
      end
      end
  end.

(* helpers.get_value_by_dot(doc, key) with can_generate_array=False; None = KeyError *)
Fixpoint get_by_dot (parts : list string) (doc : value) {struct parts} : option value :=
  match parts with
  | [] => Some doc
  | p :: rest =>
      match doc with
      | VDoc fs =>
          match assoc p fs with Some v => get_by_dot rest v | None => None end
      | VArr xs =>
          match as_index p with
          | Some i => match nth_z xs i with Some v => get_by_dot rest v | None => None end
          | None => None
          end
      | _ => None
      end
  end.
