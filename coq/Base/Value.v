(* Values of the document model, errors, and the result monad.
   Definitions only (no proofs) so that the model still runs when a proof breaks. *)
From Coq Require Import ZArith List String Bool Ascii.
Import ListNotations.
Open Scope Z_scope.
Open Scope string_scope.

(* A BSON-like value as mongomock sees it in this sandbox (no pymongo/bson).
   VDbl e is the double e/8 (dyadic rationals are exact in IEEE-754);
   VDate us tz: microseconds since the epoch of the wall-clock fields, tz = utc offset
   in minutes for aware datetimes (None = naive); VOid n: ObjectId number n. *)
Inductive value : Type :=
| VNull
| VBool (b : bool)
| VInt (z : Z)
| VDbl (e : Z)
| VStr (s : string)
| VDate (us : Z) (tz : option Z)
| VOid (n : Z)
| VDoc (fs : list (string * value))
| VArr (xs : list value).

(* None plays the role of the NOTHING sentinel / a missing field. *)
Definition lookup := option value.

Inductive err : Type :=
| EOpFail       (* OperationFailure *)
| ENotImpl      (* NotImplementedError *)
| EWrite        (* WriteError (not duplicate key) *)
| EDup          (* DuplicateKeyError *)
| EBulk         (* BulkWriteError *)
| EInvalidOp    (* InvalidOperation *)
| EType         (* TypeError *)
| EValue        (* ValueError *)
| EKey          (* KeyError *)
| ECrash        (* any other exception class (AttributeError, IndexError, ...) *)
| EUnmodelled.  (* input outside the model: the harness skips the comparison *)

Inductive res (A : Type) : Type :=
| Ok (a : A)
| Err (e : err).
Arguments Ok {A} a.
Arguments Err {A} e.

Definition bind {A B} (r : res A) (f : A -> res B) : res B :=
  match r with Ok a => f a | Err e => Err e end.
Notation "'let!' x ':=' r 'in' k" := (bind r (fun x => k))
  (at level 200, x pattern, r at level 100, k at level 200).

Definition err_eqb (a b : err) : bool :=
  match a, b with
  | EOpFail, EOpFail | ENotImpl, ENotImpl | EWrite, EWrite | EDup, EDup | EBulk, EBulk
  | EInvalidOp, EInvalidOp | EType, EType | EValue, EValue | EKey, EKey | ECrash, ECrash
  | EUnmodelled, EUnmodelled => true
  | _, _ => false
  end.

Fixpoint assoc {A} (k : string) (l : list (string * A)) : option A :=
  match l with
  | [] => None
  | (k', v) :: l' => if String.eqb k k' then Some v else assoc k l'
  end.

Fixpoint has_key {A} (k : string) (l : list (string * A)) : bool :=
  match l with
  | [] => false
  | (k', _) :: l' => String.eqb k k' || has_key k l'
  end.

(* dict[k] = v : replace in place when present (position kept), append otherwise *)
Fixpoint set_key {A} (k : string) (v : A) (l : list (string * A)) : list (string * A) :=
  match l with
  | [] => [(k, v)]
  | (k', v') :: l' => if String.eqb k k' then (k, v) :: l' else (k', v') :: set_key k v l'
  end.

Fixpoint del_key {A} (k : string) (l : list (string * A)) : list (string * A) :=
  match l with
  | [] => []
  | (k', v') :: l' => if String.eqb k k' then l' else (k', v') :: del_key k l'
  end.

Definition keys {A} (l : list (string * A)) : list string := map fst l.

Fixpoint mem_str (s : string) (l : list string) : bool :=
  match l with [] => false | x :: l' => String.eqb s x || mem_str s l' end.

Fixpoint nodup_str (l : list string) : bool :=
  match l with [] => true | x :: l' => negb (mem_str x l') && nodup_str l' end.

(* ---- strict structural equality (what the harness uses to compare outcomes) ---- *)
Definition opt_z_eqb (a b : option Z) : bool :=
  match a, b with
  | None, None => true | Some x, Some y => Z.eqb x y | _, _ => false end.

Fixpoint value_eqb (a b : value) {struct a} : bool :=
  match a, b with
  | VNull, VNull => true
  | VBool x, VBool y => Bool.eqb x y
  | VInt x, VInt y => Z.eqb x y
  | VDbl x, VDbl y => Z.eqb x y
  | VStr x, VStr y => String.eqb x y
  | VDate x tx, VDate y ty => Z.eqb x y && opt_z_eqb tx ty
  | VOid x, VOid y => Z.eqb x y
  | VDoc fs, VDoc gs =>
      (fix go (fs : list (string * value)) (gs : list (string * value)) : bool :=
         match fs, gs with
         | [], [] => true
         | (k, v) :: fs', (k', v') :: gs' => String.eqb k k' && value_eqb v v' && go fs' gs'
         | _, _ => false
         end) fs gs
  | VArr xs, VArr ys =>
      (fix go (xs ys : list value) : bool :=
         match xs, ys with
         | [], [] => true
         | x :: xs', y :: ys' => value_eqb x y && go xs' ys'
         | _, _ => false
         end) xs ys
  | _, _ => false
  end.

Fixpoint list_eqb {A} (eqb : A -> A -> bool) (xs ys : list A) : bool :=
  match xs, ys with
  | [], [] => true
  | x :: xs', y :: ys' => eqb x y && list_eqb eqb xs' ys'
  | _, _ => false
  end.

Definition lookup_eqb (a b : lookup) : bool :=
  match a, b with
  | None, None => true | Some x, Some y => value_eqb x y | _, _ => false end.

Definition res_eqb {A} (eqb : A -> A -> bool) (a b : res A) : bool :=
  match a, b with
  | Ok x, Ok y => eqb x y
  | Err x, Err y => err_eqb x y
  | _, _ => false
  end.

(* well-formedness: duplicate-free keys in every sub-document (Python dicts) *)
Fixpoint wf_value (v : value) : bool :=
  match v with
  | VDoc fs =>
      nodup_str (map fst fs) &&
      (fix go (fs : list (string * value)) : bool :=
         match fs with [] => true | (_, v) :: fs' => wf_value v && go fs' end) fs
  | VArr xs =>
      (fix go (xs : list value) : bool :=
         match xs with [] => true | x :: xs' => wf_value x && go xs' end) xs
  | _ => true
  end.

Definition is_doc (v : value) : bool := match v with VDoc _ => true | _ => false end.
Definition is_arr (v : value) : bool := match v with VArr _ => true | _ => false end.
Definition is_null (v : value) : bool := match v with VNull => true | _ => false end.
Definition is_str (v : value) : bool := match v with VStr _ => true | _ => false end.

(* Python truthiness of a value (bool(v)) *)
Definition truthy (v : value) : bool :=
  match v with
  | VNull => false
  | VBool b => b
  | VInt z => negb (Z.eqb z 0)
  | VDbl e => negb (Z.eqb e 0)
  | VStr s => negb (String.eqb s "")
  | VDate _ _ => true
  | VOid _ => true
  | VDoc fs => match fs with [] => false | _ => true end
  | VArr xs => match xs with [] => false | _ => true end
  end.

Fixpoint find_index {A} (p : A -> bool) (l : list A) : option nat :=
  match l with
  | [] => None
  | x :: l' => if p x then Some O else option_map S (find_index p l')
  end.
