(* Model of filtering.bson_compare / _get_compare_type.  Definitions only. *)
From Coq Require Import ZArith List String Bool.
From Verif Require Import Value PyEq.
From Verif.Gen Require Import TypeRank.
Import ListNotations.
Open Scope Z_scope.

Definition type_rank (v : value) : Z :=
  match v with
  | VNull => rank_null
  | VBool _ => rank_bool
  | VInt _ => rank_int
  | VDbl _ => rank_dbl
  | VStr _ => rank_str
  | VDoc _ => rank_doc
  | VArr _ => rank_arr
  | VOid _ => rank_oid
  | VDate _ _ => rank_date
  end.

Definition nat_compare_len {A B} (xs : list A) (ys : list B) : comparison :=
  Nat.compare (List.length xs) (List.length ys).

(* three-way outcome of bson_compare(op, a, b) with can_compare_types=True:
   op holds iff it holds of the returned comparison; Err = the exception raised *)
Fixpoint bson_cmp (a b : value) {struct a} : res comparison :=
  if negb (Z.eqb (type_rank a) (type_rank b)) then Ok (Z.compare (type_rank a) (type_rank b))
  else
  match a, b with
  | VDoc fs, VDoc gs =>
      (fix go (fs gs : list (string * value)) : res comparison :=
         match fs, gs with
         | [], [] => Ok Eq
         | [], _ :: _ => Ok Lt
         | _ :: _, [] => Ok Gt
         | (k, v) :: fs', (k', v') :: gs' =>
             if negb (Z.eqb (type_rank v) (type_rank v')) then
               Ok (Z.compare (type_rank v) (type_rank v'))
             else if negb (String.eqb k k') then Ok (String.compare k k')
             else if negb (py_eq v v') then bson_cmp v v'
             else go fs' gs'
         end) fs gs
  | VArr xs, VArr ys =>
      (fix go (xs ys : list value) : res comparison :=
         match xs, ys with
         | [], [] => Ok Eq
         | [], _ :: _ => Ok Lt
         | _ :: _, [] => Ok Gt
         | x :: xs', y :: ys' =>
             if negb (py_eq x y) then bson_cmp x y else go xs' ys'
         end) xs ys
  | VNull, VNull => Ok Eq
  | VStr x, VStr y => Ok (String.compare x y)
  | VBool x, VBool y => Ok (Z.compare (if x then 1 else 0) (if y then 1 else 0))
  | VDate x tx, VDate y ty =>
      match tx, ty with
      | None, None => Ok (Z.compare x y)
      | Some _, Some _ => Ok (Z.compare (date_key x tx) (date_key y ty))
      | _, _ => Err EType   (* can't compare offset-naive and offset-aware datetimes *)
      end
  | VOid _, VOid _ => Err EType   (* mongomock.object_id.ObjectId defines no ordering *)
  | _, _ =>
      match num8 a, num8 b with
      | Some x, Some y => Ok (Z.compare x y)
      | _, _ => Err ECrash
      end
  end.

Inductive cmpop := OpLt | OpLe | OpGt | OpGe.

Definition op_holds (op : cmpop) (c : comparison) : bool :=
  match op, c with
  | OpLt, Lt => true
  | OpLe, Lt | OpLe, Eq => true
  | OpGt, Gt => true
  | OpGe, Gt | OpGe, Eq => true
  | _, _ => false
  end.

(* bson_compare(op, a, b, can_compare_types) *)
Definition bson_compare (op : cmpop) (a b : value) (can_compare_types : bool) : res bool :=
  if negb (Z.eqb (type_rank a) (type_rank b)) then
    Ok (can_compare_types && op_holds op (Z.compare (type_rank a) (type_rank b)))
  else
    let! c := bson_cmp a b in Ok (op_holds op c).

(* BsonComparable.__lt__ *)
Definition bson_lt (a b : value) : res bool := bson_compare OpLt a b true.
