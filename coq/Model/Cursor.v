(* C11: the Cursor of collection.py (skip/limit/sort/slice bookkeeping, _compute_results),
   count_documents arithmetic, and the specification of "sorted, then sliced" written from
   the statement.  Definitions only. *)
From Coq Require Import ZArith List String Bool.
From Verif Require Import Value PyEq BsonOrder Path Filter FilterSpec Update Project Coll.
Import ListNotations.
Open Scope Z_scope.
Open Scope string_scope.
Open Scope list_scope.
Notation "a <?? b" := (Z.ltb a b) (at level 70).
Notation "a =?? b" := (Z.eqb a b) (at level 70).

(* ------------------------------------------------------------------ the model *)
Record cursor := mkCursor {
  k_sort : list (string * Z);
  k_skip : Z;
  k_limit : option Z;        (* None: no limit (pymongo's 0) *)
  k_empty : bool             (* an empty slice [k:k] was requested *)
}.

Inductive cmeth :=
| MSort (spec : list (string * Z))
| MSkip (n : Z)
| MLimit (n : Z)
| MSlice (start stop : option Z)     (* cursor[start:stop] *)
| MClone
| MPeek.                             (* cursor[0]: evaluates the query, changes nothing *)

Definition norm_limit (n : Z) : option Z := if n =?? 0 then None else Some n.

Definition apply_meth (k : cursor) (m : cmeth) : res cursor :=
  match m with
  | MSort [] => Err EValue
  | MSort spec => Ok (mkCursor spec (k_skip k) (k_limit k) (k_empty k))
  | MSkip n => Ok (mkCursor (k_sort k) n (k_limit k) (k_empty k))
  | MLimit n => Ok (mkCursor (k_sort k) (k_skip k) (norm_limit n) false)
  | MSlice start stop =>
      match start with
      | Some s => if s <?? 0 then Err ECrash else
          match stop with
          | Some e => let l := e - s in
                      if l <?? 0 then Err ECrash
                      else Ok (mkCursor (k_sort k) s (Some l) (l =?? 0))
          | None => Ok (mkCursor (k_sort k) s (Some 0) false)
          end
      | None =>
          match stop with
          | Some e => if e <?? 0 then Err ECrash
                      else Ok (mkCursor (k_sort k) 0 (Some e) (e =?? 0))
          | None => Ok (mkCursor (k_sort k) 0 (Some 0) false)
          end
      end
  | MPeek => Ok k
  | MClone =>
      (* Cursor(collection, spec, sort, projection, skip, limit): the empty flag is not carried *)
      Ok (mkCursor (k_sort k) (k_skip k)
                   (match k_limit k with Some n => norm_limit n | None => None end) false)
  end.

Fixpoint apply_meths (k : cursor) (ms : list cmeth) : res cursor :=
  match ms with
  | [] => Ok k
  | m :: ms' => let! k' := apply_meth k m in apply_meths k' ms'
  end.

(* _compute_results(with_limit_and_skip=True) *)
Definition compute_results {A} (k : cursor) (l : list A) : list A :=
  let s := if k_skip k <?? 0
           then skipn (Z.to_nat (Z.max 0 (Z.of_nat (List.length l) + k_skip k))) l
           else skipn (Z.to_nat (k_skip k)) l in
  if k_empty k then []
  else match k_limit k with
       | Some n => if n =?? 0 then s else firstn (Z.to_nat (Z.abs n)) s
       | None => s
       end.

(* find(filter, sort=..., skip=..., limit=...) followed by cursor methods, then list() *)
Definition cursor_run (docs : list value) (f : value) (sort0 : list (string * Z)) (skip0 limit0 : Z)
           (ms : list cmeth) : res (list value) :=
  let c := mkColl (map (fun d => (match d with VDoc fs => match assoc "_id" fs with Some i => i | None => VNull end
                                           | _ => VNull end, d)) docs) [] false 1000 0 [] in
  let! k := apply_meths (mkCursor sort0 skip0 (norm_limit limit0) false) ms in
  let! r := find_docs c f (k_sort k) in
  Ok (compute_results k (snd r)).

(* The same program with the intermediate evaluations taken into account: cursor[0] (MPeek)
   runs the query with the sort in force at that point; when that raises (an order the library
   cannot establish, e.g. between two of its own ObjectIds) the exception is what the caller
   sees, whatever the calls after it would have done. *)
Definition c11_coll (docs : list value) : coll :=
  mkColl (map (fun d => (match d with VDoc fs => match assoc "_id" fs with Some i => i | None => VNull end
                                  | _ => VNull end, d)) docs) [] false 1000 0 [].

Fixpoint run_meths_full (c : coll) (f : value) (k : cursor) (ms : list cmeth) : res cursor :=
  match ms with
  | [] => Ok k
  | m :: ms' =>
      let! k' := apply_meth k m in
      let! _ := (match m with
                 | MPeek => let! r := find_docs c f (k_sort k') in Ok tt
                 | _ => Ok tt
                 end) in
      run_meths_full c f k' ms'
  end.

Definition cursor_run_full (docs : list value) (f : value) (sort0 : list (string * Z)) (skip0 limit0 : Z)
           (ms : list cmeth) : res (list value) :=
  let c := c11_coll docs in
  let! k := run_meths_full c f (mkCursor sort0 skip0 (norm_limit limit0) false) ms in
  let! r := find_docs c f (k_sort k) in
  Ok (compute_results k (snd r)).

(* count_documents(filter, skip=, limit=) *)
Definition count_run (docs : list value) (f : value) (skip : Z) (limit : option Z) : res value :=
  let c := mkColl (map (fun d => (VNull, d)) docs) [] false 1000 0 [] in
  snd (count_op c f skip limit).

(* ------------------------------------------------------------------ the specification *)
(* BSON type classes in comparison order *)
Definition class_rank (v : value) : Z :=
  match v with
  | VNull => 1 | VInt _ | VDbl _ => 2 | VStr _ => 3 | VDoc _ => 4 | VArr _ => 5
  | VOid _ => 7 | VBool _ => 8 | VDate _ _ => 9
  end.

(* three-way comparison of two sort-key values; None = the statement/this spec does not
   decide (sub-documents, arrays, ObjectIds among themselves, aware datetimes) *)
Definition spec_cmp3 (a b : value) : option comparison :=
  if negb (class_rank a =?? class_rank b) then Some (Z.compare (class_rank a) (class_rank b))
  else match a, b with
       | VOid _, VOid _ | VDoc _, _ | VArr _, _ | VDate _ (Some _), _ | _, VDate _ (Some _) => None
       | _, _ => scalar_cmp a b
       end.

(* the sort key of a document: the field's value, null when missing; None = undecided
   (the path resolves to several values or to an array) *)
Definition spec_key (key : string) (d : value) : option value :=
  match path_values (split_dots key) d with
  | [None] => Some VNull
  | [Some (VArr _)] => None
  | [Some v] => Some v
  | _ => None
  end.

(* lexicographic comparison along the sort specification, a descending key reversing *)
Fixpoint lex_cmp (spec : list (string * Z)) (a b : value) : option comparison :=
  match spec with
  | [] => Some Eq
  | (k, dir) :: spec' =>
      match spec_key k a, spec_key k b with
      | Some x, Some y =>
          match spec_cmp3 x y with
          | Some Eq => lex_cmp spec' a b
          | Some c => Some (if dir <?? 0 then CompOpp c else c)
          | None => None
          end
      | _, _ => None
      end
  end.

(* rank of the i-th document: how many documents must come before it - those strictly
   smaller, and those that tie and come earlier in natural order *)
Definition before (spec : list (string * Z)) (l : list value) (i : nat) (di : value) : option nat :=
  (fix go (l : list value) (j : nat) : option nat :=
     match l with
     | [] => Some O
     | dj :: l' =>
         match lex_cmp spec dj di, go l' (S j) with
         | Some c, Some n =>
             Some (match c with
                   | Lt => S n
                   | Eq => if Nat.ltb j i then S n else n
                   | Gt => n
                   end)
         | _, _ => None
         end
     end) l O.

Fixpoint index_list {A} (l : list A) (i : nat) : list (nat * A) :=
  match l with [] => [] | x :: l' => (i, x) :: index_list l' (S i) end.

(* the document whose rank is p *)
Definition at_rank (spec : list (string * Z)) (l : list value) (p : nat) : option value :=
  (fix go (il : list (nat * value)) : option value :=
     match il with
     | [] => None
     | (i, d) :: il' =>
         match before spec l i d with
         | Some r => if Nat.eqb r p then Some d else go il'
         | None => None
         end
     end) (index_list l O).

(* the sorted sequence: the unique arrangement that is ordered by the keys and keeps ties in
   natural order; None = undecided *)
Definition spec_sort (spec : list (string * Z)) (l : list value) : option (list value) :=
  if existsb (fun kd => (fst kd =? "$natural") || starts_dollar (fst kd)) spec then None else
  (fix go (ps : list nat) : option (list value) :=
     match ps with
     | [] => Some []
     | p :: ps' => match at_rank spec l p, go ps' with
                   | Some d, Some r => Some (d :: r)
                   | _, _ => None
                   end
     end) (seq 0 (List.length l)).

(* "skip and limit select exactly the corresponding contiguous slice": the final skip/limit
   of a sequence of cursor calls, as the statement describes them *)
Record window := mkWin { w_skip : Z; w_limit : option Z }.   (* None = unbounded *)

Definition spec_window (skip0 limit0 : Z) (ms : list cmeth) : option window :=
  fold_left (fun acc m =>
    match acc with
    | None => None
    | Some w =>
        match m with
        | MSort _ | MClone | MPeek => Some w
        | MSkip n => if n <?? 0 then None else Some (mkWin n (w_limit w))
        | MLimit n => Some (mkWin (w_skip w) (if n =?? 0 then None else Some (Z.abs n)))
        | MSlice start stop =>
            let s := match start with Some s => s | None => 0 end in
            match stop with
            | Some e => if (s <?? 0) || (e <?? s) then None else Some (mkWin s (Some (e - s)))
            | None => if s <?? 0 then None else Some (mkWin s None)
            end
        end
    end) ms
    (if skip0 <?? 0 then None
     else Some (mkWin skip0 (if limit0 =?? 0 then None else Some (Z.abs limit0)))).

Definition final_sort (sort0 : list (string * Z)) (ms : list cmeth) : list (string * Z) :=
  fold_left (fun acc m => match m with MSort s => s | _ => acc end) ms sort0.

Definition spec_slice {A} (w : window) (l : list A) : list A :=
  let s := skipn (Z.to_nat (w_skip w)) l in
  match w_limit w with Some n => firstn (Z.to_nat n) s | None => s end.

(* the specified answer of the whole cursor program; None = undecided *)
Definition cursor_spec (docs : list value) (f : value) (sort0 : list (string * Z)) (skip0 limit0 : Z)
           (ms : list cmeth) : option (list value) :=
  match scan (patch f) (map (fun d => (VNull, d)) docs ++ [(VNull, VDoc [])]) with
  | Ok m0 =>
      (* (the filter is also evaluated on an empty document: a filter that is rejected is
         not this property's business) *)
      let matches := List.filter (fun d => negb (value_eqb d (VDoc []))) (map snd m0) in
      match spec_window skip0 limit0 ms with
      | None => None
      | Some w =>
          if existsb (fun m => match m with MClone => true | _ => false end) ms then None else
          match final_sort sort0 ms with
          | [] => Some (spec_slice w matches)
          | spec => match spec_sort spec matches with
                    | Some sorted => Some (spec_slice w sorted)
                    | None => None
                    end
          end
      end
  | Err _ => None
  end.

(* the prefixes of the program that end in an evaluation (cursor[0]) *)
Fixpoint peek_prefixes (pre ms : list cmeth) : list (list cmeth) :=
  match ms with
  | [] => []
  | m :: ms' =>
      let pre' := pre ++ [m] in
      (match m with MPeek => [pre'] | _ => [] end) ++ peek_prefixes pre' ms'
  end.

(* the specified answer when the intermediate evaluations count: every evaluated prefix must be
   decided too (an evaluation under an undecided order may raise) *)
Definition cursor_spec_full (docs : list value) (f : value) (sort0 : list (string * Z)) (skip0 limit0 : Z)
           (ms : list cmeth) : option (list value) :=
  if forallb (fun p => match cursor_spec docs f sort0 skip0 limit0 p with Some _ => true | None => false end)
             (peek_prefixes [] ms)
  then cursor_spec docs f sort0 skip0 limit0 ms
  else None.

Definition count_spec (docs : list value) (f : value) (skip : Z) (limit : option Z) : option Z :=
  match scan (patch f) (map (fun d => (VNull, d)) docs ++ [(VNull, VDoc [])]) with
  | Ok m0 =>
      let m := List.filter (fun kd => negb (value_eqb (snd kd) (VDoc []))) m0 in
      if skip <?? 0 then None else
      let w := mkWin skip limit in
      Some (Z.of_nat (List.length (spec_slice w m)))
  | Err _ => None
  end.

(* ------------------------------------------------------------------ harness glue *)
Record c11_case := mkC11 {
  e_docs : list value; e_filter : value; e_sort : list (string * Z); e_skip : Z; e_limit : Z;
  e_meths : list cmeth; e_impl : res (list value);
  e_count_skip : Z; e_count_limit : option Z; e_count_impl : res value
}.

Definition res_list_eqb (a b : res (list value)) : bool :=
  match a, b with
  | Ok x, Ok y => list_eqb value_eqb x y
  | Err _, Err _ => true
  | _, _ => false
  end.

(* bit 0 mismatch, bit 1 property fails, bit 2 undecided, bit 3 unmodelled *)
Definition c11_check (c : c11_case) : Z :=
  let m := cursor_run_full (e_docs c) (e_filter c) (e_sort c) (e_skip c) (e_limit c) (e_meths c) in
  let mc := count_run (e_docs c) (e_filter c) (e_count_skip c) (e_count_limit c) in
  let unmod := match m with Err EUnmodelled => true | _ => false end
               || match mc with Err EUnmodelled => true | _ => false end in
  let mism := negb unmod &&
              (negb (res_list_eqb m (e_impl c))
               || negb (match mc, e_count_impl c with
                        | Ok x, Ok y => value_eqb x y
                        | Err _, Err _ => true
                        | _, _ => false end)) in
  let sp := cursor_spec_full (e_docs c) (e_filter c) (e_sort c) (e_skip c) (e_limit c) (e_meths c) in
  let p1 := match sp, e_impl c with
            | Some l, Ok r => list_eqb value_eqb l r
            | Some _, Err _ => false
            | None, _ => true
            end in
  let p2 := match count_spec (e_docs c) (e_filter c) (e_count_skip c) (e_count_limit c), e_count_impl c with
            | Some n, Ok (VInt r) => n =?? r
            | Some _, Ok _ => false
            | Some _, Err _ => match e_count_limit c with
                               | Some l => Z.leb l 0      (* a non-positive limit is rejected *)
                               | None => false end
            | None, _ => true
            end in
  (if mism then 1 else 0) + (if p1 && p2 then 0 else 2)
  + (match sp with None => 4 + 256 | Some _ => 0 end) + (if unmod then 8 else 0).

Definition c11_explain (c : c11_case) :=
  (cursor_run_full (e_docs c) (e_filter c) (e_sort c) (e_skip c) (e_limit c) (e_meths c),
   cursor_spec_full (e_docs c) (e_filter c) (e_sort c) (e_skip c) (e_limit c) (e_meths c),
   count_run (e_docs c) (e_filter c) (e_count_skip c) (e_count_limit c)).
