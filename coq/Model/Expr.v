(* Model of mongomock.aggregate._Parser: the aggregation expression evaluator.
   Definitions only.  An expression is a value; evaluation is structural recursion on it.
   Result: EV v | EMiss (the KeyError mongomock uses for "missing") | EE e (an exception).
   Operators and argument shapes the model does not cover answer EE EUnmodelled. *)
From Coq Require Import ZArith List String Bool Ascii.
From Verif Require Import Value PyEq BsonOrder Path Update.
Import ListNotations.
Open Scope Z_scope.
Open Scope string_scope.
Open Scope list_scope.

Inductive eres : Type :=
| EV (v : value)
| EMiss
| EE (e : err).

Definition ebind (r : eres) (f : value -> eres) : eres :=
  match r with EV v => f v | EMiss => EMiss | EE e => EE e end.

(* parse_many: a KeyError becomes None when ignore_missing_keys, else propagates *)
Definition many_item (ign : bool) (r : eres) : eres :=
  match r with EMiss => if ign then EV VNull else EMiss | _ => r end.

Fixpoint collect (rs : list eres) : res (option (list value)) :=   (* None = KeyError *)
  match rs with
  | [] => Ok (Some [])
  | EV v :: rs' =>
      match collect rs' with
      | Ok (Some vs) => Ok (Some (v :: vs))
      | other => other
      end
  | EMiss :: _ => Ok None
  | EE e :: _ => Err e
  end.

Definition with_list (rs : list eres) (f : list value -> eres) : eres :=
  match collect rs with
  | Ok (Some vs) => f vs
  | Ok None => EMiss
  | Err e => EE e
  end.

Definition starts_dollar (s : string) : bool :=
  match s with String "$" _ => true | _ => false end.
Definition starts_dollar2 (s : string) : bool :=
  match s with String "$" (String "$" _) => true | _ => false end.
Definition drop1 (s : string) : string := match s with String _ r => r | _ => s end.

(* helpers.get_value_by_dot(doc, key, can_generate_array=True); None = KeyError *)
Fixpoint all_some {A} (l : list (option A)) : option (list A) :=
  match l with
  | [] => Some []
  | Some x :: l' => match all_some l' with Some r => Some (x :: r) | None => None end
  | None :: _ => None
  end.

Fixpoint get_gen (parts : list string) (doc : value) {struct parts} : option value :=
  match parts with
  | [] => Some doc
  | p :: rest =>
      match doc with
      | VDoc fs =>
          match assoc p fs with Some v => get_gen rest v | None => None end
      | VArr xs =>
          match as_index p with
          | Some i => match nth_z xs i with Some v => get_gen rest v | None => None end
          | None => Some (VArr (flat_map (fun x => match get_by_dot (p :: rest) x with
                                                    | Some v => [v] | None => [] end) xs))
          end
      | _ => None
      end
  end.

Fixpoint mapM_res {A B} (f : A -> res B) (l : list A) : res (list B) :=
  match l with
  | [] => Ok []
  | x :: l' => let! y := f x in let! r := mapM_res f l' in Ok (y :: r)
  end.

(* value not in [False, None, 0] *)
Definition mongo_bool (v : value) : bool :=
  negb (py_eq v (VBool false) || is_null v || py_eq v (VInt 0)).

Definition to_bool (r : eres) : res bool :=
  match r with EV v => Ok (mongo_bool v) | EMiss => Ok false | EE e => Err e end.

(* isinstance(v, numbers.Number): ints, floats and bools *)
Definition is_number (v : value) : bool :=
  match v with VInt _ | VDbl _ | VBool _ => true | _ => false end.

Definition as_int (v : value) : option Z :=
  match v with VInt z => Some z | VBool b => Some (if b then 1 else 0) | _ => None end.

(* Python's a + b on numbers: int+int -> int, anything with a float -> float *)
Definition num_add (a b : value) : value :=
  match as_int a, as_int b with
  | Some x, Some y => VInt (x + y)
  | _, _ => match num8 a, num8 b with
            | Some x, Some y => VDbl (x + y)
            | _, _ => VNull
            end
  end.
Definition num_sub (a b : value) : value :=
  match as_int a, as_int b with
  | Some x, Some y => VInt (x - y)
  | _, _ => match num8 a, num8 b with
            | Some x, Some y => VDbl (x - y)
            | _, _ => VNull
            end
  end.
(* a * b: a float product is modelled only when it is again a multiple of 1/8 *)
Definition num_mul (a b : value) : res value :=
  match as_int a, as_int b with
  | Some x, Some y => Ok (VInt (x * y))
  | _, _ => match num8 a, num8 b with
            | Some x, Some y => if (x * y) mod 8 =?? 0 then Ok (VDbl ((x * y) / 8))
                                else Err EUnmodelled
            | _, _ => Err EUnmodelled
            end
  end.

(* sum(list) starting from the int 0 *)
Definition py_sum (vs : list value) : value := fold_left num_add vs (VInt 0).

Fixpoint py_reduce_mul (acc : value) (vs : list value) : res value :=
  match vs with
  | [] => Ok acc
  | v :: vs' => let! a := num_mul acc v in py_reduce_mul a vs'
  end.

(* min()/max() over a non-empty list with key=BsonComparable (only __lt__ is defined, so
   max's `>` is the reflected `<`); the first extreme element wins *)
Fixpoint py_min_from (best : value) (vs : list value) : res value :=
  match vs with
  | [] => Ok best
  | v :: vs' => let! b := bson_lt v best in py_min_from (if b then v else best) vs'
  end.
Fixpoint py_max_from (best : value) (vs : list value) : res value :=
  match vs with
  | [] => Ok best
  | v :: vs' => let! b := bson_lt best v in py_max_from (if b then v else best) vs'
  end.

Definition lower_char (c : ascii) : ascii :=
  let n := nat_of_ascii c in
  if (Nat.leb 65 n && Nat.leb n 90)%bool then ascii_of_nat (n + 32) else c.
Definition upper_char (c : ascii) : ascii :=
  let n := nat_of_ascii c in
  if (Nat.leb 97 n && Nat.leb n 122)%bool then ascii_of_nat (n - 32) else c.
Fixpoint map_str (f : ascii -> ascii) (s : string) : string :=
  match s with EmptyString => EmptyString | String c r => String (f c) (map_str f r) end.

(* Python's l[start:stop] with None bounds, on a list *)
Definition py_index (len i : Z) : Z :=      (* clamp a slice bound *)
  if i <?? 0 then Z.max 0 (len + i) else Z.min i len.
Definition py_slice {A} (l : list A) (start : option Z) (stop : option Z) : list A :=
  let len := Z.of_nat (List.length l) in
  let a := match start with Some i => py_index len i | None => 0 end in
  let b := match stop with Some i => py_index len i | None => len end in
  if Z.leb b a then [] else firstn (Z.to_nat (b - a)) (skipn (Z.to_nat a) l).

Fixpoint str_of_list (l : list ascii) : string :=
  match l with [] => EmptyString | c :: r => String c (str_of_list r) end.
Definition str_slice (s : string) (start : option Z) (stop : option Z) : string :=
  str_of_list (py_slice (list_ascii_of_string s) start stop).

(* _is_numeric: a number that is not a bool *)
Definition is_numeric (v : value) : bool :=
  match v with VInt _ | VDbl _ => true | _ => false end.

(* the accumulators also used as expression operators: _GROUPING_OPERATOR_MAP on a list *)
Definition avg_values (vs : list value) : res value :=
  let nums := List.filter is_numeric vs in
  match nums with
  | [] => Ok VNull
  | _ =>
      match num8 (py_sum nums) with
      | Some s8 =>
          let n := Z.of_nat (List.length nums) in
          if s8 mod n =?? 0 then Ok (VDbl (s8 / n)) else Err EUnmodelled
      | None => Err EUnmodelled
      end
  end.

Definition group_fold (op : string) (vs : list value) : res value :=
  if op =? "$sum" then Ok (py_sum (List.filter is_numeric vs))
  else if op =? "$avg" then avg_values vs
  else if op =? "$min" then
    match List.filter (fun v => negb (is_null v)) vs with
    | [] => Ok VNull
    | v :: r => py_min_from v r
    end
  else if op =? "$max" then
    match List.filter (fun v => negb (is_null v)) vs with
    | [] => Ok VNull
    | v :: r => py_max_from v r
    end
  else if op =? "$first" then Ok (match vs with [] => VNull | v :: _ => v end)
  else if op =? "$last" then Ok (last vs VNull)
  else Err EUnmodelled.

Definition is_fold_op (k : string) : bool :=
  (k =? "$sum") || (k =? "$avg") || (k =? "$min") || (k =? "$max") || (k =? "$first") || (k =? "$last").

(* operators mongomock names but does not implement (NotImplementedError) *)
Definition not_implemented_op (k : string) : bool :=
  existsb (String.eqb k)
    ["$stdDevPop"; "$stdDevSamp"; "$cmp"; "$dateFromString"; "$isoDayOfWeek"; "$isoWeek";
     "$isoWeekYear"; "$indexOfArray"; "$range"; "$reduce"; "$reverseArray"; "$zip";
     "$indexOfBytes"; "$indexOfCP"; "$strLenBytes"; "$strLenCP"; "$substrBytes"; "$substrCP";
     "$trim"; "$setIntersection"; "$setDifference"; "$setIsSubset"; "$anyElementTrue";
     "$allElementsTrue"; "$convert"; "$meta"; "$mergeObjects"].

(* operators implemented by mongomock that this model does not cover *)
Definition unmodelled_op (k : string) : bool :=
  existsb (String.eqb k)
    ["$exp"; "$ln"; "$log10"; "$sqrt"; "$log";
     "$pow"; "$dateToString"; "$dateFromParts"; "$dayOfMonth"; "$dayOfYear"; "$month"; "$week";
     "$year"; "$regexMatch"; "$split"; "$toString"; "$toInt"; "$toDecimal"; "$toLong";
     "$arrayToObject"; "$objectToArray"].

Definition hashable_scalar (v : value) : bool :=
  match v with VDoc _ | VArr _ => false | _ => true end.

Definition sub_set (a b : list value) : bool := forallb (fun x => py_in x b) a.

Fixpoint all_pairs_eq (sets : list (list value)) : bool :=
  match sets with
  | [] => true
  | s :: rest => forallb (fun t => sub_set s t && sub_set t s) rest && all_pairs_eq rest
  end.

Fixpoint union_into (acc : list value) (vs : list value) : list value :=
  match vs with
  | [] => acc
  | v :: vs' => union_into (if py_in v acc then acc else acc ++ [v]) vs'
  end.

Definition time_part (op : string) (us : Z) : option Z :=
  let day_us := 86400000000 in
  let tod := us mod day_us in
  if op =? "$hour" then Some (tod / 3600000000)
  else if op =? "$minute" then Some ((tod / 60000000) mod 60)
  else if op =? "$second" then Some ((tod / 1000000) mod 60)
  else if op =? "$millisecond" then Some ((tod mod 1000000) / 1000)
  else if op =? "$dayOfWeek" then Some ((((us / day_us) + 4) mod 7) + 1)   (* 1970-01-01: Thursday = 5 *)
  else None.

Definition root_vars (doc : value) (vars : list (string * value)) : value :=
  (* dict({'ROOT': doc, 'CURRENT': doc}, **user_vars) *)
  VDoc (fold_left (fun acc kv => set_key (fst kv) (snd kv) acc) vars
                  [("ROOT", doc); ("CURRENT", doc)]).

Definition opt_eres (o : option value) : eres := match o with Some v => EV v | None => EMiss end.

(* _Parser(doc, vars, ignore_missing_keys=ign).parse(e) *)
Fixpoint eval (vars : list (string * value)) (doc : value) (ign : bool) (e : value) {struct e} : eres :=
  match e with
  | VStr s =>
      if starts_dollar2 s then
        opt_eres (get_gen (split_dots (drop1 (drop1 s))) (root_vars doc vars))
      else if starts_dollar s then opt_eres (get_gen (split_dots (drop1 s)) doc)
      else EV e
  | VArr xs =>
      (* an array literal: every element is parsed, a missing field reads as null *)
      with_list (map (fun x => match eval vars doc ign x with EMiss => EV VNull | r => r end) xs)
                (fun vs => EV (VArr vs))
  | VDoc fs =>
      if (1 <?? Z.of_nat (List.length fs)) && existsb (fun kv => starts_dollar (fst kv)) fs
      then EE EOpFail else
      match fs with
      | [(k, arg)] =>
          if negb (starts_dollar k) then
            match eval vars doc ign arg with
            | EV v => EV (VDoc [(k, v)])
            | EMiss => if ign then EV (VDoc []) else EMiss
            | EE er => EE er
            end
          else
          (* ---- arithmetic *)
          if k =? "$abs" then
            match eval vars doc ign arg with
            | EMiss | EV VNull => EV VNull
            | EV (VInt z) => EV (VInt (Z.abs z))
            | EV (VDbl z) => EV (VDbl (Z.abs z))
            | EV (VBool b) => EV (VInt (if b then 1 else 0))
            | EV _ => EE EOpFail
            | EE er => EE er
            end
          else if (k =? "$ceil") || (k =? "$floor") || (k =? "$trunc") then
            (* math.ceil / floor / trunc: an int for every number *)
            match eval vars doc ign arg with
            | EMiss | EV VNull => EV VNull
            | EV (VInt z) => EV (VInt z)
            | EV (VBool b) => EV (VInt (if b then 1 else 0))
            | EV (VDbl z) =>
                EV (VInt (if k =? "$floor" then z / 8
                          else if k =? "$ceil" then - ((- z) / 8)
                          else Z.quot z 8))
            | EV _ => EE EOpFail
            | EE er => EE er
            end
          else if (k =? "$divide") || (k =? "$mod") then
            match arg with
            | VArr [a; b] =>
                with_list [many_item ign (eval vars doc ign a); many_item ign (eval vars doc ign b)]
                  (fun vs =>
                     match vs with
                     | [x; y] =>
                         if is_null x || is_null y then EV VNull else
                         match num8 x, num8 y with
                         | Some p, Some q =>
                             if k =? "$divide" then
                               (* x / y: a float; ZeroDivisionError *)
                               if q =?? 0 then EE ECrash
                               else if (8 * p) mod q =?? 0 then EV (VDbl ((8 * p) / q)) else EE EUnmodelled
                             else
                               (* math.fmod(x, y): a float with the sign of x; ValueError on 0 *)
                               if q =?? 0 then EE EValue else EV (VDbl (Z.rem p q))
                         | _, _ => match x, y with
                                   | VDate _ _, _ | _, VDate _ _ => EE EUnmodelled
                                   | _, _ => EE EType
                                   end
                         end
                     | _ => EE EUnmodelled
                     end)
            | VArr _ => EE EOpFail
            | _ => EE EOpFail
            end
          else if k =? "$subtract" then
            match arg with
            | VArr [a; b] =>
                with_list [many_item ign (eval vars doc ign a); many_item ign (eval vars doc ign b)]
                  (fun vs =>
                     match vs with
                     | [x; y] =>
                         if is_null x || is_null y then EV VNull else
                         match x, y with
                         | VDate ux None, VDate uy None =>
                             if ((ux - uy) mod 1000 =?? 0) then EV (VInt ((ux - uy) / 1000))
                             else EE EUnmodelled
                         | VDate ux tz, VInt ms => EV (VDate (ux - 1000 * ms) tz)
                         | VDate _ _, _ | _, VDate _ _ => EE EUnmodelled
                         | _, _ =>
                             if is_number x && is_number y then EV (num_sub x y)
                             else match x, y with
                                  | VArr _, _ | _, VArr _ | VDoc _, _ | _, VDoc _
                                  | VStr _, _ | _, VStr _ | VOid _, _ | _, VOid _ => EE EType
                                  | _, _ => EE EUnmodelled
                                  end
                         end
                     | _ => EE EUnmodelled
                     end)
            | VArr _ => EE EOpFail
            | _ => EE EOpFail
            end
          else if (k =? "$add") || (k =? "$multiply") then
            match arg with
            | VArr [] => EE ECrash                                   (* AssertionError *)
            | VArr xs =>
                with_list (map (fun x => many_item ign (eval vars doc ign x)) xs)
                  (fun vs =>
                     (* for value in parsed: None -> return None; assert Number *)
                     (fix scan (l : list value) : eres :=
                        match l with
                        | [] => if k =? "$add" then EV (py_sum vs)
                                else match vs with
                                     | v :: r => match py_reduce_mul v r with
                                                 | Ok p => EV p | Err er => EE er end
                                     | [] => EE ECrash
                                     end
                        | v :: l' => if is_null v then EV VNull
                                     else if is_number v then scan l' else EE ECrash
                        end) vs)
            | _ => EE ECrash
            end
          (* ---- $sum/$avg/$min/$max/$first/$last/$arrayElemAt as expression operators *)
          else if is_fold_op k then
            match arg with
            | VStr _ =>
                match eval vars doc ign arg with
                | EV (VArr vs) => match group_fold k vs with Ok v => EV v | Err er => EE er end
                | EV VNull => if (k =? "$first") || (k =? "$last") then EV VNull else EE EType
                | EV (VInt _) | EV (VDbl _) | EV (VBool _) | EV (VDate _ _) | EV (VOid _) =>
                    (* iterating a number / date / ObjectId: TypeError; $first/$last index it *)
                    if (k =? "$first") || (k =? "$last") then EE EUnmodelled else EE EType
                | EV _ => EE EUnmodelled
                | EMiss => EMiss
                | EE er => EE er
                end
            | VArr xs =>
                if (k =? "$first") || (k =? "$last") then EE EType     (* generator[0] *)
                else
                with_list (map (fun x => many_item ign (eval vars doc ign x)) xs)
                  (fun vs => match group_fold k vs with Ok v => EV v | Err er => EE er end)
            | _ => EE EUnmodelled
            end
          else if k =? "$arrayElemAt" then
            match arg with
            | VArr [a; i] =>
                ebind (eval vars doc ign a) (fun av =>
                ebind (eval vars doc ign i) (fun iv =>
                  match av, as_int iv with
                  | VArr xs, Some n =>
                      let len := Z.of_nat (List.length xs) in
                      let m := if n <?? 0 then len + n else n in
                      match nth_z xs m with Some v => EV v | None => EMiss end
                  | VArr _, None => match iv with VDoc _ | VArr _ | VDate _ _ => EE EUnmodelled
                                                | _ => EE EType end
                  | VNull, _ => EE EType
                  | _, _ => EE EUnmodelled
                  end))
            | VArr _ => EE EValue
            | _ => EE EUnmodelled
            end
          (* ---- $literal / $let *)
          else if k =? "$literal" then EV arg
          else if k =? "$let" then
            match arg with
            | VDoc lf =>
                let var_tbl :=
                  (fix find_vars (l : list (string * value))
                     : option (option (list (string * (list (string * value) -> eres)))) :=
                     match l with
                     | [] => None
                     | (bk, bv) :: l' =>
                         if bk =? "vars" then
                           Some (match bv with VDoc vfs => Some (map (fun kv : string * value => match kv with (ck, cv) => (ck, fun vs : list (string * value) => eval vs doc ign cv) end) vfs) | _ => None end)
                         else find_vars l'
                     end) lf in
                match var_tbl, assoc "in" (map (fun kv : string * value => match kv with (ck, cv) => (ck, fun vs : list (string * value) => eval vs doc ign cv) end) lf) with
                | Some (Some vtbl), Some body =>
                    (* user_vars = {k: self.parse(v)} evaluated in the outer scope *)
                    (fix bind_vars (l : list (string * (list (string * value) -> eres)))
                                   (acc : list (string * value)) : eres :=
                       match l with
                       | [] => body (vars ++ acc)
                       | (vk, ve) :: l' =>
                           match ve vars with
                           | EV v => bind_vars l' (acc ++ [(vk, v)])
                           | EMiss => EMiss
                           | EE er => EE er
                           end
                       end) vtbl []
                | _, _ => EE EOpFail
                end
            | _ => EE EOpFail                                        (* InvalidDocument alias *)
            end
          (* ---- comparisons *)
          else if (k =? "$eq") || (k =? "$ne") || (k =? "$gt") || (k =? "$gte") || (k =? "$lt") || (k =? "$lte") then
            match arg with
            | VArr [a; b] =>
                (* _parse_or_nothing on both; a missing operand compares as the lowest value:
                   the pair is replaced by (a present?, b present?) *)
                let cmp := fun x y : value =>
                  if k =? "$eq" then EV (VBool (py_eq x y))
                  else if k =? "$ne" then EV (VBool (negb (py_eq x y)))
                  else
                    let op := if k =? "$gt" then OpGt else if k =? "$gte" then OpGe
                              else if k =? "$lt" then OpLt else OpLe in
                    match bson_compare op x y true with
                    | Ok r => EV (VBool r)
                    | Err er => EE er
                    end in
                match eval vars doc ign a with
                | EE er => EE er
                | ra =>
                    match eval vars doc ign b with
                    | EE er => EE er
                    | rb =>
                        match ra, rb with
                        | EV x, EV y => cmp x y
                        | _, _ => cmp (VBool (match ra with EV _ => true | _ => false end))
                                      (VBool (match rb with EV _ => true | _ => false end))
                        end
                    end
                end
            | VArr _ => EE ECrash
            | _ => EE EUnmodelled
            end
          (* ---- booleans *)
          else if k =? "$and" then
            match arg with
            | VArr xs =>
                (fix all_go (l : list (res bool)) (acc : bool) : eres :=
                   match l with
                   | [] => EV (VBool acc)
                   | Ok b :: l' => all_go l' (acc && b)
                   | Err er :: _ => EE er
                   end) (map (fun x => to_bool (eval vars doc ign x)) xs) true
            | _ => EE EUnmodelled
            end
          else if k =? "$or" then
            match arg with
            | VArr xs =>
                (fix any_go (l : list (res bool)) : eres :=
                   match l with
                   | [] => EV (VBool false)
                   | Ok true :: _ => EV (VBool true)
                   | Ok false :: l' => any_go l'
                   | Err er :: _ => EE er
                   end) (map (fun x => to_bool (eval vars doc ign x)) xs)
            | _ => EE EUnmodelled
            end
          else if k =? "$not" then
            let fin := fun r : eres =>
              match to_bool r with
              | Ok b => EV (VBool (negb b))
              | Err er => EE er
              end in
            match arg with
            | VArr [x] => fin (eval vars doc ign x)
            | _ => fin (eval vars doc ign arg)
            end
          (* ---- conditionals *)
          else if k =? "$cond" then
            match arg with
            | VArr [c; t; f] =>
                match to_bool (eval vars doc ign c) with
                | Ok true => eval vars doc ign t
                | Ok false => eval vars doc ign f
                | Err er => EE er
                end
            | VArr _ => EE EValue
            | VDoc cf =>
                let tbl := (map (fun kv : string * value => match kv with (ck, cv) => (ck, fun vs : list (string * value) => eval vs doc ign cv) end) cf) in
                match assoc "if" tbl, assoc "then" tbl, assoc "else" tbl with
                | Some c, Some t, Some f =>
                    match to_bool (c vars) with
                    | Ok true => t vars
                    | Ok false => f vars
                    | Err er => EE er
                    end
                | _, _, _ => EMiss                                   (* KeyError('if') *)
                end
            | _ => EE ECrash                                         (* UnboundLocalError *)
            end
          else if k =? "$ifNull" then
            match arg with
            | VArr [] => EE EUnmodelled      (* IndexError: swallowed by Cursor.__next__ under find *)
            | VArr xs =>
                (fix go (l : list value) : eres :=
                   match l with
                   | [] => EE ECrash
                   | [fallback] => eval vars doc ign fallback
                   | x :: l' =>
                       match eval vars doc ign x with
                       | EV VNull | EMiss => go l'
                       | EV v => EV v
                       | EE er => EE er
                       end
                   end) xs
            | _ => EE EUnmodelled
            end
          else if k =? "$switch" then
            match arg with
            | VDoc sf =>
                let stbl := (map (fun kv : string * value => match kv with (ck, cv) => (ck, fun vs : list (string * value) => eval vs doc ign cv) end) sf) in
                let branches :=
                  (fix find_br (l : list (string * value))
                     : option (option (list (option (list (string * (list (string * value) -> eres)))))) :=
                     match l with
                     | [] => None
                     | (bk, bv) :: l' =>
                         if bk =? "branches" then
                           Some (match bv with
                                 | VArr bs => Some (map (fun b => match b with
                                                                  | VDoc bf => Some (map (fun kv : string * value => match kv with (ck, cv) => (ck, fun vs : list (string * value) => eval vs doc ign cv) end) bf)
                                                                  | _ => None
                                                                  end) bs)
                                 | _ => None
                                 end)
                         else find_br l'
                     end) sf in
                match branches with
                | None | Some (Some []) => EE EOpFail
                | Some None => EE EOpFail
                | Some (Some bts) =>
                    if negb (forallb (fun b => match b with
                                               | Some bt => has_key "case" bt && has_key "then" bt
                                               | None => false end) bts) then EE EOpFail else
                    (fix go (l : list (option (list (string * (list (string * value) -> eres))))) : eres :=
                       match l with
                       | [] => match assoc "default" stbl with
                               | Some d => d vars
                               | None => EE EOpFail
                               end
                       | Some bt :: l' =>
                           match assoc "case" bt, assoc "then" bt with
                           | Some c, Some t =>
                               match to_bool (c vars) with
                               | Ok true => t vars
                               | Ok false => go l'
                               | Err er => EE er
                               end
                           | _, _ => EE EOpFail
                           end
                       | None :: _ => EE EOpFail
                       end) bts
                end
            | _ => EE EOpFail
            end
          (* ---- strings *)
          else if k =? "$concat" then
            match arg with
            | VArr xs =>
                with_list (map (fun x => many_item ign (eval vars doc ign x)) xs)
                  (fun vs =>
                     if existsb is_null vs then EV VNull
                     else if forallb is_str vs then
                       EV (VStr (fold_left (fun acc v => match v with VStr s => String.append acc s | _ => acc end)
                                           vs EmptyString))
                     else EE EUnmodelled)
            | _ => EE EUnmodelled
            end
          else if (k =? "$toLower") || (k =? "$toUpper") then
            match eval vars doc ign arg with
            | EV VNull | EMiss => EV (VStr "")
            | EV (VStr s) => EV (VStr (map_str (if k =? "$toLower" then lower_char else upper_char) s))
            | EV _ => EE EUnmodelled
            | EE er => EE er
            end
          else if k =? "$strcasecmp" then
            match arg with
            | VArr [a; b] =>
                ebind (eval vars doc ign a) (fun x =>
                ebind (eval vars doc ign b) (fun y =>
                  match x, y with
                  | VStr s, VStr t =>
                      EV (VInt (match String.compare (map_str upper_char s) (map_str upper_char t) with
                                | Eq => 0 | Lt => -1 | Gt => 1 end))
                  | _, _ => EE EUnmodelled
                  end))
            | VArr _ => EE EOpFail
            | _ => EE EUnmodelled
            end
          else if k =? "$substr" then
            match arg with
            | VArr [a; b; c] =>
                ebind (eval vars doc ign a) (fun s =>
                ebind (eval vars doc ign b) (fun first =>
                ebind (eval vars doc ign c) (fun len =>
                  match s, as_int first, as_int len with
                  | VStr str, Some f, Some l =>
                      if f <?? 0 then EV (VStr "")
                      else EV (VStr (str_slice str (Some f)
                                               (if l <?? 0 then None else Some (f + l))))
                  | _, _, _ => EE EUnmodelled
                  end)))
            | VArr _ => EE EOpFail
            | _ => EE EUnmodelled
            end
          (* ---- arrays *)
          else if k =? "$size" then
            let fin := fun r : eres =>
                match r with
                | EV (VArr xs) => EV (VInt (Z.of_nat (List.length xs)))
                | EV _ | EMiss => EE EOpFail
                | EE er => EE er
                end in
            match arg with
            | VArr [x] => fin (eval vars doc ign x)
            | VArr _ => EE EOpFail
            | _ => fin (eval vars doc ign arg)
            end
          else if k =? "$concatArrays" then
            let fin := fun vs : list value =>
                 if negb (forallb (fun v => is_null v || is_arr v) vs) then EE EOpFail
                 else if existsb is_null vs then EV VNull
                 else EV (VArr (flat_map (fun v => match v with VArr l => l | _ => [] end) vs)) in
            match arg with
            | VArr xs => with_list (map (fun x => many_item ign (eval vars doc ign x)) xs) fin
            | _ => with_list [many_item ign (eval vars doc ign arg)] fin
            end
          else if k =? "$map" then
            match arg with
            | VDoc mf =>
                if negb (has_key "input" mf && has_key "in" mf) then EE EOpFail
                else if negb (forallb (fun kv => (fst kv =? "input") || (fst kv =? "as") || (fst kv =? "in")) mf)
                then EE EOpFail else
                let mtbl := (map (fun kv : string * value => match kv with (ck, cv) => (ck, fun vs : list (string * value) => eval vs doc ign cv) end) mf) in
                match assoc "input" mtbl, assoc "in" mtbl with
                | Some inp, Some body =>
                    match inp vars with
                    | EV VNull | EMiss => EV VNull
                    | EV (VArr items) =>
                        match (match assoc "as" mf with
                               | None => Some "this" | Some (VStr n) => Some n | Some _ => None end) with
                        | None => EE EUnmodelled
                        | Some name =>
                            with_list (map (fun item => body (vars ++ [(name, item)])) items)
                                      (fun vs => EV (VArr vs))
                        end
                    | EV _ => EE EOpFail
                    | EE er => EE er
                    end
                | _, _ => EE EOpFail
                end
            | _ => EE EOpFail
            end
          else if k =? "$filter" then
            match arg with
            | VDoc mf =>
                if negb (forallb (fun kv => (fst kv =? "input") || (fst kv =? "as") || (fst kv =? "cond")) mf)
                then EE EOpFail
                else
                let ftbl := (map (fun kv : string * value => match kv with (ck, cv) => (ck, fun vs : list (string * value) => eval vs doc ign cv) end) mf) in
                match assoc "input" ftbl, assoc "cond" ftbl with
                | Some inp, Some cond =>
                    match inp vars with
                    | EV (VArr items) =>
                        match (match assoc "as" mf with
                               | None => Some "this" | Some (VStr n) => Some n | Some _ => None end) with
                        | None => EE EUnmodelled
                        | Some name =>
                            (* each condition through _parse_to_bool: a KeyError counts as false *)
                            match mapM_res (fun item => to_bool (cond (vars ++ [(name, item)]))) items with
                            | Ok bs => EV (VArr (map fst (List.filter snd (combine items bs))))
                            | Err er => EE er
                            end
                        end
                    | EV VNull => EE EType
                    | EV _ => EE EUnmodelled
                    | EMiss => EMiss
                    | EE er => EE er
                    end
                | _, _ => EE EOpFail
                end
            | _ => EE EOpFail
            end
          else if k =? "$slice" then
            match arg with
            | VArr (a :: rest) =>
                match rest with
                | [_] | [_; _] =>
                    match eval vars doc ign a with
                    | EV (VArr xs) =>
                        match rest with
                        | [p] =>
                            match as_int p with
                            | None => EE EOpFail
                            | Some n => if n <?? 0 then EV (VArr (py_slice xs (Some n) None))
                                        else EV (VArr (py_slice xs (Some 0) (Some n)))
                            end
                        | [p; q] =>
                            match as_int p, as_int q with
                            | Some s, Some n =>
                                if Z.leb n 0 then EE EOpFail
                                else if s <?? 0 then
                                  EV (VArr (py_slice xs (Some s)
                                                     (Some (Z.of_nat (List.length xs) + s + n))))
                                else EV (VArr (py_slice xs (Some s) (Some (s + n))))
                            | _, _ => EE EOpFail
                            end
                        | _ => EE EOpFail
                        end
                    | EV _ => EE EOpFail
                    | EMiss => EMiss
                    | EE er => EE er
                    end
                | _ => EE EOpFail
                end
            | VArr [] => EE EOpFail
            | _ => EE EOpFail
            end
          else if k =? "$isArray" then
            match eval vars doc ign arg with
            | EV (VArr _) => EV (VBool true)
            | EV _ | EMiss => EV (VBool false)
            | EE er => EE er
            end
          else if k =? "$isNumber" then
            match eval vars doc ign arg with
            | EV (VInt _) | EV (VDbl _) => EV (VBool true)
            | EV _ | EMiss => EV (VBool false)
            | EE er => EE er
            end
          (* ---- sets *)
          else if k =? "$in" then
            match arg with
            | VArr [a; b] =>
                ebind (eval vars doc ign a) (fun x =>
                ebind (eval vars doc ign b) (fun l =>
                  match l with
                  | VArr xs => EV (VBool (py_in x xs))
                  | VNull => EE EType
                  | _ => EE EUnmodelled
                  end))
            | VArr _ => EE EValue
            | _ => EE EUnmodelled
            end
          else if k =? "$setUnion" then
            match arg with
            | VArr xs =>
                (* evaluated one after the other; a non-list operand stops with its own error *)
                (fix go (l : list value) (acc : list value) : eres :=
                   match l with
                   | [] => EV (VArr acc)
                   | x :: l' =>
                       match eval vars doc ign x with
                       | EV (VArr vs) => go l' (union_into acc vs)
                       | EV VNull => EE EType
                       | EV _ => EE EUnmodelled
                       | EMiss => EMiss
                       | EE er => EE er
                       end
                   end) xs []
            | _ => EE EUnmodelled
            end
          else if k =? "$setEquals" then
            match arg with
            | VArr xs =>
                (* [set(self.parse(v)) for v in values]: one operand after the other *)
                (fix go (l : list value) (acc : list (list value)) : eres :=
                   match l with
                   | [] => EV (VBool (all_pairs_eq acc))
                   | x :: l' =>
                       match eval vars doc ign x with
                       | EV (VArr vs) => if forallb hashable_scalar vs then go l' (acc ++ [vs]) else EE EType
                       | EV VNull | EV (VInt _) | EV (VDbl _) | EV (VBool _) | EV (VDate _ _) | EV (VOid _) => EE EType
                       | EV _ => EE EUnmodelled
                       | EMiss => EMiss
                       | EE er => EE er
                       end
                   end) xs []
            | _ => EE EUnmodelled
            end
          (* ---- date parts *)
          else if (k =? "$hour") || (k =? "$minute") || (k =? "$second") || (k =? "$millisecond")
                  || (k =? "$dayOfWeek") then
            match arg with
            | VDoc _ => EE EUnmodelled
            | _ =>
                ebind (eval vars doc ign arg) (fun v =>
                  match v with
                  | VDate us None => match time_part k us with Some z => EV (VInt z) | None => EE EUnmodelled end
                  | VDate _ (Some _) => EE EUnmodelled
                  | _ => EE ECrash                                   (* AttributeError *)
                  end)
            end
          else if not_implemented_op k then EE ENotImpl
          else if unmodelled_op k then EE EUnmodelled
          else EE EOpFail                                            (* Unrecognized expression *)
      | _ =>
          (* a document of plain field names: each value is parsed; missing ones are skipped *)
          (fix fields (l : list (string * value)) (acc : list (string * value)) : eres :=
             match l with
             | [] => EV (VDoc acc)
             | (fk, fv) :: l' =>
                 match eval vars doc ign fv with
                 | EV v => fields l' (set_key fk v acc)
                 | EMiss => if ign then fields l' acc else EMiss
                 | EE er => EE er
                 end
             end) fs []
      end
  | _ => EV e
  end.

(* ------------------------------------------------------------ the two observations *)
(* $addFields: {x: e} on one document (a top-level field name without dots) *)
Definition obs_add_field (field : string) (e doc : value) : res value :=
  match doc with
  | VDoc fs =>
      match eval [] doc true e with
      | EV v => Ok (VDoc (set_key field v fs))
      | EMiss => Ok doc
      | EE er => Err er
      end
  | _ => Err EUnmodelled
  end.

(* filter {$expr: e}: mongodb_to_bool(parse_expression(e, doc, ignore_missing_keys=True)),
   a KeyError counting as false *)
Definition obs_expr (e doc : value) : res bool :=
  match eval [] doc true e with
  | EV v => Ok (mongo_bool v)
  | EMiss => Ok false
  | EE er => Err er
  end.
