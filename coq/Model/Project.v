(* Model of the find-side projection: Collection._copy_only_fields, _combine_projection_spec,
   _project_by_spec, _extract/_apply_projection_operators.  Definitions only. *)
From Coq Require Import ZArith List String Bool Ascii.
From Verif Require Import Value PyEq BsonOrder Path Filter Update.
Import ListNotations.
Open Scope Z_scope.
Open Scope string_scope.
Open Scope list_scope.
Notation "a <?? b" := (Z.ltb a b) (at level 70).
Notation "a =?? b" := (Z.eqb a b) (at level 70).

(* combined spec: a tree; leaves carry the raw 0/1 value *)
Inductive pspec : Type :=
| PLeaf (v : value)
| PNode (children : list (string * pspec)).

Definition split_first (s : string) : string * option string :=
  (* f.split('.', 1) *)
  match split_dots s with
  | [] => (s, None)
  | [x] => (x, None)
  | x :: rest => (x, Some (join_dots rest))
  end.

(* tmp_spec of _combine_projection_spec: values are either a raw value or an (ordered) dict
   of remaining paths.  Inr = dict *)
Definition tmp_entry := (value + list (string * value))%type.

Fixpoint tmp_set (k : string) (e : tmp_entry) (l : list (string * tmp_entry))
  : list (string * tmp_entry) :=
  match l with
  | [] => [(k, e)]
  | (k', e') :: l' => if k =? k' then (k, e) :: l' else (k', e') :: tmp_set k e l'
  end.

Fixpoint combine_tmp (fields : list (string * value)) (tmp : list (string * tmp_entry))
  : res (list (string * tmp_entry)) :=
  match fields with
  | [] => Ok tmp
  | (f, v) :: fields' =>
      match split_first f with
      | (_, None) =>
          match assoc f tmp with
          | Some (inr _) => if truthy v then Err EOpFail else Err ENotImpl
          | _ => combine_tmp fields' (tmp_set f (inl v) tmp)
          end
      | (base, Some rest) =>
          match assoc base tmp with
          | Some (inr sub) => combine_tmp fields' (tmp_set base (inr (set_key rest v sub)) tmp)
          | Some (inl _) => Err EOpFail
          | None => combine_tmp fields' (tmp_set base (inr [(rest, v)]) tmp)
          end
      end
  end.

(* recursion on the nesting depth of the dotted names: fuel = longest path *)
Fixpoint combine_spec (fuel : nat) (fields : list (string * value)) : res pspec :=
  match fuel with
  | O => Err EUnmodelled
  | S fuel' =>
      let! tmp := combine_tmp fields [] in
      let! children :=
        (fix go (tmp : list (string * tmp_entry)) : res (list (string * pspec)) :=
           match tmp with
           | [] => Ok []
           | (k, inl v) :: tmp' => let! r := go tmp' in Ok ((k, PLeaf v) :: r)
           | (k, inr sub) :: tmp' =>
               let! c := combine_spec fuel' sub in
               let! r := go tmp' in Ok ((k, c) :: r)
           end) tmp in
      Ok (PNode children)
  end.

Definition spec_depth (fields : list (string * value)) : nat :=
  fold_right (fun kv acc => Nat.max (List.length (split_dots (fst kv))) acc) 1%nat fields.

(* _project_by_spec; structural on the document *)
Fixpoint find_child (k : string) (cs : list (string * pspec)) : option pspec :=
  match cs with
  | [] => None
  | (k', c) :: cs' => if k =? k' then Some c else find_child k cs'
  end.

Definition dollar_err (is_include : bool) : err := if is_include then ENotImpl else EOpFail.

Fixpoint project_doc (children : list (string * pspec)) (is_include : bool) (v : value)
         {struct v} : res value :=
  match v with
  | VDoc fs =>
      let! out :=
        (fix go (fs : list (string * value)) : res (list (string * value)) :=
           match fs with
           | [] => Ok []
           | (k, x) :: fs' =>
               let! r := go fs' in
               match find_child k children with
               | Some (PNode sub) =>
                   match x with
                   | VArr xs =>
                       let! ys := (fix each (xs : list value) : res (list value) :=
                                     match xs with
                                     | [] => Ok []
                                     | e :: xs' =>
                                         match e with
                                         | VDoc _ =>
                                             let! y := if has_key "$" sub
                                                       then Err (dollar_err is_include)
                                                       else project_doc sub is_include e in
                                             let! r2 := each xs' in Ok (y :: r2)
                                         | _ => Err ECrash   (* 'int' has no attribute 'items' *)
                                         end
                                     end) xs in
                       Ok ((k, VArr ys) :: r)
                   | VDoc _ =>
                       let! y := if has_key "$" sub then Err (dollar_err is_include)
                                 else project_doc sub is_include x in
                       Ok ((k, y) :: r)
                   | _ => Ok r
                   end
               | Some (PLeaf _) => if is_include then Ok ((k, x) :: r) else Ok r
               | None => if is_include then Ok r else Ok ((k, x) :: r)
               end
           end) fs in
      Ok (VDoc out)
  | _ => Err ECrash
  end.

Definition project_by_spec (spec : pspec) (is_include : bool) (doc : list (string * value))
  : res (list (string * value)) :=
  match spec with
  | PLeaf _ => Err ECrash
  | PNode children =>
      if has_key "$" children then Err (dollar_err is_include)
      else match project_doc children is_include (VDoc doc) with
           | Ok (VDoc out) => Ok out
           | Ok _ => Err ECrash
           | Err e => Err e
           end
  end.

(* $slice / $elemMatch *)
Definition apply_proj_op (field : string) (op : list (string * value)) (doc copy : list (string * value))
  : res (list (string * value)) :=
  let! copy1 := match assoc field copy with
                | Some _ => Ok (Some copy)
                | None => match assoc field doc with
                          | Some v => Ok (Some (set_key field v copy))
                          | None => Ok None
                          end
                end in
  match copy1 with
  | None => Ok copy
  | Some copy1 =>
      let! copy2 :=
        match assoc "$slice" op with
        | None => Ok copy1
        | Some arg =>
            match assoc field copy1 with
            | Some (VArr xs) =>
                let n := Z.of_nat (List.length xs) in
                match arg with
                | VArr [s; l] =>
                    match as_int s, as_int l with
                    | Some skip, Some limit =>
                        let skip' := if skip <?? 0 then n + skip else skip in
                        let last := Z.min (skip' + limit) n in
                        (* slice(skip, last): a falsy slice object cannot happen; python slicing *)
                        Ok (set_key field (VArr (slice_py xs (Some skip') (Some last))) copy1)
                    | _, _ => Err EUnmodelled
                    end
                | VArr _ => Err EOpFail
                | VInt count =>
                    let start := if count <?? 0 then Z.max 0 (n + count) else 0 in
                    let stop := if count <?? 0 then n else Z.min count n in
                    Ok (set_key field (VArr (slice_py xs (Some start) (Some stop))) copy1)
                | VBool _ => Err EUnmodelled
                | _ => Err EOpFail
                end
            | _ => Err EOpFail
            end
        end in
      match assoc "$elemMatch" op with
      | None => Ok copy2
      | Some q =>
          match assoc field copy2 with
          | Some (VArr xs) =>
              let! found := (fix go (xs : list value) : res (option value) :=
                               match xs with
                               | [] => Ok None
                               | x :: xs' => let! b := filter_applies q x in
                                             if b then Ok (Some x) else go xs'
                               end) xs in
              match found with
              | Some x => Ok (set_key field (VArr [x]) copy2)
              | None => Ok (del_key field copy2)
              end
          | _ => Ok (del_key field copy2)
          end
      end
  end.

Definition is_proj_op_value (v : value) : bool := match v with VDoc _ => true | _ => false end.

(* distinct values (Python set) among the plain projection values *)
Definition mixed_values (fields : list (string * value)) : bool :=
  match fields with
  | [] => false
  | (_, v) :: rest => existsb (fun kv => negb (py_eq (snd kv) v)) rest
  end.

(* Collection._copy_only_fields(doc, fields, dict); fields = None is the absent projection *)
Definition copy_only_fields (doc : value) (proj : option value) : res value :=
  match doc with
  | VDoc dfs =>
      match proj with
      | None => Ok doc
      | Some p =>
          let fields_r : res (list (string * value)) :=
            match p with
            | VDoc [] => Ok []
            | VDoc fs => Ok fs
            | VArr names =>
                if forallb is_str names
                then Ok (fold_left (fun acc n => match n with
                                                 | VStr k => set_key k (VInt 1) acc
                                                 | _ => acc end) names [])
                else Err EType
            | _ => Err EUnmodelled
            end in
          let! fields0 := fields_r in
          match fields0 with
          | [] => Ok doc                                  (* empty projection: whole document *)
          | _ =>
              let id_value := match assoc "_id" fields0 with Some v => v | None => VInt 1 end in
              let fields1 := del_key "_id" fields0 in
              let ops := List.filter (fun kv => is_proj_op_value (snd kv)) fields1 in
              let fields2 := List.filter (fun kv => negb (is_proj_op_value (snd kv))) fields1 in
              if existsb (fun kv => match snd kv with
                                    | VDoc o => existsb (fun ov => negb (mem_str (fst ov) ["$elemMatch"; "$slice"])) o
                                    | _ => false end) ops
              then Err EValue else
              if mixed_values fields2 then Err EValue else
              if existsb (fun kv => match snd kv with
                                    | VInt _ | VBool _ | VDbl _ => false | _ => true end) fields2
              then Err EUnmodelled else
              let! copy0 :=
                match fields2 with
                | [] => if py_eq id_value (VInt 1) then Ok [] else Ok dfs
                | (_, first) :: _ =>
                    let! spec := combine_spec (S (spec_depth fields2)) fields2 in
                    project_by_spec spec (truthy first) dfs
                end in
              let copy1 := if py_eq id_value (VInt 0) then del_key "_id" copy0
                           else match assoc "_id" dfs with
                                | Some i => set_key "_id" i copy0
                                | None => copy0
                                end in
              let! copy2 := fold_left (fun acc kv =>
                                         let! c := acc in
                                         match snd kv with
                                         | VDoc o => apply_proj_op (fst kv) o dfs c
                                         | _ => Ok c
                                         end) ops (Ok copy1) in
              Ok (VDoc copy2)
          end
      end
  | _ => Err ECrash
  end.
