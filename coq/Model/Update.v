(* Model of the update-operator part of Collection._update (collection.py): the per-document
   operator loop, _update_document_single_field, the _updaters table and the special
   branches.  Definitions only. *)
From Coq Require Import ZArith List String Bool Ascii.
From Verif Require Import Value PyEq BsonOrder Path Filter.
Import ListNotations.
Open Scope Z_scope.
Open Scope string_scope.
Open Scope list_scope.
Notation "a <?? b" := (Z.ltb a b) (at level 70).
Notation "a =?? b" := (Z.eqb a b) (at level 70).

(* ---- helpers.patch_datetime_awareness_in_document ---- *)
Definition floor1000 (us : Z) : Z := (us / 1000) * 1000.
Fixpoint patch (v : value) : value :=
  match v with
  | VDate us None => VDate (floor1000 us) None
  | VDate us (Some m) => VDate (floor1000 (us - m * 60000000)) None
  | VDoc fs => VDoc ((fix go (fs : list (string * value)) :=
                        match fs with [] => [] | (k, x) :: fs' => (k, patch x) :: go fs' end) fs)
  | VArr xs => VArr ((fix go (xs : list value) :=
                        match xs with [] => [] | x :: xs' => patch x :: go xs' end) xs)
  | _ => v
  end.

(* ---- list helpers ---- *)
Fixpoint set_nth {A} (n : nat) (x : A) (l : list A) : list A :=
  match l, n with
  | [], _ => []
  | _ :: l', O => x :: l'
  | y :: l', S n' => y :: set_nth n' x l'
  end.

Definition pad_to (len : nat) (l : list value) : list value :=
  l ++ repeat VNull (len - List.length l).

Definition contains_dollar_part (parts : list string) : bool := mem_str "$" parts.

Inductive updater := USet | UUnset | UInc | UMax | UMin | UPop | UCurrentDate.

(* Python's a + b on model values (numbers only; str/list concatenation is outside the model) *)
Definition py_add (a b : value) : res value :=
  match a, b with
  | VInt x, VInt y => Ok (VInt (x + y))
  | VInt x, VDbl y => Ok (VDbl (8 * x + y))
  | VDbl x, VInt y => Ok (VDbl (x + 8 * y))
  | VDbl x, VDbl y => Ok (VDbl (x + y))
  | VBool _, _ | _, VBool _ => Err EUnmodelled
  | VStr _, VStr _ | VArr _, VArr _ => Err EUnmodelled
  | _, _ => Err EType
  end.

(* doc[i] += value (the in-place form used on array elements): a list element takes any
   iterable - a string or dict operand extends it instead of raising *)
Definition py_iadd (x arg : value) : res value :=
  match x, arg with
  | VArr _, VStr _ | VArr _, VDoc _ => Err EUnmodelled
  | _, _ => py_add x arg
  end.

(* Python's a < b between two values as max()/min() use it (native ordering, not BSON) *)
Definition py_lt (a b : value) : res bool :=
  match a, b with
  | VStr x, VStr y => Ok (match String.compare x y with Lt => true | _ => false end)
  | VDate x None, VDate y None => Ok (x <?? y)
  | VDate x (Some mx), VDate y (Some my) => Ok (date_key x (Some mx) <?? date_key y (Some my))
  | VArr _, VArr _ | VDoc _, _ | _, VDoc _ => Err EUnmodelled
  | _, _ =>
      match num8 a, num8 b with
      | Some x, Some y => Ok (x <?? y)
      | _, _ => Err EType
      end
  end.

Definition is_pop_arg (v : value) : bool := py_eq v (VInt 1) || py_eq v (VInt (-1)).

Definition pop_list (xs : list value) (arg : value) : list value :=
  match xs with
  | [] => []
  | _ => if py_eq arg (VInt 1) then removelast xs else tl xs
  end.

(* one updater applied to the container reached by the path walk *)
Definition apply_updater (u : updater) (now : Z) (container : value) (name : string)
           (arg : value) : res value :=
  match u with
  | USet =>
      match container with
      | VDoc fs => Ok (VDoc (set_key name arg fs))
      | VArr xs =>
          match as_index name with
          | None => if part_modelled name then Err EValue else Err EUnmodelled
          | Some i =>
              let n := Z.to_nat i in
              Ok (VArr (set_nth n arg (pad_to (S n) xs)))
          end
      | _ => Ok container
      end
  | UUnset =>
      match container with
      | VDoc fs => Ok (VDoc (del_key name fs))
      | _ => Ok container
      end
  | UInc =>
      match container with
      | VDoc fs =>
          let! s := py_add (match assoc name fs with Some x => x | None => VInt 0 end) arg in
          Ok (VDoc (set_key name s fs))
      | VArr xs =>
          match as_index name with
          | None => if part_modelled name then Err EValue else Err EUnmodelled
          | Some i =>
              let n := Z.to_nat i in
              match nth_error xs n with
              | Some x => let! s := py_iadd x arg in Ok (VArr (set_nth n s xs))
              | None => Ok (VArr (set_nth n arg (pad_to (S n) xs)))
              end
          end
      | _ => Ok container
      end
  | UMax =>
      match container with
      | VDoc fs =>
          let cur := match assoc name fs with Some x => x | None => arg end in
          (* max(cur, arg): arg if arg > cur else cur *)
          let! b := py_lt cur arg in
          Ok (VDoc (set_key name (if b then arg else cur) fs))
      | _ => Ok container
      end
  | UMin =>
      match container with
      | VDoc fs =>
          let cur := match assoc name fs with Some x => x | None => arg end in
          let! b := py_lt arg cur in
          Ok (VDoc (set_key name (if b then arg else cur) fs))
      | _ => Ok container
      end
  | UPop =>
      if negb (is_pop_arg arg) then Err EWrite else
      match container with
      | VDoc fs =>
          match assoc name fs with
          | None => Err EKey
          | Some (VArr xs) => Ok (VDoc (set_key name (VArr (pop_list xs arg)) fs))
          | Some _ => Err EWrite
          end
      | VArr xs =>
          match as_index name with
          | None => if part_modelled name then Err EValue else Err EUnmodelled
          | Some i =>
              match nth_error xs (Z.to_nat i) with
              | None => Ok container
              | Some (VArr ys) => Ok (VArr (set_nth (Z.to_nat i) (VArr (pop_list ys arg)) xs))
              | Some v => if truthy v then Err ECrash else Ok container   (* `if not list_instance: return` *)
              end
          end
      | _ => Ok container
      end
  | UCurrentDate =>
      match container with
      | VDoc fs =>
          if py_eq arg (VDoc [("$type", VStr "timestamp")]) then Err ENotImpl
          else Ok (VDoc (set_key name (VDate (floor1000 now) None) fs))
      | _ => Ok container
      end
  end.

(* _update_document_single_field: the path walk.  Returns the rebuilt document. *)
Fixpoint walk (u : updater) (now : Z) (parts : list string) (doc : value) (arg : value)
         {struct parts} : res value :=
  match parts with
  | [] => Ok doc
  | [last] => apply_updater u now doc last arg
  | p :: rest =>
      match doc with
      | VArr xs =>
          match as_index p with
          | Some i =>
              match nth_error xs (Z.to_nat i) with
              | Some sub => let! sub' := walk u now rest sub arg in
                            Ok (VArr (set_nth (Z.to_nat i) sub' xs))
              | None => Err ECrash                       (* IndexError *)
              end
          | None =>
              if negb (part_modelled p) || (p =? "$") then Err EUnmodelled
              else walk u now rest doc arg               (* ValueError swallowed: part skipped *)
          end
      | VDoc fs =>
          match assoc p fs with
          | None =>
              match u with
              | UUnset => Ok doc
              | _ => let! sub' := walk u now rest (VDoc []) arg in Ok (VDoc (set_key p sub' fs))
              end
          | Some sub => let! sub' := walk u now rest sub arg in Ok (VDoc (set_key p sub' fs))
          end
      | _ => Ok doc
      end
  end.

(* _update_document_fields(doc, v, updater): every (field, value) of the operator's operand *)
Fixpoint apply_fields (u : updater) (now : Z) (fields : list (string * value)) (doc : value)
  : res value :=
  match fields with
  | [] => Ok doc
  | (k, arg) :: fields' =>
      if existsb (fun c => Ascii.eqb c "$"%char) (list_ascii_of_string k) then Err EUnmodelled
      else
        let! doc' := walk u now (split_dots k) doc arg in
        apply_fields u now fields' doc'
  end.

(* _has_key *)
Fixpoint has_path (parts : list string) (doc : value) : res bool :=
  match parts with
  | [] => Ok true
  | p :: rest =>
      match doc with
      | VDoc fs => match assoc p fs with Some sub => has_path rest sub | None => Ok false end
      | _ => Err EUnmodelled
      end
  end.

Definition has_dot (s : string) : bool :=
  existsb (fun c => Ascii.eqb c "."%char) (list_ascii_of_string s).

(* Python `x in list` / `x not in list` used by $addToSet / $pullAll *)
Definition add_each (cur : list value) (news : list value) : list value :=
  (* cur += [obj for obj in each if obj not in cur] : the filter is evaluated against the
     list as it was before the extension *)
  cur ++ List.filter (fun o => negb (py_in o cur)) news.

(* nested $addToSet/$push/$pullAll targets: _get_subdocument without the positional
   operator.  Walks to the parent of the last component creating {} for missing dict keys and
   returns the rebuilt document given a function on the parent container.  The code walks the
   filter ("spec") alongside as long as it has the same keys (is_following_spec); [sub] is
   that sub-spec, None once it stopped following. *)
Definition spec_len (s : value) : res Z :=
  match s with
  | VDoc fs => Ok (Z.of_nat (List.length fs))
  | VArr xs => Ok (Z.of_nat (List.length xs))
  | VStr t => Ok (Z.of_nat (String.length t))
  | _ => Err ECrash
  end.

(* `subfield not in subspec` then `subspec = subspec[subfield]` for a str subfield *)
Definition follow_key (sub : option value) (p : string) : res (option value) :=
  match sub with
  | None => Ok None
  | Some (VDoc sfs) => Ok (assoc p sfs)          (* missing key: stop following *)
  | Some (VArr xs) => if py_in (VStr p) xs then Err ECrash else Ok None
  | Some (VStr t) => match String.index 0 p t with Some _ => Err ECrash | None => Ok None end
  | Some _ => Err ECrash                         (* `in` on None / a number: TypeError *)
  end.

Fixpoint with_parent_spec (parts : list string) (doc : value) (sub : option value)
         (f : value -> string -> res value) {struct parts} : res value :=
  match parts with
  | [] => Err EUnmodelled
  | p :: rest =>
      if p =? "$" then Err EUnmodelled else
      match doc with
      | VArr xs =>
          match as_index p with
          | None => if part_modelled p then Err EValue else Err EUnmodelled
          | Some i =>
              (* if is_following_spec and (i < 0 or i >= len(subspec)): stop following *)
              let! sub1 := match sub with
                           | None => Ok None
                           | Some s => let! n := spec_len s in
                                       if i <?? n then Ok (Some s) else Ok None
                           end in
              match rest with
              | [] => f doc p
              | _ =>
                  match nth_error xs (Z.to_nat i) with
                  | None => Err ECrash
                  | Some x =>
                      let! sub2 := match sub1 with
                                   | None => Ok None
                                   | Some (VArr ys) => Ok (nth_error ys (Z.to_nat i))
                                   | Some _ => Err EUnmodelled   (* dict[int] / str[int] *)
                                   end in
                      let! x' := with_parent_spec rest x sub2 f in
                      Ok (VArr (set_nth (Z.to_nat i) x' xs))
                  end
              end
          end
      | VDoc fs =>
          match rest with
          | [] => f doc p
          | _ =>
              let x := match assoc p fs with Some s => s | None => VDoc [] end in
              let! sub' := follow_key sub p in
              let! x' := with_parent_spec rest x sub' f in
              Ok (VDoc (set_key p x' fs))
          end
      | _ =>
          match rest with
          | [] => f doc p
          | _ => Err ECrash       (* `subfield not in parent_doc` on a scalar: TypeError *)
          end
      end
  end.

Definition with_parent (spec : value) (parts : list string) (doc : value)
           (f : value -> string -> res value) : res value :=
  with_parent_spec parts doc (Some spec) f.

Definition each_of (v : value) : option (list value) :=
  match v with
  | VDoc fs => match assoc "$each" fs with Some (VArr xs) => Some xs | _ => None end
  | _ => None
  end.
Definition has_each (v : value) : bool :=
  match v with VDoc fs => has_key "$each" fs | _ => false end.

(* insertion sort by a fallible "less than" (stable); used by $push $sort and by find() *)
Fixpoint insert_by {A} (lt : A -> A -> res bool) (x : A) (l : list A) : res (list A) :=
  match l with
  | [] => Ok [x]
  | y :: l' =>
      (* x comes from an earlier position than every element of l: it goes past y only
         when y is strictly smaller (stability) *)
      let! b := lt y x in
      if b then let! r := insert_by lt x l' in Ok (y :: r) else Ok (x :: l)
  end.
Fixpoint sort_by {A} (lt : A -> A -> res bool) (l : list A) : res (list A) :=
  match l with
  | [] => Ok []
  | x :: l' => let! s := sort_by lt l' in insert_by lt x s
  end.
(* sorted(l, key, reverse): stable; reverse keeps the original order of equal elements *)
Definition py_sorted {A} (lt : A -> A -> res bool) (reverse : bool) (l : list A) : res (list A) :=
  if reverse then let! s := sort_by lt (rev l) in Ok (rev s) else sort_by lt l.

Definition slice_py (xs : list value) (start stop : option Z) : list value :=
  (* xs[start:stop] for the cases the code uses *)
  let n := Z.of_nat (List.length xs) in
  let norm (i : Z) := if i <?? 0 then Z.max 0 (n + i) else Z.min i n in
  let s := match start with Some i => norm i | None => 0 end in
  let e := match stop with Some i => norm i | None => n end in
  firstn (Z.to_nat (e - s)) (skipn (Z.to_nat s) xs).

Definition as_int (v : value) : option Z :=
  match v with VInt z => Some z | VBool b => Some (if b then 1 else 0) | _ => None end.

(* the $push branch for one (field, value) *)
Definition push_one (spec : value) (doc : value) (field : string) (arg : value) : res value :=
  with_parent spec (split_dots field) doc (fun parent last =>
    let cur_r : res (list value) :=
      match parent with
      | VDoc fs => match assoc last fs with
                   | None => Ok []
                   | Some (VArr xs) => Ok xs
                   | Some _ => Err ECrash
                   end
      | VArr xs =>
          match as_index last with
          | Some i => match nth_error xs (Z.to_nat i) with
                      | Some (VArr ys) => Ok ys
                      | Some _ => Err ECrash
                      | None => Err ECrash
                      end
          | None => Err EUnmodelled
          end
      | _ => Err ECrash
      end in
    let! cur := cur_r in
    let! result :=
      match arg with
      | VDoc mods =>
          if has_key "$each" mods then
            match assoc "$each" mods with
            | Some (VArr each) =>
                let! r1 := match assoc "$position" mods with
                           | Some p => match as_int p with
                                       | Some i => Ok (slice_py cur None (Some i) ++ each ++ slice_py cur (Some i) None)
                                       | None => Err EUnmodelled
                                       end
                           | None => Ok (cur ++ each)
                           end in
                let! r2 := match assoc "$sort" mods with
                           | None => Ok r1
                           | Some (VDoc [(k, dir)]) =>
                               match as_int dir with
                               | Some dz =>
                                   py_sorted (fun a b =>
                                     match get_by_dot (split_dots k) a, get_by_dot (split_dots k) b with
                                     | Some x, Some y => py_lt x y
                                     | _, _ => Err EKey
                                     end) (dz <?? 0) r1
                               | None => Err EUnmodelled
                               end
                           | Some (VDoc _) => Err EUnmodelled
                           | Some dir =>
                               match as_int dir with
                               | Some dz => py_sorted py_lt (dz <?? 0) r1
                               | None => Err EUnmodelled
                               end
                           end in
                let! r3 := match assoc "$slice" mods with
                           | None => Ok r2
                           | Some s => match as_int s with
                                       | Some z => if z <?? 0 then Ok (slice_py r2 (Some z) None)
                                                   else if z =?? 0 then Ok []
                                                   else Ok (slice_py r2 None (Some z))
                                       | None => Err EUnmodelled
                                       end
                           end in
                if forallb (fun kv => mem_str (fst kv) ["$each"; "$slice"; "$position"; "$sort"]) mods
                then Ok r3 else Err EWrite
            | _ => Err EUnmodelled
            end
          else Ok (cur ++ [arg])
      | _ => Ok (cur ++ [arg])
      end in
    match parent with
    | VDoc fs => Ok (VDoc (set_key last (VArr result) fs))
    | VArr xs => match as_index last with
                 | Some i => Ok (VArr (set_nth (Z.to_nat i) (VArr result) xs))
                 | None => Err EUnmodelled
                 end
    | _ => Err ECrash
    end).

(* $addToSet on a dotted field first creates the intermediate sub-documents with
   `if field_part not in subdocument: subdocument[field_part] = {}`, which raises TypeError as
   soon as an intermediate value is not a dict *)
Fixpoint with_parent_d (parts : list string) (doc : value)
         (f : value -> string -> res value) {struct parts} : res value :=
  match parts with
  | [] => Err EUnmodelled
  | [last] => f doc last
  | p :: rest =>
      if p =? "$" then Err EUnmodelled else
      match doc with
      | VDoc fs =>
          let sub := match assoc p fs with Some s => s | None => VDoc [] end in
          let! sub' := with_parent_d rest sub f in
          Ok (VDoc (set_key p sub' fs))
      | VStr _ => Err EUnmodelled
      | _ => Err ECrash
      end
  end.

(* the $addToSet branch for one (field, value) *)
Definition add_to_set_one (spec : value) (doc : value) (field : string) (arg : value) : res value :=
  let parts := split_dots field in
  let upd (cur : list value) : list value :=
    match each_of arg with
    | Some each => add_each cur each
    | None => if py_in arg cur then cur else cur ++ [arg]
    end in
  if has_each arg && match each_of arg with None => true | _ => false end then Err EUnmodelled else
  match parts with
  | [name] =>
      match doc with
      | VDoc fs =>
          match assoc name fs with
          | None => Ok (VDoc (set_key name (VArr (upd [])) fs))
          | Some (VArr xs) => Ok (VDoc (set_key name (VArr (upd xs)) fs))
          | Some (VStr _) | Some (VDoc _) => Err EUnmodelled   (* `in` = substring / key test *)
          | Some _ => Err ECrash
          end
      | _ => Err ECrash
      end
  | _ =>
      (* first the creation loop over dicts only, then _get_subdocument following the spec *)
      let! _ := with_parent_d parts doc (fun parent _ => Ok parent) in
      with_parent spec parts doc (fun parent last =>
        match parent with
        | VDoc fs =>
            match assoc last fs with
            | None => Ok (VDoc (set_key last (VArr (upd [])) fs))
            | Some (VArr xs) => Ok (VDoc (set_key last (VArr (upd xs)) fs))
            | Some (VStr _) | Some (VDoc _) => Err EUnmodelled
            | Some _ => Err ECrash
            end
        | _ => Err EUnmodelled
        end)
  end.

(* the $pullAll branch *)
Definition pull_all_one (spec : value) (doc : value) (field : string) (arg : value) : res value :=
  match arg with
  | VArr vals =>
      let keep (xs : list value) := List.filter (fun o => negb (py_in o vals)) xs in
      match split_dots field with
      | [name] =>
          match doc with
          | VDoc fs =>
              match assoc name fs with
              | None => Ok doc
              | Some (VArr xs) => Ok (VDoc (set_key name (VArr (keep xs)) fs))
              | Some _ => Err EUnmodelled
              end
          | _ => Err ECrash
          end
      | parts =>
          with_parent spec parts doc (fun parent last =>
            match parent with
            | VDoc fs =>
                match assoc last fs with
                | None => Ok parent
                | Some (VArr xs) => Ok (VDoc (set_key last (VArr (keep xs)) fs))
                | Some _ => Err EUnmodelled
                end
            | _ => Err EUnmodelled
            end)
      end
  | _ => Err EUnmodelled
  end.

(* the $pull branch (no positional operator): walk while the key exists; the target must be
   a list, otherwise nothing happens *)
Fixpoint pull_walk (parts : list string) (doc : value) (f : list value -> res (list value))
         {struct parts} : res value :=
  match parts with
  | [] => match doc with
          | VArr xs => let! ys := f xs in Ok (VArr ys)
          | _ => Ok doc
          end
  | p :: rest =>
      match doc with
      | VDoc fs =>
          match assoc p fs with
          | Some sub => let! sub' := pull_walk rest sub f in Ok (VDoc (set_key p sub' fs))
          | None => Ok doc        (* break: arr stays at this dict: not a list -> continue *)
          end
      | VArr _ => Err EUnmodelled (* `field_part not in arr` on a list compares values *)
      | VStr str =>                 (* `field_part not in arr` on a str is a substring test *)
          match String.index 0 p str with
          | None => Ok doc
          | Some _ => Err ECrash
          end
      | _ => Err ECrash
      end
  end.

Definition pull_one (doc : value) (field : string) (arg : value) : res value :=
  pull_walk (split_dots field) doc (fun xs =>
    match arg with
    | VDoc _ =>
        (* for obj in copy: remove if filter_applies(value, obj) (OperationFailure -> no)
           else if filter_applies({'field': value}, {'field': obj}) *)
        (fix go (xs : list value) : res (list value) :=
           match xs with
           | [] => Ok []
           | x :: xs' =>
               let! m1 := match filter_applies arg x with
                          | Ok b => Ok b
                          | Err EOpFail => Ok false
                          | Err e => Err e
                          end in
               let! m := if m1 then Ok true
                         else filter_applies (VDoc [("field", arg)]) (VDoc [("field", x)]) in
               let! r := go xs' in
               Ok (if m then r else x :: r)
           end) xs
    | _ => Ok (List.filter (fun o => negb (py_eq arg o)) xs)
    end).

Fixpoint fold_fields (f : value -> string -> value -> res value) (fields : list (string * value))
         (doc : value) : res value :=
  match fields with
  | [] => Ok doc
  | (k, a) :: fields' => let! d := f doc k a in fold_fields f fields' d
  end.

Definition updater_of (k : string) : option updater :=
  if k =? "$set" then Some USet else if k =? "$unset" then Some UUnset
  else if k =? "$inc" then Some UInc else if k =? "$max" then Some UMax
  else if k =? "$min" then Some UMin else if k =? "$pop" then Some UPop else None.

Definition fields_of (v : value) : res (list (string * value)) :=
  match v with VDoc fs => Ok fs | _ => Err ECrash end.

(* One top-level key of the update document applied to the working copy.
   Returns (document, stop) where stop = the replacement branch ran (`break`). *)
Definition apply_update_key (spec : value) (update : list (string * value)) (was_insert : bool)
           (now : Z) (first : bool) (k : string) (v : value) (doc : value)
  : res (value * bool) :=
  match updater_of k with
  | Some u => let! fs := fields_of v in let! d := apply_fields u now fs doc in Ok (d, false)
  | None =>
      if k =? "$rename" then
        let! fs := fields_of v in
        let! d := fold_fields (fun d src dstv =>
                    match dstv with
                    | VStr dst =>
                        if has_dot src || has_dot dst then Err ENotImpl
                        else match d with
                             | VDoc dfs =>
                                 match assoc src dfs with
                                 | Some x => Ok (VDoc (set_key dst x (del_key src dfs)))
                                 | None => Ok d
                                 end
                             | _ => Err ECrash
                             end
                    | _ => Err EUnmodelled
                    end) fs doc in
        Ok (d, false)
      else if k =? "$setOnInsert" then
        if was_insert then
          let! fs := fields_of v in let! d := apply_fields USet now fs doc in Ok (d, false)
        else Ok (doc, false)
      else if k =? "$currentDate" then
        let! fs := fields_of v in let! d := apply_fields UCurrentDate now fs doc in Ok (d, false)
      else if k =? "$addToSet" then
        let! fs := fields_of v in let! d := fold_fields (add_to_set_one spec) fs doc in Ok (d, false)
      else if k =? "$pull" then
        let! fs := fields_of v in
        if existsb (fun kv => mem_str "$" (split_dots (fst kv))) fs then Err EUnmodelled else
        let! d := fold_fields pull_one fs doc in Ok (d, false)
      else if k =? "$pullAll" then
        let! fs := fields_of v in let! d := fold_fields (pull_all_one spec) fs doc in Ok (d, false)
      else if k =? "$push" then
        let! fs := fields_of v in let! d := fold_fields (push_one spec) fs doc in Ok (d, false)
      else if first then
        (* replacement *)
        if existsb (fun kv => starts_dollar (fst kv)) update then Err EValue else
        (* the _id of the document being replaced (for an upsert: of the seed built from the
           filter, operator conditions discarded); the filter itself is not consulted *)
        let id := match doc with
                  | VDoc dfs => match assoc "_id" dfs with
                                | Some i => if is_null i then None else Some i
                                | None => None
                                end
                  | _ => None
                  end in
        let base := match id with
                    | Some i => [("_id", i)]
                    | None => []
                    end in
        let merged := fold_left (fun acc kv => set_key (fst kv) (snd kv) acc) update base in
        match id with
        | Some i =>
            match assoc "_id" merged with
            | Some now_id => if py_eq now_id i then Ok (VDoc merged, true) else Err EOpFail
            | None => Err EKey
            end
        | None => Ok (VDoc merged, true)
        end
      else Err EValue
  end.

(* the `for k, v in document.items()` loop over the working copy *)
Fixpoint apply_update_keys (spec : value) (update : list (string * value)) (was_insert : bool)
         (now : Z) (first : bool) (todo : list (string * value)) (doc : value) : res value :=
  match todo with
  | [] => Ok doc
  | (k, v) :: todo' =>
      let! r := apply_update_key spec update was_insert now first k v doc in
      let '(d, stop) := r in
      if stop then Ok d else apply_update_keys spec update was_insert now false todo' d
  end.

(* all operators of one update/replacement document applied to one (copied) document *)
Definition apply_update (spec update : value) (was_insert : bool) (now : Z) (doc : value)
  : res value :=
  match update with
  | VDoc [] =>
      (* `if not document:` empty update: keep only the _id (when not None) *)
      let id := match doc with VDoc dfs => assoc "_id" dfs | _ => None end in
      Ok (VDoc (match id with Some i => if is_null i then [] else [("_id", i)] | None => [] end))
  | VDoc ufs => apply_update_keys spec ufs was_insert now true ufs doc
  | _ => Err EType
  end.
