(* C20: what happens to an operator name at each syntactic position, assembled from the
   tables generated from the source (Gen/Tables.v).  Definitions only. *)
From Coq Require Import List String Bool ZArith.
From Verif Require Import Value Filter.
From Verif.Gen Require Import Tables.
Import ListNotations.
Open Scope string_scope.

Inductive disp :=
| Handled                  (* the code has an explicit branch implementing it *)
| RaisesNotImplemented     (* NotImplementedError *)
| RaisesServerError        (* OperationFailure / WriteError / ValueError: what a server would say *)
| NotAnOperator.           (* taken as a plain field name / ignored: only legitimate for non-$ names *)

Inductive position :=
| PQueryTop | PQueryField | PTypeAlias | PUpdateOp | PPushModifier | PProjectionOp
| PStage | PExpr | PAccumulator.

Fixpoint find_row (name : string) (rows : list (list string * list string))
  : option (list string * list string) :=
  match rows with
  | [] => None
  | r :: rows' => if mem_str name (fst r) then Some r else find_row name rows'
  end.

Definition dispatch (p : position) (name : string) : disp :=
  match p with
  | PQueryTop =>
      if (name =? "$comment") || mem_str name q_logical || (name =? "$expr") then Handled
      else if mem_str name q_top_level_not_implemented then RaisesNotImplemented
      else if starts_dollar name then RaisesServerError
      else NotAnOperator
  | PQueryField =>
      (* an operator dict on a path that has at least one candidate *)
      if mem_str name q_operator_map || (name =? "$not") || (name =? "$options") then Handled
      else if mem_str name q_not_implemented then RaisesNotImplemented
      else RaisesServerError
  | PTypeAlias =>
      if mem_str name q_type_implemented then Handled
      else if mem_str name q_type_not_implemented then RaisesNotImplemented
      else RaisesServerError
  | PUpdateOp =>
      if mem_str name upd_updaters || mem_str name upd_branches then Handled
      else RaisesServerError
  | PPushModifier => if mem_str name push_modifiers then Handled else RaisesServerError
  | PProjectionOp => if mem_str name projection_operators then Handled else RaisesServerError
  | PStage =>
      if mem_str name stage_implemented then Handled else RaisesNotImplemented
  | PExpr =>
      match find_row name expr_chain with
      | Some r => if mem_str name (snd r) then Handled else RaisesNotImplemented
      | None =>
          if mem_str name expr_fallthrough_not_implemented then RaisesNotImplemented
          else if starts_dollar name then RaisesServerError
          else NotAnOperator
      end
  | PAccumulator => if mem_str name acc_implemented then Handled else RaisesNotImplemented
  end.

Definition disp_code (d : disp) : Z :=
  match d with Handled => 0 | RaisesNotImplemented => 1 | RaisesServerError => 2 | NotAnOperator => 3 end.

(* options: every (method, option) must be guarded, except the listed known findings *)
Definition known_unguarded (m o : string) : bool :=
  ((m =? "find") && ((o =? "session") || (o =? "collation"))).

Definition options_ok : bool :=
  forallb (fun mog => match mog with (m, o, g) => g || known_unguarded m o end) option_guards.

(* harness glue: (position code, name, observed class) -> 0 agree / 1 disagree.
   observed: 0 no exception, 1 NotImplementedError, 2 another exception *)
Definition position_of (z : Z) : position :=
  match z with
  | 0%Z => PQueryTop | 1%Z => PQueryField | 2%Z => PTypeAlias | 3%Z => PUpdateOp
  | 4%Z => PPushModifier | 5%Z => PProjectionOp | 6%Z => PStage | 7%Z => PExpr
  | _ => PAccumulator
  end.

Record c20_case := mkC20 { v_pos : Z; v_name : string; v_obs : Z }.

(* position 9: v_name = "method.option"; the option is passed with a truthy value and no
   ignore_feature: the generated table says whether a guard raises *)
Definition option_guard_of (mo : string) : option bool :=
  (fix go (l : list (string * string * bool)) : option bool :=
     match l with
     | [] => None
     | (m, o, g) :: l' => if (m ++ "." ++ o) =? mo then Some g else go l'
     end) option_guards.

Definition c20_check (c : c20_case) : Z :=
  if Z.eqb (v_pos c) 9 then
    match option_guard_of (v_name c) with
    | Some g => ((if Bool.eqb g (Z.eqb (v_obs c) 1) then 0 else 1) + (if Z.eqb (v_obs c) 1 then 0 else 2)
                 + (if g then 0 else 4 + 256))%Z     (* reason 1: F-OPT-SILENT, a listed unguarded option *)
    | None => 8%Z
    end
  else
  let d := dispatch (position_of (v_pos c)) (v_name c) in
  let agree :=
    match d, v_obs c with
    | Handled, _ => true                     (* implemented: may still reject the probe's operand,
                                                or need a library that is absent (NotImplementedError) *)
    (* not handled: the call must be loud; which exception class is raised first can depend
       on the probe's operand (operand validation may precede the dispatch) *)
    | RaisesNotImplemented, 0%Z | RaisesServerError, 0%Z => false
    | RaisesNotImplemented, _ | RaisesServerError, _ => true
    | NotAnOperator, 0%Z => true
    | NotAnOperator, _ => false
    end in
  ((if agree then 0 else 1) +
   (* the property itself: a $-name the code does not handle must raise *)
   (if starts_dollar (v_name c) && Z.eqb (v_obs c) 0
       && match d with Handled => false | _ => true end then 2 else 0))%Z.
