(* Model of Collection.aggregate as an operation on the whole database: what it returns
   and what it leaves behind.  Definitions only.
   world = the documents of every collection of the database (name -> documents in natural
   order).  Without $out the world is returned unchanged - aggregate works on the copies
   find() hands out; a final {$out: name} replaces the documents of the target. *)
From Coq Require Import ZArith List String Bool Ascii.
From Verif Require Import Value PyEq BsonOrder Path Update Filter Coll Expr Pipeline.
Import ListNotations.
Open Scope Z_scope.
Open Scope string_scope.
Open Scope list_scope.

Definition world := list (string * list value).

Definition coll_docs (w : world) (n : string) : list value :=
  match assoc n w with Some ds => ds | None => [] end.

Definition split_out (stages : list value) : list value * option value :=
  match rev stages with
  | VDoc [("$out", t)] :: r => (rev r, Some t)
  | _ => (stages, None)
  end.

(* insert_many(docs) into an emptied-or-existing target: ordered, stops at the first
   duplicate _id (BulkWriteError), what was inserted before stays *)
Fixpoint insert_all (target : list value) (docs : list value) : list value * res unit :=
  match docs with
  | [] => (target, Ok tt)
  | d :: docs' =>
      match d with
      | VDoc fs =>
          match assoc "_id" fs with
          | None => (target, Err EUnmodelled)                 (* a fresh ObjectId *)
          | Some i =>
              if negb (id_modelled i) then (target, Err EUnmodelled)
              else if existsb (fun t => match t with
                                        | VDoc tfs => match assoc "_id" tfs with
                                                      | Some j => py_eq (patch i) j | None => false end
                                        | _ => false end) target
              then (target, Err EBulk)
              else insert_all (target ++ [patch d]) docs'
          end
      | _ => (target, Err EUnmodelled)
      end
  end.

(* Collection(src).aggregate(pipeline): the new world and the documents returned *)
Definition agg_world (w : world) (src : string) (pipeline : value) : world * res (list value) :=
  match pipeline with
  | VArr stages =>
      let (body, out) := split_out stages in
      match out with
      | None => (w, run_pipeline w body (coll_docs w src))
      | Some (VStr t) =>
          match run_pipeline w body (coll_docs w src) with
          | Err e => (w, Err e)
          | Ok outdocs =>
              (* if out_collection.find_one(): drop();  if in_collection: insert_many *)
              let (stored, r) := insert_all [] outdocs in
              (set_key t stored w, match r with Ok _ => Ok outdocs | Err e => Err e end)
          end
      | Some _ => (w, Err EUnmodelled)
      end
  | _ => (w, Err EUnmodelled)
  end.

(* two runs in a row *)
Definition agg_twice (w : world) (src : string) (pipeline : value)
  : (world * res (list value)) * (world * res (list value)) :=
  let r1 := agg_world w src pipeline in
  (r1, agg_world (fst r1) src pipeline).
