(* Model of mongomock/filtering.py: _Filterer.apply and its operator table.
   A raw filter (a value) is parsed into an AST by [parse_filter] (total, no errors: the
   code detects malformed parts lazily, so malformed parts become AST nodes that raise when
   reached), and [matches] transliterates apply() on the AST.  Definitions only. *)
From Coq Require Import ZArith List String Bool Ascii.
From Verif Require Import Value PyEq BsonOrder Path.
Import ListNotations.
Open Scope Z_scope.
Open Scope string_scope.

Inductive logic := LAnd | LOr | LNor.

(* explicit list types keep the mutual block free of nested inductives, so that
   Scheme can generate a usable mutual induction principle *)
Inductive fop : Type :=
| OEq (v : value) | ONe (v : value)
| OCmp (op : cmpop) (v : value)
| OIn (v : value) | ONin (v : value)
| OExists (v : value)
| OType (v : value)
| OSize (v : value)
| OAll (arg : allarg)
| OElemMatch (q : emq)
| ONot (badkeys : bool) (s : search)
| OUnknown (notimpl : bool)        (* not in _operator_map; notimpl: in _NOT_IMPLEMENTED_OPERATORS *)
| OUnmodelled                      (* $regex / $options *)
with fops : Type := FNil | FCons (o : fop) (os : fops)
with search : Type :=
| SVal (v : value)                 (* literal (implicit equality) *)
| SOps (os : fops)                 (* non-empty dict whose keys all start with '$' *)
| SMixed                           (* dict mixing '$' and plain keys, or other unmodelled operand *)
with emq : Type :=
| EmBad                            (* $elemMatch operand is not a dict *)
| EmQ (f : filter) (s : search)    (* the same dict read as a filter and as a search *)
with allarg : Type :=
| AllBad                           (* $all operand is not a list *)
| AllItems (items : allitems)
with allitems : Type := ANil | ACons (i : allitem) (is : allitems)
with allitem : Type := AVal (v : value) | AElem (q : emq)
with clause : Type :=
| CComment
| CLogic (k : logic) (falsy : bool) (arg : largs)
| CField (key : string) (s : search)
| CTopNotImpl                      (* $text $where $jsonSchema *)
| CTopUnknown                      (* other key starting with '$' *)
| CUnmodelled                      (* $expr (see Expr model), top-level $not, empty key *)
with largs : Type :=
| LBad                             (* operand is not a list *)
| LNil
| LCons (q : lq) (qs : largs)
with lq : Type := LqBad (* element is not a dict *) | LqF (f : filter)
with filter : Type := FEnd | FAnd (c : clause) (f : filter).

(* ------------------------------------------------------------------ parsing *)
Definition starts_dollar (s : string) : bool :=
  match s with String c _ => Ascii.eqb c "$"%char | EmptyString => false end.

Definition operator_names : list string :=
  ["$eq"; "$ne"; "$all"; "$in"; "$nin"; "$exists"; "$regex"; "$elemMatch"; "$size"; "$type";
   "$gt"; "$gte"; "$lt"; "$lte"].
Definition logical_names : list string := ["$or"; "$and"; "$nor"; "$not"].
Definition top_level_names : list string := ["$expr"; "$text"; "$where"; "$jsonSchema"].
Definition not_implemented_names : list string :=
  ["$bitsAllClear"; "$bitsAllSet"; "$bitsAnyClear"; "$bitsAnySet"; "$geoIntersects";
   "$geoWithin"; "$maxDistance"; "$minDistance"; "$near"; "$nearSphere"].

Definition is_ops_dict (fs : list (string * value)) : bool :=
  match fs with [] => false | _ => forallb (fun kv => starts_dollar (fst kv)) fs end.
Definition any_dollar (fs : list (string * value)) : bool :=
  existsb (fun kv => starts_dollar (fst kv)) fs.

(* The parser is one pair of mutually recursive functions over the raw value; the per-key
   pieces take the recursive functions as arguments so that every recursive call is on a
   strict subterm (the operand of a key of the dict being parsed). *)
Definition parse_emq_with (ps : value -> search) (pf : value -> filter) (a : value) : emq :=
  match a with
  | VDoc _ => EmQ (pf a) (ps a)
  | _ => EmBad
  end.

Definition parse_op_with (ps : value -> search) (pf : value -> filter) (k : string) (a : value)
  : fop :=
  if k =? "$eq" then OEq a
  else if k =? "$ne" then ONe a
  else if k =? "$gt" then OCmp OpGt a
  else if k =? "$gte" then OCmp OpGe a
  else if k =? "$lt" then OCmp OpLt a
  else if k =? "$lte" then OCmp OpLe a
  else if k =? "$in" then OIn a
  else if k =? "$nin" then ONin a
  else if k =? "$exists" then OExists a
  else if k =? "$type" then OType a
  else if k =? "$size" then OSize a
  else if k =? "$all" then
    OAll (match a with
          | VArr xs =>
              AllItems ((fix go (xs : list value) : allitems :=
                           match xs with
                           | [] => ANil
                           | x :: xs' =>
                               ACons (match x with
                                      | VDoc gs =>
                                          (fix find (gs : list (string * value)) : allitem :=
                                             match gs with
                                             | [] => AVal x
                                             | (k', q) :: gs' =>
                                                 if k' =? "$elemMatch"
                                                 then AElem (parse_emq_with ps pf q)
                                                 else find gs'
                                             end) gs
                                      | _ => AVal x
                                      end) (go xs')
                           end) xs)
          | _ => AllBad
          end)
  else if k =? "$elemMatch" then OElemMatch (parse_emq_with ps pf a)
  else if k =? "$not" then
    match a with
    | VDoc gs =>
        ONot (existsb (fun kv => negb (mem_str (fst kv) operator_names
                                       || mem_str (fst kv) logical_names)) gs)
             (ps a)
    | _ => ONot true (SVal a)
    end
  else if (k =? "$regex") || (k =? "$options") then OUnmodelled
  else OUnknown (mem_str k not_implemented_names).

Definition parse_clause_with (ps : value -> search) (pf : value -> filter) (k : string)
           (a : value) : clause :=
  if k =? "$comment" then CComment
  else if (k =? "$and") || (k =? "$or") || (k =? "$nor") then
    CLogic (if k =? "$and" then LAnd else if k =? "$or" then LOr else LNor)
           (negb (truthy a))
           (match a with
            | VArr xs =>
                (fix go (xs : list value) : largs :=
                   match xs with
                   | [] => LNil
                   | x :: xs' =>
                       LCons (match x with VDoc _ => LqF (pf x) | _ => LqBad end) (go xs')
                   end) xs
            | _ => LBad
            end)
  else if (k =? "$not") || (k =? "$expr") || (k =? "") then CUnmodelled
  else if mem_str k top_level_names then CTopNotImpl
  else if starts_dollar k then CTopUnknown
  else CField k (ps a).

Fixpoint parse_search (v : value) {struct v} : search :=
  match v with
  | VDoc fs =>
      if is_ops_dict fs then
        SOps ((fix go (fs : list (string * value)) : fops :=
                 match fs with
                 | [] => FNil
                 | (k, a) :: fs' => FCons (parse_op_with parse_search parse_filter k a) (go fs')
                 end) fs)
      else if any_dollar fs then SMixed
      else SVal v
  | _ => SVal v
  end
with parse_filter (v : value) {struct v} : filter :=
  match v with
  | VDoc fs =>
      (fix go (fs : list (string * value)) : filter :=
         match fs with
         | [] => FEnd
         | (k, a) :: fs' => FAnd (parse_clause_with parse_search parse_filter k a) (go fs')
         end) fs
  | _ => FAnd CUnmodelled FEnd
  end.

(* ------------------------------------------------------------------ operators *)
Definition operator_eq (dv : lookup) (sv : value) : bool :=
  match dv with
  | None => is_null sv
  | Some v => py_eq v sv
  end.

(* _list_expand(f, negative) *)
Definition list_expand (negative : bool) (f : lookup -> value -> res bool)
           (dv : lookup) (sv : value) : res bool :=
  match dv with
  | Some (VArr xs) =>
      if is_arr sv then f dv sv
      else
        (fix go (xs : list value) : res bool :=
           match xs with
           | [] => Ok negative
           | x :: xs' =>
               let! b := f (Some x) sv in
               if negative then (if b then go xs' else Ok false)
               else (if b then Ok true else go xs')
           end) xs
  | _ => f dv sv
  end.

Definition force_list (dv : lookup) : list lookup :=
  match dv with
  | Some (VArr xs) => map Some xs
  | _ => [dv]
  end.

Definition lookup_in (x : lookup) (l : list value) : bool :=
  match x with Some v => py_in v l | None => false end.

(* _in_op without regexes *)
Definition in_op (dv : lookup) (sv : value) : res bool :=
  match sv with
  | VArr l =>
      match dv with
      | None => if existsb is_null l then Ok true else Ok false
      | _ => Ok (existsb (fun x => lookup_in x l) (force_list dv))
      end
  | _ => Err EOpFail
  end.

(* _size_op: `search_val == 1 if doc_val and doc_val is not NOTHING else 0` for non-containers *)
Definition size_op (dv : lookup) (sv : value) : bool :=
  match dv with
  | Some (VArr xs) => py_eq sv (VInt (Z.of_nat (List.length xs)))
  | Some (VDoc fs) => py_eq sv (VInt (Z.of_nat (List.length fs)))
  | Some v => truthy v && py_eq sv (VInt 1)
  | None => false
  end.

Definition bit_length_le32 (z : Z) : bool := (Z.abs z <? 4294967296)%Z.

(* TYPE_MAP: Some predicate, or None for "valid but not implemented" *)
Definition type_pred (name : string) : option (option (value -> bool)) :=
  if name =? "double" then Some (Some (fun v => match v with VDbl _ => true | _ => false end))
  else if name =? "string" then Some (Some is_str)
  else if name =? "object" then Some (Some is_doc)
  else if name =? "array" then Some (Some is_arr)
  else if name =? "binData" then Some (Some (fun _ => false))
  else if name =? "objectId" then Some (Some (fun v => match v with VOid _ => true | _ => false end))
  else if name =? "bool" then Some (Some (fun v => match v with VBool _ => true | _ => false end))
  else if name =? "date" then Some (Some (fun v => match v with VDate _ _ => true | _ => false end))
  else if name =? "int" then
    Some (Some (fun v => match v with VInt z => bit_length_le32 z | _ => false end))
  else if name =? "long" then
    Some (Some (fun v => match v with VInt z => negb (bit_length_le32 z) | _ => false end))
  else if name =? "number" then
    Some (Some (fun v => match v with VInt _ | VDbl _ => true | _ => false end))
  else if mem_str name ["undefined"; "null"; "regex"; "dbPointer"; "javascript"; "symbol";
                        "javascriptWithScope"; "timestamp"; "decimal"; "minKey"; "maxKey"]
  then Some None
  else None.

Definition type_op (dv : lookup) (sv : value) : res bool :=
  match sv with
  | VStr name =>
      match type_pred name with
      | None => Err EOpFail
      | Some None => Err ENotImpl
      | Some (Some p) =>
          match dv with
          | None => Ok false
          | Some v =>
              if p v then Ok true
              else match v with
                   | VArr xs => Ok (existsb p xs)
                   | _ => Ok false
                   end
          end
      end
  | VArr _ | VDoc _ => Err EType       (* unhashable operand in `search_val not in TYPE_MAP` *)
  | _ => Err EOpFail
  end.

Definition cmp_op (op : cmpop) (dv : lookup) (sv : value) : res bool :=
  match dv with
  | None => Ok false                                   (* _not_nothing_and *)
  | Some _ =>
      list_expand false
        (fun d s => match d with
                    | Some v => bson_compare op v s false
                    | None => Ok false
                    end) dv sv
  end.

Definition eq_op (dv : lookup) (sv : value) : res bool :=
  list_expand false (fun d s => Ok (operator_eq d s)) dv sv.
Definition ne_op (dv : lookup) (sv : value) : res bool :=
  list_expand true (fun d s => Ok (negb (operator_eq d s))) dv sv.

(* bool(sv) == (dv is not NOTHING) *)
Definition exists_op (dv : lookup) (sv : value) : bool :=
  Bool.eqb (truthy sv) (match dv with Some _ => true | None => false end).

Definition fops_has_neg : fops -> bool :=
  fix go os := match os with
               | FNil => false
               | FCons (ONe _) _ | FCons (ONin _) _ => true
               | FCons _ os' => go os'
               end.
Definition fops_has_pos : fops -> bool :=
  fix go os := match os with
               | FNil => false
               | FCons (ONe _) os' | FCons (ONin _) os' => go os'
               | FCons _ _ => true
               end.
Fixpoint fops_len (os : fops) : nat :=
  match os with FNil => O | FCons _ os' => S (fops_len os') end.

(* first unknown operator decides the exception: NotImplementedError if any unknown one is in
   the not-implemented set, OperationFailure otherwise *)
Definition fops_unknown : fops -> option err :=
  fix go os :=
    match os with
    | FNil => None
    | FCons (OUnknown ni) os' =>
        match go os' with
        | Some ENotImpl => Some ENotImpl
        | _ => Some (if ni then ENotImpl else EOpFail)
        end
    | FCons _ os' => go os'
    end.

Definition search_neg (s : search) : bool :=
  match s with
  | SOps os => fops_has_neg os
  | SVal (VDoc fs) => has_key "$ne" fs || has_key "$nin" fs
  | _ => false
  end.
Definition search_pos (s : search) : bool :=
  match s with
  | SOps os => fops_has_pos os
  | SVal (VDoc fs) =>
      existsb (fun kv => negb ((fst kv =? "$ne") || (fst kv =? "$nin"))) fs
  | _ => true
  end.

(* search == {'$exists': False} *)
Definition is_exists_false (s : search) : bool :=
  match s with
  | SOps (FCons (OExists v) FNil) => py_eq v (VBool false)
  | _ => false
  end.

Definition fops_all : fops -> option allarg :=
  fix go os := match os with
               | FNil => None
               | FCons (OAll a) _ => Some a
               | FCons _ os' => go os'
               end.

Inductive loop_out := LoopReturnFalse | LoopEnd (is_match has_cand : bool).

Definition all_lists (C : list lookup) : bool :=
  forallb (fun c => match c with Some (VArr _) => true | _ => false end) C.
Definition concat_lists (C : list lookup) : list lookup :=
  flat_map (fun c => match c with Some (VArr xs) => map Some xs | _ => [] end) C.

(* ------------------------------------------------------------------ evaluation *)
Fixpoint matches (f : filter) (d : value) {struct f} : res bool :=
  match f with
  | FEnd => Ok true
  | FAnd c f' =>
      let! b := eval_clause c d in
      if b then matches f' d else Ok false
  end

with eval_clause (c : clause) (d : value) {struct c} : res bool :=
  match c with
  | CComment => Ok true
  | CLogic k falsy arg =>
      if falsy then Err EOpFail
      else eval_largs k arg d
  | CField key s => eval_field key s d
  | CTopNotImpl => Err ENotImpl
  | CTopUnknown => Err EOpFail
  | CUnmodelled => Err EUnmodelled
  end

with eval_largs (k : logic) (a : largs) (d : value) {struct a} : res bool :=
  match a with
  | LBad => Err EUnmodelled
  | LNil => Ok (match k with LOr => false | _ => true end)
  | LCons q qs =>
      let! b := match q with LqBad => Err EOpFail | LqF f => matches f d end in
      match k with
      | LAnd => if b then eval_largs k qs d else Ok false
      | LOr => if b then Ok true else eval_largs k qs d
      | LNor => if b then Ok false else eval_largs k qs d
      end
  end

(* one field clause: apply()'s body for a non-'$' key; also the target of $not and of the
   $elemMatch fallback *)
with eval_field (key : string) (s : search) (d : value) {struct s} : res bool :=
  let parts := split_dots key in
  if negb (path_modelled parts) then Err EUnmodelled else
  let C := candidates parts d in
  match s with
  | SMixed => Err EUnmodelled
  | SVal sv =>
      let test (c : lookup) : res bool :=
        match c with
        | Some (VArr xs) => Ok (py_in sv xs || py_eq sv (VArr xs))
        | Some v => Ok (py_eq v sv)
        | None => Ok (is_null sv)
        end in
      let! out := (fix loop (C : list lookup) (is_match has_cand : bool) : res loop_out :=
                     match C with
                     | [] => Ok (LoopEnd is_match has_cand)
                     | c :: C' =>
                         let hc := has_cand || match c with Some _ => true | None => false end in
                         let! m := test c in
                         if search_neg s && negb m then Ok LoopReturnFalse
                         else if m && negb (search_neg s) then Ok (LoopEnd true hc)
                         else loop C' m hc
                     end) C false false in
      match out with
      | LoopReturnFalse => Ok false
      | LoopEnd is_match has_cand =>
          Ok (negb (negb is_match && (has_cand || search_pos s)))
      end
  | SOps os =>
      if is_exists_false s && match C with [] => true | _ => false end then Ok true else
      let! pre := eval_all_pre os (fops_len os) C in
      match pre with
      | Some b => Ok b
      | None =>
      let! out := (fix loop (C : list lookup) (is_match has_cand : bool) : res loop_out :=
                     match C with
                     | [] => Ok (LoopEnd is_match has_cand)
                     | c :: C' =>
                         let hc := has_cand || match c with Some _ => true | None => false end in
                         let! m := match fops_unknown os with
                                   | Some e => Err e
                                   | None => eval_fops os key c d
                                   end in
                         if fops_has_neg os && negb m then Ok LoopReturnFalse
                         else if m && negb (fops_has_neg os) then Ok (LoopEnd true hc)
                         else loop C' m hc
                     end) C false false in
      match out with
      | LoopReturnFalse => Ok false
      | LoopEnd is_match has_cand =>
          Ok (negb (negb is_match && (has_cand || fops_has_pos os)))
      end
      end
  end

(* the `'$all' in search` pre-pass of apply(): _all_op(candidate list, operand).
   Some b = this clause is decided (b) ; None = go on with the candidate loop *)
with eval_all_pre (os : fops) (n : nat) (C : list lookup) {struct os} : res (option bool) :=
  match os with
  | FNil => Ok None
  | FCons (OAll a) _ =>
      let dv := match C with
                | Some (VArr _) :: _ => if all_lists C then Some (concat_lists C) else None
                | _ => Some C
                end in
      match dv with
      | None => Err EUnmodelled
      | Some dv =>
          let! b := eval_allarg a dv true in
          if negb b then Ok (Some false)
          else if Nat.eqb n 1 then Ok (Some true)
          else Ok None
      end
  | FCons _ os' => eval_all_pre os' n C
  end

(* all(op(doc_val, search_val) for op in search) with short-circuit *)
with eval_fops (os : fops) (key : string) (c : lookup) (d : value) {struct os} : res bool :=
  match os with
  | FNil => Ok true
  | FCons o os' =>
      let! b := eval_fop o key c d in
      if b then eval_fops os' key c d else Ok false
  end

with eval_fop (o : fop) (key : string) (c : lookup) (d : value) {struct o} : res bool :=
  match o with
  | OEq v => eq_op c v
  | ONe v => ne_op c v
  | OCmp op v => cmp_op op c v
  | OIn v => in_op c v
  | ONin v => let! b := in_op c v in Ok (negb b)
  | OExists v => Ok (exists_op c v)
  | OType v => type_op c v
  | OSize v => Ok (size_op c v)
  | OAll a =>
      (* _all_op on one candidate *)
      match c with
      | Some (VArr ((VArr _ :: _) as xs)) =>
          if all_lists (map Some xs) then eval_allarg a (concat_lists (map Some xs)) true
          else Err EUnmodelled
      | Some (VArr xs) => eval_allarg a (map Some xs) true
      | _ => eval_allarg a [c] false
      end
  | OElemMatch q =>
      match c with
      | Some (VArr xs) => eval_emq q xs
      | _ => Ok false
      end
  | ONot bad s =>
      if bad then Err EOpFail
      else let! b := eval_field key s d in Ok (negb b)
  | OUnknown ni => Err (if ni then ENotImpl else EOpFail)
  | OUnmodelled => Err EUnmodelled
  end

(* _elem_match_op on a list *)
with eval_emq (q : emq) (xs : list value) {struct q} : res bool :=
  match q with
  | EmBad => Err EOpFail
  | EmQ f s =>
      (fix go (xs : list value) : res bool :=
         match xs with
         | [] => Ok false
         | x :: xs' =>
             match matches f x with
             | Ok true => Ok true
             | Ok false => go xs'
             | Err EOpFail =>
                 let! b := eval_field "field" s (VDoc [("field", x)]) in
                 if b then Ok true else go xs'
             | Err e => Err e
             end
         end) xs
  end

(* the body of _all_op: dv is the (possibly flattened) list; is_list tells whether the
   original doc_val was a Python list (needed by the $elemMatch items) *)
with eval_allarg (a : allarg) (dv : list lookup) (is_list : bool) {struct a} : res bool :=
  match a with
  | AllBad => Err EUnmodelled
  | AllItems items => eval_allitems items dv is_list
  end

with eval_allitems (items : allitems) (dv : list lookup) (is_list : bool) {struct items}
  : res bool :=
  match items with
  | ANil => Ok true
  | ACons i items' =>
      (* matches.append(...) for every item, then all(matches): no short-circuit on errors *)
      let! b := match i with
                | AVal v => Ok (existsb (fun c => py_eq_lookup c v) dv)
                | AElem q =>
                    if negb is_list then Ok false
                    else if existsb (fun c => match c with None => true | _ => false end) dv
                    then Err EUnmodelled
                    else eval_emq q (flat_map (fun c => match c with Some v => [v] | None => [] end) dv)
                end in
      let! r := eval_allitems items' dv is_list in
      Ok (b && r)
  end.

(* filter_applies(search_filter, document) on raw values *)
Definition filter_applies (f d : value) : res bool :=
  match f with
  | VDoc _ => matches (parse_filter f) d
  | _ => Err EOpFail
  end.
