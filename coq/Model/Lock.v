(* C19: interleaving semantics of n threads running reader/writer sections of RWLock, over
   the instruction lists generated from thread.py (Gen/LockProg.v).  Granularity: one lock
   operation / counter update per step.  Definitions only. *)
From Coq Require Import List NArith PArith Bool MSets.MSetPositive.
From Verif.Gen Require Import LockProg.
Import ListNotations.
Open Scope N_scope.

(* one section = acquire ; [critical section] ; release.  None marks the step that leaves
   the critical section: a thread whose pc points at it is INSIDE *)
Definition reader_prog : list (option instr) :=
  map Some reader_acquire ++ [None] ++ map Some reader_release.
Definition writer_prog : list (option instr) :=
  map Some writer_acquire ++ [None] ++ map Some writer_release.

Definition LR : N := N.of_nat (List.length reader_prog).
Definition LW : N := N.of_nat (List.length writer_prog).

(* thread digit: 0 idle | 1 + pc (reader, pc < LR) | 1 + LR + pc (writer, pc < LW) *)
(* lock digit: plain Lock: 0 free / 1 held; RLock: 0 free / 1 + 4*(owner-1) + (depth-1) *)
Record st := mkSt { th : list N; lk : list N; ct : list N }.

Definition DEPTH : N := 4.

Fixpoint nth_n (l : list N) (i : nat) : N :=
  match l, i with
  | x :: _, O => x
  | _ :: l', S i' => nth_n l' i'
  | [], _ => 0
  end.
Fixpoint set_n (l : list N) (i : nat) (v : N) : list N :=
  match l, i with
  | _ :: l', O => v :: l'
  | x :: l', S i' => x :: set_n l' i' v
  | [], _ => []
  end.

Inductive outcome := Next (s : st) | Blocked | Error.

Definition is_rlock (l : nat) : bool := nth l lock_is_rlock false.

(* execute one primitive on behalf of thread t (1-based) *)
Fixpoint exec (i : instr) (t : N) (s : st) : outcome :=
  match i with
  | Acq l =>
      let v := nth_n (lk s) l in
      if is_rlock l then
        if v =? 0 then Next (mkSt (th s) (set_n (lk s) l (1 + DEPTH * (t - 1))) (ct s))
        else if (v - 1) / DEPTH =? t - 1 then
          if (v - 1) mod DEPTH <? DEPTH - 1 then Next (mkSt (th s) (set_n (lk s) l (v + 1)) (ct s))
          else Error
        else Blocked
      else
        if v =? 0 then Next (mkSt (th s) (set_n (lk s) l 1) (ct s)) else Blocked
  | Rel l =>
      let v := nth_n (lk s) l in
      if is_rlock l then
        if v =? 0 then Error                                   (* RuntimeError: un-acquired *)
        else if (v - 1) / DEPTH =? t - 1 then
          Next (mkSt (th s) (set_n (lk s) l (if (v - 1) mod DEPTH =? 0 then 0 else v - 1)) (ct s))
        else Error                                             (* not the owner *)
      else
        if v =? 0 then Error                                   (* release unlocked lock *)
        else Next (mkSt (th s) (set_n (lk s) l 0) (ct s))
  | Inc c =>
      let v := nth_n (ct s) c in
      if v <? 15 then Next (mkSt (th s) (lk s) (set_n (ct s) c (v + 1))) else Error
  | Dec c =>
      let v := nth_n (ct s) c in
      if v =? 0 then Error else Next (mkSt (th s) (lk s) (set_n (ct s) c (v - 1)))
  | IfEq c n i' =>
      if nth_n (ct s) c =? N.of_nat n then exec i' t s else Next s
  end.

Definition set_thread (s : st) (i : nat) (d : N) : st := mkSt (set_n (th s) i d) (lk s) (ct s).

(* the steps thread number i (0-based; id i+1) can take *)
Definition thread_steps (i : nat) (s : st) : list outcome :=
  let d := nth_n (th s) i in
  let t := N.of_nat i + 1 in
  if d =? 0 then
    (* idle: start a reader or a writer section *)
    [Next (set_thread s i 1); Next (set_thread s i (1 + LR))]
  else
    let '(prog, base, len, pc) :=
      if d <=? LR then (reader_prog, 1, LR, d - 1) else (writer_prog, 1 + LR, LW, d - 1 - LR) in
    let advance (s' : st) :=
      if pc + 1 =? len then set_thread s' i 0 else set_thread s' i (base + pc + 1) in
    match nth (N.to_nat pc) prog None with
    | None =>
        (* leave the critical section, normally or by an exception: the release code runs
           either way iff the context manager releases in a finally clause *)
        if release_on_raise then [Next (advance s)]
        else [Next (advance s); Next (set_thread s i 0)]
    | Some ins =>
        match exec ins t s with
        | Next s' => [Next (advance s')]
        | Blocked => [Blocked]
        | Error => [Error]
        end
    end.

Definition succs (n : nat) (s : st) : list outcome :=
  flat_map (fun i => thread_steps i s) (seq 0 n).

Definition reader_inside (d : N) : bool := d =? 1 + N.of_nat (List.length reader_acquire).
Definition writer_inside (d : N) : bool := d =? 1 + LR + N.of_nat (List.length writer_acquire).

Definition count_if (p : N -> bool) (l : list N) : N :=
  fold_left (fun acc d => if p d then acc + 1 else acc) l 0.

(* writers exclude each other and all readers *)
Definition mutex_ok (s : st) : bool :=
  let w := count_if writer_inside (th s) in
  let r := count_if reader_inside (th s) in
  (w <=? 1) && ((w =? 0) || (r =? 0)).

(* no lock-protocol error, and not stuck: everybody idle, or some non-idle thread can move *)
Definition no_error (n : nat) (s : st) : bool :=
  forallb (fun o => match o with Error => false | _ => true end) (succs n s).
Definition not_stuck (n : nat) (s : st) : bool :=
  forallb (fun d => d =? 0) (th s) ||
  existsb (fun i => negb (nth_n (th s) i =? 0) &&
                    existsb (fun o => match o with Next _ => true | _ => false end) (thread_steps i s))
          (seq 0 n).

Definition good (n : nat) (s : st) : bool := mutex_ok s && no_error n s && not_stuck n s.

Definition init (n : nat) : st :=
  mkSt (repeat 0 n) (repeat 0 (List.length lock_is_rlock)) (repeat 0 n_counters).

(* ---- encoding of states as positives (base 64 digits) ---- *)
Definition enc (s : st) : positive :=
  fold_left (fun acc d => match d with
                          | N0 => (acc * 64)%positive
                          | Npos p => (acc * 64 + p)%positive
                          end) (th s ++ lk s ++ ct s) 1%positive.

Fixpoint digits (k : nat) (p : N) (acc : list N) : list N :=
  match k with
  | O => acc
  | S k' => digits k' (p / 64) ((p mod 64) :: acc)
  end.

Fixpoint split_at {A} (k : nat) (l : list A) : list A * list A :=
  match k, l with
  | O, _ => ([], l)
  | S k', x :: l' => let '(a, b) := split_at k' l' in (x :: a, b)
  | S _, [] => ([], [])
  end.

Definition dec (n : nat) (p : positive) : st :=
  let nl := List.length lock_is_rlock in
  let ds := digits (n + nl + n_counters) (Npos p) [] in
  let '(a, rest) := split_at n ds in
  let '(b, c) := split_at nl rest in
  mkSt a b c.

Definition st_eqb (a b : st) : bool :=
  let leq := fix leq (x y : list N) : bool :=
               match x, y with
               | [], [] => true
               | u :: x', v :: y' => (u =? v) && leq x' y'
               | _, _ => false
               end in
  leq (th a) (th b) && leq (lk a) (lk b) && leq (ct a) (ct b).

(* ---- reachable set by breadth-first rounds ---- *)
Definition add_succs (n : nat) (acc : PositiveSet.t * list st) (s : st) : PositiveSet.t * list st :=
  fold_left (fun a o => match o with
                        | Next s' =>
                            let p := enc s' in
                            if PositiveSet.mem p (fst a) then a
                            else (PositiveSet.add p (fst a), s' :: snd a)
                        | _ => a
                        end) (succs n s) acc.

Fixpoint rounds (fuel : nat) (n : nat) (seen : PositiveSet.t) (frontier : list st) : PositiveSet.t :=
  match fuel with
  | O => seen
  | S fuel' =>
      match frontier with
      | [] => seen
      | _ =>
          let '(seen', next) := fold_left (add_succs n) frontier (seen, []) in
          rounds fuel' n seen' next
      end
  end.

Definition reach_set (n : nat) : PositiveSet.t :=
  rounds 400 n (PositiveSet.singleton (enc (init n))) [init n].

(* the closure check: S contains init, is closed under every step, every member is good,
   and the encoding round-trips on every successor *)
Definition closed (n : nat) (S : PositiveSet.t) : bool :=
  PositiveSet.mem (enc (init n)) S && st_eqb (dec n (enc (init n))) (init n) &&
  PositiveSet.for_all
    (fun p => let s := dec n p in
              good n s &&
              forallb (fun o => match o with
                                | Next s' => PositiveSet.mem (enc s') S && st_eqb (dec n (enc s')) s'
                                | _ => true
                                end) (succs n s)) S.

(* concurrent readers are admitted together: some reachable state has two readers inside *)
Definition two_readers (s : st) : bool := 2 <=? count_if reader_inside (th s).
Definition readers_share (n : nat) (S : PositiveSet.t) : bool :=
  PositiveSet.exists_ (fun p => two_readers (dec n p)) S.
