(* The collection state machine: model of Collection (collection.py) over CollectionStore
   (store.py) for one collection.  Every operation is a total function
   coll -> coll * res value (new state, outcome).  Definitions only. *)
From Coq Require Import ZArith List String Bool Ascii.
From Verif Require Import Value PyEq BsonOrder Path Filter Update Project.
Import ListNotations.
Open Scope Z_scope.
Open Scope string_scope.
Open Scope list_scope.
Notation "a <?? b" := (Z.ltb a b) (at level 70).
Notation "a =?? b" := (Z.eqb a b) (at level 70).

Record index := mkIndex {
  iname : string;
  ikey : list (string * value);       (* (field, direction) *)
  iunique : bool;
  isparse : bool;
  ittl : option value;                (* expireAfterSeconds *)
  ipartial : option value             (* partialFilterExpression *)
}.

Record coll := mkColl {
  docs : list (value * value);        (* (store key, document) in insertion order *)
  idx : list index;                   (* CollectionStore.indexes, insertion order *)
  forced : bool;                      (* _is_force_created *)
  next_oid : Z;                       (* fresh ObjectId supply (the harness uses a counter) *)
  now : Z;                            (* the mocked clock, microseconds *)
  odocs : list value                  (* store keys of documents born from an upsert: those are
                                         OrderedDicts, whose == is sensitive to key order *)
}.

Definition empty_coll : coll := mkColl [] [] false 1000 0 [].

Definition with_docs (c : coll) (d : list (value * value)) : coll :=
  mkColl d (idx c) (forced c) (next_oid c) (now c) (odocs c).
(* CollectionStore.__setitem__: the write also marks the collection as existing *)
Definition with_docs_w (c : coll) (d : list (value * value)) : coll :=
  mkColl d (idx c) true (next_oid c) (now c) (odocs c).
Definition with_idx (c : coll) (i : list index) : coll :=
  mkColl (docs c) i (forced c) (next_oid c) (now c) (odocs c).
(* CollectionStore.create_index: creating an index also marks the collection as existing *)
Definition with_idx_w (c : coll) (i : list index) : coll :=
  mkColl (docs c) i true (next_oid c) (now c) (odocs c).

(* ---------------------------------------------------------------- store primitives *)
(* keys are compared like Python dict keys: hash-consistent == (1 == 1.0 == True;
   hashdict equality is dict equality) *)
Fixpoint store_get (k : value) (l : list (value * value)) : option value :=
  match l with
  | [] => None
  | (k', d) :: l' => if py_eq k' k then Some d else store_get k l'
  end.
Fixpoint store_set (k d : value) (l : list (value * value)) : list (value * value) :=
  match l with
  | [] => [(k, d)]
  | (k', d') :: l' => if py_eq k' k then (k', d) :: l' else (k', d') :: store_set k d l'
  end.
Fixpoint store_del (k : value) (l : list (value * value)) : list (value * value) :=
  match l with
  | [] => []
  | (k', d') :: l' => if py_eq k' k then l' else (k', d') :: store_del k l'
  end.

(* ids the model supports as store keys: scalars, and sub-documents of such (hashdict) *)
Fixpoint id_modelled (v : value) : bool :=
  match v with
  | VArr _ => false
  | VDoc fs => (fix go (fs : list (string * value)) :=
                  match fs with [] => true | (_, x) :: fs' => id_modelled x && go fs' end) fs
  | VDate _ (Some _) => false
  | _ => true
  end.

(* ---------------------------------------------------------------- TTL expiry *)
(* int(expireAfterSeconds): None = ValueError (index ignored) *)
Definition ttl_seconds (v : value) : res (option Z) :=
  match v with
  | VInt z => Ok (Some z)
  | VBool b => Ok (Some (if b then 1 else 0))
  | VDbl e => Ok (Some (Z.quot e 8))                 (* int() truncates towards zero *)
  | VStr s => match as_index s with
              | Some z => Ok (Some z)
              | None => if part_modelled s then Ok None else Err EUnmodelled
              end
  | _ => Err EType
  end.

(* _get_min_datetime_from_value: None = datetime.max, Some (inl us) = a naive date,
   Some (inr v) = some other value (the subtraction then raises TypeError -> not expired) *)
Definition min_date (v : option value) : option (Z + value) :=
  match v with
  | None => None
  | Some x =>
      if negb (truthy x) then None
      else match x with
           | VArr xs =>
               (* reduce(_min_dt, [max] + val): keep the smaller date, skip on TypeError *)
               fold_left (fun acc y =>
                            match y with
                            | VDate us None =>
                                match acc with
                                | None => Some (inl us)
                                | Some (inl a) => if us <?? a then Some (inl us) else acc
                                | Some (inr _) => acc
                                end
                            | _ => acc
                            end) xs None
           | VDate us None => Some (inl us)
           | _ => Some (inr x)
           end
  end.

Definition meets_expiry (v : option value) (secs : Z) (now : Z) : bool :=
  match min_date v with
  | Some (inl us) => (Z.leb (secs * 1000000) (now - us))
  | _ => false
  end.

Definition has_aware_date_top (v : option value) : bool :=
  match v with
  | Some (VDate _ (Some _)) => true
  | Some (VArr xs) => existsb (fun y => match y with VDate _ (Some _) => true | _ => false end) xs
  | _ => false
  end.

(* _expire_documents for one TTL index *)
Definition expire_index (i : index) (c : coll) : res coll :=
  match ittl i with
  | None => Ok c
  | Some secs_v =>
      let! secs := ttl_seconds secs_v in
      match secs with
      | None => Ok c
      | Some secs =>
          match ikey i with
          | [(field, _)] =>
              if existsb (fun kd => has_aware_date_top
                                      (match snd kd with VDoc fs => assoc field fs | _ => None end))
                         (docs c) then Err EUnmodelled else
              Ok (with_docs c
                    (List.filter (fun kd =>
                       negb (meets_expiry (match snd kd with
                                           | VDoc fs => assoc field fs
                                           | _ => None end) secs (now c))) (docs c)))
          | _ => Ok c                                 (* compound or empty key: ignored *)
          end
      end
  end.

(* _remove_expired_documents *)
Definition expire (c : coll) : res coll :=
  fold_left (fun acc i => let! c' := acc in expire_index i c') (idx c) (Ok c).

(* ---------------------------------------------------------------- scans *)
(* _iter_documents(filter): validation on an empty store, then the lazy filtered scan.
   Returns the expired state and the matching (key, document) pairs in natural order. *)
Fixpoint scan (f : value) (l : list (value * value)) : res (list (value * value)) :=
  match l with
  | [] => Ok []
  | (k, d) :: l' =>
      let! b := filter_applies f d in
      let! r := scan f l' in
      Ok (if b then (k, d) :: r else r)
  end.

Definition iter_documents (c : coll) (f : value) : res (coll * list (value * value)) :=
  let! c1 := expire c in
  match (let! _ := match docs c1 with
                   | [] => filter_applies f (VDoc [])
                   | _ => Ok true
                   end in
         scan f (docs c1)) with
  | Ok m => Ok (c1, m)
  | Err e =>
      (* the filter raised AFTER the expiry pass removed documents: the library keeps the
         purge although the operation fails; the callers of this function return the state
         they were given on failure, so that case is left outside the model *)
      if Nat.eqb (List.length (docs c1)) (List.length (docs c)) then Err e else Err EUnmodelled
  end.

(* ---------------------------------------------------------------- unique indexes *)
Definition index_query (i : index) (new : value) : res value :=
  let kv := map (fun kd => (fst kd, match get_by_dot (split_dots (fst kd)) new with
                                    | Some v => v
                                    | None => VNull
                                    end)) (ikey i) in
  if negb (forallb (fun kd => path_modelled (split_dots (fst kd))) (ikey i)) then Err EUnmodelled
  else Ok (VDoc kv).

(* _ensure_uniques(new_data): new_data is already in the store *)
Fixpoint ensure_uniques_l (is : list index) (c : coll) (new : value) (touched : bool)
  : res bool :=
  match is with
  | [] => Ok touched
  | i :: is' =>
      if negb (iunique i) then ensure_uniques_l is' c new touched else
      let! q := index_query i new in
      let all_null := match q with
                      | VDoc kv => forallb (fun p => is_null (snd p)) kv
                      | _ => false end in
      let skip := isparse i && all_null in
      if skip then ensure_uniques_l is' c new touched else
      let q' := match ipartial i with
                | Some p => VDoc [("$and", VArr [p; q])]
                | None => q
                end in
      let! r := iter_documents c q' in
      if Nat.ltb 1 (List.length (snd r)) then Err EDup
      else ensure_uniques_l is' c new true
  end.
(* Ok touched: touched = some unique index made the check read (and thus expire) the store.
   A duplicate is always found by reading, so Err EDup implies the store was read. *)
Definition ensure_uniques (c : coll) (new : value) : res bool :=
  ensure_uniques_l (idx c) c new false.
Definition expire_if (b : bool) (c : coll) : res coll := if b then expire c else Ok c.

(* ---------------------------------------------------------------- insert *)
Definition keys_ok (d : value) : bool := true.   (* keys are always strings in the model *)

(* Collection._insert for one document.  Returns the state and the _id. *)
Definition insert_doc (c : coll) (d : value) : coll * res value :=
  match d with
  | VDoc fs =>
      let '(c0, fs1, id) :=
        match assoc "_id" fs with
        | Some i => (c, fs, patch i)          (* the store key is the normalised _id *)
        | None => (mkColl (docs c) (idx c) (forced c) (next_oid c + 1) (now c) (odocs c),
                   fs ++ [("_id", VOid (next_oid c))], VOid (next_oid c))
        end in
      if negb (id_modelled id) then
        match id with VArr _ => (c0, Err EType) | _ => (c0, Err EUnmodelled) end
      else
      match expire c0 with
      | Err e => (c0, Err e)
      | Ok c1 =>
          match store_get id (docs c1) with
          | Some _ => (c1, Err EDup)
          | None =>
              let data := patch (VDoc fs1) in
              let c2 := with_docs_w c1 (docs c1 ++ [(id, data)]) in
              match ensure_uniques c2 data with
              | Ok touched =>
                  (* the unique checks may have expired documents on the way *)
                  match expire_if touched c2 with
                  | Ok c3 => (c3, Ok id)
                  | Err e => (c2, Err e)
                  end
              | Err e =>
                  (* rollback: del self._store[object_id] *)
                  match expire c2 with
                  | Ok c3 => (with_docs c3 (store_del id (docs c3)), Err e)
                  | Err _ => (c1, Err e)
                  end
              end
          end
      end
  | _ => (c, Err EType)
  end.

(* was the caller's document given an _id (insert writes the generated _id into it) *)
Definition insert_one (c : coll) (d : value) : coll * res value :=
  let '(c', r) := insert_doc c d in
  (c', let! id := r in Ok (VDoc [("inserted_id", id)])).

Definition is_write_error (e : err) : bool :=
  match e with EWrite | EDup => true | _ => false end.
Definition err_code (e : err) : value :=
  match e with EDup => VInt 11000 | _ => VNull end.

(* _insert on a list: per-item WriteError capture, ordered break, BulkWriteError details *)
Fixpoint insert_many_go (c : coll) (ds : list value) (ordered : bool) (index : Z)
         (ids : list value) (errs : list value) (n : Z)
  : coll * res (list value * list value * Z) :=
  match ds with
  | [] => (c, Ok (ids, errs, n))
  | d :: ds' =>
      let '(c', r) := insert_doc c d in
      match r with
      | Ok id => insert_many_go c' ds' ordered (index + 1) (ids ++ [id]) errs (n + 1)
      | Err e =>
          if is_write_error e then
            let errs' := errs ++ [VDoc [("index", VInt index); ("code", err_code e)]] in
            if ordered then (c', Ok (ids, errs', n))
            else insert_many_go c' ds' ordered (index + 1) ids errs' n
          else (c', Err e)
      end
  end.

Definition insert_many (c : coll) (ds : list value) (ordered : bool) : coll * res value :=
  match ds with
  | [] => (c, Err EType)
  | _ =>
      if negb (forallb is_doc ds) then (c, Err EType) else
      let '(c', r) := insert_many_go c ds ordered 0 [] [] 0 in
      (c', let! t := r in
           let '(ids, errs, n) := t in
           match errs with
           | [] => Ok (VDoc [("inserted_ids", VArr ids)])
           | _ => Ok (VDoc [("BulkWriteError",
                             VDoc [("writeErrors", VArr errs); ("nInserted", VInt n)])])
           end)
  end.

(* ---------------------------------------------------------------- upsert seed *)
(* _expand_dots *)
Fixpoint expand_set (parts : list string) (v : value) (e : list (string * value))
  : res (list (string * value)) :=
  match parts with
  | [] => Ok e
  | [last] => Ok (set_key last v e)
  | p :: rest =>
      match assoc p e with
      | None => let! sub := expand_set rest v [] in Ok (set_key p (VDoc sub) e)
      | Some (VDoc sub) => let! sub' := expand_set rest v sub in Ok (set_key p (VDoc sub') e)
      | Some _ => Err EWrite
      end
  end.

Fixpoint prefixes (parts : list string) (acc : list string) : list string :=
  (* 'a', 'a.b', ... for parts[:-1] *)
  match parts with
  | [] | [_] => []
  | p :: rest => let acc' := acc ++ [p] in join_dots acc' :: prefixes rest acc'
  end.

Fixpoint expand_dots_go (fs : list (string * value)) (e : list (string * value))
         (paths : list string) : res (list (string * value)) :=
  match fs with
  | [] => Ok e
  | (k, v) :: fs' =>
      if mem_str k paths then Err EWrite else
      let parts := split_dots k in
      let! e' := expand_set parts v e in
      expand_dots_go fs' e' (k :: prefixes parts [] ++ paths)
  end.
Definition expand_dots (fs : list (string * value)) : res (list (string * value)) :=
  expand_dots_go fs [] [].

(* _discard_operators: (new value, discarded) *)
Fixpoint discard_ops (v : value) : value * bool :=
  match v with
  | VDoc [] => (v, false)
  | VDoc fs =>
      (fix go (fs : list (string * value)) (acc : list (string * value)) : value * bool :=
         match fs with
         | [] => (VDoc acc, match acc with [] => true | _ => false end)
         | (k, x) :: fs' =>
             if k =? "$eq" then (x, false)
             else if starts_dollar k then go fs' acc
             else let '(x', disc) := discard_ops x in
                  go fs' (if disc then acc else acc ++ [(k, x')])
         end) fs []
  | _ => (v, false)
  end.

(* ---------------------------------------------------------------- update / replace *)
Definition spec_fields (spec : value) : list (string * value) :=
  match spec with VDoc fs => fs | _ => [] end.

(* emulated server version < 5: an empty operator document is rejected *)
Definition empty_operator (pre5 : bool) (update : value) : bool :=
  pre5 && match update with
          | VDoc ufs =>
              existsb (fun op => match assoc op ufs with
                                 | Some v => negb (truthy v)
                                 | None => false end)
                      ["$set"; "$unset"; "$inc"; "$max"; "$min"; "$pop"]
          | _ => false
          end.

(* the loop over matched documents.  todo: (key, document) snapshots matched so far by the
   lazy scan are evaluated one at a time against the ORIGINAL documents. *)
Fixpoint update_loop (c : coll) (spec update : value) (multi : bool) (todo : list (value * value))
         (matched modified : Z) {struct todo} : coll * res (Z * Z) :=
  match todo with
  | [] => (c, Ok (matched, modified))
  | (k, d) :: todo' =>
      match filter_applies spec d with
      | Err e => (c, Err e)
      | Ok false => update_loop c spec update multi todo' matched modified
      | Ok true =>
          match apply_update spec update false (now c) d with
          | Err e => (c, Err e)
          | Ok d' =>
              let id_of (x : value) := match x with VDoc fs => assoc "_id" fs | _ => None end in
              let changed := negb (py_eq d' d) in
              if negb changed then
                if negb (value_eqb d' d) && py_in k (odocs c) then (c, Err EUnmodelled) else
                if multi then update_loop c spec update multi todo' (matched + 1) modified
                else (c, Ok (matched + 1, modified))
              else
                let same_id := match id_of d, id_of d' with
                               | Some a, Some b => py_eq a b
                               | None, None => true
                               | _, _ => false
                               end in
                if negb same_id then (c, Err EWrite) else
                match id_of d with
                | None => (c, Err EKey)
                | Some _ =>
                    let c1 := with_docs_w c (store_set k d' (docs c)) in
                    match ensure_uniques c1 d' with
                    | Err EUnmodelled => (c1, Err EUnmodelled)
                    | Err e =>
                        (* rollback whenever the uniqueness check fails *)
                        (match expire c1 with
                         | Ok c2 => (with_docs c2 (store_set k d (docs c2)), Err e)
                         | Err _ => (c, Err e)
                         end)
                    | Ok touched =>
                        match expire_if touched c1 with
                        | Err e => (c1, Err e)
                        | Ok c2 =>
                            if multi then update_loop c2 spec update multi todo' (matched + 1) (modified + 1)
                            else (c2, Ok (matched + 1, modified + 1))
                        end
                    end
                end
          end
      end
  end.

Definition update_result (matched modified : Z) (upserted : option value) : value :=
  VDoc [("matched", match upserted with
                    | Some u => if is_null u then VInt matched else VInt 0
                    | None => VInt matched end);
        ("modified", VInt modified);
        ("upserted_id", match upserted with Some u => u | None => VNull end)].

(* Collection._update *)
Definition update (pre5 : bool) (c : coll) (spec0 update0 : value) (multi upsert : bool)
  : coll * res value :=
  let spec := patch spec0 in
  let upd := patch update0 in
  match spec, upd with
  | VDoc sfs, VDoc ufs =>
      if empty_operator pre5 upd then (c, Err EWrite) else
      match expire c with
      | Err e => (c, Err e)
      | Ok c1 =>
          match (match docs c1 with [] => filter_applies spec (VDoc []) | _ => Ok true end) with
          | Err e => (c1, Err e)
          | Ok _ =>
              let '(c2, r) := update_loop c1 spec upd multi (docs c1) 0 0 in
              match r with
              | Err e => (c2, Err e)
              | Ok (matched, modified) =>
                  if negb upsert || negb (matched =?? 0) then
                    (c2, Ok (update_result matched modified None))
                  else
                    (* the sentinel: build the seed and insert it *)
                    let fresh := (mkColl (docs c2) (idx c2) (forced c2) (next_oid c2 + 1) (now c2) (odocs c2),
                                  VOid (next_oid c2)) in
                    let non_null (o : option value) :=
                      match o with Some i => if is_null i then None else Some i | None => None end in
                    let '(c3, id) :=
                      match non_null (assoc "_id" sfs) with
                      | Some i => (c2, i)
                      | None => match non_null (assoc "_id" ufs) with
                                | Some j => (c2, j)
                                | None => fresh
                                end
                      end in
                    match expand_dots (set_key "_id" id sfs) with
                    | Err e => (c3, Err e)
                    | Ok expanded =>
                        let seed := fst (discard_ops (VDoc expanded)) in
                        match apply_update spec upd true (now c3) seed with
                        | Err e => (c3, Err e)
                        | Ok d' =>
                            let '(c4, ir) := insert_doc c3 d' in
                            match ir with
                            | Err e => (c4, Err e)
                            | Ok new_id =>
                                (mkColl (docs c4) (idx c4) (forced c4) (next_oid c4) (now c4)
                                        (new_id :: odocs c4),
                                 Ok (update_result 1 0 (Some new_id)))
                            end
                        end
                    end
              end
          end
      end
  | _, _ => (c, Err EType)
  end.

(* validate_ok_for_update / validate_ok_for_replace *)
Definition first_key_dollar (v : value) : option bool :=
  match v with
  | VDoc [] => None
  | VDoc ((k, _) :: _) => Some (starts_dollar k)
  | _ => None
  end.

Definition update_op (pre5 : bool) (c : coll) (f u : value) (multi upsert : bool)
  : coll * res value :=
  match u with
  | VDoc _ =>
      match first_key_dollar u with
      | Some true => update pre5 c f u multi upsert
      | _ => (c, Err EValue)
      end
  | _ => (c, Err EType)
  end.

Definition replace_op (pre5 : bool) (c : coll) (f r : value) (upsert : bool) : coll * res value :=
  match r with
  | VDoc _ =>
      match first_key_dollar r with
      | Some true => (c, Err EValue)
      | _ => update pre5 c f r false upsert
      end
  | _ => (c, Err EType)
  end.

(* ---------------------------------------------------------------- find / sort / slice *)
(* resolve_sort_key: (0|1, value) *)
Definition sort_key (parts : list string) (d : value) : Z * value :=
  match candidates parts d with
  | [] | None :: _ => (1, VNull)
  | Some (VArr []) :: _ => (0, VNull)
  | Some (VArr (x :: _)) :: _ => (1, x)
  | Some v :: _ => (1, v)
  end.

Definition sort_lt (a b : Z * value) : res bool :=
  if fst a <?? fst b then Ok true
  else if fst b <?? fst a then Ok false
  else bson_lt (snd a) (snd b).

(* _get_dataset: successive stable sorts from the last key to the first *)
Fixpoint sort_docs (spec : list (string * Z)) (l : list value) : res (list value) :=
  match spec with
  | [] => Ok l
  | (k, dir) :: spec' =>
      let! l' := sort_docs spec' l in
      if k =? "$natural" then Ok (if dir <?? 0 then rev l' else l')
      else if starts_dollar k then Err ENotImpl
      else if negb (path_modelled (split_dots k)) then Err EUnmodelled
      else
        let parts := split_dots k in
        py_sorted (fun a b => sort_lt (sort_key parts a) (sort_key parts b)) (dir <?? 0) l'
  end.

(* Cursor._compute_results(with_limit_and_skip=True): results[skip:][:abs(limit)] *)
Definition cursor_slice {A} (skip limit : Z) (l : list A) : list A :=
  let s := if skip <?? 0
           then skipn (Z.to_nat (Z.max 0 (Z.of_nat (List.length l) + skip))) l
           else skipn (Z.to_nat skip) l in
  if limit =?? 0 then s else firstn (Z.to_nat (Z.abs limit)) s.

Definition find_docs (c : coll) (f0 : value) (sort : list (string * Z))
  : res (coll * list value) :=
  match f0 with
  | VDoc _ =>
      let! r := iter_documents c (patch f0) in
      let! sorted := sort_docs sort (map snd (snd r)) in
      Ok (fst r, sorted)
  | _ => Err EType
  end.

Fixpoint project_all (proj : option value) (l : list value) : res (list value) :=
  match l with
  | [] => Ok []
  | d :: l' => let! x := copy_only_fields d proj in let! r := project_all proj l' in Ok (x :: r)
  end.

Definition find_op (c : coll) (f : value) (proj : option value) (sort : list (string * Z))
           (skip limit : Z) : coll * res value :=
  match find_docs c f sort with
  | Err e => (c, Err e)
  | Ok (c', l) =>
      match project_all proj l with
      | Err e => (c', Err e)
      | Ok l' => (c', Ok (VArr (cursor_slice skip limit l')))
      end
  end.

(* find_one(filter, projection, sort): first result or None *)
Definition find_one (c : coll) (f : value) (proj : option value) (sort : list (string * Z))
  : coll * res (option value) :=
  match find_op c f proj sort 0 0 with
  | (c', Ok (VArr (d :: _))) => (c', Ok (Some d))
  | (c', Ok _) => (c', Ok None)
  | (c', Err e) => (c', Err e)
  end.

(* count_documents(filter, skip=, limit=) ; limit None = absent *)
Definition count_op (c : coll) (f : value) (skip : Z) (limit : option Z) : coll * res value :=
  match limit with
  | Some l => if Z.leb l 0 then (c, Err EOpFail) else
      match f with
      | VDoc _ =>
          match iter_documents c (patch f) with
          | Err e => (c, Err e)
          | Ok (c', m) =>
              (c', Ok (VInt (Z.min (Z.max (Z.of_nat (List.length m) - skip) 0) l)))
          end
      | _ => (c, Err EUnmodelled)
      end
  | None =>
      match f with
      | VDoc _ =>
          match iter_documents c (patch f) with
          | Err e => (c, Err e)
          | Ok (c', m) => (c', Ok (VInt (Z.max (Z.of_nat (List.length m) - skip) 0)))
          end
      | _ => (c, Err EUnmodelled)
      end
  end.

(* Cursor.distinct(key): values of every candidate of every found document, arrays
   flattened one level, duplicates (Python ==/hash) removed; order is that of a Python set,
   so the outcome is tagged "$set" and compared as a multiset *)
(* can the value be put in a Python set (dicts go through helpers.hashdict, whose key turns
   list values into tuples of their -- then necessarily hashable -- elements) *)
Definition hash_scalar (v : value) : bool :=
  match v with VDoc _ | VArr _ => false | _ => true end.
Fixpoint hashdict_ok (v : value) : bool :=
  match v with
  | VDoc fs => (fix go (fs : list (string * value)) :=
                  match fs with
                  | [] => true
                  | (_, x) :: fs' =>
                      match x with
                      | VDoc _ => hashdict_ok x
                      | VArr xs => forallb hash_scalar xs
                      | _ => true
                      end && go fs'
                  end) fs
  | _ => true
  end.
Definition hashable_top (v : value) : bool :=
  match v with VArr _ => false | VDoc _ => hashdict_ok v | _ => true end.

Definition dedup (l : list value) : list value :=
  fold_left (fun acc v => if py_in v acc then acc else acc ++ [v]) l [].

Definition distinct_op (c : coll) (key : string) (f : value) : coll * res value :=
  if negb (path_modelled (split_dots key)) then (c, Err EUnmodelled) else
  match find_docs c f [] with
  | Err e => (c, Err e)
  | Ok (c', l) =>
      let vals := flat_map (fun d =>
                    flat_map (fun cnd => match cnd with
                                         | None => []
                                         | Some (VArr xs) => xs
                                         | Some v => [v]
                                         end) (candidates (split_dots key) d)) l in
      if existsb (fun v => negb (hashable_top v)) vals
      then (c', Err EType)                               (* unhashable value in a set *)
      else (c', Ok (VDoc [("$set", VArr (dedup vals))]))
  end.

(* ---------------------------------------------------------------- delete *)
Fixpoint delete_go (c : coll) (l : list value) (multi : bool) (n : Z) : coll * res Z :=
  match l with
  | [] => (c, Ok n)
  | d :: l' =>
      match d with
      | VDoc fs =>
          match assoc "_id" fs with
          | None => (c, Err EKey)
          | Some id =>
              match store_get id (docs c) with
              | None => (c, Err EKey)
              | Some _ =>
                  let c' := mkColl (store_del id (docs c)) (idx c) (forced c) (next_oid c) (now c)
                                   (List.filter (fun k => negb (py_eq k id)) (odocs c)) in
                  if multi then delete_go c' l' multi (n + 1) else (c', Ok (n + 1))
              end
          end
      | _ => (c, Err ECrash)
      end
  end.

Definition delete_op (c : coll) (f : value) (multi : bool) : coll * res value :=
  match f with
  | VDoc _ =>
      match find_docs c f [] with
      | Err e => (c, Err e)
      | Ok (c1, l) =>
          let '(c2, r) := delete_go c1 l multi 0 in
          (c2, let! n := r in Ok (VDoc [("deleted", VInt n)]))
      end
  | _ => (c, Err EType)
  end.

(* ---------------------------------------------------------------- indexes *)
Definition dir_str (v : value) : string :=
  match v with
  | VInt 1 => "1" | VInt (-1) => "-1"
  | VStr s => s
  | _ => "?"
  end.
Definition gen_index_name (key : list (string * value)) : string :=
  String.concat "_" (map (fun kd => fst kd ++ "_" ++ dir_str (snd kd))%string key).

Definition opt_py_eq (a b : option value) : bool :=
  match a, b with
  | None, None => true | Some x, Some y => py_eq x y | _, _ => false end.

Definition index_eqb (a b : index) : bool :=
  list_eqb (fun p q => String.eqb (fst p) (fst q) && py_eq (snd p) (snd q)) (ikey a) (ikey b)
  && Bool.eqb (iunique a) (iunique b) && Bool.eqb (isparse a) (isparse b)
  && opt_py_eq (ittl a) (ittl b) && opt_py_eq (ipartial a) (ipartial b).

Fixpoint find_index_by_name (n : string) (l : list index) : option index :=
  match l with
  | [] => None
  | i :: l' => if String.eqb (iname i) n then Some i else find_index_by_name n l'
  end.

Fixpoint set_index (i : index) (l : list index) : list index :=
  match l with
  | [] => [i]
  | j :: l' => if String.eqb (iname j) (iname i) then i :: l' else j :: set_index i l'
  end.

(* the create_index pre-check: tuples of values, sparse skipping missing fields *)
Definition index_tuple (i : index) (d : value) : option (list value) :=
  let vals := flat_map (fun kd => match get_by_dot (split_dots (fst kd)) d with
                                  | Some v => [v]
                                  | None => if isparse i then [] else [VNull]
                                  end) (ikey i) in
  if isparse i && match vals with [] => true | _ => false end then None else Some vals.

Fixpoint has_dup_tuple (l : list (list value)) : bool :=
  match l with
  | [] => false
  | t :: l' => existsb (fun u => py_eq (VArr u) (VArr t)) l' || has_dup_tuple l'
  end.

Definition create_index (c : coll) (key : list (string * value)) (unique sparse : bool)
           (ttl partial : option value) (name : option string) : coll * res value :=
  let ttl := match ttl with Some VNull => None | _ => ttl end in
  let partial := match partial with Some VNull => None | _ => partial end in
  let nm := match name with Some n => n | None => gen_index_name key end in
  let i := mkIndex nm key unique sparse ttl partial in
  if negb (forallb (fun kd => path_modelled (split_dots (fst kd))) key) then (c, Err EUnmodelled) else
  let conflict := match find_index_by_name nm (idx c) with
                  | Some j => negb (index_eqb i j)
                  | None => false
                  end in
  if conflict then (c, Err EOpFail)
  else if unique then
    match expire c with
    | Err e => (c, Err e)
    | Ok c1 =>
        let tuples := flat_map (fun kd => match index_tuple i (snd kd) with
                                          | Some t => [t] | None => [] end) (docs c1) in
        if has_dup_tuple tuples then (c1, Err EDup)
        else (with_idx_w c1 (set_index i (idx c1)), Ok (VStr nm))
    end
  else (with_idx_w c (set_index i (idx c)), Ok (VStr nm)).

Definition drop_index (c : coll) (name : string) : coll * res value :=
  match expire c with
  | Err e => (c, Err e)
  | Ok c1 =>
      match find_index_by_name name (idx c1) with
      | None => (c1, Err EOpFail)
      | Some _ =>
          (with_idx c1 (List.filter (fun j => negb (String.eqb (iname j) name)) (idx c1)),
           Ok VNull)
      end
  end.

Definition drop_indexes (c : coll) : coll * res value := (with_idx c [], Ok VNull).

Definition drop_coll (c : coll) : coll * res value :=
  (mkColl [] [] false (next_oid c) (now c) [], Ok VNull).

Definition index_doc (i : index) : value :=
  VDoc ([("key", VArr (map (fun kd => VArr [VStr (fst kd); snd kd]) (ikey i)))]
        ++ (if isparse i then [("sparse", VBool true)] else [])
        ++ (if iunique i then [("unique", VBool true)] else [])
        ++ (match ittl i with Some t => [("expireAfterSeconds", t)] | None => [] end)
        ++ (match ipartial i with Some p => [("partialFilterExpression", p)] | None => [] end)
        ++ [("v", VInt 2)]).

Definition is_created (c : coll) : bool :=
  match docs c, idx c with [], [] => forced c | _, _ => true end.

Definition index_information (c : coll) : coll * res value :=
  if is_created c then
    (c, Ok (VDoc (("_id_", VDoc [("key", VArr [VArr [VStr "_id"; VInt 1]]); ("v", VInt 2)])
                  :: map (fun i => (iname i, index_doc i)) (idx c))))
  else (c, Ok (VDoc [])).

(* ---------------------------------------------------------------- find_one_and_* *)
Inductive fam_kind :=
| FamDelete
| FamUpdate (u : value) (upsert after : bool)
| FamReplace (r : value) (upsert after : bool).

Definition opt_to_value (o : option value) : value := match o with Some v => v | None => VNull end.

(* Collection._find_and_modify *)
Definition find_and_modify (pre5 : bool) (c : coll) (f : value) (proj : option value)
           (sort : list (string * Z)) (k : fam_kind) : coll * res value :=
  match f with
  | VDoc _ =>
      let valid := match k with
                   | FamDelete => Ok tt
                   | FamUpdate u _ _ => match u with
                                        | VDoc _ => match first_key_dollar u with
                                                    | Some true => Ok tt | _ => Err EValue end
                                        | _ => Err EType end
                   | FamReplace r _ _ => match r with
                                         | VDoc _ => match first_key_dollar r with
                                                     | Some true => Err EValue | _ => Ok tt end
                                         | _ => Err EType end
                   end in
      match valid with
      | Err e => (c, Err e)
      | Ok _ =>
      let upsert := match k with FamDelete => false | FamUpdate _ u _ | FamReplace _ u _ => u end in
      let after := match k with FamDelete => false | FamUpdate _ _ a | FamReplace _ _ a => a end in
      (* an empty update/replacement document is falsy: `if not (remove or update)` *)
      let empty_arg := match k with
                       | FamReplace (VDoc []) _ _ => true
                       | _ => false end in
      if empty_arg then (c, Err EValue) else
      match find_one c f None sort with
      | (c1, Err e) => (c1, Err e)
      | (c1, Ok target) =>
          match target, upsert with
          | None, false => (c1, Ok VNull)
          | _, _ =>
              let query := match target with
                           | Some (VDoc tfs) => match assoc "_id" tfs with
                                                | Some i => Some (VDoc [("_id", i)])
                                                | None => None end
                           | _ => Some f
                           end in
              match query with
              | None => (c1, Err EKey)
              | Some query =>
              let '(c2, old_r) := match target with
                                  | Some _ => find_one c1 query proj []
                                  | None => (c1, Ok None)
                                  end in
              match old_r with
              | Err e => (c2, Err e)
              | Ok old =>
                  let '(c3, wr, query') :=
                    match k with
                    | FamDelete =>
                        let '(c', r) := delete_op c2 query false in (c', r, query)
                    | FamUpdate u _ _ | FamReplace u _ _ =>
                        let '(c', r) := update pre5 c2 query u false upsert in
                        (c', r,
                         match r with
                         | Ok (VDoc rfs) => match assoc "upserted_id" rfs with
                                            | Some i => if truthy i then VDoc [("_id", i)] else query
                                            | None => query end
                         | _ => query
                         end)
                    end in
                  match wr with
                  | Err e => (c3, Err e)
                  | Ok _ =>
                      if after then
                        match find_one c3 query' proj [] with
                        | (c4, Ok r) => (c4, Ok (opt_to_value r))
                        | (c4, Err e) => (c4, Err e)
                        end
                      else (c3, Ok (opt_to_value old))
                  end
              end
              end
          end
      end
      end
  | _ => (c, Err EType)
  end.

(* ---------------------------------------------------------------- bulk_write *)
Inductive bulk_req :=
| BInsert (d : value)
| BUpdate (f u : value) (multi upsert : bool)
| BReplace (f r : value) (upsert : bool)
| BDelete (f : value) (multi : bool).

Record bulk_acc := mkAcc {
  b_inserted : Z; b_matched : Z; b_modified : Z; b_upserted_n : Z; b_removed : Z;
  b_upserted : list value; b_errors : list value
}.

Definition get_z (k : string) (v : value) : Z :=
  match v with
  | VDoc fs => match assoc k fs with Some (VInt z) => z | _ => 0 end
  | _ => 0
  end.

(* one executor: returns the state, and either an accumulated result, a captured
   WriteError, or a propagating exception *)
Definition bulk_exec (pre5 : bool) (c : coll) (r : bulk_req) (a : bulk_acc)
  : coll * res bulk_acc :=
  match r with
  | BInsert d =>
      match d with
      | VDoc _ =>
          let '(c', o) := insert_doc c d in
          (c', let! _ := o in Ok (mkAcc (b_inserted a + 1) (b_matched a) (b_modified a)
                                       (b_upserted_n a) (b_removed a) (b_upserted a) (b_errors a)))
      | _ => (c, Err EType)
      end
  | BUpdate _ _ _ _ | BReplace _ _ _ =>
      let '(f, u, multi, upsert) := match r with
                                    | BUpdate f u m up => (f, u, m, up)
                                    | BReplace f u up => (f, u, false, up)
                                    | _ => (VNull, VNull, false, false)
                                    end in
      let '(c', o) := update pre5 c f u multi upsert in
      (c', let! rv := o in
           let up := match rv with
                     | VDoc fs => match assoc "upserted_id" fs with
                                  | Some i => if is_null i then None else Some i
                                  | None => None end
                     | _ => None end in
           match up with
           | Some i =>
               Ok (mkAcc (b_inserted a) (b_matched a) (b_modified a + get_z "modified" rv)
                         (b_upserted_n a + 1) (b_removed a) (b_upserted a ++ [i]) (b_errors a))
           | None =>
               Ok (mkAcc (b_inserted a) (b_matched a + get_z "matched" rv)
                         (b_modified a + get_z "modified" rv)
                         (b_upserted_n a) (b_removed a) (b_upserted a) (b_errors a))
           end)
  | BDelete f multi =>
      let '(c', o) := delete_op c f multi in
      (c', let! rv := o in
           Ok (mkAcc (b_inserted a) (b_matched a) (b_modified a) (b_upserted_n a)
                     (b_removed a + get_z "deleted" rv) (b_upserted a) (b_errors a)))
  end.

Fixpoint bulk_go (pre5 : bool) (c : coll) (rs : list bulk_req) (ordered : bool) (index : Z)
         (a : bulk_acc) : coll * res bulk_acc :=
  match rs with
  | [] => (c, Ok a)
  | r :: rs' =>
      let '(c', o) := bulk_exec pre5 c r a in
      match o with
      | Ok a' => bulk_go pre5 c' rs' ordered (index + 1) a'
      | Err e =>
          if is_write_error e then
            let a' := mkAcc (b_inserted a) (b_matched a) (b_modified a) (b_upserted_n a)
                            (b_removed a) (b_upserted a)
                            (b_errors a ++ [VDoc [("index", VInt index); ("code", err_code e)]]) in
            if ordered then (c', Ok a') else bulk_go pre5 c' rs' ordered (index + 1) a'
          else (c', Err e)
      end
  end.

Definition bulk_result (a : bulk_acc) : value :=
  let body := [("nInserted", VInt (b_inserted a)); ("nMatched", VInt (b_matched a));
               ("nModified", VInt (b_modified a)); ("nUpserted", VInt (b_upserted_n a));
               ("nRemoved", VInt (b_removed a)); ("upserted", VArr (b_upserted a))] in
  match b_errors a with
  | [] => VDoc body
  | errs => VDoc [("BulkWriteError", VDoc (body ++ [("writeErrors", VArr errs)]))]
  end.

(* registration-time validation of add_update (validate_ok_for_update); replacements are
   not validated by the bulk builder *)
Definition bulk_valid (r : bulk_req) : res unit :=
  match r with
  | BUpdate _ u _ _ =>
      match u with
      | VDoc _ => match first_key_dollar u with Some true => Ok tt | _ => Err EValue end
      | _ => Err EType
      end
  | _ => Ok tt
  end.

Definition bulk_write (pre5 : bool) (c : coll) (rs : list bulk_req) (ordered : bool)
  : coll * res value :=
  match (fix chk (rs : list bulk_req) : res unit :=
           match rs with [] => Ok tt | r :: rs' => let! _ := bulk_valid r in chk rs' end) rs with
  | Err e => (c, Err e)
  | Ok _ =>
      match rs with
      | [] => (c, Err EInvalidOp)
      | _ =>
          let '(c', o) := bulk_go pre5 c rs ordered 0 (mkAcc 0 0 0 0 0 [] []) in
          (c', let! a := o in Ok (bulk_result a))
      end
  end.

(* ---------------------------------------------------------------- operations *)
Inductive op :=
| OInsertOne (d : value)
| OInsertMany (ds : list value) (ordered : bool)
| OUpdate (f u : value) (multi upsert : bool)
| OReplace (f r : value) (upsert : bool)
| ODelete (f : value) (multi : bool)
| OFind (f : value) (proj : option value) (sort : list (string * Z)) (skip limit : Z)
| OCount (f : value) (skip : Z) (limit : option Z)
| ODistinct (key : string) (f : value)
| OFindAndModify (f : value) (proj : option value) (sort : list (string * Z)) (k : fam_kind)
| OBulk (rs : list bulk_req) (ordered : bool)
| OCreateIndex (key : list (string * value)) (unique sparse : bool) (ttl partial : option value)
               (name : option string)
| ODropIndex (name : string)
| ODropIndexes
| OIndexInfo
| ODrop
| OSetClock (t : Z).

Definition step (pre5 : bool) (c : coll) (o : op) : coll * res value :=
  match o with
  | OInsertOne d => insert_one c d
  | OInsertMany ds ordered => insert_many c ds ordered
  | OUpdate f u multi upsert => update_op pre5 c f u multi upsert
  | OReplace f r upsert => replace_op pre5 c f r upsert
  | ODelete f multi => delete_op c f multi
  | OFind f proj sort skip limit => find_op c f proj sort skip limit
  | OCount f skip limit => count_op c f skip limit
  | ODistinct key f => distinct_op c key f
  | OFindAndModify f proj sort k => find_and_modify pre5 c f proj sort k
  | OBulk rs ordered => bulk_write pre5 c rs ordered
  | OCreateIndex key u s t p n => create_index c key u s t p n
  | ODropIndex n => drop_index c n
  | ODropIndexes => drop_indexes c
  | OIndexInfo => index_information c
  | ODrop => drop_coll c
  | OSetClock t => (mkColl (docs c) (idx c) (forced c) (next_oid c) t (odocs c), Ok VNull)
  end.

(* run a history, collecting (outcome, store contents) after every step *)
Fixpoint run (pre5 : bool) (c : coll) (ops : list op) : list (res value * list (value * value)) :=
  match ops with
  | [] => []
  | o :: ops' =>
      let '(c', r) := step pre5 c o in
      (r, docs c') :: run pre5 c' ops'
  end.

Fixpoint final (pre5 : bool) (c : coll) (ops : list op) : coll :=
  match ops with
  | [] => c
  | o :: ops' => final pre5 (fst (step pre5 c o)) ops'
  end.
