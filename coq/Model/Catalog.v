(* C17: the catalog - servers, databases, collections, indexes - as mongomock keeps it
   (store.py: ServerStore / DatabaseStore / CollectionStore; database.py; mongo_client.py),
   the abstract catalog MongoDB users reason with, and the abstraction between them.
   Documents are reduced to their ids: C17 is about existence, not content.
   Definitions only. *)
From Coq Require Import ZArith List String Bool Ascii.
From Verif Require Import Value.
Import ListNotations.
Open Scope string_scope.
Open Scope list_scope.

(* ------------------------------------------------------------------ the model *)
Record cstore := mkCS { cs_docs : list Z; cs_idx : list string; cs_forced : bool }.
Definition cs_empty : cstore := mkCS [] [] false.
Definition cs_created (c : cstore) : bool :=
  match cs_docs c, cs_idx c with [], [] => cs_forced c | _, _ => true end.

(* DatabaseStore._collections and ServerStore._databases: entries appear on first access *)
Definition dstore := list (string * cstore).
Definition sstore := list (string * dstore).

Definition get_coll (d : dstore) (c : string) : cstore :=
  match assoc c d with Some x => x | None => cs_empty end.
Definition touch_coll (d : dstore) (c : string) : dstore :=
  match assoc c d with Some _ => d | None => d ++ [(c, cs_empty)] end.
Definition put_coll (d : dstore) (c : string) (x : cstore) : dstore := set_key c x d.

Definition get_db (s : sstore) (db : string) : dstore :=
  match assoc db s with Some x => x | None => [] end.
Definition put_db (s : sstore) (db : string) (d : dstore) : sstore := set_key db d s.

Definition db_created (d : dstore) : bool := existsb (fun kc => cs_created (snd kc)) d.
Definition created_colls (d : dstore) : list string :=
  map fst (List.filter (fun kc => cs_created (snd kc)) d).

Definition is_system (n : string) : bool := String.prefix "system." n.

(* pymongo's collection name rules (Database._ensure_valid_collection_name) *)
Fixpoint has_substr2 (s : string) : bool :=     (* contains ".." *)
  match s with
  | String "."%char (String "."%char _) => true
  | String _ s' => has_substr2 s'
  | EmptyString => false
  end.
Fixpoint last_char (s : string) : option Ascii.ascii :=
  match s with
  | EmptyString => None
  | String c EmptyString => Some c
  | String _ s' => last_char s'
  end.
Definition valid_name (n : string) : bool :=
  negb (n =? "") && negb (has_substr2 n)
  && match n with String "."%char _ => false | _ => true end
  && match last_char n with Some "."%char => false | _ => true end
  && negb (existsb (fun c => Ascii.eqb c "$"%char) (list_ascii_of_string n)).

Inductive cop :=
| KRead (db c : string)                       (* find / count on a collection *)
| KInsert (db c : string) (id : Z)
| KDeleteAll (db c : string)
| KCreateCollection (db c : string)
| KCreateIndex (db c : string) (field : string)
| KDropIndex (db c : string) (name : string)
| KDropIndexes (db c : string)
| KRename (db c : string) (new_name : string) (drop_target : bool)
| KDropCollection (db c : string)
| KDropDatabase (db : string)
| KListCollections (db : string)
| KListDatabases
| KIndexInfo (db c : string).

(* outcomes: listings are compared as sets (sorted by the harness), so they are tagged "$set" *)
Definition names_value (l : list string) : value := VDoc [("$set", VArr (map VStr l))].

Definition with_coll (s : sstore) (db c : string) (f : cstore -> cstore) : sstore :=
  let d := touch_coll (get_db s db) c in
  put_db s db (put_coll d c (f (get_coll d c))).

(* one catalog operation issued through some client of the server *)
Definition kstep (s : sstore) (o : cop) : sstore * res value :=
  match o with
  | KRead db c =>
      let s' := with_coll s db c (fun x => x) in
      (s', Ok (VArr (map VInt (cs_docs (get_coll (get_db s' db) c)))))
  | KInsert db c id =>
      let cur := get_coll (get_db s db) c in
      if existsb (Z.eqb id) (cs_docs cur) then (with_coll s db c (fun x => x), Err EDup)
      else (with_coll s db c (fun x => mkCS (cs_docs x ++ [id]) (cs_idx x) true), Ok VNull)
  | KDeleteAll db c =>
      (with_coll s db c (fun x => mkCS [] (cs_idx x) (cs_forced x)), Ok VNull)
  | KCreateCollection db c =>
      if negb (valid_name c) then (s, Err ECrash) else
      let d := get_db s db in
      if mem_str c (List.filter (fun n => negb (is_system n)) (created_colls d)) then
        (put_db s db d, Err ECrash)                           (* CollectionInvalid *)
      else (with_coll s db c (fun x => mkCS (cs_docs x) (cs_idx x) true), Ok VNull)
  | KCreateIndex db c field =>
      let name := (field ++ "_1")%string in
      (with_coll s db c (fun x => mkCS (cs_docs x)
                                       (if mem_str name (cs_idx x) then cs_idx x else cs_idx x ++ [name])
                                       true), Ok (VStr name))      (* store.create_index marks it created *)
  | KDropIndex db c name =>
      let cur := get_coll (get_db s db) c in
      if mem_str name (cs_idx cur) then
        (with_coll s db c (fun x => mkCS (cs_docs x) (List.filter (fun n => negb (n =? name)) (cs_idx x))
                                         (cs_forced x)), Ok VNull)
      else (with_coll s db c (fun x => x), Err EOpFail)
  | KDropIndexes db c =>
      (with_coll s db c (fun x => mkCS (cs_docs x) [] (cs_forced x)), Ok VNull)
  | KRename db c new_name drop_target =>
      if negb (valid_name new_name) then (s, Err ECrash) else
      let d0 := touch_coll (get_db s db) c in                 (* self._store[name] *)
      if negb (cs_created (get_coll d0 c)) then (put_db s db d0, Err EOpFail) else
      if (c =? new_name)%string then (put_db s db d0, Err EOpFail) else   (* to itself: rejected *)
      let d1 := touch_coll d0 new_name in                     (* new_name in self._store *)
      if cs_created (get_coll d1 new_name) && negb drop_target then (put_db s db d1, Err EOpFail)
      else
        let d2 := if cs_created (get_coll d1 new_name) then put_coll d1 new_name cs_empty else d1 in
        (* DatabaseStore.rename: pop(name) and store it under new_name *)
        let moved := get_coll d2 c in
        let d3 := put_coll (del_key c d2) new_name moved in
        (put_db s db d3, Ok VNull)
  | KDropCollection db c =>
      (with_coll s db c (fun _ => cs_empty), Ok VNull)
  | KDropDatabase db =>
      (* drop_database(name): if name in self._store: drop every created collection *)
      let d := get_db s db in
      (put_db s db (map (fun kc => if cs_created (snd kc) then (fst kc, cs_empty) else kc) d), Ok VNull)
  | KListCollections db =>
      let d := get_db s db in
      (put_db s db d, Ok (names_value (List.filter (fun n => negb (is_system n)) (created_colls d))))
  | KListDatabases =>
      (s, Ok (names_value (map fst (List.filter (fun kd => db_created (snd kd)) s))))
  | KIndexInfo db c =>
      let s' := with_coll s db c (fun x => x) in
      let cur := get_coll (get_db s' db) c in
      (s', Ok (names_value (if cs_created cur then "_id_" :: cs_idx cur else [])))
  end.

(* several servers: clients sharing one server store address the same sstore, independent
   clients different ones *)
Definition world := list sstore.
Definition wstep (w : world) (server : nat) (o : cop) : world * res value :=
  match nth_error w server with
  | None => (w, Err ECrash)
  | Some s =>
      let '(s', r) := kstep s o in
      ((fix upd (w : world) (i : nat) : world :=
          match w, i with
          | _ :: w', O => s' :: w'
          | x :: w', S i' => x :: upd w' i'
          | [], _ => []
          end) w server, r)
  end.

Fixpoint wrun (w : world) (ops : list (nat * cop)) : list (res value) :=
  match ops with
  | [] => []
  | (sv, o) :: ops' => let '(w', r) := wstep w sv o in r :: wrun w' ops'
  end.

(* ------------------------------------------------------------------ the specification *)
(* the abstract catalog: a collection either exists, with its document ids and index names,
   or does not; a database exists iff one of its collections does *)
Definition acoll := (list Z * list string)%type.
Definition adb := list (string * acoll).
Definition acat := list (string * adb).

Definition a_get (a : acat) (db c : string) : option acoll :=
  match assoc db a with Some d => assoc c d | None => None end.
Definition a_put (a : acat) (db c : string) (x : acoll) : acat :=
  set_key db (set_key c x (match assoc db a with Some d => d | None => [] end)) a.
Definition a_del (a : acat) (db c : string) : acat :=
  match assoc db a with
  | Some d => set_key db (del_key c d) a
  | None => a
  end.

Definition spec_step (a : acat) (o : cop) : acat * res value :=
  match o with
  | KRead db c =>                                         (* reads never create *)
      (a, Ok (VArr (map VInt (match a_get a db c with Some x => fst x | None => [] end))))
  | KInsert db c id =>
      match a_get a db c with
      | Some (ids, ix) => if existsb (Z.eqb id) ids then (a, Err EDup)
                          else (a_put a db c (ids ++ [id], ix), Ok VNull)
      | None => (a_put a db c ([id], []), Ok VNull)        (* first insert creates *)
      end
  | KDeleteAll db c =>
      match a_get a db c with
      | Some (_, ix) => (a_put a db c ([], ix), Ok VNull)  (* emptied, still there *)
      | None => (a, Ok VNull)
      end
  | KCreateCollection db c =>
      if negb (valid_name c) then (a, Err ECrash) else
      match a_get a db c with
      | Some _ => if is_system c then (a, Ok VNull) else (a, Err ECrash)
      | None => (a_put a db c ([], []), Ok VNull)
      end
  | KCreateIndex db c field =>
      let name := (field ++ "_1")%string in
      match a_get a db c with
      | Some (ids, ix) => (a_put a db c (ids, if mem_str name ix then ix else ix ++ [name]), Ok (VStr name))
      | None => (a_put a db c ([], [name]), Ok (VStr name))  (* index creation creates *)
      end
  | KDropIndex db c name =>
      match a_get a db c with
      | Some (ids, ix) => if mem_str name ix
                          then (a_put a db c (ids, List.filter (fun n => negb (n =? name)) ix), Ok VNull)
                          else (a, Err EOpFail)
      | None => (a, Err EOpFail)
      end
  | KDropIndexes db c =>
      match a_get a db c with
      | Some (ids, _) => (a_put a db c (ids, []), Ok VNull)
      | None => (a, Ok VNull)
      end
  | KRename db c new_name drop_target =>
      if negb (valid_name new_name) then (a, Err ECrash) else
      match a_get a db c with
      | None => (a, Err EOpFail)                           (* source absent *)
      | Some x =>
          if (c =? new_name)%string then (a, Err EOpFail) else   (* a collection is not renamed to itself *)
          match a_get a db new_name with
          | Some _ => if drop_target then (a_put (a_del a db c) db new_name x, Ok VNull)
                      else (a, Err EOpFail)                (* target exists *)
          | None => (a_put (a_del a db c) db new_name x, Ok VNull)
          end
      end
  | KDropCollection db c => (a_del a db c, Ok VNull)
  | KDropDatabase db => (del_key db a, Ok VNull)
  | KListCollections db =>
      (a, Ok (names_value (List.filter (fun n => negb (is_system n))
                                       (match assoc db a with Some d => map fst d | None => [] end))))
  | KListDatabases =>
      (a, Ok (names_value (map fst (List.filter (fun kd => match snd kd with [] => false | _ => true end) a))))
  | KIndexInfo db c =>
      (a, Ok (names_value (match a_get a db c with Some (_, ix) => "_id_" :: ix | None => [] end)))
  end.

(* the abstraction: forget the never-created entries *)
Definition abs_db (d : dstore) : adb :=
  flat_map (fun kc => if cs_created (snd kc) then [(fst kc, (cs_docs (snd kc), cs_idx (snd kc)))] else []) d.
Definition abs_server (s : sstore) : acat :=
  flat_map (fun kd => match abs_db (snd kd) with [] => [] | d => [(fst kd, d)] end) s.

(* ------------------------------------------------------------------ harness glue *)
Definition aworld := list acat.
Fixpoint spec_run (w : aworld) (ops : list (nat * cop)) : list (res value) :=
  match ops with
  | [] => []
  | (sv, o) :: ops' =>
      match nth_error w sv with
      | None => Err ECrash :: spec_run w ops'
      | Some a =>
          let '(a', r) := spec_step a o in
          r :: spec_run ((fix upd (w : aworld) (i : nat) : aworld :=
                            match w, i with
                            | _ :: w', O => a' :: w'
                            | x :: w', S i' => x :: upd w' i'
                            | [], _ => []
                            end) w sv) ops'
      end
  end.

Record c17_case := mkC17 { g_servers : nat; g_ops : list (nat * cop); g_impl : list (res value) }.

Fixpoint remove_one_v (x : value) (l : list value) : option (list value) :=
  match l with
  | [] => None
  | y :: l' => if value_eqb x y then Some l'
               else match remove_one_v x l' with Some r => Some (y :: r) | None => None end
  end.
Fixpoint mset_eqb (a b : list value) : bool :=
  match a with
  | [] => match b with [] => true | _ => false end
  | x :: a' => match remove_one_v x b with Some b' => mset_eqb a' b' | None => false end
  end.
Definition out_eqb (m i : res value) : bool :=
  match m, i with
  | Ok (VDoc [("$set", VArr xs)]), Ok (VDoc [("$set", VArr ys)]) => mset_eqb xs ys
  | Ok a, Ok b => value_eqb a b
  | Err _, Err _ => true
  | _, _ => false
  end.

(* guard: none left.  (Bit 1 was F-COLL-VANISH-IDX - a collection that existed only through its
   indexes vanished from the listings when the last one was dropped - repaired in the library:
   store.create_index marks the collection created.) *)
Definition c17_reasons (ops : list (nat * cop)) : Z := 0%Z.

Definition c17_check (c : c17_case) : Z :=
  let m := wrun (repeat [] (g_servers c)) (g_ops c) in
  let sp := spec_run (repeat [] (g_servers c)) (g_ops c) in
  let r := c17_reasons (g_ops c) in
  ((if list_eqb out_eqb m (g_impl c) then 0 else 1)
   + (if list_eqb out_eqb sp (g_impl c) then 0 else 2)
   + (if Z.eqb r 0 then 0 else 4) + 256 * r)%Z.

Definition c17_explain (c : c17_case) :=
  (wrun (repeat [] (g_servers c)) (g_ops c), spec_run (repeat [] (g_servers c)) (g_ops c)).
