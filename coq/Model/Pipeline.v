(* Model of mongomock.aggregate.process_pipeline and its stage handlers.  Definitions only.
   Input: the documents find() returned (copies), the other collections of the database
   (for $lookup), the pipeline as a value.  Stages the model does not cover ($sample,
   $graphLookup, $bucket, $out - see Model/AggState.v for $out) answer Err EUnmodelled. *)
From Coq Require Import ZArith List String Bool Ascii.
From Verif Require Import Value PyEq BsonOrder Path Update Filter Coll Expr.
Import ListNotations.
Open Scope Z_scope.
Open Scope string_scope.
Open Scope list_scope.

Definition dbmap := list (string * list value).

Definition eres_to_res (r : eres) : res (option value) :=
  match r with EV v => Ok (Some v) | EMiss => Ok None | EE e => Err e end.

Fixpoint mapM {A B} (f : A -> res B) (l : list A) : res (list B) :=
  match l with
  | [] => Ok []
  | x :: l' => let! y := f x in let! r := mapM f l' in Ok (y :: r)
  end.

(* ------------------------------------------------------------ $match *)
Fixpoint match_docs (spec : value) (l : list value) : res (list value) :=
  match l with
  | [] => Ok []
  | d :: l' =>
      let! b := filter_applies spec (patch d) in
      let! r := match_docs spec l' in
      Ok (if b then d :: r else r)
  end.

(* ------------------------------------------------------------ $sort *)
Fixpoint agg_sort (spec : list (string * value)) (l : list value) : res (list value) :=
  match spec with
  | [] => Ok l
  | (k, dir) :: spec' =>
      let! l' := agg_sort spec' l in
      if starts_dollar k || negb (path_modelled (split_dots k)) then Err EUnmodelled else
      match num8 dir with
      | None => match l' with [] => Ok [] | _ => match dir with
                                                | VNull | VStr _ | VDoc _ | VArr _ => Err EType
                                                | _ => Err EUnmodelled end end
      | Some z =>
          let parts := split_dots k in
          py_sorted (fun a b => sort_lt (sort_key parts a) (sort_key parts b)) (z <?? 0) l'
      end
  end.

(* ------------------------------------------------------------ $skip / $limit: c[o:] / c[:o] *)
Definition slice_arg (o : value) : res (option Z) :=
  match o with
  | VInt z => Ok (Some z)
  | VBool b => Ok (Some (if b then 1 else 0))
  | VNull => Ok None
  | _ => Err EType
  end.

(* ------------------------------------------------------------ dotted access used by stages *)
(* helpers.set_value_by_dot(doc, key, value); None = KeyError *)
Definition split_last (parts : list string) : option (list string * string) :=
  match rev parts with
  | [] => None
  | last :: r => Some (rev r, last)
  end.

Fixpoint update_at (parts : list string) (f : value -> option value) (doc : value) {struct parts}
  : option value :=
  match parts with
  | [] => f doc
  | p :: rest =>
      match doc with
      | VDoc fs =>
          match assoc p fs with
          | Some v => match update_at rest f v with
                      | Some v' => Some (VDoc (set_key p v' fs))
                      | None => None
                      end
          | None => None
          end
      | VArr xs =>
          match as_index p with
          | Some i =>
              match nth_z xs i with
              | Some v => match update_at rest f v with
                          | Some v' => Some (VArr (set_nth (Z.to_nat i) v' xs))
                          | None => None
                          end
              | None => None
              end
          | None => None
          end
      | _ => None
      end
  end.

Definition set_by_dot (parts : list string) (v : value) (doc : value) : option value :=
  match split_last parts with
  | None => None
  | Some (parent, child) =>
      update_at parent (fun par =>
        match par with
        | VDoc fs => Some (VDoc (set_key child v fs))
        | VArr xs =>
            match as_index child with
            | Some i => if i <?? Z.of_nat (List.length xs)
                        then Some (VArr (set_nth (Z.to_nat i) v xs)) else None
            | None => None
            end
        | _ => None
        end) doc
  end.

(* ------------------------------------------------------------ $unwind *)
Definition unwind_doc (parts : list string) (preserve : bool) (idx_parts : option (list string))
           (doc : value) : res (list value) :=
  match get_by_dot parts doc with
  | None | Some VNull => Ok (if preserve then [doc] else [])
  | Some (VArr []) =>
      if negb preserve then Ok [] else
      match split_last parts with
      | Some (parent, child) =>
          match update_at parent (fun par => match par with
                                             | VDoc fs => Some (VDoc (del_key child fs))
                                             | _ => None end) doc with
          | Some d => Ok [d]
          | None => Err EUnmodelled
          end
      | None => Err EUnmodelled
      end
  | Some av =>
      let items := match av with
                   | VArr xs => combine (map (fun n => VInt (Z.of_nat n)) (seq 0 (List.length xs))) xs
                   | other => [(VNull, other)]
                   end in
      mapM (fun iv =>
              match set_by_dot parts (snd iv) doc with
              | None => Err EKey
              | Some d =>
                  match idx_parts with
                  | None => Ok d
                  | Some ip => match set_by_dot ip (fst iv) d with Some d' => Ok d' | None => Err EKey end
                  end
              end) items
  end.

Definition unwind (options : value) (l : list value) : res (list value) :=
  let opts := match options with VDoc fs => fs | _ => [("path", options)] end in
  match assoc "path" opts with
  | None => Err EKey
  | Some (VStr path) =>
      match path with
      | EmptyString => Err ECrash                                  (* path[0]: IndexError *)
      | String c rest =>
          if negb (Ascii.eqb c "$"%char) then Err EValue else
          let parts := split_dots rest in
          if negb (path_modelled parts) then Err EUnmodelled else
          let preserve := match assoc "preserveNullAndEmptyArrays" opts with
                          | Some v => truthy v | None => false end in
          match (match assoc "includeArrayIndex" opts with
                 | None => Ok None
                 | Some (VStr s) => if s =? "" then Ok None
                                    else if path_modelled (split_dots s) then Ok (Some (split_dots s))
                                    else Err EUnmodelled
                 | Some v => if truthy v then Err EUnmodelled else Ok None
                 end) with
          | Err e => Err e
          | Ok ip =>
              let! parts_l := mapM (unwind_doc parts preserve ip) l in
              Ok (List.concat parts_l)
          end
      end
  | Some _ => Err EValue
  end.

(* ------------------------------------------------------------ $group *)
(* values of an accumulator expression over the group, documents where it is missing skipped *)
Fixpoint acc_values (key : value) (group : list value) : res (list value) :=
  match group with
  | [] => Ok []
  | d :: g' =>
      match eval [] d true key with
      | EV v => let! r := acc_values key g' in Ok (v :: r)
      | EMiss => acc_values key g'
      | EE e => Err e
      end
  end.

(* one {operator: key} pair of an output field, applied on top of the field's current value *)
Definition accumulate_op (cur : option value) (op : string) (key : value) (group : list value)
  : res value :=
  let! values := acc_values key group in
  if (op =? "$sum") || (op =? "$avg") || (op =? "$min") || (op =? "$max") || (op =? "$first") || (op =? "$last")
  then group_fold op values
  else if op =? "$addToSet" then
    Ok (VArr (union_into [] values))
  else if op =? "$push" then
    match cur with
    | None => Ok (VArr values)
    | Some (VArr old) => Ok (VArr (old ++ values))
    | Some _ => Err ECrash
    end
  else if (op =? "$mergeObjects") then Err EUnmodelled
  else Err ENotImpl.

Fixpoint accumulate_field (cur : option value) (ops : list (string * value)) (group : list value)
  : res (option value) :=
  match ops with
  | [] => Ok cur
  | (op, key) :: ops' =>
      let! v := accumulate_op cur op key group in
      accumulate_field (Some v) ops' group
  end.

(* _accumulate_group(output_fields, group_list) *)
Fixpoint accumulate_group (fields : list (string * value)) (acc : list (string * value))
         (group : list value) : res (list (string * value)) :=
  match fields with
  | [] => Ok acc
  | (f, spec) :: fields' =>
      if f =? "_id" then accumulate_group fields' acc group else
      match spec with
      | VDoc ops =>
          let! r := accumulate_field (assoc f acc) ops group in
          accumulate_group fields' (match r with Some v => set_key f v acc | None => acc end) group
      | _ => Err ECrash                                            (* AttributeError *)
      end
  end.

(* itertools.groupby on the sorted list: consecutive documents with == keys *)
Fixpoint group_by (l : list (value * value)) (cur : option (value * list value))
  : list (value * list value) :=
  match l with
  | [] => match cur with Some (k, g) => [(k, rev g)] | None => [] end
  | (k, d) :: l' =>
      match cur with
      | Some (ck, g) => if py_eq ck k then group_by l' (Some (ck, d :: g))
                        else (ck, rev g) :: group_by l' (Some (k, [d]))
      | None => group_by l' (Some (k, [d]))
      end
  end.

Definition group_stage (options : value) (l : list value) : res (list value) :=
  match options with
  | VDoc fields =>
      match assoc "_id" fields with
      | None => Err EKey
      | Some idexpr =>
          let! groups :=
            if negb (is_null idexpr) then
              let! keyed := mapM (fun d => match eval [] d true idexpr with
                                           | EV v => Ok (v, d)
                                           | EMiss => Ok (VNull, d)
                                           | EE e => Err e
                                           end) l in
              let! sorted := py_sorted (fun a b => bson_lt (fst a) (fst b)) false keyed in
              Ok (group_by sorted None)
            else Ok (match l with [] => [] | _ => [(VNull, l)] end) in
          mapM (fun kg =>
                  let! fs := accumulate_group fields [] (snd kg) in
                  Ok (VDoc (set_key "_id" (fst kg) fs))) groups
      end
  | _ => Err EUnmodelled
  end.

(* ------------------------------------------------------------ $addFields / $set *)
(* the nested walk of _handle_add_fields_stage on out_doc: every sub-document on the way is
   copied (or replaced by {} when it is not a sub-document), the input document is not touched *)
Fixpoint nested_set (parts : list string) (v : value) (fs : list (string * value)) {struct parts}
  : list (string * value) :=
  match parts with
  | [] => fs
  | [p] => set_key p v fs
  | p :: rest =>
      let sub := match assoc p fs with Some (VDoc sfs) => sfs | _ => [] end in
      set_key p (VDoc (nested_set rest v sub)) fs
  end.

Definition add_field_pair (field : string) (e : value) (io : value * value) : res (value * value) :=
  let (ind, outd) := io in
  match outd with
  | VDoc ofs =>
      match eval [] ind true e with
      | EE er => Err er
      | EMiss => Ok io
      | EV v => Ok (ind, VDoc (nested_set (split_dots field) v ofs))
      end
  | _ => Err EUnmodelled
  end.

Fixpoint add_fields_go (fields : list (string * value)) (pairs : list (value * value))
  : res (list (value * value)) :=
  match fields with
  | [] => Ok pairs
  | (f, e) :: fields' =>
      let! pairs' := mapM (add_field_pair f e) pairs in
      add_fields_go fields' pairs'
  end.

Definition add_fields (options : value) (l : list value) : res (list value) :=
  match options with
  | VDoc [] => Err EOpFail
  | VDoc fields =>
      let! pairs := add_fields_go fields (map (fun d => (d, d)) l) in
      Ok (map snd pairs)
  | v => if truthy v then Err EUnmodelled else Err EOpFail
  end.

(* ------------------------------------------------------------ $replaceRoot *)
Definition replace_root (options : value) (l : list value) : res (list value) :=
  match options with
  | VDoc ofs =>
      match assoc "newRoot" ofs with
      | None => Err EOpFail
      | Some e =>
          mapM (fun d => match eval [] d true e with
                         | EV (VDoc fs) => Ok (VDoc fs)
                         | EV _ | EMiss => Err EOpFail
                         | EE er => Err er
                         end) l
      end
  | _ => Err EUnmodelled
  end.

(* ------------------------------------------------------------ $project *)
(* _combine_projection_spec: the nested dictionary of a list of dotted field names *)
Inductive ptree : Type :=
| PLeaf
| PNode (children : list (string * ptree)).

Definition split_first_dot (s : string) : string * option string :=
  match split_dots s with
  | [] => (s, None)
  | [x] => (x, None)
  | x :: rest => (x, Some (join_dots rest))
  end.

(* first pass: field -> 1 | list of subkeys, in first-occurrence order; Err = conflicting paths *)
Fixpoint combine_pass (keys : list string) (acc : list (string * option (list string)))
  : res (list (string * option (list string))) :=
  match keys with
  | [] => Ok acc
  | key :: keys' =>
      match split_first_dot key with
      | (field, None) =>
          match assoc field acc with
          | Some (Some _) => Err EOpFail
          | _ => combine_pass keys' (set_key field None acc)
          end
      | (field, Some sub) =>
          match assoc field acc with
          | Some None => Err EOpFail
          | Some (Some subs) => combine_pass keys' (set_key field (Some (subs ++ [sub])) acc)
          | None => combine_pass keys' (set_key field (Some [sub]) acc)
          end
      end
  end.

Fixpoint combine_tree (fuel : nat) (keys : list string) : res ptree :=
  match fuel with
  | O => Err EUnmodelled
  | S fuel' =>
      let! tbl := combine_pass keys [] in
      let! children := mapM (fun kv => match snd kv with
                                       | None => Ok (fst kv, PLeaf)
                                       | Some subs => let! t := combine_tree fuel' subs in Ok (fst kv, t)
                                       end) tbl in
      Ok (PNode children)
  end.

Fixpoint ptree_find (k : string) (cs : list (string * ptree)) : option ptree :=
  match cs with
  | [] => None
  | (k', t) :: cs' => if k' =? k then Some t else ptree_find k cs'
  end.

(* _project_by_spec(doc, proj_spec, is_include) *)
Fixpoint project_by_tree (cs : list (string * ptree)) (incl : bool) (v : value) {struct v} : value :=
  match v with
  | VDoc fs =>
      VDoc ((fix go (fs : list (string * value)) : list (string * value) :=
               match fs with
               | [] => []
               | (k, x) :: fs' =>
                   match ptree_find k cs with
                   | None => if incl then go fs' else (k, x) :: go fs'
                   | Some PLeaf => if incl then (k, x) :: go fs' else go fs'
                   | Some (PNode sub) =>
                       match x with
                       | VDoc _ => (k, project_by_tree sub incl x) :: go fs'
                       | VArr xs =>
                           (k, VArr ((fix goa (xs : list value) : list value :=
                                        match xs with
                                        | [] => []
                                        | y :: xs' => match y with
                                                      | VDoc _ => project_by_tree sub incl y :: goa xs'
                                                      | _ => goa xs'
                                                      end
                                        end) xs)) :: go fs'
                       | _ => if incl then go fs' else (k, x) :: go fs'
                       end
                   end
               end) fs)
  | other => other
  end.

(* value in (0, 1, True, False) *)
Definition is_flag (v : value) : bool := py_eq v (VInt 0) || py_eq v (VInt 1).

Record proj_state := mkPS {
  ps_method : option bool;            (* Some true = include, Some false = exclude *)
  ps_filter : list string;
  ps_new : option (list (list (string * value)))   (* new_fields_collection *)
}.

Fixpoint project_loop (fields : list (string * value)) (st : proj_state) (l : list value)
  : res proj_state :=
  match fields with
  | [] => Ok st
  | (field, v) :: fields' =>
      let tv := truthy v in
      let! m :=
        match ps_method st with
        | None => if negb (field =? "_id") || tv then Ok (Some tv) else Ok None
        | Some true => if negb tv && negb (field =? "_id") then Err EOpFail else Ok (Some true)
        | Some false => if tv && negb (field =? "_id") then Err EOpFail else Ok (Some false)
        end in
      if is_flag v then
        project_loop fields' (mkPS m (if field =? "_id" then ps_filter st else ps_filter st ++ [field])
                                   (ps_new st)) l
      else
        let cur := match ps_new st with
                   | Some (x :: r) => x :: r
                   | _ => map (fun _ => []) l           (* `if not new_fields_collection` *)
                   end in
        let! new' := mapM (fun dn => match eval [] (fst dn) true v with
                                     | EV x => Ok (set_key field x (snd dn))
                                     | EMiss => Ok (snd dn)
                                     | EE er => Err er
                                     end) (combine l cur) in
        project_loop fields' (mkPS m (ps_filter st) (Some new')) l
  end.

Definition spec_depth_keys (keys : list string) : nat :=
  S (fold_left Nat.max (map (fun k => List.length (split_dots k)) keys) O).

Definition project_stage (options : value) (l : list value) : res (list value) :=
  match options with
  | VDoc fields =>
      let! st := project_loop fields (mkPS None [] None) l in
      let include_id := match assoc "_id" fields with
                        | Some v => negb (py_eq v (VBool false))   (* is not False and != 0 *)
                        | None => true end in
      let incl := match ps_method st with Some true => true | _ => false end in
      let filter_list := if Bool.eqb incl include_id then ps_filter st ++ ["_id"] else ps_filter st in
      match filter_list with
      | [] => match ps_new st with
              | Some n => Ok (map VDoc n)
              | None => Err EUnmodelled                            (* CommandCursor(None) *)
              end
      | _ =>
          if negb (forallb (fun k => path_modelled (split_dots k)) filter_list) then Err EUnmodelled else
          let! tree := combine_tree (spec_depth_keys filter_list) filter_list in
          match tree with
          | PNode cs =>
              let outs := map (project_by_tree cs incl) l in
              match ps_new st with
              | Some (x :: r) =>
                  Ok (map (fun ab => match fst ab with
                                     | VDoc a => VDoc (fold_left (fun acc kv => set_key (fst kv) (snd kv) acc)
                                                                 (snd ab) a)
                                     | other => other
                                     end) (combine outs (x :: r)))
              | _ => Ok outs
              end
          | PLeaf => Err EUnmodelled
          end
      end
  | _ => Err EUnmodelled
  end.

(* ------------------------------------------------------------ $lookup *)
Definition lookup_stage (db : dbmap) (options : value) (l : list value) : res (list value) :=
  match options with
  | VDoc ofs =>
      if has_key "let" ofs || has_key "pipeline" ofs then Err ENotImpl else
      let str_of := fun k => match assoc k ofs with Some (VStr s) => Some s | _ => None end in
      (* the checks run in the order from, localField, foreignField, as *)
      let check := fun k (dollar : bool) =>
        match assoc k ofs with
        | None => Err EOpFail
        | Some (VStr s) => if dollar && starts_dollar s then Err EOpFail else Ok tt
        | Some _ => Err EOpFail
        end in
      let! _ := check "from" false in
      let! _ := check "localField" true in
      let! _ := check "foreignField" true in
      let! _ := check "as" true in
      match str_of "from", str_of "localField", str_of "foreignField", str_of "as" with
      | Some from, Some lf, Some ff, Some asn =>
          if existsb (fun p => p =? "") [asn] then Err EUnmodelled else
          if 1 <?? Z.of_nat (List.length (split_dots asn)) then Err ENotImpl else
          if negb (path_modelled (split_dots lf) && path_modelled (split_dots ff)) then Err EUnmodelled else
          let foreign := match assoc from db with Some ds => ds | None => [] end in
          mapM (fun d =>
                  match d with
                  | VDoc fs =>
                      let q := match get_by_dot (split_dots lf) d with Some v => v | None => VNull end in
                      let q' := match q with VArr _ => VDoc [("$in", q)] | _ => q end in
                      let! ms := match_docs (patch (VDoc [(ff, q')])) foreign in
                      Ok (VDoc (set_key asn (VArr ms) fs))
                  | _ => Err EUnmodelled
                  end) l
      | _, _, _, _ => Err EOpFail
      end
  | _ => Err EUnmodelled
  end.

(* ------------------------------------------------------------ $count *)
Definition count_stage (options : value) (l : list value) : res (list value) :=
  match options with
  | VStr s =>
      if s =? "" then Err EOpFail
      else if starts_dollar s then Err EOpFail
      else if 1 <?? Z.of_nat (List.length (split_dots s)) then Err EOpFail
      else match l with
           | [] => Ok []
           | _ => Ok [VDoc [(s, VInt (Z.of_nat (List.length l)))]]
           end
  | _ => Err EOpFail
  end.

Definition unimplemented_stage (k : string) : bool :=
  existsb (String.eqb k)
    ["$bucketAuto"; "$collStats"; "$currentOp"; "$geoNear"; "$indexStats"; "$listLocalSessions";
     "$listSessions"; "$merge"; "$planCacheStats"; "$redact"; "$replaceWith"; "$sortByCount"; "$unset"].

(* ------------------------------------------------------------ the pipeline *)
Fixpoint run_stage (db : dbmap) (op : string) (options : value) (l : list value) {struct options}
  : res (list value) :=
  if op =? "$match" then match_docs (patch options) l
  else if op =? "$sort" then
    match options with VDoc spec => agg_sort spec l | _ => Err EUnmodelled end
  else if op =? "$limit" then
    let! o := slice_arg options in
    match o with
    | Some z => if Z.leb z 0 then Err EOpFail else Ok (py_slice l None o)
    | None => Ok l
    end
  else if op =? "$skip" then
    let! o := slice_arg options in
    match o with
    | Some z => if z <?? 0 then Err EOpFail else Ok (py_slice l o None)
    | None => Ok l
    end
  else if op =? "$count" then count_stage options l
  else if op =? "$unwind" then unwind options l
  else if op =? "$group" then group_stage options l
  else if (op =? "$addFields") || (op =? "$set") then add_fields options l
  else if op =? "$replaceRoot" then replace_root options l
  else if op =? "$project" then project_stage options l
  else if op =? "$lookup" then lookup_stage db options l
  else if op =? "$facet" then
    match options with
    | VDoc subs =>
        let! outs :=
          (fix facets (subs : list (string * value)) : res (list (string * value)) :=
             match subs with
             | [] => Ok []
             | (title, p) :: subs' =>
                 match p with
                 | VArr stages =>
                     let! out :=
                       (fix stages_go (stages : list value) (cur : list value) : res (list value) :=
                          match stages with
                          | [] => Ok cur
                          | VDoc sfs :: stages' =>
                              let! cur' :=
                                (fix ops_go (sfs : list (string * value)) (cur : list value)
                                   : res (list value) :=
                                   match sfs with
                                   | [] => Ok cur
                                   | (sop, sopt) :: sfs' =>
                                       let! c1 := run_stage db sop sopt cur in ops_go sfs' c1
                                   end) sfs cur in
                              stages_go stages' cur'
                          | _ :: _ => Err ECrash                       (* stage.items() *)
                          end) stages l in
                     let! rest := facets subs' in
                     Ok ((title, VArr out) :: rest)
                 | _ => Err EUnmodelled
                 end
             end) subs in
        (* a dict: a repeated title keeps its first position and its last value *)
        Ok [VDoc (fold_left (fun acc kv => set_key (fst kv) (snd kv) acc) outs [])]
    | _ => Err EUnmodelled
    end
  else if (op =? "$sample") || (op =? "$graphLookup") || (op =? "$bucket") || (op =? "$out") then Err EUnmodelled
  else Err ENotImpl.

Fixpoint run_ops (db : dbmap) (sfs : list (string * value)) (cur : list value) : res (list value) :=
  match sfs with
  | [] => Ok cur
  | (op, options) :: sfs' => let! c1 := run_stage db op options cur in run_ops db sfs' c1
  end.

Fixpoint run_pipeline (db : dbmap) (stages : list value) (cur : list value) : res (list value) :=
  match stages with
  | [] => Ok cur
  | VDoc sfs :: stages' => let! c1 := run_ops db sfs cur in run_pipeline db stages' c1
  | _ :: _ => Err ECrash
  end.

(* Collection.aggregate(pipeline) on the documents find() returns *)
Definition aggregate (db : dbmap) (docs : list value) (pipeline : value) : res (list value) :=
  match pipeline with
  | VArr stages => run_pipeline db stages docs
  | _ => Err EUnmodelled
  end.
