(* Ownership model for C07 (no aliasing in, out, or inside).  Definitions only.
   Every Python container object (dict, list) has an identity; a ROOT - a stored document,
   an argument object handed in by the caller, an object handed back - owns the set of the
   identities reachable from it.  What each operation stores and returns is computed by the
   value-level model (Model/Coll.v, Model/Pipeline.v); this layer adds where the OBJECTS come
   from: freshly allocated, or taken over from another root.  Whether a code path copies is
   read off the source by translate/copysites.py into Gen/CopySites.v (cp_* booleans); with
   every flag true all stored and returned structure is fresh. *)
From Coq Require Import ZArith List String Bool Ascii.
From Verif Require Import Value PyEq BsonOrder Path Update Filter Coll Expr Pipeline.
From Verif.Gen Require Import CopySites.
Import ListNotations.
Open Scope Z_scope.
Open Scope list_scope.

Definition ids := list Z.

(* which code paths allocate fresh structure *)
Record cpflags := mkFlags {
  f_insert : bool; f_update_operands : bool; f_update_doc : bool; f_replace : bool;
  f_read : bool; f_proj_ops : bool; f_proj_id : bool; f_aggregate : bool; f_lookup : bool
}.
(* as read off the current source by translate/copysites_tr.py *)
Definition here : cpflags :=
  mkFlags cp_insert cp_update_operands cp_update_doc cp_replace cp_read cp_proj_ops cp_proj_id
          cp_aggregate cp_lookup.
Definition all_copy (f : cpflags) : bool :=
  f_insert f && f_update_operands f && f_update_doc f && f_replace f && f_read f && f_proj_ops f
  && f_proj_id f && f_aggregate f && f_lookup f.

Definition meets (a b : ids) : bool := existsb (fun x => existsb (Z.eqb x) b) a.

Record hstate := mkH {
  h_coll : coll;                       (* the value-level state *)
  h_own : list (value * ids);          (* store key -> identities owned by the stored document *)
  h_next : Z                           (* allocator: fresh identities are >= h_next > 0 *)
}.

Definition h_init : hstate := mkH empty_coll [] 1.

Inductive hop :=
| HColl (o : op)                                   (* an operation of the collection model *)
| HAggregate (pipeline : value).                   (* aggregate(pipeline), no $out *)

(* which kind of flow an operation is *)
Definition is_insert (o : op) : bool := match o with OInsertOne _ | OInsertMany _ _ => true | _ => false end.
Definition is_update (o : op) : bool :=
  match o with OUpdate _ _ _ _ | OFindAndModify _ _ _ (FamUpdate _ _ _) | OBulk _ _ => true | _ => false end.
Definition is_replace (o : op) : bool :=
  match o with OReplace _ _ _ | OFindAndModify _ _ _ (FamReplace _ _ _) => true | _ => false end.
Definition returns_docs (o : op) : bool :=
  match o with OFind _ _ _ _ _ | ODistinct _ _ | OFindAndModify _ _ _ _ => true | _ => false end.
Definition uses_projection (o : op) : bool :=
  match o with
  | OFind _ (Some _) _ _ _ | OFindAndModify _ (Some _) _ _ => true
  | _ => false
  end.

Fixpoint own_get (k : value) (l : list (value * ids)) : option ids :=
  match l with
  | [] => None
  | (k', s) :: l' => if py_eq k' k then Some s else own_get k l'
  end.

(* the identities a new or rewritten stored document is made of *)
Definition written_ids (fl : cpflags) (o : op) (fresh : Z) (old : option ids) (args : ids) : ids :=
  [fresh]
  ++ (if is_insert o && negb (f_insert fl) then args else [])
  ++ (if is_update o && negb (f_update_operands fl) then args else [])
  ++ (if is_replace o && negb (f_replace fl) then args else [])
  ++ (if (is_update o || is_replace o) && negb (f_update_doc fl)
      then match old with Some s => s | None => [] end else []).

(* the new ownership table: documents whose value did not change keep their objects *)
Fixpoint restore (fl : cpflags) (o : op) (old_docs : list (value * value)) (old_own : list (value * ids))
         (new_docs : list (value * value)) (args : ids) (next : Z) : list (value * ids) * Z :=
  match new_docs with
  | [] => ([], next)
  | (k, d) :: rest =>
      let unchanged := match store_get k old_docs with
                       | Some d0 => value_eqb d0 d
                       | None => false end in
      match (if unchanged then own_get k old_own else None) with
      | Some s => let (r, n) := restore fl o old_docs old_own rest args next in ((k, s) :: r, n)
      | None =>
          let s := written_ids fl o next (own_get k old_own) args in
          let (r, n) := restore fl o old_docs old_own rest args (next + 1) in ((k, s) :: r, n)
      end
  end.

Definition all_owned (own : list (value * ids)) : ids := flat_map snd own.

(* the identities of what is handed back *)
Definition result_ids (fl : cpflags) (o : op) (fresh : Z) (own : list (value * ids)) : ids :=
  [fresh]
  ++ (if returns_docs o && negb (f_read fl) then all_owned own else [])
  ++ (if uses_projection o && negb (f_proj_ops fl && f_proj_id fl) then all_owned own else []).

Record hout := mkOut {
  ho_state : hstate;
  ho_result : res value;
  ho_result_ids : ids
}.

Definition hstep (fl : cpflags) (pre5 : bool) (s : hstate) (h : hop) (args : ids) : hout :=
  match h with
  | HColl o =>
      let '(c', r) := step pre5 (h_coll s) o in
      let '(own', n1) := restore fl o (docs (h_coll s)) (h_own s) (docs c') args (h_next s) in
      mkOut (mkH c' own' (n1 + 1)) r (result_ids fl o n1 own')
  | HAggregate p =>
      let c := h_coll s in
      (* aggregate reads the collection through find() and works on what find hands out *)
      let r := aggregate [("c"%string, map snd (docs c))] (map snd (docs c)) p in
      mkOut (mkH c (h_own s) (h_next s + 1)) (match r with Ok l => Ok (VArr l) | Err e => Err e end)
            ([h_next s] ++ (if negb (f_aggregate fl && f_read fl && f_lookup fl) then all_owned (h_own s) else []))
  end.

(* ---------------------------------------------------------------- the invariant *)
Fixpoint pairwise_apart (l : list ids) : bool :=
  match l with
  | [] => true
  | s :: l' => forallb (fun t => negb (meets s t)) l' && pairwise_apart l'
  end.

(* after a step: stored documents share nothing with one another, with the caller's argument
   objects, or with what was handed back *)
Definition apart_after (own : list (value * ids)) (args result : ids) : bool :=
  pairwise_apart (map snd own)
  && forallb (fun s => negb (meets s args) && negb (meets s result)) (map snd own).
