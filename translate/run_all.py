#!/venv/bin/python
"""Regenerate coq/Gen/*.v from /repo's current source.  Fail-closed: any shape the
translators do not recognise exits non-zero (a broken tie, DESIGN.md 3.4)."""
import os
import sys
sys.path.insert(0, os.path.dirname(os.path.abspath(__file__)))
REPO = os.environ.get('VERIF_REPO', '/repo')
GEN = os.path.join(os.path.dirname(os.path.dirname(os.path.abspath(__file__))), 'coq', 'Gen')


def write_if_changed(path, text):
    if os.path.exists(path) and open(path).read() == text:
        return
    with open(path, 'w') as f:
        f.write(text)


def main():
    import tables_tr
    write_if_changed(os.path.join(GEN, 'TypeRank.v'), tables_tr.type_rank(REPO))
    for name in ('thread_tr', 'store_tr', 'arith_tr', 'vocab_tr', 'copysites_tr'):
        try:
            mod = __import__(name)
        except ImportError:
            continue
        for fn, text in mod.generate(REPO).items():
            write_if_changed(os.path.join(GEN, fn), text)


if __name__ == '__main__':
    main()
